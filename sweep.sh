#!/bin/bash
# sweep.sh [tier] [seed...] — runs every registered check sequentially at the
# given seeds (default: quick, seed 1) and prints one line per run. Evidence
# files are rewritten by the checks themselves (last seed wins).
cd "$(dirname "$0")"
TIER="${1:-quick}"; shift
SEEDS="${*:-1}"
LOG=".work/sweep-$TIER.log"; mkdir -p .work; : > "$LOG"
for seed in $SEEDS; do
  for id in C01 C02 C03 C04 C05 C06 C07 C08 C09 C10 C11 C12 C13 C14 C15 C16 C17 C18 C19 C20; do
    s=$(date +%s)
    VERIF_SEED=$seed ./check $id $TIER > ".work/sweep-$id-$TIER-$seed.log" 2>&1; rc=$?
    echo "seed=$seed $id rc=$rc $(( $(date +%s)-s ))s violations=$(grep -c '^VIOLATION' .work/sweep-$id-$TIER-$seed.log) known=$(grep -c '^KNOWN-FINDING' .work/sweep-$id-$TIER-$seed.log) $(grep -m1 'INCONCLUSIVE' .work/sweep-$id-$TIER-$seed.log | cut -c1-100)" | tee -a "$LOG"
  done
done
echo END | tee -a "$LOG"
