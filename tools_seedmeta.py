#!/usr/bin/env python3
"""Writes seeded/<name>/meta.json from the table below plus each seed's
confirm.log, and prints the DESIGN.md table of which checks catch which change."""
import json,os,re,glob
N={
 'C01-b':("chain/db.go revertState writes the parent's index instead of deleting the reverted height","a reorg that ends on a chain shorter than something applied before (failed reorg whose valid prefix climbed above the old tip height, or heavier-but-shorter chain); BestIndex above the tip then returns abandoned blocks"),
 'C02-a':("chain/db.go revertElements re-queues a contract whose window-changing revision is reverted at the END of its old expiration list instead of the front","two or more v1 contracts sharing a WindowEnd, the revised one not last, a block revising it with a changed WindowEnd, and a reorg reverting that block"),
 'C02-b':("chain/db.go revertElements drops the created-and-spent guard for siacoin diffs: ephemeral outputs of a reverted block are written into the element bucket","a block containing a parent and a child transaction (ephemeral output) that is later reverted"),
 'C03-a':("chain/manager.go applyTip stores state and block+supplement only AFTER store.ApplyBlock","a commit firing inside ApplyBlock of a first-time-validated block and a stop before the next commit"),
 'C03-b':("chain/db.go revertState no longer deletes the best-chain index of the reverted height","a commit inside a multi-block revert (or a reorg to a lower chain) and a reopen"),
 'C04-a':("chain/manager.go UpdatesSince applies the max bound to reverts and applies separately","a subscriber on a reorged-out branch, chunk size larger than the revert depth, more applies left than max minus reverts"),
 'C04-b':("chain/db.go revertState keeps stale height->id entries (cooperating with UpdatesSince's onBestChain)","a reorg onto a heavier but SHORTER chain with a subscriber parked above the new tip height (or any observation while the chain is temporarily lower)"),
 'C05-a':("chain/manager.go V2PoolTransactions returns a shallow clone sharing proof memory with the pool","the caller keeps using the returned transactions (a mined block) after the manager applied another block that rewrites the shared proofs"),
 'C05-b':("chain/manager.go revalidatePool records the index in the unfiltered slice","at least two pooled transactions, a block/reorg/eviction removing an earlier one but keeping a later one, then a lookup by id"),
 'C06-a':("wallet/update.go revertChainUpdate skips the proof update when the reverted block did not touch the wallet","a reorg reverting a block with no wallet output while the wallet holds an output whose proof covers leaves of that block"),
 'C06-b':("wallet/update.go appliedEvents uses else-if for the renter payout","a v2 contract whose renter AND host payout both go to the wallet address, resolved on the best chain"),
 'C07-a':("wallet/wallet.go Redistribute returns early on the partial-success path, skipping lockUTXOs","a Redistribute needing more than one batch that can fund only the first, followed by another funding call before broadcast"),
 'C07-b':("wallet/wallet.go selectUTXOs no longer removes v2-pool-spent unconfirmed outputs from the candidates","a pooled chain txn1->txn2 spending the wallet's unconfirmed output, the in-memory reservation gone (restart / expiry / release), then FundV2Transaction(useUnconfirmed=true)"),
 'C08-a':("rhp/v4/server.go handleRPCFundAccounts sums deposits with AddWithOverflow and checks the flag only after the loop","a hand-crafted fund request of >=3 deposits summing past 2^128-1 with the overflow not on the last deposit, renter signature over the wrapped-total revision"),
 'C08-b':("rhp/v4/server.go lockContractForRevision gate !Revisable replaced by Renewed","a never-renewed contract that lives to tip >= ProofHeight, then an ordinary correctly signed revising RPC"),
 'C09-a':("rhp/v4/server.go handleRPCFreeSectors works on the lent roots slice again (no copy)","a valid free with an index outside the trimmed tail, aborted after the host's first response (stream dropped / no or bad renter signature)"),
 'C09-b':("rhp/v4/server.go handleRPCSectorRoots passes only the listed window to ReviseV2Contract","a successful listing of a strict sub-range, then anything that looks at the host's roots"),
 'C10-a':("rhp/v4/rpc.go total-cost bound dropped from RPCReplenishAccounts/Pools","a host returning MORE deposits than accounts requested, each <= target, sum above target x accounts, countersigned with its real key"),
 'C10-b':("rhp/v4/rpc.go RPCReadSector derives the proof range end from the host's DataLength","a host answering with data + a valid range proof for a different range starting at the same offset and a matching DataLength"),
 'C12-a':("chain/manager.go History stops when the exponential spacing runs past genesis instead of clamping to genesis (cooperating with the syncer's no-common-history handling)","a deep fork whose fork height lies below the deepest sampled history entry: both nodes stay on their own branch forever"),
 'C12-b':("syncer/parallel_sync.go workFn selects the checkpoint path from AllowHeight instead of RequireHeight","a valid v1 block in the allow..require window that lands on a chunk base (ancestor height + k*100)"),
 'C13-a':("chain/manager.go updateV2TransactionProofs builds the created-elements map only when the block confirms a member of the set","a set whose ephemeral input's parent is NOT in the set and is confirmed by a block on the path that confirms no member of the set"),
 'C13-b':("chain/manager.go updateTxnProofs bound check <= instead of <","a path reverting at least one block and a transaction spending exactly the first element that reverted block created: panic instead of an error"),
 'C14-a':("chain/manager.go AddV2PoolTransactions rollback truncates by the position in the submitted set","one v2 submission that starts with already pooled transactions and later contains a new transaction conflicting with the pool"),
 'C14-b':("chain/manager.go fast path from==to in updateV2TransactionProofs plus dropped DeepCopy in V2TransactionSet (two cooperating sites)","V2TransactionSet(tip, child of a pooled parent) with basis exactly the tip, then a write to the returned parent"),
 'C15-a':("testutil/host.go CreditAccountsWithContract computes all new balances from the pre-call balances","one RPCFundAccounts request listing the same account twice"),
 'C15-b':("rhp/v4/server.go handleRPCWriteSector debits before the sector body has been read","the renter's stream breaks after the write request header but before all DataLength bytes arrived"),
 'C16-a':("rhp/v4/server.go renew handler: the state-element lookup moved between FundV2Transaction and the deferred release","renewing a contract whose formation is not mined yet (host can lock it, has no state element)"),
 'C16-b':("rhp/v4/server.go form handler calls AddV2Contract before AddV2PoolTransactions","a renter second message with a valid contract signature but input signatures the pool rejects"),
 'C17-a':("chain/db.go CacheDB.Flush keeps the delete scratch list: a later flush re-puts deleted keys with nil values","a flushed key, Delete+Flush, any further Flush, then Get/Iter of that key"),
 'C17-b':("chain/db.go MemDB.Cancel merged into one loop over puts","a bucket flushed before, a session that only deletes in it, Cancel, then a read"),
 'C18-a':("syncer/syncer.go runPeer: the per-peer slot is not returned on the subnet-over-budget drop path","one connection accumulating MaxInflightRPCs RPCs dropped by the per-subnet cap; afterwards its peer loop blocks forever"),
 'C18-b':("rhp/v4/server.go handleHostStream sets the stream deadline only after the RPC id was read","a renter that opens a stream, sends 1..15 bytes of the id and stalls; Server.Close during the stall never returns"),
 'C18-c':("threadgroup Stop returns early when already stopped","two overlapping Stop/Close calls while a thread of the group is still running"),
 'C01-c':("chain/manager.go AddBlocks reorgs when TotalWork is merely larger instead of SufficientlyHeavierThan","a network with per-block difficulty >= 5 (non-zero margin) and two forks whose work differs by less than a fifth of the tip difficulty, the node sitting on the marginally lighter one"),
 'C01-d':("chain/manager.go AddValidatedV2Blocks loses the rollback of a reorg that fails part-way","a fork whose lower part was stored header-checked only through AddBlocks and contains an invalid block, its upper part submitted pre-validated and making the fork the heaviest"),
 'C02-c':("chain/db.go MemDB.get treats an empty pending value as no pending value","an expiration list that becomes empty and is read again within one flush window (one reorg / multi-block batch) after it had been committed non-empty"),
 'C02-d':("chain/db.go revertElements writes back the revised contract instead of the pre-revision one when a v1 revision is reverted","a reorg reverting a block with a v1 contract revision while the contract stays unresolved on the new chain, then a lookup of the contract"),
 'C03-c':("chain/db.go RevertBlock commits the rolled-back tip pointer before the element store is rolled back","a size/time commit firing inside RevertBlock below the v2 require height and a stop before the next commit"),
 'C03-d':("chain/db.go CacheDB.Flush commits its puts and only then hands over the deletes","a store on a CacheDB, a commit containing deletes, and a stop between the two halves"),
 'C04-c':("chain/manager.go OnReorg keys listeners by len(map): a registration after an unsubscribe replaces a live listener","register L1,L2; cancel L1; register L3 (overwrites L2)"),
 'C04-d':("chain/manager.go AddBlocks notifies reorg listeners for every successful call, also when the tip did not move","a stored side-chain block that is not heavy enough, or a resubmission of known blocks"),
 'C05-c':("chain/manager.go applyTip passes the pre-block state to applyPoolUpdate: children of a just-confirmed parent are dropped as referencing unknown leaves","a pooled parent/child (ephemeral output) pair and a block confirming the parent without the child"),
 'C05-d':("chain/manager.go a rejected v2 set leaves an empty midstate behind instead of nil","a v2 submission conflicting with the pool (correctly rejected), then another submission double-spending a pooled transaction before the next block"),
 'C06-c':("wallet/update.go an output created and spent in the same block is kept in the wallet's stored outputs","a block confirming a dependent parent/child pair where the intermediate output pays the wallet"),
 'C06-d':("wallet/update.go the Foundation subsidy event is attributed by the post-block subsidy address","a subsidy block that also contains a Foundation address update, the wallet being the old or the new address"),
 'C07-c':("wallet/wallet.go FundV2Transaction drops the wallet mutex between selecting and reserving inputs","two concurrent FundV2Transaction calls"),
 'C07-d':("wallet/update.go applyChainUpdate no longer skips outputs created and spent in the same block","the wallet's own parent and child (spending the parent's change) confirmed in one block"),
 'C08-c':("rhp/v4/server.go handleRPCRenewContract persists the renewal before the pool validated the renewal set","a renewal whose renter inputs pass the host's own checks but fail consensus validation in the pool (bad input signature, double-spent input)"),
 'C08-d':("testutil/host.go LockV2Contract deferred cleanup-on-error also runs for 'already locked' and deletes the lock of the RPC in flight","RPC A holds the contract lock, contender B is refused, contender C then gets the lock while A is still running"),
 'C09-c':("testutil/host.go ReviseV2Contract keeps the old roots when the new root list is empty","frees covering every sector of the contract, then anything that reads the host's roots"),
 'C09-d':("rhp/v4/rpc.go RPCFreeSectors index normalisation moved into a helper that loses the compacted length","an index list with a repeated value"),
 'C10-c':("rhp/v4/rpc.go RPCFreeSectors compacts before sorting: non-adjacent duplicates survive into the request","a caller list with a non-adjacent duplicate and a host that executes duplicate indices verbatim and countersigns"),
 'C10-d':("rhp/v4/rpc.go RPCSectorRoots validates only the price table, not the requested range","an empty contract, a request for >0 roots, and a host answering with made-up roots, an empty proof and its real signature"),
 'C11-a':("syncer/peer.go SendCheckpoint replaces the commitment check binding the peer-supplied state to the block by consensus.ValidateOrphan","a checkpoint answer whose state has the right index and difficulty but a forged accumulator"),
 'C11-b':("syncer/parallel_sync.go fetchBlocks compares a continuation answer with the whole request size instead of the outstanding remainder","a short first SendV2Blocks answer followed by an over-long continuation (index out of range in a worker goroutine)"),
 'C11-c':("syncer/syncer.go ban returns early when the peer's connection already ended","a peer that delivers provably bad data and hangs up before the verdict"),
 'C11-d':("chain/manager.go AddBlocks no longer picks up the state of already-known blocks: a batch ending in known blocks never triggers a reorg","a failed-and-rolled-back reorg that left validated blocks A1..Ak stored, then an honest peer offering exactly A1..Ak"),
 'C11-e':("syncer/peer.go RelayV2BlockOutline handler forwards the outline before AddBlocks validated it","a mined outline that passes all pre-checks but fails ValidateBlock, with an honest peer connected: the honest peer bans the victim"),
 'C13-c':("chain/manager.go V2TransactionSet no longer revalidates the pool first","the first pool-related call after a tip change that confirmed (or invalidated) a pooled parent is V2TransactionSet for its child"),
 'C13-d':("chain/manager.go updateV2TransactionProofs caches the transaction ids once while the set is filtered in place","two members of the set confirmed by different blocks of the path"),
 'C14-c':("chain/manager.go revalidatePool records v2 indices by loop position although earlier entries were dropped","two pooled v2 transactions, the earlier one dropped by a block, then a lookup of the later one"),
 'C14-d':("chain/manager.go checkTxnSet: 'known' decided by the last transaction of the set only","a partly known set whose final transaction is already pooled"),
 'C15-c':("testutil/host.go DetachPools removes by swap-with-last, changing the drain order of the remaining pools","an account with >=3 pools, detach of a non-last pool, then a paid RPC drawing on the pools"),
 'C15-d':("rhp/v4/server.go attach and detach share one signature check that also accepts the account key","a hand-built RPCAttachPools request signed by the account key instead of the pool key"),
 'C16-c':("rhp/v4/rpc.go form/renew/refresh clients keep their reserved inputs when the host's final response fails with a transport error","the connection dies after the renter sent its signatures and before the host's third response"),
 'C16-d':("rhp/v4/server.go handleRPCRefreshContract does not re-attach the host inputs on the renter-basis translation error path","a refresh needing host funds with a renter basis the host cannot translate (unknown fork block)"),
 'C17-c':("chain/db.go cacheBucket.Delete drops a pending put without recording a tombstone","Put+Flush, then Put and Delete of the same key in one session"),
 'C17-d':("chain/db.go memBucket.Iter yields the flushed value of a key that has a pending overwrite","Put+Flush, Put (unflushed), Iter"),
 'C18-d':("syncer/syncer.go addPeer recount compares in > MaxInboundPeers instead of >=","more than MaxInboundPeers inbound handshakes in flight at once"),
 'C18-e':("wallet/wallet.go rebroadcast goroutine: defer stop(); defer cancel() (thread-group slot released before the reorg subscription is removed)","Close while the manager's unsubscribe cannot finish immediately (busy manager)"),
 'C20-c':("wallet/seed.go decodeBIP39Phrase tests wordMap[word]==0 instead of presence: 'abandon' (index 0) is rejected","a phrase containing the first list word"),
 'C20-d':("wallet/seed.go KeyFromSeed writes the index as uint32","a key index >= 2^32"),
 'C12-c':("syncer/syncer.go syncLoop marks the peer synced after one parallelSync round, ignoring SendHeaders' remaining count","a gap between common ancestor and peer tip larger than one header batch"),
 'C12-d':("chain/db.go RevertBlock element revert condition off by one at the v2 require height","a branch whose block at exactly RequireHeight spends a pre-fork output, and a heavier branch forking below that spends the same output in a v1 transaction"),
 'C19-c':("chain/db.go AncestorTimestamp looks the ancestor up through Block (false once pruned) instead of the stored header","tip at or below the Oak hardfork height, the ancestor's body pruned, then a new block"),
 'C19-d':("chain/manager.go AddBlocks: break instead of continue on a pruned block in the batch","PruneBlocks mid-chain, then a heavier fork submitted in one batch that starts with known (pruned) blocks"),
 'C03-e':("chain/manager.go AddBlocks no longer picks up the state of already-known validated blocks (same site as C11-d, seen from C03)","a commit after an individual revert of a failed reorg, a stop, and a re-submission whose final blocks are the known validated ones"),
 'C03-f':("chain/db.go dbBucket.putRaw flushes whenever shouldFlush fires: a commit can complete in the middle of one block's writes","the 5 s / 100 MB threshold crossed while a block's writes are in progress and a stop before the next commit"),
 'C04-e':("chain/manager.go applyTip persists the supplement (AddBlock) only after store.ApplyBlock","a first-time-validated block, the periodic commit firing inside ApplyBlock, a crash before the next commit: UpdatesSince fails with a missing supplement for ever"),
 'C04-f':("chain/manager.go AddValidatedV2Blocks notifies only the pool listeners","a tip change through the pre-validated path"),
 'C05-e':("chain/manager.go AddV2PoolTransactions charges the weight of already pooled members of a set again","repeated {pooled parent, new child} submissions whose re-charged weight reaches ten block weights between two blocks: the whole pool is evicted"),
 'C05-f':("chain/manager.go revalidatePool prepends the reverted transactions (slice aliasing with reorgTo's scratch list)","three reorgs: fee-paying tip reverted, empty tip reverted, fee-paying tip reverted"),
 'C06-e':("wallet/update.go appliedEvents: break instead of continue on a contract diff that is not a resolution","a block in which a contract formation/revision precedes the resolution of another contract paying the wallet"),
 'C06-f':("wallet/update.go zero-valued outputs paying the wallet are skipped on apply and revert","a zero-valued payout created by consensus (missed host payout 0, empty siafund claim)"),
 'C07-e':("wallet/wallet.go SplitUTXO reserves its input before V2TransactionSet and never rolls back on the error paths","a SplitUTXO that passes the cheap checks and is refused by the pool / V2TransactionSet / syncer"),
 'C07-f':("wallet/wallet.go broadcast sets are re-loaded at start-up with the tip as basis instead of the stored basis","a broadcast set still unconfirmed, a restart with an empty pool after at least one further block"),
 'C09-e':("rhp/v4/server.go handleRPCAppendSectors passes state.Roots plus ALL requested roots to ReviseV2Contract instead of the accepted ones","an append batch mixing stored and unknown roots"),
 'C13-e':("chain/manager.go V2TransactionSet expands only the direct parents (range over a slice that grows)","a transaction whose unconfirmed pooled ancestry is at least 3 levels deep"),
 'C13-f':("chain/manager.go updateTxnProofs updates a loop copy of the file contract resolutions","a set containing a contract resolution rebased over a path that changes that element's proof"),
 'C14-e':("chain/manager.go AddPoolTransactions rollback no longer resets the pool midstate","a v1 set [A,B] with A fresh and B conflicting with the pool (rejected), then [A] alone: refused as double-spending itself"),
 'C14-f':("chain/manager.go PoolTransaction guard i > len instead of >=","PoolTransaction with the id of a pooled v2 transaction whose position equals the number of pooled v1 transactions"),
 'C15-e':("testutil/host.go AttachPools duplicate check with key and element swapped: re-attaching a link appends a second copy","the same attachment sent twice, then a paid RPC with pool < cost <= 2 x pool"),
 'C15-f':("rhp/v4/server.go handleRPCReplenishPools unlocks before the renter's signature + testutil CreditPoolsWithContract accepts an equal revision number (two cooperating sites)","a fund-accounts RPC run to completion while a pool replenish on the same contract is paused after its cost response"),
 'C17-e':("chain/db.go MemDB.Flush adopts the pending map as the flushed map on a bucket's first flush without detaching it","CreateBucket, first Flush, Put/Delete, Cancel, read"),
 'C17-f':("chain/db.go CacheDB.Flush returns early when the cache holds no pending puts or deletes","through a CacheDB: CreateBucket only, Flush, Cancel"),
 'C19-e':("chain/manager.go AddBlocks returns ErrMissingBlock from reorgTo without rolling back","PruneBlocks(P) mid-chain, then a heavier fork whose fork point is below the min reorg index"),
 'C19-f':("chain/manager.go PruneBlocks loses the min(height, tip+1) clamp","a prune height greater than tip+1"),
 'C20-e':("wallet/seed.go decodeBIP39Phrase rejects phrases shorter than 59 characters","a valid phrase made of 3- and 4-letter words (47..58 characters)"),
 'C20-f':("wallet/seed.go KeyFromSeed streams into a shared package-level hasher without a lock","two goroutines deriving keys at the same time"),
 'C01-e':("chain/db.go AncestorTimestamp returns the zero time one block too early (Height+1 >= Oak.Height)","a network whose Oak hardfork height is a non-zero multiple of 500 and a chain crossing it"),
 'C08-e':("rhp/v4/server.go handleRPCFreeSectors swaps in place on the lent roots slice and copies only the truncated result","a valid free with an index that is not the last root, aborted after the host's first response"),
 'C08-f':("rhp/v4/server.go handleRPCSectorRoots writes the response with the host signature before ReviseV2Contract","Contractor.ReviseV2Contract failing for that revision (store fault)"),
 'C10-e':("rhp/v4/rpc.go RPCAppendSectors skips the append proof verification when no sector was accepted","a host that accepts nothing, returns a forged NewMerkleRoot and countersigns"),
 'C10-f':("rhp/v4/rpc.go RPCRenewContract merges the two host-signature checks with && instead of ||","a host corrupting exactly one of the two signatures of its third response"),
 'C16-e':("rhp/v4/rpc.go RPCRenewContract returns its own request basis instead of the host's basis with the renewal set","a renewal with the renter's tip behind the host's"),
 'C16-f':("rhp/v4/rpc.go RPCFormContract inspects TransactionSet[0] instead of the last transaction","a formation whose renter inputs are unconfirmed (set = [parent, formation])"),
 'C18-f':("syncer/syncer.go subnetKey no longer masks the remote IP to the configured prefix","peers with different addresses inside one configured subnet (IPv4 prefix shorter than /32)"),
 'C18-g':("syncer/syncer.go acceptLoop's per-connection goroutine no longer registers with the thread group","Close while an inbound connection is mid-handshake"),
 'C02-e':("chain/db.go MemDB.delete drops a pending put without recording a tombstone when the key is also committed","within one flush window a committed key is deleted, re-put and deleted again (a reorg batch confirming T again and spending its output)"),
 'C02-f':("chain/db.go revertElements writes the tree nodes only when an element was restored; reverting a bare v1 revision leaves stale leaf hashes","a block whose only change to existing elements is a fee-less v1 contract revision, reverted by a reorg"),
 'C03-g':("chain/db.go deleteFileContractExpiration edits the slice returned by the database in place (no copy)","two contracts sharing a window end, removal of a non-last entry, and a stop before the next commit on a database that lives in the process's memory"),
 'C03-h':("chain/db.go NewDBStore writes the version marker only after the genesis ApplyBlock (which commits by itself)","a stop right after the first commit of a fresh database"),
 'C04-g':("chain/manager.go UpdatesSince yields the manager lock every 64 collected updates","a poll collecting more than 64 updates while a concurrent AddBlocks reorgs below the point the walk has reached"),
 'C04-h':("chain/manager.go reorgTo flushes only when blocks were reverted: plain extensions wait for the periodic commit","blocks arriving as pure extensions, a subscriber that polled them, a crash inside the commit window, restart"),
 'C05-g':("chain/manager.go eviction ranks by fee x weight instead of fee / weight","a full pool holding transactions of different weights"),
 'C05-h':("chain/manager.go updateTxnProofs updates a loop copy of the file contract resolutions (same site as C13-f, seen from the pool)","a pooled v2 resolution while unrelated blocks change the contract element's proof path"),
 'C06-g':("wallet/update.go appliedEvents ranges over ValidProofOutputs when attributing a MISSED v1 contract","an expired v1 contract whose missed outputs pay other addresses than its valid outputs at the same positions"),
 'C06-h':("wallet/update.go proofs of the wallet's outputs are updated once per batch with the deepest revert only","a reorg of >=2 blocks delivered in one chunk, a reverted block other than the deepest modifying an element near a surviving wallet output"),
 'C11-f':("syncer/parallel_sync.go the list of suppliers is reset for every finish group: the honest supplier of the reorg-triggering chunk is banned","a Byzantine peer's invalid block in an earlier stored-only chunk, an honest peer supplying the later chunk"),
 'C12-e':("syncer/syncer.go addPeer's inbound re-check counts all peers: an accepted connection within the caps is silently dropped","a node with a small inbound cap that also holds outbound connections, the dropped edge being a bridge to the heaviest chain"),
 'C13-g':("chain/manager.go updateV2TransactionProofs returns early for from == to before validating the proofs","a corrupted proof with the tip itself as basis (V2TransactionSet / UpdateV2TransactionSet)"),
 'C13-h':("chain/manager.go updateV2TransactionProofs substitutes an empty supplement for unvalidated v2 blocks instead of refusing","a target on a stored-but-never-applied side branch"),
 'C14-g':("chain/manager.go PoolTransactions returns slices.Clip of the pool's own list","the caller reorders the returned list in place"),
 'C14-h':("chain/manager.go AddPoolTransactions snapshots the rollback extent before the lazy revalidation","a block confirming pooled transactions, then - with no pool operation in between - a set conflicting with the pool after some fresh transactions"),
 'C17-g':("chain/db.go cacheBucket.Get treats a pending zero-length value as absent","Put(k, non-empty)+Flush, Put(k, empty) through the CacheDB, Get before the next Flush"),
 'C17-h':("chain/db.go CacheDB.Cancel no longer cancels the wrapped database","a bucket created through the CacheDB in a session that is then cancelled"),
 'C19-g':("chain/manager.go BlocksForHistory: only the last block of the range decides whether a missing body is an error","PruneBlocks(P) mid-chain, then a request whose range straddles P"),
 'C19-h':("chain/manager.go computeMedianFee loses the empty-sample guard","a prune height beyond the tip with the fee cache invalid, then RecommendedFee"),
 'C20-g':("wallet/seed.go encodeBIP39Phrase joins into a fixed 96-byte buffer (forgetting the 11 spaces)","an entropy whose phrase is longer than 96 characters"),
 'C20-h':("wallet/seed.go KeyFromSeed wipes the caller's seed","two derivations from the same seed variable"),
 'C19-a':("chain/manager.go PruneBlocks walks upwards from genesis and breaks on the first missing body","prune at h1>=1, then prune again at h2>h1"),
 'C19-b':("chain/manager.go MinReorgIndex checks Header instead of Block","PruneBlocks mid-chain, then a heavier fork with fork point at the reported index"),
 'C20-a':("wallet/seed.go decodeBIP39Phrase never checks the 12th word against the word list (reads as index 0)","11 valid words followed by an unknown token where the same 11 words plus 'abandon' have a valid checksum (1 in 16)"),
 'C20-b':("wallet/seed.go splits words on the space character only","a valid phrase with a tab/newline/CRLF between two words"),
}
H={'C02-a':"missed by the first version of C02 (all workloads used distinct window ends); C02 now also runs shared-end histories checked against an executable model of the documented list algorithm",
 'C06-b':"missed at first (generator never made the wallet both renter and host of one contract); generator extended",
 'C13-a':"missed at first (sets always contained their parents); c13Confirm now also rebases only the unconfirmed remainder",
 'C14-a':"missed at first; submission kind known-then-conflict added",
 'C14-b':"missed at first; the aliasing probe now also scribbles over V2TransactionSet results",
 'C20-a':"missed at first (unknown word only at position 6); unknown tokens are now tried at every position on phrases that are valid with word 0 there",
 'C05-b':"caught by C05 from the start; C14 caught it only after lookups following partial confirmation were added",
 'C08-a':"missed at first; overflow variants of deposit totals added to the corruption table and a commit-despite-overflow audit",
 'C08-b':"missed at first; contract-lifecycle scenarios around ProofHeight/ExpirationHeight added",
 'C15-b':"missed at first; aborts inside the request payload and a paid-but-not-served / debit-before-request-complete oracle added",
 'C10-b':"missed at first; coherent range forgeries built by the MITM from the real sector added",
 'C16-a':"missed at first; renew of a still-unconfirmed contract and interface-call fault injection after funding added",
 'C18-a':"first run ended INCONCLUSIVE (burst watchdog); dedicated subnet-drop-path scenario and bounded-liveness verdict added",
 'C05-c':"missed at first (an input of a confirmed pooled ancestor counted as 'spent on chain'); the eviction justification now follows only unconfirmed ancestors",
 'C01-c':"missed at first (all generated networks had difficulty 1, margin 0); networks with difficulty 2^10 and leap-frogging near-tie forks added",
 'C01-d':"missed at first (pre-validated batches only on fully valid ancestors); ghost ledgers and pre-validated batches above a header-checked invalid block added",
 'C13-c':"missed at first (every scenario queried the pool before assembling a set); V2TransactionSet as the first pool call after a tip change added",
 'C13-d':"missed at first (set members were confirmed by one block only); members confirmed in different blocks of the path added",
 'C14-d':"missed at first (pooled members always came first in partly known sets); any dependency-respecting order, incl. ending with a pooled member, added",
 'C11-b':"missed at first; multi-step SendV2Blocks answers (short first batch, corrupted continuation) added",
 'C11-c':"missed at first; hit-and-run twins (same offence staying connected / hanging up before the verdict) with a recording peer store added",
 'C05-e':"missed at first (no workload re-submitted pooled members often enough); the resubmission scenario and the eviction-only-when-full oracle were added",
 'C14-e':"missed at first; the valid fresh part of every deliberately rejected set is now offered again alone",
 'C20-e':"caught by the extreme-length phrases added just before this seed was run (random sampling alone does not reach 47..58-character phrases)",
 'C20-f':"first run ended INCONCLUSIVE (the mutant panics inside blake2b in a worker goroutine); derivations are now guarded and a panic is a violation",
 'C11-d':"missed by C11/C12 at first, caught by C01 after the validated-prefix resubmission step was added; C11 gained the honest-prefix-after-Byzantine-extension family (which also exposed F-C11-7)",
 'C11-e':"missed at first; C11 now records what the victim relays to an honest observer and the bans honest nodes issue",
 'C12-c':"missed at first; C12 gained an honest lab peer that serves short header batches",
 'C04-e':"a crash-consistency change: decided by C03 (reopen at every commit), not visible to C04's in-process subscribers",
 'C01-e':"missed by construction at first (all generated networks had Oak at height 1); the Oak-boundary scenario (Oak at 500, chains and reorgs crossing it) was added",
 'C15-f':"decided by C08 (commit-on-stale-lock and the refused-contender pattern); C15's own workload did not contain a paused funding RPC at that time",
 'C03-g':"missed at first (images were deep copies made at each commit); the stop-before-commit scenario on the same in-memory database and crash attribution for store code were added",
 'C03-h':"missed at first (the flush hook was installed after the store had initialised); commits during initialisation are now commit points",
 'C04-g':"missed at first (no poll ever collected more than 64 updates); long walks against deep reorgs added",
 'C04-h':"not caught, deliberately: the change makes a tip that AddBlocks already announced non-durable until the next periodic commit; the reopened database is consistent at an earlier tip and catches up, which is all C03 states, and C04's quantifier ranges over indices on branches the store still holds (no restarts). No given property demands durability on return, so no oracle was added for it",
 'C05-g':"missed at first (uniform weights in the pool-full scenario); weights now differ by three orders of magnitude",
 'C06-g':"missed at first (generated v1 contracts paid missed outputs to the same addresses as valid ones); generator extended",
 'C12-e':"missed at first; tight-inbound-cap topologies and the accepted-connection-dropped check added",
 'C13-g':"missed at first; exposed the from == to shortcut of UpdateV2TransactionSet on the unchanged tree (F-C13-3, fixed); corrupted inputs are now also sent through V2TransactionSet at the tip",
 'C13-h':"missed at first (targets were restricted to applied indices); targets on a stored-but-never-applied branch added (refusal or a correct result)",
 'C14-h':"missed at first; query-free twin added (a submission as the first pool operation after a block)",
 'C19-h':"missed at first; services reading stored blocks are probed right after each prune",
 'C17-g':"caught after present-but-empty values were added to the alphabet (added while this seed was queued)",
 'C18-b':"missed at first; stalled partial requests at every stage against Close added"}
rows=[]
for d in sorted(glob.glob('/verif/seeded/*')):
    name=os.path.basename(d)
    if name not in N or not os.path.exists(d+'/confirm.log') or len(open(d+'/confirm.log').read().strip().split('\n'))<4: continue
    prop=name.split('-')[0]
    conf=open(d+'/confirm.log').read().strip().split('\n')
    demo=[f for f in os.listdir(d) if f.endswith('_test.go')]
    checks={}
    for l in conf:
        m=re.match(r'check (C\d+) quick on the changed tree: rc=(\d+) (\d+) VIOLATION lines; first:\s*(.*)',l)
        if m: checks[m.group(1)]={'rc':int(m.group(2)),'violation_lines':int(m.group(3)),'first':m.group(4).strip()[:300]}
    meta={'property':prop,'seed':name,'source':'independent sub-agent that was given only the property text and its own scratch worktree (nothing from /verif)',
      'change':N[name][0],'needs_to_manifest':N[name][1],'demonstration':demo,
      'confirmed_by_coordinator':{'demo_on_unchanged_code':conf[0],'demo_with_change':conf[1],'existing_suite_with_change':conf[2],'how':'seedtool.sh: fresh scratch worktree of /repo HEAD, go1.26 test of the demo without/with the patch, full suite with the patch and without the demo'},
      'checks_quick_against_change':checks,'how_checks_were_run':'./check <ID> quick with VERIF_REPO pointing at the patched scratch worktree (nothing applied to /repo while builder agents were using it)'}
    if name in H: meta['history']=H[name]
    json.dump(meta,open(d+'/meta.json','w'),indent=1)
    caught=[c for c,v in checks.items() if v['rc']==1 and v['violation_lines']>0]
    sig=''
    for c in caught:
        m=re.search(r'\[([^\]]+)\]\s*$',checks[c]['first'])
        sig=(m.group(1) if m else '')
        break
    rows.append(f"| {name} | {N[name][0]} | {', '.join(caught) or '—'} | {sig} | {H.get(name,'')} |")
print("| seed | change | caught by (quick) | first signature | history |\n|---|---|---|---|---|")
print('\n'.join(rows))

# ---- splice the tables into DESIGN.md
import io
table="| seed | change | caught by (quick) | first signature | history |\n|---|---|---|---|---|\n"+'\n'.join(rows)
d=open('/verif/DESIGN.md').read()
b,e='<!-- SEEDTABLE:BEGIN -->','<!-- SEEDTABLE:END -->'
if b in d and e in d:
    d=d[:d.index(b)+len(b)]+'\n'+table+'\n'+d[d.index(e):]
mt="| mutant | property | result | first signature |\n|---|---|---|---|\n"
try:
    for l in open('/verif/selfcheck/results.tsv'):
        f=l.rstrip('\n').split('\t')
        if len(f)>=4: mt+=f"| {f[0]} | {f[1]} | {f[2]} {f[3]} | {f[4] if len(f)>4 else ''} |\n"
except FileNotFoundError: pass
b,e='<!-- MUTANTTABLE:BEGIN -->','<!-- MUTANTTABLE:END -->'
if b in d and e in d:
    d=d[:d.index(b)+len(b)]+'\n'+mt+d[d.index(e):]
open('/verif/DESIGN.md','w').write(d)
