#!/bin/bash
# seedtool.sh <PROP> <name> <seed-dir> <pkg-dir> <TestName> [checks...]
# Confirms a seeded change in a scratch worktree (suite passes with it, demo
# fails with it and passes without it), stores it under /verif/seeded/, and runs
# the given checks (default: the property's own) against a scratch copy with the
# change applied. Nothing is applied to /repo.
set -u
PROP="$1"; NAME="$2"; SRC="$3"; PKG="$4"; TEST="$5"; shift 5
CHECKS="${*:-$PROP}"
export GOFLAGS=-mod=mod GOPROXY=off GOSUMDB=off GOTOOLCHAIN=local
WT="/tmp/seedconfirm-$PROP-$NAME"
OUT="/verif/seeded/$PROP-$NAME"
rm -rf "$WT"; git -C /repo worktree prune
git -C /repo worktree add -q --detach "$WT" HEAD || exit 2
mkdir -p "$OUT"
cp "$SRC/patch.diff" "$OUT/patch.diff"
DEMO="$(ls "$SRC"/*_test.go | head -1)"
cp "$DEMO" "$OUT/"
cp "$SRC/README.md" "$OUT/README.md" 2>/dev/null
res() { echo "$1" | tee -a "$OUT/confirm.log"; }
: > "$OUT/confirm.log"
cd "$WT"
# (iii) demo on unchanged code
cp "$DEMO" "$WT/$PKG/"
timeout 600 go1.26 test -vet=off -count=1 -run "^$TEST\$" "./$PKG" > "$OUT/demo_clean.log" 2>&1; RC_CLEAN=$?
res "demo on unchanged code: rc=$RC_CLEAN (want 0)"
# (ii) demo with the change
git apply "$OUT/patch.diff" || { res "patch does not apply"; exit 2; }
timeout 600 go1.26 test -vet=off -count=1 -run "^$TEST\$" "./$PKG" > "$OUT/demo_patched.log" 2>&1; RC_PATCHED=$?
res "demo with the change: rc=$RC_PATCHED (want != 0)"
# (i) suite with the change, without the demo
rm -f "$WT/$PKG/$(basename "$DEMO")"
timeout 1500 go1.26 test -vet=off -count=1 -timeout 25m ./... > "$OUT/suite_patched.log" 2>&1; RC_SUITE=$?
git checkout -q go.sum 2>/dev/null
res "existing suite with the change: rc=$RC_SUITE (want 0)"
# our checks against the patched scratch copy
for c in $CHECKS; do
  ( cd /verif && VERIF_REPO="$WT" VERIF_EVIDENCE_ROOT="/tmp/seedverif-$PROP-$NAME" ./check "$c" quick > "$OUT/check_$c.log" 2>&1; echo $? > "$OUT/check_$c.rc" )
  res "check $c quick on the changed tree: rc=$(cat "$OUT/check_$c.rc") $(grep -c '^VIOLATION' "$OUT/check_$c.log") VIOLATION lines; first: $(grep -m1 -A1 '^VIOLATION' "$OUT/check_$c.log" | tail -1 | cut -c1-200)"
done
cd /; git -C /repo worktree remove --force "$WT"
rm -rf "/tmp/seedverif-$PROP-$NAME"
