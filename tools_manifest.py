#!/usr/bin/env python3
"""Regenerates MANIFEST.json from the table below (keeps it valid at all times)."""
import json, subprocess, sys

CHECKS = {
 # id: (category, technique, text, note, design_ref)
 "C01": ("exploration", "reference-model audit after every call on generated fork trees (pure consensus replay as oracle)",
         "Every AddBlocks/AddValidatedV2Blocks call of generated histories (random fork trees x corruptions x schedules, plus the enumerated invalid-fork class d<=L<=6, k<=6 per regime) is predicted by a model built only from core/consensus labels and audited: tip, tip state bytes vs pure replay, index, blocks, states, element buckets and served proofs, work monotonicity, unchanged served view after any failed submission or rolled-back reorg, no panic.",
         "core/consensus is the trusted oracle; histories <= ~510 blocks on small test networks (difficulty 1 or 2^10, Oak hardfork at height 1 or 500); future-block rule exercised only far from the boundary.", "§3 C01"),
 "C02": ("exploration", "differential monitoring: reorged node vs linear twin vs pure ledger, byte-level served views",
         "Complete served views (tip state, index, stored blocks with supplements, element buckets incl. expiration lists, served elements with Merkle proofs, window ids, next block's expiring contracts) of a node driven through forks, reorgs and failed reorgs are compared byte for byte with a fresh node fed the final best chain linearly, at PRNG-chosen points of generated histories in all regimes, for checkpoint-initialised stores, and in the dedicated expiration-order scenario (known finding KF-C02-1).",
         "Tree-bucket nodes beyond the leaf count are excluded (never read by contract; served proofs are compared instead); v1 contracts get distinct window ends outside the order scenarios.", "§3 C02"),
 "C03": ("fault_enumeration", "crash-point enumeration: every durable commit image reopened and audited, catch-up run compared with the uninterrupted run",
         "With hook H1 the store commits after every individual block apply/revert of generated histories (and, in other runs, only at its natural commit points); the shadow KV snapshots the durable image at every Flush tagged with the store's tip; every snapshot is reopened on a fresh backend and must reopen without error to exactly that tip and pass the chain audit and the element/proof audit against the pure ledger; for snapshots inside reorgs (up to 8 per history) and 4 PRNG ones the whole schedule is re-submitted and final tip and complete served view must equal the uninterrupted run's when the final tip is forced.",
         "The backend's own commit is assumed atomic (MemDB image; bbolt trusted); every commit boundary the store can produce is a crash point, torn writes inside a commit are not modelled.", "§3 C03"),
 "C04": ("exploration", "update-stream monitoring: per-poll contiguity oracle, shadow ledger folded from diffs vs pure ledger, porcupine on reached-tip polls, race detector",
         "A population of subscribers (chunk sizes 1,2,3,7,1000,PRNG; lagging ones end up on abandoned branches) follows generated histories with reorgs and rolled-back reorgs; every UpdatesSince result is checked for bound, reverts-first contiguity and pure states; folded diffs + UpdateElementProof must reproduce the pure ledger of the tip (sets, leaf indices, proofs verifying against the accumulator); ceil(path/max) polls must reach the tip; OnReorg is checked per call (invoked iff tip changed, with the new tip). Concurrent pollers vs a submitter run under -race and their reached-tip polls are checked for linearizability against a register model of the tip.",
         "Subscribers only start from nothing or from indices they reached themselves; pruned stores are C19's business.", "§3 C04"),
 "C05": ("exploration", "reference-model monitoring of the transaction pool after every step of generated histories, plus race detector on MineBlock vs submissions",
         "After every pool submission, block, reorg and mined block of generated histories the reported pool sequence is validated transaction by transaction by core/consensus against the pure tip ledger; blocks mined by coreutils.MineBlock are labelled by the pure oracle and must be adopted; every accepted transaction that disappears must be confirmed, have an input spent/reverted in that step (exact ledger differences of the reverted/applied blocks), or be invalid on the new tip under the oracle. MineBlock also runs against concurrent submissions under -race.",
         "Pool-full eviction is driven only in the dedicated scenarios (independent ~1.8 MB transactions with distinct fee rates; re-submission of one large pooled transaction); v1 contracts get globally distinct window ends.", "§3 C05"),
 "C06": ("exploration", "reference-model monitoring of the wallet store after syncing through generated reorg histories",
         "A SingleAddressWallet over the in-repo reference store follows wallet-heavy generated histories (miner, payee, spender, v1/v2 contract party, siafund owner/claimant, Foundation address) in chunks that lag and end on reverts; whenever it is at the tip its outputs must equal the pure ledger's outputs paying the address (value, maturity, leaf index, proof verifying at the tip), no event may stem from a reverted block, sum(inflow)-sum(outflow) and Balance confirmed+immature must equal the sum of outputs; finally its event multiset must equal that of a wallet that followed the best chain linearly.",
         "Only the in-repo reference store is exercised; the harness tracks the index the stream left the wallet at (the reference store records the reverted index).", "§3 C06"),
 "C07": ("exploration", "recorded-history checking (porcupine reservation model) + reference-model oracles at barriers + race detector",
         "2-16 goroutines issue PRNG Fund/FundV2/Redistribute/SplitUTXO/Release/sign/submit/Balance/SpendableOutputs calls against a wallet while blocks are mined, with barriers, restarts and an option sweep (36 settings x 3 regimes); every call is logged at the caller boundary; oracles: eligibility of every selected input, disjointness (porcupine per-output reservation model + direct check at barriers), conservation, pool acceptance of the signed result, agreement of Balance/SpendableOutputs/selection at barriers and after restarts (fund exactly spendable succeeds, +1H fails), reservation expiry with explicit sleeps; -race is deciding.",
         "Only the reference EphemeralWalletStore; no reorgs in these histories; acceptance is undecided when a block overlaps the selecting/submitting call.", "§3 C07"),
 "C08": ("fault_enumeration", "recording-proxy monitoring of every Contractor call with a pairwise revision oracle, enumerated corruption table, race detector",
         "Every persisting call the server makes on a recording Contractor is audited against its predecessor revision (strictly higher number, renter and host signatures over exactly that revision, immutable fields, payout directions, sum constant) and against core's ReviseFor*/RenewContract/Refresh* applied to the tapped request (exact amount due); all 131 RPC x corruption entries (bad/replayed/stale challenge, foreign/expired/edited price table, out-of-range parameters, bad round-2 signatures, replayed exchanges) must cause zero persisting calls, zero writes and an equal snapshot; after each commit a revision transaction passes consensus validation; 2-8 concurrent raw clients on one contract under -race.",
         "In-repo EphemeralContractor/SectorStore and an in-memory transport; the handler-quiescence barrier (server-side stream close) orders snapshots.", "§3 C08"),
 "C09": ("fault_enumeration", "abort-point and index-selection enumeration with snapshot and list-model oracles at a handler-quiescence barrier",
         "All ordered index selections for contracts of n<=5 (quick) / n<=7 (thorough) sectors through a raw renter, duplicate/out-of-range lists, honest-client tuples, append batches over known/unknown roots, and every abort point of free/append/replenish/roots/fund (transport cuts at byte offsets inside each of the 4 messages, renter stops, bad round-2 signatures); after EVERY attempt MetaRoot(roots) must equal the committed root and count x SectorSize the file size; failures leave revision/roots/balances byte-equal; successes equal the list model, list with proofs the honest client accepts, and read back.",
         "Exhaustive within the stated sizes; in-repo contractor and sector store; in-memory transport.", "§3 C09"),
 "C10": ("fault_enumeration", "man-in-the-middle response mutation table with ground-truth oracle on success",
         "A typed MITM in front of the honest in-repo host rewrites every field of every host->renter message of every renter RPC with {bit flips, zero, max, +-1, truncate, extend, duplicate, swap with another exchange, re-sign with the real host key after altering the signed object, coherent forgeries, RPCError injection, cuts, silence}; whenever the client call reports success the result is compared with ground truth (sector bytes, roots, list model, locally computable successor revision, host signature over the returned object, cost bound); every call must return by its deadline. The table is enumerated deterministically.",
         "Errors are always acceptable; unauthenticated-by-design RPCs (settings, balance) are liveness-only; RPCLatestRevision is a known finding (KF-C10-1).", "§3 C10"),
 "C11": ("fault_enumeration", "scripted Byzantine gateway peer (61-row fault table) against a real syncer with an auditing ChainManager proxy, bounded-progress and ban oracles, race detector",
         "One real victim syncer on its own loopback address with one or two scripted Byzantine peers (and optionally an honest peer holding the heavier valid chain): every victim-issued RPC (SendHeaders, SendV2Blocks, SendCheckpoint, SendTransactions) and victim-served relay is answered from a 61-row corruption table x position x regime (below/above the require height, instant sync) x peer mix; after every manager call and every 50 ms the victim's tip must be a chain-valid generated block with state byte-equal to the pure replay and non-decreasing work; no crash; with an honest peer connected the honest tip must be reached within the bound; provable offences must reach PeerStore.Ban.",
         "Bounded-liveness restatement: a stall is a violation only when the deadline (60 s + 35 s per unanswered SendHeaders; unchanged tree: seconds) has passed AND the activity tracker shows the system quiescent or repeating without progress; slow-but-active cases are counted inconclusive; loopback networking; volume-based exhaustion and eclipse attacks out of scope.", "§3 C11"),
 "C12": ("exploration", "cluster convergence monitoring with tip trajectories, final audits and the race detector",
         "Clusters of 2-6 honest nodes hold different branches of one generated tree (fork points around the hardfork heights, branch lengths around the history-sample spacing and the 100-block request split, checkpoint-bootstrapped nodes, MaxSendBlocks 1/7/100, peer caps 1/2/8, line/star/ring/complete topologies, PRNG connection order, jitter): within the bound all tips must equal the unique sufficiently heavier valid branch, every sampled trajectory has non-decreasing work, every node passes the final chain audit.",
         "Bounded-liveness restatement: no-convergence is a violation only when the 90 s deadline (unchanged tree 0.5-10 s) has passed AND the activity tracker shows the cluster quiescent or repeating without progress; slow-but-active clusters are counted inconclusive; assignments are generated with exactly one sufficiently heavier branch (otherwise no verdict).", "§3 C12"),
 "C13": ("exploration", "reference-model monitoring of proof rebasing against pure ledgers along path(from->to)",
         "For PRNG pairs of applied indices on the same or different forks of generated trees and v2 sets valid at 'from' (ephemeral chains, siafund spends, contract formation/revision/renewal/storage proof/expiration), the result of UpdateV2TransactionSet is compared with the expectation computed from the pure ledgers: input minus confirmed in order, each parent element equal to the ledger's leaf index and proof at 'to', ephemeral inputs that became confirmed carry the confirmed element, errors (never panics) for corrupted proofs/leaf indices/unknown bases and for elements that never existed on the target chain; V2TransactionSet ordering/basis/acceptance; caller memory; paths of 1..160 blocks.",
         "Only indices that were the best tip at some moment are used as from/to (others carry header-only states); an element re-created with the same id on the other fork may be refused (no verdict); spent-at-target gives no verdict.", "§3 C13"),
 "C14": ("exploration", "API-contract monitoring of pool submission/lookup on generated pool states",
         "Generated pool states holding v1 and v2 transactions together; after every submission (fresh, partly known, all known, conflicting with the pool at position k, invalid at position k) the listing is compared with the all-or-nothing expectation, the known flag with its definition, caller memory with its byte image and the pool with itself after scribbling over submitted/returned values; both lookup functions are called with every v1 id, v2 id and random ids under a panic guard.",
         "Transactions are produced and labelled by the pure generator (core/consensus); basis = tip for v2 submissions here (rebasing is C13).", "§3 C14"),
 "C15": ("exploration", "proxy-log replay against a reference account/pool ledger, porcupine bank model for concurrent clients",
         "The recorded Contractor/SectorStore log is replayed against a reference ledger: credits backed by renter-signed revisions moving the same total, debits equal to the priced cost of the tapped request and preceding the matching ReadSector/StoreSector, insufficient drawable funds (own balance then pools in attachment order, at cost-1/cost/cost+1) => bare error, no data, no balance change; replenish = max(old,target); attach/detach only with valid signatures; 4-8 concurrent clients on shared accounts checked per account by porcupine against a sequential bank model.",
         "In-repo EphemeralContractor; in-memory transport.", "§3 C15"),
 "C16": ("fault_enumeration", "abort/corruption table over both directions of form/renew/refresh with wallet-snapshot and on-chain oracles",
         "16 abort points x 10 basis relations x 2 input kinds plus the full field x operator table over all four messages in both directions: on success the renter's contract equals the host's stored one with valid signatures, the set is accepted by the pool and after mining the chain holds exactly that contract with each side having paid its computed share; on failure or abort the host recorded no contract and both wallets' spendable sets are restored behind the quiescence barrier; 20 consecutive aborts must not prevent a clean attempt.",
         "Two in-process nodes; known finding KF-C16-1 (witness data of the returned set is not validated by the client).", "§3 C16"),
 "C17": ("exploration", "exhaustive operation-sequence enumeration against an overlay-map reference model on every backend",
         "Every operation sequence over a 9-operation alphabet up to length 5 (quick) / 7 (thorough) is executed on MemDB, CacheDB over MemDB/CacheDB/Bolt and BoltChainDB, comparing Get of every key and a full Iter after each operation and the durable image at the end with the model; plus long PRNG sequences. Exhaustive within the stated bound, sampled beyond it.",
         "Trusts bbolt's transaction semantics; bucket handles are re-fetched per operation as DBStore does; keys and values non-empty.", "§3 C17"),
 "C18": ("exploration", "concurrency-limit and shutdown monitoring with blocking proxies, goroutine inventory and the race detector",
         "Attacker peers on core/gateway fire RPC bursts from 1-5 peers over 73 limit configurations while a blocking ChainManager proxy parks handlers: observed concurrency never exceeds the per-peer/per-subnet limits, no request is dropped while the subnet budget holds (back-pressure), slots are returned after every kind of handler ending, inbound/outbound caps hold under 4-64 simultaneous delayed handshakes; Close/Stop of Syncer, rhp.Server (siamux), wallet and ThreadGroup at PRNG moments must return within 30 s, only after every handler finished, leave no coreutils goroutine behind and reject later work; ThreadGroup storms; -race is deciding.",
         "Bounded-liveness restatement (30 s, unchanged tree: milliseconds); loopback networking; QUIC and IPv6 prefixes not exercised; known finding KF-C18-1.", "§3 C18"),
 "C19": ("exploration", "differential monitoring: pruned node vs unpruned twin vs pure oracle",
         "Generated histories are fed to a pruned node and an unpruned twin; after PruneBlocks(h) for h in {0,1,mid,PRNG,tip,tip+1,tip+2,tip+5} (repeated) exactly the best-chain bodies below h must be absent and every other stored body present, index/states must equal the pure replay, MinReorgIndex must be the lowest block with all bodies above present, History/Headers must equal the twin's; heavier forks with fork point above/at/below MinReorgIndex (at/above must be adopted with pure states, below may be refused with an error and unchanged view); requests needing pruned bodies must error without panic; the pruned store is reopened from its durable image.",
         "After the pruned node legitimately refused a fork the twin adopted, it is compared with the pure oracle only.", "§3 C19"),
 "C20": ("exploration", "reference-model monitoring over sampled and structurally enumerated inputs",
         "Held on the sampled 128-bit entropies and on complete sweeps of every word at sampled positions against an independent BIP-39 reference anchored on the published vectors; pure functions, so sampling plus structural enumeration is the right level. The first use in the process comes from 16 goroutines, returned keys are wiped and derived again, and races between coreutils accesses reported by the race detector decide.",
         "Trusts crypto/sha256, blake2b, ed25519 and the published BIP-39 vectors; hook H2 exposes the unexported encoder and word list.", "§3 C20"),
}
PENDING_REASON = "monitor not built yet in this commit (planned in DESIGN.md §3); not claimed until its check exists and is silent on the unchanged tree"

def main():
    ids = ["C%02d" % i for i in range(1, 21)]
    hooks_commits = subprocess.run(["git","-C","/repo","log","--format=%H %s"],capture_output=True,text=True).stdout.splitlines()
    src = [l.split()[0] for l in hooks_commits if " verif hooks" in l or " verif hook" in l]
    m = {
      "version": 1,
      "setup_cmd": "cd /verif/harness && GOFLAGS=-mod=mod GOPROXY=off GOSUMDB=off GOTOOLCHAIN=local go1.26 build -race -tags verif -o /verif/.work/vcheck ./cmd/vcheck",
      "hooks": {
        "guard": "verif",
        "enable": "go build tag: go1.26 build -race -tags verif (the harness module replaces go.sia.tech/coreutils with /repo)",
        "baseline_off_cmd": "/verif/baseline_off.sh",
        "source_commits": src,
        "add_only": True,
      },
      "engines": [
        {"name": "vcheck", "path": "harness/cmd/vcheck", "serves_properties": sorted(CHECKS), "kind_free_text": "Go harness: workload generators (labs), reference-model oracles, recorded-history checkers (porcupine), invariant audits, run under the Go race detector in a child process by ./check"},
      ],
      "checks": [],
      "notes": "Technique family: runtime monitoring and sanitizers. Every check is `./check <ID> <tier>`: rebuilds the harness against /repo's working tree with -race -tags verif, runs the monitor in a child process, post-processes race-detector logs. Exit 0 held / 1 VIOLATION / 3 INCONCLUSIVE. Known findings: /verif/known_findings.json.",
      "not_applicable": [],
    }
    for i in ids:
        if i in CHECKS:
            cat, tech, text, note, ref = CHECKS[i]
            m["checks"].append({
              "property_id": i,
              "quick_cmd": f"./check {i} quick",
              "thorough_cmd": f"./check {i} thorough",
              "evidence_file": f"/verif/evidence/{i}.json",
              "replay_cmd_template": f"./check {i} quick --replay {{path}}",
              "engine": "vcheck",
              "level_claimed": {"category": cat, "text": text, "design_ref": ref},
              "level_note": note,
              "technique": tech,
            })
        else:
            m["not_applicable"].append({"property_id": i, "reason": PENDING_REASON})
    json.dump(m, open("/verif/MANIFEST.json","w"), indent=1)
    print("checks:", len(m["checks"]), "not_applicable:", len(m["not_applicable"]))

if __name__ == "__main__":
    main()
