#!/bin/bash
# selfcheck/run.sh [pattern]: applies each mutant diff to a scratch worktree of
# /repo (never /repo itself) and runs the property's quick check against it via
# VERIF_REPO. Writes selfcheck/results.tsv. Not a registered check.
cd /verif
PAT="${1:-}"
OUT=/verif/selfcheck/results.tsv
[ -z "$PAT" ] && : > "$OUT"
for d in selfcheck/mutants/*${PAT}*.diff; do
  name=$(basename "$d" .diff); prop=${name%%-*}
  WT=/tmp/selfmut-$name
  rm -rf "$WT"; git -C /repo worktree prune
  git -C /repo worktree add -q --detach "$WT" HEAD || continue
  if ! git -C "$WT" apply "/verif/$d"; then echo -e "$name\t$prop\tPATCH-FAILED" | tee -a "$OUT"; git -C /repo worktree remove --force "$WT"; continue; fi
  VERIF_REPO="$WT" VERIF_EVIDENCE_ROOT="/tmp/selfverif-$name" ./check "$prop" quick > "/tmp/selfmut-$name.log" 2>&1; rc=$?
  sig=$(grep -m1 -A1 '^VIOLATION' "/tmp/selfmut-$name.log" | tail -1 | sed 's/.*\[\(.*\)\]$/\1/' | cut -c1-80)
  echo -e "$name\t$prop\trc=$rc\tviolations=$(grep -c '^VIOLATION' /tmp/selfmut-$name.log)\t$sig" | tee -a "$OUT"
  git -C /repo worktree remove --force "$WT"; rm -rf "/tmp/selfverif-$name"
done
