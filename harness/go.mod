module verif/harness

go 1.26.0

require (
	github.com/anishathalye/porcupine v1.3.0
	go.etcd.io/bbolt v1.5.0
	go.etcd.io/gofail v0.2.0
	go.sia.tech/core v0.21.7
	go.sia.tech/coreutils v0.23.5
	go.sia.tech/mux v1.5.3
	go.uber.org/zap v1.28.0
	golang.org/x/crypto v0.54.0
)

require (
	github.com/dunglas/httpsfv v1.1.0 // indirect
	github.com/quic-go/qpack v0.6.0 // indirect
	github.com/quic-go/quic-go v0.60.0 // indirect
	github.com/quic-go/webtransport-go v0.11.1 // indirect
	go.uber.org/multierr v1.11.0 // indirect
	golang.org/x/net v0.56.0 // indirect
	golang.org/x/sys v0.47.0 // indirect
	golang.org/x/text v0.40.0 // indirect
	lukechampine.com/frand v1.5.1 // indirect
)

replace go.sia.tech/coreutils => /repo
