// Package mon holds what every check shares: the run record (seed, tier,
// counters), the three-valued verdict, evidence and replay writers, and the
// known-findings matcher.
package mon

import (
	"encoding/json"
	"fmt"
	"math/rand/v2"
	"os"
	"path/filepath"
	"sort"
	"strconv"
	"sync"
	"time"
)

// Exit codes of a check process.
const (
	ExitHeld         = 0
	ExitViolation    = 1
	ExitInconclusive = 3
)

// VerifDir is the root of the verification tree.
var VerifDir = func() string {
	if d := os.Getenv("VERIF_DIR"); d != "" {
		return d
	}
	return "/verif"
}()

// A Run is the record of one check execution.
type Run struct {
	ID    string
	Tier  string
	Seed  int64
	Level string

	mu          sync.Mutex
	start       time.Time
	evals       int64
	distinct    map[string]struct{}
	samples     []any
	maxSamples  int
	counters    map[string]int64
	sets        map[string]map[string]struct{}
	violations  int
	known       map[string]int
	nreplay     int
	assumptions []string
	rule        string
	extra       map[string]any
	floors      []floor
	inconcl     []string
	undecided   []string
	replayOnly  string
	sigSeen     map[string]int
	kf          *KnownFindings
}

type floor struct {
	counter string
	min     int64
}

// Start creates a run from the command line convention
// `vcheck <ID> <tier> [--replay file]` and the VERIF_SEED variable.
func Start(id, tier, level string) *Run {
	seed := int64(1)
	if s := os.Getenv("VERIF_SEED"); s != "" {
		if v, err := strconv.ParseInt(s, 10, 64); err == nil {
			seed = v
		}
	}
	if tier != "quick" && tier != "thorough" {
		tier = "quick"
	}
	r := &Run{
		ID: id, Tier: tier, Seed: seed, Level: level,
		start:      time.Now(),
		distinct:   make(map[string]struct{}),
		counters:   make(map[string]int64),
		sets:       make(map[string]map[string]struct{}),
		known:      make(map[string]int),
		extra:      make(map[string]any),
		maxSamples: 6,
	}
	kf, err := LoadKnownFindings(filepath.Join(VerifDir, "known_findings.json"))
	if err != nil {
		fmt.Fprintf(os.Stderr, "warning: known findings: %v\n", err)
		kf = &KnownFindings{}
	}
	r.kf = kf
	return r
}

// Thorough reports whether the thorough tier is being run.
func (r *Run) Thorough() bool { return r.Tier == "thorough" }

// Pick returns q in the quick tier and t in the thorough tier.
func (r *Run) Pick(q, t int) int {
	if r.Thorough() {
		return t
	}
	return q
}

// RNG returns a deterministic generator for the given case stream.
func (r *Run) RNG(stream uint64) *rand.Rand {
	return rand.New(rand.NewPCG(uint64(r.Seed)*0x9E3779B97F4A7C15+0x1234567, stream))
}

// Eval counts one evaluated case.
func (r *Run) Eval() { r.mu.Lock(); r.evals++; r.mu.Unlock() }

// EvalN counts n evaluated cases.
func (r *Run) EvalN(n int) { r.mu.Lock(); r.evals += int64(n); r.mu.Unlock() }

// Distinct records the signature of a non-trivial case.
func (r *Run) Distinct(sig string) {
	r.mu.Lock()
	r.distinct[sig] = struct{}{}
	r.mu.Unlock()
}

// Count adds n to a named observation counter.
func (r *Run) Count(name string, n int) {
	r.mu.Lock()
	r.counters[name] += int64(n)
	r.mu.Unlock()
}

// Counter returns the current value of a counter.
func (r *Run) Counter(name string) int64 {
	r.mu.Lock()
	defer r.mu.Unlock()
	return r.counters[name]
}

// SetAdd records a member of a named set; the evidence reports its cardinality.
func (r *Run) SetAdd(set, member string) {
	r.mu.Lock()
	m := r.sets[set]
	if m == nil {
		m = make(map[string]struct{})
		r.sets[set] = m
	}
	m[member] = struct{}{}
	r.mu.Unlock()
}

// SetLen returns the cardinality of a named set.
func (r *Run) SetLen(set string) int {
	r.mu.Lock()
	defer r.mu.Unlock()
	return len(r.sets[set])
}

// Sample keeps up to a handful of the actual cases for the evidence file.
func (r *Run) Sample(v any) {
	r.mu.Lock()
	if len(r.samples) < r.maxSamples {
		r.samples = append(r.samples, v)
	}
	r.mu.Unlock()
}

// Rule sets the text describing generation and what counts as non-trivial.
func (r *Run) Rule(s string) { r.rule = s }

// Assume records an assumption for the evidence file.
func (r *Run) Assume(s string) { r.assumptions = append(r.assumptions, s) }

// Extra sets a free-form coverage key.
func (r *Run) Extra(k string, v any) { r.mu.Lock(); r.extra[k] = v; r.mu.Unlock() }

// Floor demands that a counter reaches min by the end of the run; otherwise
// the run is inconclusive rather than passing silently.
func (r *Run) Floor(counter string, min int64) {
	r.floors = append(r.floors, floor{counter, min})
}

// Inconclusive marks the run inconclusive (never folded into pass or fail).
func (r *Run) Inconclusive(reason string) {
	r.mu.Lock()
	r.inconcl = append(r.inconcl, reason)
	r.mu.Unlock()
}

// Undecided records a single case that ended without a verdict for reasons
// outside the code under test (a history checker that ran out of time on a
// loaded machine, ...). A few of them are tolerated and only reported in the
// evidence; more than max(2, evaluations/50) make the whole run inconclusive.
func (r *Run) Undecided(reason string) {
	r.mu.Lock()
	r.undecided = append(r.undecided, reason)
	r.mu.Unlock()
}

// A Witness is what is written to a replay file.
type Witness struct {
	Property string `json:"property"`
	Tier     string `json:"tier"`
	Seed     int64  `json:"seed"`
	Kind     string `json:"kind"`
	Sig      string `json:"signature"`
	Case     any    `json:"case"`
	Detail   any    `json:"detail"`
}

// Violation reports a violation with signature sig (used for matching known
// findings) unless the signature is listed as a known finding, in which case a
// KNOWN-FINDING line is printed once per signature. It returns true if it was a
// real (unlisted) violation.
func (r *Run) Violation(sig, what string, cse, detail any) bool {
	r.mu.Lock()
	defer r.mu.Unlock()
	if kf := r.kf.Match(r.ID, sig); kf != nil {
		if r.known[kf.ID] == 0 {
			fmt.Printf("KNOWN-FINDING: property=%s %s [%s] %s\n", r.ID, kf.ID, sig, kf.What)
		}
		r.known[kf.ID]++
		return false
	}
	r.violations++
	if r.sigSeen == nil {
		r.sigSeen = make(map[string]int)
	}
	r.sigSeen[sig]++
	if r.sigSeen[sig] > 1 || len(r.sigSeen) > 25 {
		return true // keep counting; one witness file per signature
	}
	dir := filepath.Join(VerifDir, "replays")
	os.MkdirAll(dir, 0o755)
	r.nreplay++
	path := filepath.Join(dir, fmt.Sprintf("%s-%d-%d.json", r.ID, r.Seed, r.nreplay))
	w := Witness{Property: r.ID, Tier: r.Tier, Seed: r.Seed, Kind: what, Sig: sig, Case: cse, Detail: detail}
	buf, err := json.MarshalIndent(w, "", " ")
	if err != nil {
		buf, _ = json.MarshalIndent(Witness{Property: r.ID, Tier: r.Tier, Seed: r.Seed, Kind: what, Sig: sig, Detail: fmt.Sprintf("%+v / %+v", cse, detail)}, "", " ")
	}
	os.WriteFile(path, buf, 0o644)
	fmt.Printf("VIOLATION property=%s replay=%s\n", r.ID, path)
	fmt.Printf("  what: %s [%s]\n", what, sig)
	return true
}

// Violations returns the number of unlisted violations so far.
func (r *Run) Violations() int { r.mu.Lock(); defer r.mu.Unlock(); return r.violations }

// Finish writes the evidence file and exits with the verdict.
func (r *Run) Finish() {
	code := r.finish()
	os.Exit(code)
}

func (r *Run) finish() int {
	r.mu.Lock()
	defer r.mu.Unlock()
	if n := len(r.undecided); n > 0 {
		if tol := max(2, int(r.evals/50)); n > tol {
			r.inconcl = append(r.inconcl, fmt.Sprintf("%d cases ended without a verdict (tolerated: %d), e.g. %s", n, tol, r.undecided[0]))
		}
	}
	for _, f := range r.floors {
		if r.counters[f.counter] < f.min {
			r.inconcl = append(r.inconcl, fmt.Sprintf("coverage floor missed: %s=%d < %d", f.counter, r.counters[f.counter], f.min))
		}
	}
	cov := map[string]any{
		"evaluations":         r.evals,
		"distinct_nontrivial": len(r.distinct),
		"rule":                r.rule,
		"samples":             r.samples,
		"observed":            r.counters,
	}
	if len(r.samples) == 0 {
		cov["samples"] = []any{"(none recorded)"}
	}
	sets := map[string]int{}
	for k, v := range r.sets {
		sets[k] = len(v)
	}
	if len(sets) > 0 {
		cov["distinct_sets"] = sets
	}
	for k, v := range r.extra {
		cov[k] = v
	}
	if len(r.sigSeen) > 0 {
		cov["violation_signatures"] = r.sigSeen
	}
	if len(r.known) > 0 {
		kn := map[string]int{}
		for k, v := range r.known {
			kn[k] = v
		}
		cov["known_findings_hit"] = kn
	}
	if len(r.inconcl) > 0 {
		cov["inconclusive"] = r.inconcl
	}
	if len(r.undecided) > 0 {
		cov["cases_without_verdict"] = r.undecided
	}
	ev := map[string]any{
		"property_id": r.ID,
		"tier":        r.Tier,
		"seed":        r.Seed,
		"level":       r.Level,
		"coverage":    cov,
		"assumptions": r.assumptions,
		"wall_s":      time.Since(r.start).Seconds(),
		"violations":  r.violations,
	}
	if r.assumptions == nil {
		ev["assumptions"] = []string{}
	}
	dir := filepath.Join(VerifDir, "evidence")
	os.MkdirAll(dir, 0o755)
	buf, err := json.MarshalIndent(ev, "", " ")
	if err != nil {
		fmt.Fprintf(os.Stderr, "evidence marshal: %v\n", err)
		return ExitInconclusive
	}
	evPath := filepath.Join(dir, r.ID+".json")
	if os.Getenv("VERIF_REPLAY") != "" {
		// a replay of one case must not replace the evidence of the full run
		evPath = filepath.Join(VerifDir, "replays", r.ID+"-replay-evidence.json")
	}
	if err := os.WriteFile(evPath, buf, 0o644); err != nil {
		fmt.Fprintf(os.Stderr, "evidence write: %v\n", err)
		return ExitInconclusive
	}
	keys := make([]string, 0, len(r.counters))
	for k := range r.counters {
		keys = append(keys, k)
	}
	sort.Strings(keys)
	fmt.Printf("%s %s seed=%d: evaluations=%d distinct=%d violations=%d known=%d wall=%.1fs\n", r.ID, r.Tier, r.Seed, r.evals, len(r.distinct), r.violations, len(r.known), time.Since(r.start).Seconds())
	for _, k := range keys {
		fmt.Printf("  observed %-40s %d\n", k, r.counters[k])
	}
	if r.violations > 0 {
		return ExitViolation
	}
	if len(r.inconcl) > 0 {
		for _, s := range r.inconcl {
			fmt.Printf("INCONCLUSIVE %s\n", s)
		}
		return ExitInconclusive
	}
	return ExitHeld
}

// A KnownFinding is one entry of /verif/known_findings.json.
type KnownFinding struct {
	ID       string   `json:"id"`
	Property string   `json:"property"`
	Status   string   `json:"status"` // "known" or "fixed"
	Sigs     []string `json:"signatures"`
	What     string   `json:"what"`
	Commit   string   `json:"commit,omitempty"`
}

// KnownFindings is the committed list; it is never written at run time.
type KnownFindings struct {
	Findings []KnownFinding `json:"findings"`
}

// LoadKnownFindings reads the committed file.
func LoadKnownFindings(path string) (*KnownFindings, error) {
	buf, err := os.ReadFile(path)
	if err != nil {
		if os.IsNotExist(err) {
			return &KnownFindings{}, nil
		}
		return nil, err
	}
	var kf KnownFindings
	if err := json.Unmarshal(buf, &kf); err != nil {
		return nil, err
	}
	return &kf, nil
}

// Match returns the entry that lists sig as a known (not fixed) finding.
func (k *KnownFindings) Match(prop, sig string) *KnownFinding {
	for i := range k.Findings {
		f := &k.Findings[i]
		if f.Property != prop || f.Status != "known" {
			continue
		}
		for _, s := range f.Sigs {
			if s == sig {
				return f
			}
		}
	}
	return nil
}

// Guard runs fn and converts a panic into an error string (with no verdict of
// its own); the caller decides what a panic means for its property.
func Guard(fn func()) (panicked any) {
	defer func() {
		if p := recover(); p != nil {
			panicked = p
		}
	}()
	fn()
	return nil
}
