// Package vcli is the command-line front end shared by cmd/vcheck and the
// per-lab development binaries:
//
//	<bin> <ID> <quick|thorough> [--replay file]
//	<bin> racepost <ID> <race-log-prefix> <child-exit-code>
//	<bin> crashpost <ID> <tier> <child-output>
package vcli

import (
	"fmt"
	"os"
	"sort"
	"sync"

	"verif/harness/mon"
)

// A CheckFn runs one property monitor.
type CheckFn func(r *mon.Run, replay string)

type checkDef struct {
	level string
	fn    CheckFn
}

var registry = map[string]checkDef{}

// Register adds a monitor; level is the evidence level it claims.
func Register(id, level string, fn CheckFn) { registry[id] = checkDef{level, fn} }

var commands = map[string]func(args []string) int{}

// RegisterCommand adds an auxiliary sub-command (e.g. a child process role).
func RegisterCommand(name string, fn func(args []string) int) { commands[name] = fn }

// Main dispatches os.Args.
func Main() {
	if len(os.Args) < 2 {
		usage()
	}
	if fn, ok := commands[os.Args[1]]; ok {
		os.Exit(fn(os.Args[2:]))
	}
	switch os.Args[1] {
	case "racepost":
		if len(os.Args) < 5 {
			usage()
		}
		os.Exit(racePost(os.Args[2], os.Args[3], os.Args[4]))
	case "crashpost":
		if len(os.Args) < 5 {
			usage()
		}
		os.Exit(crashPost(os.Args[2], os.Args[3], os.Args[4]))
	case "list":
		ids := make([]string, 0, len(registry))
		for id := range registry {
			ids = append(ids, id)
		}
		sort.Strings(ids)
		for _, id := range ids {
			fmt.Println(id, registry[id].level)
		}
		return
	}
	id := os.Args[1]
	def, ok := registry[id]
	if !ok {
		fmt.Printf("INCONCLUSIVE no monitor registered for %s\n", id)
		os.Exit(mon.ExitInconclusive)
	}
	tier := "quick"
	if len(os.Args) > 2 {
		tier = os.Args[2]
	}
	replay := ""
	for i := 3; i+1 < len(os.Args); i++ {
		if os.Args[i] == "--replay" {
			replay = os.Args[i+1]
		}
	}
	r := mon.Start(id, tier, def.level)
	def.fn(r, replay)
	r.Finish()
}

func usage() {
	fmt.Fprintln(os.Stderr, "usage: vcheck <ID> <quick|thorough> [--replay file] | racepost <ID> <prefix> <rc> | crashpost <ID> <tier> <log>")
	os.Exit(2)
}

// Parallel runs fn(0..n-1) on up to 16 goroutines.
func Parallel(n int, fn func(i int)) {
	var wg sync.WaitGroup
	sem := make(chan struct{}, 16)
	for i := 0; i < n; i++ {
		wg.Add(1)
		sem <- struct{}{}
		go func(i int) {
			defer wg.Done()
			defer func() { <-sem }()
			fn(i)
		}(i)
	}
	wg.Wait()
}
