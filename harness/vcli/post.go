package vcli

import (
	"encoding/json"
	"fmt"
	"os"
	"path/filepath"
	"regexp"
	"sort"
	"strconv"
	"strings"

	"verif/harness/mon"
)

// properties whose quantifier ranges over schedules: a data race between two
// coreutils accesses observed in their workload is a violation.
var raceDeciding = map[string]bool{
	"C04": true, "C05": true, "C07": true, "C08": true, "C09": true,
	"C11": true, "C12": true, "C15": true, "C18": true,
	// C20's workload calls the (documented-pure) phrase and key functions from
	// several goroutines, starting with the very first use in the process
	"C20": true,
}

// properties that promise "error, never a panic / does not crash".
var crashDeciding = map[string]bool{
	"C01": true, "C11": true, "C12": true, "C13": true, "C14": true, "C18": true, "C19": true,
	// store properties: a fatal fault inside the store's own code while it is
	// driven with valid input (e.g. a write into memory the database owns) means
	// the store cannot deliver what the property promises
	"C02": true, "C03": true, "C05": true, "C17": true,
}

var frameRe = regexp.MustCompile(`^\s+([A-Za-z0-9_./\-]+(?:\.\([^)]*\))?[A-Za-z0-9_.\-\[\]·]*)\(`)

type raceReport struct {
	stacks [][]string // function names, innermost first
}

func parseRaceLogs(prefix string) (reports []raceReport, files []string) {
	files, _ = filepath.Glob(prefix + ".*")
	for _, f := range files {
		buf, err := os.ReadFile(f)
		if err != nil {
			continue
		}
		for _, block := range strings.Split(string(buf), "==================") {
			if !strings.Contains(block, "WARNING: DATA RACE") {
				continue
			}
			var rep raceReport
			var cur []string
			inAccess := false
			for _, line := range strings.Split(block, "\n") {
				switch {
				case strings.HasPrefix(line, "Read at ") || strings.HasPrefix(line, "Write at ") ||
					strings.HasPrefix(line, "Previous read at ") || strings.HasPrefix(line, "Previous write at "):
					if cur != nil {
						rep.stacks = append(rep.stacks, cur)
					}
					cur = []string{}
					inAccess = true
				case strings.HasPrefix(line, "Goroutine ") || strings.HasPrefix(line, "[failed to restore"):
					if cur != nil && inAccess {
						rep.stacks = append(rep.stacks, cur)
					}
					cur = nil
					inAccess = false
				default:
					if inAccess && cur != nil {
						if m := frameRe.FindStringSubmatch(line); m != nil {
							cur = append(cur, m[1])
						}
					}
				}
			}
			if cur != nil && inAccess {
				rep.stacks = append(rep.stacks, cur)
			}
			reports = append(reports, rep)
		}
	}
	return
}

func isRepoFrame(fn string) bool {
	return strings.HasPrefix(fn, "go.sia.tech/coreutils")
}
func isHarnessFrame(fn string) bool { return strings.HasPrefix(fn, "verif/harness") }

// outermost coreutils frame of a stack (entry point into the library)
func entryPoint(st []string) string {
	for i := len(st) - 1; i >= 0; i-- {
		if isRepoFrame(st[i]) {
			return st[i]
		}
	}
	return ""
}

func racePost(id, prefix, rcStr string) int {
	rc, _ := strconv.Atoi(rcStr)
	reports, _ := parseRaceLogs(prefix)
	type cls struct {
		Pair  string `json:"entry_points"`
		Top   string `json:"access_sites"`
		Count int    `json:"count"`
		Kind  string `json:"kind"`
	}
	byPair := map[string]*cls{}
	nRepo, nHarness := 0, 0
	for _, rep := range reports {
		if len(rep.stacks) < 2 {
			continue
		}
		a, b := rep.stacks[0], rep.stacks[1]
		if len(a) == 0 || len(b) == 0 {
			continue
		}
		ea, eb := entryPoint(a), entryPoint(b)
		kind := "other"
		switch {
		case isHarnessFrame(a[0]) || isHarnessFrame(b[0]):
			kind = "harness"
			nHarness++
		case ea != "" && eb != "":
			kind = "coreutils"
			nRepo++
		}
		p := []string{ea, eb}
		sort.Strings(p)
		key := kind + "|" + strings.Join(p, " <-> ")
		c := byPair[key]
		if c == nil {
			t := []string{a[0], b[0]}
			sort.Strings(t)
			c = &cls{Pair: strings.Join(p, " <-> "), Top: strings.Join(t, " / "), Kind: kind}
			byPair[key] = c
		}
		c.Count++
	}
	classes := make([]*cls, 0, len(byPair))
	for _, c := range byPair {
		classes = append(classes, c)
	}
	sort.Slice(classes, func(i, j int) bool { return classes[i].Pair < classes[j].Pair })

	// patch the evidence file
	evPath := filepath.Join(mon.VerifDir, "evidence", id+".json")
	var ev map[string]any
	if buf, err := os.ReadFile(evPath); err == nil {
		json.Unmarshal(buf, &ev)
	}
	violation := false
	if ev != nil {
		cov, _ := ev["coverage"].(map[string]any)
		if cov != nil {
			cov["race_detector"] = map[string]any{
				"reports":            len(reports),
				"distinct_classes":   classes,
				"between_coreutils":  nRepo,
				"in_harness":         nHarness,
				"deciding_for_check": raceDeciding[id],
			}
		}
	}
	kf, _ := mon.LoadKnownFindings(filepath.Join(mon.VerifDir, "known_findings.json"))
	for _, c := range classes {
		if c.Kind != "coreutils" {
			continue
		}
		sig := "race:" + c.Pair
		if raceDeciding[id] {
			if k := kf.Match(id, sig); k != nil {
				fmt.Printf("KNOWN-FINDING: property=%s %s [%s] %s\n", id, k.ID, sig, k.What)
				continue
			}
			violation = true
			dir := filepath.Join(mon.VerifDir, "replays")
			os.MkdirAll(dir, 0o755)
			path := filepath.Join(dir, fmt.Sprintf("%s-race-%s.json", id, os.Getenv("VERIF_SEED")))
			buf, _ := json.MarshalIndent(map[string]any{"property": id, "signature": sig, "class": c, "logs": prefix + ".*"}, "", " ")
			os.WriteFile(path, buf, 0o644)
			fmt.Printf("VIOLATION property=%s replay=%s\n", id, path)
			fmt.Printf("  what: data race between coreutils accesses: %s (sites %s, %d reports)\n", c.Pair, c.Top, c.Count)
		} else {
			fmt.Printf("note: data race between coreutils accesses (not a verdict for %s): %s\n", id, c.Pair)
		}
	}
	if ev != nil {
		if violation {
			if v, ok := ev["violations"].(float64); ok {
				ev["violations"] = int(v) + 1
			} else {
				ev["violations"] = 1
			}
		}
		buf, _ := json.MarshalIndent(ev, "", " ")
		os.WriteFile(evPath, buf, 0o644)
	}
	if violation {
		return mon.ExitViolation
	}
	if nHarness > 0 && rc == 0 {
		fmt.Printf("INCONCLUSIVE data race inside harness code (%d reports); see %s.*\n", nHarness, prefix)
		return mon.ExitInconclusive
	}
	return rc
}

var goroutineHdr = regexp.MustCompile(`^goroutine \d+ `)

// crashPost classifies a child that died outside the monitor's control.
func crashPost(id, tier, logPath string) int {
	buf, _ := os.ReadFile(logPath)
	lines := strings.Split(string(buf), "\n")
	start := -1
	for i, l := range lines {
		if strings.HasPrefix(l, "panic: ") || strings.HasPrefix(l, "fatal error: ") {
			start = i
			break
		}
	}
	if start < 0 {
		fmt.Printf("INCONCLUSIVE child of %s died without a panic trace\n", id)
		return mon.ExitInconclusive
	}
	// first goroutine stack after the panic line
	first := ""
	inStack := false
	for _, l := range lines[start:] {
		if goroutineHdr.MatchString(l) {
			if inStack {
				break
			}
			inStack = true
			continue
		}
		if !inStack || strings.HasPrefix(l, "\t") || l == "" {
			continue
		}
		fn := l
		if i := strings.LastIndex(fn, "("); i > 0 {
			fn = fn[:i]
		}
		if strings.HasPrefix(fn, "panic") || strings.HasPrefix(fn, "runtime") || strings.HasPrefix(fn, "created by") {
			continue
		}
		// frames of the consensus library that coreutils called into are looked
		// through: the crash belongs to whoever called them
		if strings.HasPrefix(fn, "go.sia.tech/core/") || strings.HasPrefix(fn, "golang.org/") || strings.HasPrefix(fn, "lukechampine.com/") || !strings.Contains(fn, ".") {
			if first == "" {
				first = fn
			}
			continue
		}
		first = fn
		break
	}
	what := strings.TrimSpace(lines[start])
	// decisive only when the innermost frame that is neither runtime nor a
	// third-party library belongs to the repository under test (a panic in the
	// harness or in a check's own code is never a verdict)
	if crashDeciding[id] && isRepoFrame(first) {
		dir := filepath.Join(mon.VerifDir, "replays")
		os.MkdirAll(dir, 0o755)
		path := filepath.Join(dir, fmt.Sprintf("%s-crash-%s.log", id, os.Getenv("VERIF_SEED")))
		os.WriteFile(path, buf, 0o644)
		fmt.Printf("VIOLATION property=%s replay=%s\n", id, path)
		fmt.Printf("  what: process crashed in %s: %s\n", first, what)
		return mon.ExitViolation
	}
	// violations the monitor had already reported before the crash stand
	for _, l := range lines[:start] {
		if strings.HasPrefix(l, "VIOLATION property="+id+" ") {
			fmt.Printf("note: child of %s crashed afterwards in %q: %s\n", id, first, what)
			return mon.ExitViolation
		}
	}
	fmt.Printf("INCONCLUSIVE child of %s crashed in %q: %s\n", id, first, what)
	return mon.ExitInconclusive
}
