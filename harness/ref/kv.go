// Package ref holds the executable reference models the monitors compare the
// real code against.
package ref

import "sort"

// KV is the overlay-map model of a chain.DB: reads reflect every earlier put
// and delete of the session, Flush makes them durable, Cancel drops exactly the
// unflushed ones. Bucket creation is pending until flushed as well.
type KV struct {
	Durable map[string]map[string]string
	Live    map[string]map[string]string // durable + pending
}

// NewKV returns an empty model.
func NewKV() *KV {
	return &KV{Durable: map[string]map[string]string{}, Live: map[string]map[string]string{}}
}

func cloneBuckets(m map[string]map[string]string) map[string]map[string]string {
	out := make(map[string]map[string]string, len(m))
	for b, kv := range m {
		c := make(map[string]string, len(kv))
		for k, v := range kv {
			c[k] = v
		}
		out[b] = c
	}
	return out
}

// Clone returns a deep copy.
func (m *KV) Clone() *KV { return &KV{Durable: cloneBuckets(m.Durable), Live: cloneBuckets(m.Live)} }

// HasBucket reports whether the bucket is visible in the session.
func (m *KV) HasBucket(b string) bool { _, ok := m.Live[b]; return ok }

// CreateBucket returns false if the bucket already exists.
func (m *KV) CreateBucket(b string) bool {
	if m.HasBucket(b) {
		return false
	}
	m.Live[b] = map[string]string{}
	return true
}

// Put writes a key; the bucket must exist.
func (m *KV) Put(b, k, v string) { m.Live[b][k] = v }

// Delete removes a key; the bucket must exist.
func (m *KV) Delete(b, k string) { delete(m.Live[b], k) }

// Get reads a key.
func (m *KV) Get(b, k string) (string, bool) { v, ok := m.Live[b][k]; return v, ok }

// Flush makes the session durable.
func (m *KV) Flush() { m.Durable = cloneBuckets(m.Live) }

// Cancel drops the unflushed part of the session.
func (m *KV) Cancel() { m.Live = cloneBuckets(m.Durable) }

// Pairs returns the sorted key/value pairs of a bucket.
func Pairs(kv map[string]string) [][2]string {
	out := make([][2]string, 0, len(kv))
	for k, v := range kv {
		out = append(out, [2]string{k, v})
	}
	sort.Slice(out, func(i, j int) bool { return out[i][0] < out[j][0] })
	return out
}
