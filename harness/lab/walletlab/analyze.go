package walletlab

import (
	"encoding/hex"
	"fmt"
	"regexp"
	"sort"
	"strings"
	"time"

	"github.com/anishathalye/porcupine"
	"go.sia.tech/core/types"
)

// A Finding is one oracle failure.
type Finding struct {
	Sig    string `json:"signature"`
	What   string `json:"what"`
	Detail any    `json:"detail"`
}

// Stats is what the oracles looked at.
type Stats struct {
	Ops               map[string]int // "<op>:<ok|err|notenough|noop>"
	Selections        int            // acquisitions whose inputs were checked
	InputsChecked     int
	UnconfirmedPicked int
	DupSelections     int
	DefragExtra       int // selections with more inputs than needed to cover the amount
	ConservationEq    int
	FailedCalls       int
	Partitions        int
	ContendedParts    int // partitions with >= 2 acquisitions
	PorcupineOps      int
	PorcupineUnknown  bool
	Barriers          int
	BarriersAfterRst  int
	Probes            int
	DirectDisjoint    int
	Restarts          int
	Blocks            int
	Submits           int
	Accepted          int
	Undecided         int
	KnownDefectHits   int
	// lagging-wallet dimension
	Deliveries          int            // delivery events that applied pending blocks
	MaxLag              int            // largest number of pending blocks at a funding call
	FundsByLag          map[string]int // "<op>:lag<k>" successful selecting calls by pending blocks
	AcquiresLagging     int            // successful selecting calls made while >= 1 block was pending
	ProofsVerified      int            // inputs whose proof was verified against the returned basis
	StaleAtTip          int            // calls whose proofs do NOT verify at the manager's tip (a wrong basis would show)
	SubmitsLagging      int            // submissions of transactions funded while lagging
	AcceptedLagging     int
	SplitExplained      map[string]int // SplitUTXO refusals the model explains, by explanation
	SplitCrossVersion   int            // SplitUTXO errors after picking a pooled v1 output
	RefusedPendingSpend int            // refusals explained by an input that a pending block had spent
	States              map[string]int // wallet-state features present at barriers
}

type outInfo struct {
	OutRec
	known     bool // value/address known
	createdEv int  // block event that created it on chain (-1: never)
	spentEv   int  // block event that spent it on chain (-1: never)
	creators  []types.TransactionID
}

type ptxInfo struct {
	PoolTx
	adds []int // event indices of the successful submissions containing it
}

type analysis struct {
	h        *History
	ev       []Event
	outs     map[types.SiacoinOutputID]*outInfo
	ptx      map[types.TransactionID]*ptxInfo
	spenders map[types.SiacoinOutputID][]types.TransactionID
	changes  []int // indices of block and restart events, in order
	inPool   []map[types.TransactionID]bool
	heightEv map[uint64]int // height -> block event index
	storeEv  map[uint64]int // height -> event within which the wallet store applied that block
	lagOf    map[int]int    // handle -> largest lag among its selecting calls
	legacy   bool           // recording without delivery information
	minH     uint64
	tainted  map[int]bool // handles whose funding selected one output twice
	find     []Finding
	st       Stats
}

func (a *analysis) out(id types.SiacoinOutputID) *outInfo {
	o := a.outs[id]
	if o == nil {
		o = &outInfo{createdEv: -1, spentEv: -1}
		o.ID = id
		a.outs[id] = o
	}
	return o
}

func (a *analysis) report(sig, what string, detail any) {
	a.find = append(a.find, Finding{sig, what, detail})
}

// Analyze runs every post-hoc oracle over a recorded history. It depends only
// on the History value, so a history loaded from a replay file can be
// re-checked offline.
func Analyze(h *History, porcTimeout time.Duration) ([]Finding, Stats) {
	a := &analysis{
		h: h, ev: h.Events,
		outs:     make(map[types.SiacoinOutputID]*outInfo),
		ptx:      make(map[types.TransactionID]*ptxInfo),
		spenders: make(map[types.SiacoinOutputID][]types.TransactionID),
		heightEv: make(map[uint64]int),
		storeEv:  make(map[uint64]int),
		lagOf:    make(map[int]int),
		tainted:  make(map[int]bool),
	}
	a.st.FundsByLag = make(map[string]int)
	a.st.SplitExplained = make(map[string]int)
	a.st.Ops = make(map[string]int)
	a.st.States = make(map[string]int)
	a.index()
	a.checkCalls()
	a.checkDisjoint(porcTimeout)
	a.checkBarriers()
	a.checkAcceptance()
	return a.find, a.st
}

func (a *analysis) index() {
	recorded := false // does the history record deliveries at all (older recordings do not)
	for i := range a.ev {
		e := &a.ev[i]
		if e.To > 0 && (e.Op == OpBlock || e.Op == OpDeliver) {
			recorded = true
			for h := e.From; h <= e.To; h++ {
				a.storeEv[h] = i
			}
			if e.Op == OpDeliver {
				a.st.Deliveries++
			}
		}
	}
	for i := range a.ev {
		e := &a.ev[i]
		switch e.Op {
		case OpBlock:
			if !e.OK {
				continue
			}
			if !recorded {
				a.storeEv[e.Height] = i // block and delivery were one event
				a.legacy = true
			}
			a.st.Blocks++
			a.changes = append(a.changes, i)
			a.heightEv[e.Height] = i
			if a.minH == 0 || e.Height < a.minH {
				a.minH = e.Height
			}
			for _, c := range e.Created {
				o := a.out(c.ID)
				o.OutRec, o.known, o.createdEv = c, true, i
			}
			for _, id := range e.Spent {
				a.out(id).spentEv = i
			}
		case OpRestart:
			a.st.Restarts++
			a.changes = append(a.changes, i)
		case OpSubmit1, OpSubmit2, OpBroadcast, OpSplit:
			if !e.OK {
				continue
			}
			for _, t := range e.Txs {
				p := a.ptx[t.ID]
				if p == nil {
					p = &ptxInfo{PoolTx: t}
					a.ptx[t.ID] = p
					for _, id := range t.Spends {
						a.spenders[id] = append(a.spenders[id], t.ID)
					}
					for _, c := range t.Creates {
						o := a.out(c.ID)
						if !o.known {
							o.OutRec, o.known = c, true
						}
						o.creators = append(o.creators, t.ID)
					}
				}
				// the same transaction can be handed in again (as a parent,
				// or rebuilt identically after a restart dropped it)
				p.adds = append(p.adds, i)
			}
		}
	}
	a.inPool = make([]map[types.TransactionID]bool, len(a.changes))
	for k, i := range a.changes {
		m := make(map[types.TransactionID]bool, len(a.ev[i].Pool))
		for _, id := range a.ev[i].Pool {
			m[id] = true
		}
		a.inPool[k] = m
	}
}

// surelyPooled reports whether transaction t was in the pool during the whole
// interval [c, r]: some submission of it had returned before c and every
// block/restart from that submission on that could have removed it before r
// left it in the pool.
func (a *analysis) surelyPooled(t types.TransactionID, c, r int64) bool {
	p := a.ptx[t]
	if p == nil {
		return false
	}
next:
	for _, ai := range p.adds {
		add := &a.ev[ai]
		if add.Ret >= c {
			continue
		}
		for k, i := range a.changes {
			e := &a.ev[i]
			if e.Ret < add.Call || e.Call > r {
				continue
			}
			if !a.inPool[k][t] {
				continue next
			}
		}
		return true
	}
	return false
}

// possiblyPooled reports whether transaction t may have been in the pool at
// some instant of [c, r].
func (a *analysis) possiblyPooled(t types.TransactionID, c, r int64) bool {
	p := a.ptx[t]
	if p == nil {
		return false
	}
next:
	for _, ai := range p.adds {
		add := &a.ev[ai]
		if add.Call > r {
			continue
		}
		for k, i := range a.changes {
			e := &a.ev[i]
			if e.Call > add.Ret && e.Ret < c && !a.inPool[k][t] {
				continue next // it had left the pool again before the call started
			}
		}
		return true
	}
	return false
}

// matureBy reports whether a block of height >= m may have reached the wallet
// store before sequence number r.
func (a *analysis) matureBy(m uint64, r int64) bool {
	if m == 0 || m < a.minH {
		return true
	}
	i, ok := a.storeEv[m]
	return ok && a.ev[i].Call < r
}

// delivery returns the event within which the wallet store applied the block
// of block event b (-1: never, or b < 0).
func (a *analysis) delivery(b int) int {
	if b < 0 {
		return -1
	}
	if i, ok := a.storeEv[a.ev[b].Height]; ok {
		return i
	}
	return -1
}

// heightsBefore returns the manager's and the wallet store's height as far as
// events that had returned before sequence number c establish them.
func (a *analysis) heightsBefore(c int64) (cm, store uint64) {
	for i := range a.ev {
		e := &a.ev[i]
		if e.Ret >= c {
			continue
		}
		if e.Op == OpBlock && e.OK && e.Height > cm {
			cm = e.Height
		}
		if (e.Op == OpBlock || e.Op == OpDeliver) && e.To > store {
			store = e.To
		}
	}
	if a.legacy {
		store = cm // every block was delivered within its own event
	}
	return
}

// overlapsChange reports whether a block or restart (and, with deliveries, a
// delivery of blocks to the wallet store) overlaps [c, r].
func (a *analysis) overlapsChange(c, r int64, deliveries bool) bool {
	for i := range a.ev {
		e := &a.ev[i]
		if e.Op == OpBlock || e.Op == OpRestart || (deliveries && e.Op == OpDeliver) {
			if e.Call < r && e.Ret > c {
				return true
			}
		}
	}
	return false
}

// spentInPendingBlock reports whether output id had been spent by a block the
// manager connected before sequence number by, of which the wallet store had
// not been told before sequence number c (the call that selected it began).
func (a *analysis) spentInPendingBlock(id types.SiacoinOutputID, c, by int64) bool {
	o := a.outs[id]
	if o == nil || o.spentEv < 0 || a.ev[o.spentEv].Call >= by {
		return false
	}
	d := a.delivery(o.spentEv)
	return d < 0 || a.ev[d].Ret > c
}

// pendingSpendAt reports whether at sequence number c some output of the
// wallet was spent on chain without the wallet store knowing.
func (a *analysis) pendingSpendAt(c int64) bool {
	for id, o := range a.outs {
		if o.known && o.Addr == a.h.Addr && a.spentInPendingBlock(id, c, c) {
			return true
		}
	}
	return false
}

// explainSplitRefusal models, for the SplitUTXO call at event index i that the
// chain manager refused, which output the call picked as "largest" and returns
// the model's explanation of the refusal, or "" if it has none:
//
//   - "unconfirmed-output-picked-while-lagging": the wallet store lagged the
//     manager and the largest candidate was an unconfirmed output of a pooled
//     transaction. Manager.V2TransactionSet then validates the pooled parents
//     (proofs current at the manager's tip) against the transaction's basis
//     (the store's older tip): a chain manager limitation; SplitUTXO returned
//     an error and reserved nothing.
//   - "input-spent-in-pending-block": the picked output had been spent by a
//     block the wallet store had not been told about (its reservation gone
//     through a restart or release); the set is built for the store's tip and
//     refused at the manager's.
//   - "undecided-concurrent": other recorded calls or chain changes overlap the
//     split, so reservations and pool cannot be folded sequentially, and one of
//     the two situations above may have applied.
//
// A refusal at the V2TransactionSet stage ("failed to create split transaction
// set") is validated against the index SplitUTXO itself passes; a pending spend
// cannot explain it (at the store's tip the output is unspent and its proof
// valid), so handing the manager any other index than the store's shows here.
func (a *analysis) explainSplitRefusal(i int) string {
	e := &a.ev[i]
	c := e.Call
	createStage := strings.Contains(e.Err, "failed to create split transaction set")
	cmH, stH := a.heightsBefore(c)
	lagging := cmH > stH
	held := make(map[int]map[types.SiacoinOutputID]bool)
	for j := range a.ev {
		f := &a.ev[j]
		if j == i || f.Op == OpBarrier {
			continue
		}
		if f.Call < e.Ret && f.Ret > c {
			// concurrent: be conservative
			if a.pendingSpendAt(e.Ret) && !createStage {
				return "undecided-concurrent"
			}
			for _, o := range a.outs {
				if !o.known || o.Addr != a.h.Addr {
					continue
				}
				if cd := a.delivery(o.createdEv); cd >= 0 && a.ev[cd].Ret < c {
					continue
				}
				for _, t := range o.creators {
					if a.possiblyPooled(t, c, e.Ret) {
						return "undecided-concurrent"
					}
				}
			}
			return ""
		}
		if f.Ret >= c {
			continue
		}
		switch {
		case f.Op == OpRestart, f.Op == OpSleep && f.Probe == "expired":
			held = make(map[int]map[types.SiacoinOutputID]bool)
		case f.Op == OpRelease:
			delete(held, f.H)
		case f.IsAcquire():
			m := held[f.H]
			if m == nil {
				m = make(map[types.SiacoinOutputID]bool)
				held[f.H] = m
			}
			for _, sel := range f.Sel {
				for _, x := range sel {
					m[x.ID] = true
				}
			}
		}
	}
	isHeld := func(id types.SiacoinOutputID) bool {
		for _, m := range held {
			if m[id] {
				return true
			}
		}
		return false
	}
	poolSpent := func(id types.SiacoinOutputID) bool {
		for _, t := range a.spenders[id] {
			if a.surelyPooled(t, c, c) {
				return true
			}
		}
		return false
	}
	var confirmedMax, unconfirmedMax types.Currency
	var picked types.SiacoinOutputID
	for id, o := range a.outs {
		if !o.known || o.Addr != a.h.Addr || o.Value.Cmp(e.Fee) < 0 || isHeld(id) || poolSpent(id) {
			continue
		}
		cd, sd := a.delivery(o.createdEv), a.delivery(o.spentEv)
		if cd >= 0 && a.ev[cd].Ret < c {
			// in the wallet store
			if (sd >= 0 && a.ev[sd].Ret < c) || o.Maturity > stH {
				continue
			}
			if o.Value.Cmp(confirmedMax) > 0 {
				confirmedMax, picked = o.Value, id
			}
			continue
		}
		for _, t := range o.creators {
			if a.surelyPooled(t, c, c) && o.Value.Cmp(unconfirmedMax) > 0 {
				unconfirmedMax = o.Value
			}
		}
	}
	switch {
	case unconfirmedMax.Cmp(confirmedMax) > 0:
		if lagging {
			return "unconfirmed-output-picked-while-lagging"
		}
	case !createStage && !confirmedMax.IsZero():
		// several outputs may share the largest value; any of them spent in
		// a pending block explains the refusal
		for id, o := range a.outs {
			if o.known && o.Addr == a.h.Addr && o.Value.Equals(confirmedMax) && a.spentInPendingBlock(id, c, c) {
				return "input-spent-in-pending-block"
			}
		}
		_ = picked
	}
	return ""
}

var ephemeralRe = regexp.MustCompile(`claims unknown ephemeral output ([0-9a-f]{64})`)

// crossVersionEphemeral reports whether a refusal names an ephemeral output
// that a pooled v1 transaction created.
func (a *analysis) crossVersionEphemeral(msg string) bool {
	m := ephemeralRe.FindStringSubmatch(msg)
	if m == nil {
		return false
	}
	for id, o := range a.outs {
		if hex.EncodeToString(id[:]) != m[1] {
			continue
		}
		for _, c := range o.creators {
			if p := a.ptx[c]; p != nil && !p.V2 {
				return true
			}
		}
	}
	return false
}

// eligibility decides one selected input of a successful call spanning [c, r].
func (a *analysis) eligibility(e *Event, s Sel) (reason string) {
	c, r := e.Call, e.Ret
	o := a.outs[s.ID]
	if o == nil || !o.known {
		return "unknown-output"
	}
	if o.Addr != a.h.Addr {
		return "not-owned"
	}
	for _, t := range a.spenders[s.ID] {
		if a.surelyPooled(t, c, r) {
			return "pool-spent"
		}
	}
	// what the wallet may select is judged by what its store has been told:
	// a block counts from the event that delivered it to the store
	cd, sd := a.delivery(o.createdEv), a.delivery(o.spentEv)
	confirmed := cd >= 0 && a.ev[cd].Call < r
	if confirmed {
		if sd >= 0 && a.ev[sd].Ret < c {
			return "spent-on-chain"
		}
		if a.matureBy(o.Maturity, r) {
			return ""
		}
		return "immature"
	}
	// not (yet) on chain: only legitimate as an unconfirmed pool output
	pooled := false
	for _, t := range o.creators {
		pooled = pooled || a.possiblyPooled(t, c, r)
	}
	if !pooled {
		return "nonexistent-output"
	}
	if !(e.Unconf || e.Op == OpSplit) {
		// the creating transaction may have been confirmed by a block that
		// overlaps the call
		if cd >= 0 && a.ev[cd].Call < r {
			return ""
		}
		return "unconfirmed-not-requested"
	}
	a.st.UnconfirmedPicked++
	return ""
}

func sum(vs []types.Currency) (s types.Currency) {
	for _, v := range vs {
		s = s.Add(v)
	}
	return
}

func opOutcome(e *Event) string {
	switch {
	case e.Panic != "":
		return "panic"
	case e.NotEnough:
		return "err-not-enough-funds"
	case !e.OK:
		return "err"
	case e.IsFundKind() && len(e.Sel) == 0:
		return "ok-nothing-selected"
	}
	return "ok"
}

// checkCalls: per-call oracles (panic, structure, eligibility, conservation).
func (a *analysis) checkCalls() {
	for i := range a.ev {
		e := &a.ev[i]
		if e.Op == OpBarrier {
			continue
		}
		a.st.Ops[e.Op+":"+opOutcome(e)]++
		if e.Panic != "" {
			a.report("panic:"+e.Op, "wallet call panicked", map[string]any{"event": e})
			continue
		}
		for _, s := range e.Struct {
			if strings.HasPrefix(s, "input proof does not verify") || strings.HasPrefix(s, "returned basis is not") {
				a.report("returned-basis:"+e.Op, s+" (the basis a funding call returns must be the index its input proofs are valid for, also while the wallet's index lags the chain manager)", map[string]any{"event": e})
				continue
			}
			a.report("structure:"+e.Op+":"+strings.ReplaceAll(s, " ", "-"), s, map[string]any{"event": e})
		}
		if !e.IsFundKind() {
			continue
		}
		if !e.OK {
			a.st.FailedCalls++
			if e.Op == OpSplit && a.h.Regime != RegimeV1 && (strings.Contains(e.Err, "failed to create split transaction set") || strings.Contains(e.Err, "failed to broadcast split transaction")) {
				// SplitUTXO built and signed a transaction and the manager
				// refused it. Legitimate only when the state moved under the
				// call or when the input had been spent by a block the wallet
				// store has not been told about.
				if a.crossVersionEphemeral(e.Err) {
					// SplitUTXO picked an unconfirmed output of a pooled v1
					// transaction (hardfork window only); it returned an error
					// and reserved nothing, which the statement allows
					a.st.SplitCrossVersion++
				} else if why := a.explainSplitRefusal(i); why != "" {
					a.st.SplitExplained[why]++
				} else {
					a.report("acceptance:"+OpSplit, "SplitUTXO's own transaction was refused by the chain manager", map[string]any{"event": e})
				}
			}
			continue
		}
		if len(e.Sel) == 0 {
			// nothing selected: a zero amount, or Redistribute/SplitUTXO
			// finding nothing to do
			if (e.Op == OpFund1 || e.Op == OpFund2) && (!e.Amount.IsZero() || len(e.Outs) > 0 && len(e.Outs[0]) > 0) {
				a.report("conservation:nothing-selected", "funding a non-zero amount succeeded without inputs", map[string]any{"event": e})
			}
			continue
		}
		a.st.Selections++
		cmH, stH := a.heightsBefore(e.Call)
		lag := 0
		if cmH > stH {
			lag = int(cmH - stH)
		}
		if lag > 0 {
			a.st.AcquiresLagging++
			if lag > a.st.MaxLag {
				a.st.MaxLag = lag
			}
			if lag > a.lagOf[e.H] {
				a.lagOf[e.H] = lag
			}
			k := lag
			if k > 8 {
				k = 8
			}
			a.st.FundsByLag[fmt.Sprintf("%s:lag%d", e.Op, k)]++
		}
		a.st.ProofsVerified += e.Proofs
		if e.StaleAtTip {
			a.st.StaleAtTip++
		}
		seen := make(map[types.SiacoinOutputID]bool)
		outputsTotal := 0
		dup := false
		for _, sel := range e.Sel {
			for _, s := range sel {
				if seen[s.ID] && !dup {
					dup = true
					a.tainted[e.H] = true
					a.st.DupSelections++
					a.report("selection-duplicates-input", "one call selected the same output twice (the transaction double-spends it and the change is inflated by its value)", map[string]any{"event": e, "output": s.ID, "opts": a.h.Opts})
				}
				seen[s.ID] = true
			}
		}
		for j, sel := range e.Sel {
			var in types.Currency
			bad := dup // consequences of a duplicated input are not reported again
			for _, s := range sel {
				a.st.InputsChecked++
				if reason := a.eligibility(e, s); reason != "" {
					bad = true
					a.report("ineligible-input:"+reason, "wallet selected an input that is "+reason, map[string]any{"event": e, "output": s.ID, "known": a.outs[s.ID]})
					continue
				}
				o := a.outs[s.ID]
				if s.Claimed != nil && !s.Claimed.Equals(o.Value) {
					a.report("conservation:claimed-value", "v2 input states a value different from the output's value", map[string]any{"event": e, "output": s.ID, "actual": o.Value})
				}
				in = in.Add(o.Value)
			}
			if bad {
				continue
			}
			var outs []types.Currency
			if j < len(e.Outs) {
				outs = e.Outs[j]
			}
			for _, v := range outs {
				if v.IsZero() {
					a.report("conservation:zero-output", "wallet wrote a zero-valued output", map[string]any{"event": e})
				}
			}
			a.st.ConservationEq++
			switch e.Op {
			case OpFund1, OpFund2:
				want := e.Amount.Add(sum(outs))
				if len(outs) > 1 {
					a.report("conservation:more-than-one-change-output", "fund call added more than one output", map[string]any{"event": e})
				}
				if !in.Equals(want) {
					a.report("conservation:fund", fmt.Sprintf("selected inputs %v != amount %v + change %v", in, e.Amount, sum(outs)), map[string]any{"event": e})
				}
				// coverage: did defragmentation add inputs beyond need?
				vals := make([]types.Currency, 0, len(sel))
				for _, s := range sel {
					vals = append(vals, a.outs[s.ID].Value)
				}
				sort.Slice(vals, func(x, y int) bool { return vals[x].Cmp(vals[y]) > 0 })
				var acc types.Currency
				for k, v := range vals {
					acc = acc.Add(v)
					if acc.Cmp(e.Amount) >= 0 {
						if k+1 < len(vals) {
							a.st.DefragExtra++
						}
						break
					}
				}
			case OpRedist:
				var fee types.Currency
				if j < len(e.Fees) {
					fee = e.Fees[j]
				}
				if !in.Equals(sum(outs).Add(fee)) {
					a.report("conservation:redistribute", fmt.Sprintf("inputs %v != outputs %v + fee %v", in, sum(outs), fee), map[string]any{"event": e, "txn": j})
				}
				n := 0
				for k, v := range outs {
					if v.Equals(e.Amount) {
						n++
					} else if k != len(outs)-1 {
						a.report("conservation:redistribute-output-value", "an output other than the trailing change differs from the requested amount", map[string]any{"event": e, "txn": j})
					}
				}
				if n == len(outs) && n > 0 {
					// possibly n-1 outputs plus a change that happens to equal amount
					n = len(outs)
				}
				if n > redistributeBatch+1 {
					a.report("conservation:redistribute-batch", "more outputs in one transaction than the batch size", map[string]any{"event": e, "txn": j})
				}
				outputsTotal += n
			case OpSplit:
				var fee types.Currency
				if j < len(e.Fees) {
					fee = e.Fees[j]
				}
				if !in.Equals(sum(outs).Add(fee)) {
					a.report("conservation:split", fmt.Sprintf("input %v != outputs %v + fee %v", in, sum(outs), fee), map[string]any{"event": e})
				}
				if len(sel) != 1 {
					a.report("conservation:split-inputs", "split did not spend exactly one output", map[string]any{"event": e})
				}
				for _, v := range outs {
					if v.Cmp(e.Fee) < 0 {
						a.report("conservation:split-min-amount", "split created an output below minAmount", map[string]any{"event": e})
						break
					}
				}
			}
		}
		if e.Op == OpRedist && outputsTotal > e.N+len(e.Sel) {
			a.report("conservation:redistribute-count", "more outputs created than requested", map[string]any{"event": e})
		}
	}
}

const redistributeBatch = 10

// ---------------------------------------------------------------------------
// disjointness: porcupine over a per-output reservation model

type resIn struct {
	ID   types.SiacoinOutputID
	Kind uint8 // 0 acquire, 1 release, 2 reset (restart), 3 spend confirmed
	Ev   int
}

var resModel = porcupine.Model{
	Partition: func(history []porcupine.Operation) [][]porcupine.Operation {
		m := make(map[types.SiacoinOutputID][]porcupine.Operation)
		var order []types.SiacoinOutputID
		for _, op := range history {
			id := op.Input.(resIn).ID
			if _, ok := m[id]; !ok {
				order = append(order, id)
			}
			m[id] = append(m[id], op)
		}
		parts := make([][]porcupine.Operation, 0, len(m))
		for _, id := range order {
			parts = append(parts, m[id])
		}
		return parts
	},
	Init: func() interface{} { return false },
	Step: func(state, input, output interface{}) (bool, interface{}) {
		held := state.(bool)
		switch input.(resIn).Kind {
		case 0:
			return !held, true
		default:
			return true, false
		}
	},
	DescribeOperation: func(input, output interface{}) string {
		in := input.(resIn)
		return fmt.Sprintf("%s(%v) ev#%d", [...]string{"acquire", "release", "reset", "spent"}[in.Kind], in.ID, in.Ev)
	},
}

func (a *analysis) checkDisjoint(timeout time.Duration) {
	acq := make(map[types.SiacoinOutputID]int)
	for i := range a.ev {
		e := &a.ev[i]
		if e.IsAcquire() {
			for _, sel := range e.Sel {
				for _, s := range sel {
					acq[s.ID]++
				}
			}
		}
	}
	var ops []porcupine.Operation
	add := func(e *Event, i int, id types.SiacoinOutputID, kind uint8) {
		ops = append(ops, porcupine.Operation{ClientId: e.G, Input: resIn{id, kind, i}, Call: e.Call, Return: e.Ret})
	}
	for i := range a.ev {
		e := &a.ev[i]
		switch {
		case e.IsAcquire():
			once := make(map[types.SiacoinOutputID]bool)
			for _, sel := range e.Sel {
				for _, s := range sel {
					if !once[s.ID] { // a duplicate within one result is reported by checkCalls
						once[s.ID] = true
						add(e, i, s.ID, 0)
					}
				}
			}
		case e.Op == OpRelease:
			done := make(map[types.SiacoinOutputID]bool)
			for _, id := range e.Released {
				if acq[id] > 0 && !done[id] {
					done[id] = true
					add(e, i, id, 1)
				}
			}
		case e.Op == OpRestart:
			for id := range acq {
				add(e, i, id, 2)
			}
		case e.Op == OpBlock:
			for _, id := range e.Spent {
				if acq[id] > 0 {
					add(e, i, id, 3)
				}
			}
		case e.Op == OpSleep && e.Probe == "expired":
			// a sleep far longer than a short reservation period: every
			// reservation taken before it has ended
			for id := range acq {
				add(e, i, id, 2)
			}
		}
	}
	a.st.Partitions += len(acq)
	for _, n := range acq {
		if n >= 2 {
			a.st.ContendedParts++
		}
	}
	a.st.PorcupineOps += len(ops)
	if len(ops) == 0 {
		return
	}
	res, info := porcupine.CheckOperationsVerbose(resModel, ops, timeout)
	switch res {
	case porcupine.Unknown:
		a.st.PorcupineUnknown = true
	case porcupine.Illegal:
		// name the partitions that cannot be linearised
		parts := resModel.Partition(ops)
		var bad []any
		for _, p := range parts {
			if porcupine.CheckOperations(resModel, p) {
				continue
			}
			id := p[0].Input.(resIn).ID
			var evs []*Event
			for _, op := range p {
				in := op.Input.(resIn)
				if in.Kind != 2 {
					evs = append(evs, &a.ev[in.Ev])
				}
			}
			bad = append(bad, map[string]any{"output": id, "events": evs})
			if len(bad) >= 3 {
				break
			}
		}
		_ = info
		a.report("disjoint:double-allocation", "an output was handed out while another request still held it (history not linearisable against the reservation model)", map[string]any{"partitions": bad})
	}
}

// ---------------------------------------------------------------------------
// quiescent points

func idSet(ids []types.SiacoinOutputID) map[types.SiacoinOutputID]bool {
	m := make(map[types.SiacoinOutputID]bool, len(ids))
	for _, id := range ids {
		m[id] = true
	}
	return m
}

func (a *analysis) checkBarriers() {
	unspent := make(map[types.SiacoinOutputID]bool) // confirmed, unspent, any owner
	heldBy := make(map[int]map[types.SiacoinOutputID]bool)
	var model map[types.SiacoinOutputID]bool
	var modelSum types.Currency
	haveModel := false
	afterRestart := false
	for i := range a.ev {
		e := &a.ev[i]
		switch {
		case e.Op == OpBlock && e.OK:
			for _, c := range e.Created {
				unspent[c.ID] = true
			}
			for _, id := range e.Spent {
				delete(unspent, id)
			}
			haveModel = false
		case e.Op == OpRestart:
			heldBy = make(map[int]map[types.SiacoinOutputID]bool)
			haveModel = false
			afterRestart = true
		case e.Op == OpSleep && e.Probe == "expired":
			heldBy = make(map[int]map[types.SiacoinOutputID]bool)
			haveModel = false
		case e.Op == OpRelease:
			// (call order is not a linearisation: a release must not be
			// applied to another handle's later acquisition of the same
			// output; porcupine decides whether that acquisition was legal)
			delete(heldBy, e.H)
		case e.IsAcquire():
			m := heldBy[e.H]
			if m == nil {
				m = make(map[types.SiacoinOutputID]bool)
				heldBy[e.H] = m
			}
			for _, sel := range e.Sel {
				for _, s := range sel {
					m[s.ID] = true
				}
			}
		}
		if e.IsFundKind() && e.Probe != "" {
			a.st.Probes++
			if !haveModel {
				continue
			}
			switch e.Probe {
			case "plus1":
				if e.OK || !e.NotEnough {
					a.report("agreement:spendable-plus-one-funded", "funding one hasting more than Balance().Spendable did not fail with ErrNotEnoughFunds", map[string]any{"event": e, "spendable": modelSum})
				}
			case "exact":
				if !e.OK {
					a.report("agreement:spendable-not-fundable", "funding exactly Balance().Spendable failed", map[string]any{"event": e, "spendable": modelSum})
					break
				}
				for _, sel := range e.Sel {
					for _, s := range sel {
						if !model[s.ID] {
							a.report("agreement:selection-outside-model", "funding exactly the spendable amount selected an output outside the model's spendable set", map[string]any{"event": e, "output": s.ID})
						}
					}
				}
			}
			continue
		}
		if e.Op != OpBarrier {
			continue
		}
		a.st.Barriers++
		if afterRestart {
			a.st.BarriersAfterRst++
			afterRestart = false
		}
		if !e.OK {
			a.report("harness:wallet-not-synced-at-barrier", "wallet store tip differs from the manager tip at a barrier", map[string]any{"event": e})
			continue
		}
		held := make(map[types.SiacoinOutputID]bool)
		for _, m := range heldBy {
			for id := range m {
				held[id] = true
			}
		}
		p1, p2 := idSet(e.PoolSpentV1), idSet(e.PoolSpentV2)
		model = make(map[types.SiacoinOutputID]bool)
		modelSum = types.ZeroCurrency
		feat := map[string]bool{}
		for id := range unspent {
			o := a.outs[id]
			if o == nil || o.Addr != a.h.Addr {
				continue
			}
			switch {
			case o.Maturity > e.Height:
				feat["immature"] = true
			case held[id] && (p1[id] || p2[id]):
				feat["locked+pool-spent"] = true
			case held[id]:
				feat["locked"] = true
			case p1[id]:
				feat["pool-spent-v1-unlocked"] = true
			case p2[id]:
				feat["pool-spent-v2-unlocked"] = true
			default:
				feat["spendable"] = true
				model[id] = true
				modelSum = modelSum.Add(o.Value)
			}
		}
		for id := range held {
			if !unspent[id] {
				if o := a.outs[id]; o != nil && o.createdEv < 0 {
					feat["locked-unconfirmed"] = true
				}
			}
		}
		inPool := make(map[types.TransactionID]bool, len(e.Pool))
		for _, t := range e.Pool {
			inPool[t] = true
		}
		for _, o := range a.outs {
			if !o.known || o.Addr != a.h.Addr || unspent[o.ID] || p1[o.ID] || p2[o.ID] {
				continue
			}
			for _, t := range o.creators {
				if inPool[t] {
					feat["unconfirmed-output"] = true
				}
			}
		}
		for f := range feat {
			a.st.States[f]++
		}
		haveModel = true

		// Balance().Spendable against the model
		if !e.Spendable.Equals(modelSum) {
			a.report("agreement:balance-vs-model", fmt.Sprintf("Balance().Spendable = %v, model's spendable set sums to %v", e.Spendable, modelSum), map[string]any{"barrier": e, "held": len(held)})
		}
		// SpendableOutputs() against the model
		listed := make(map[types.SiacoinOutputID]bool)
		var listedSum types.Currency
		var extra, missing, knownDefect []types.SiacoinOutputID
		for _, l := range e.Listed {
			listed[l.ID] = true
			listedSum = listedSum.Add(l.Value)
			if o := a.outs[l.ID]; o != nil && o.known && !o.Value.Equals(l.Value) {
				a.report("agreement:listed-value", "SpendableOutputs lists an output with a wrong value", map[string]any{"barrier": e, "output": l.ID})
			}
			if !model[l.ID] {
				o := a.outs[l.ID]
				if p2[l.ID] && !p1[l.ID] && !held[l.ID] && unspent[l.ID] && o != nil && o.Addr == a.h.Addr && o.Maturity <= e.Height {
					knownDefect = append(knownDefect, l.ID)
				} else {
					extra = append(extra, l.ID)
				}
			}
		}
		for id := range model {
			if !listed[id] {
				missing = append(missing, id)
			}
		}
		if len(knownDefect) > 0 {
			a.st.KnownDefectHits++
			a.report("spendable-lists-pool-spent-output", fmt.Sprintf("SpendableOutputs() lists %d output(s) that a pooled v2 transaction spends; Balance().Spendable = %v and input selection exclude them (listed sum %v)", len(knownDefect), e.Spendable, listedSum), map[string]any{"barrier": e, "outputs": knownDefect})
		}
		if len(extra) > 0 {
			a.report("agreement:spendable-outputs-extra", "SpendableOutputs() lists outputs that are not spendable", map[string]any{"barrier": e, "outputs": extra})
		}
		if len(missing) > 0 {
			a.report("agreement:spendable-outputs-missing", "SpendableOutputs() omits spendable outputs", map[string]any{"barrier": e, "outputs": missing})
		}
		// direct disjointness: un-released, un-broadcast funded transactions
		owner := make(map[types.SiacoinOutputID]int)
		for _, hi := range e.Outstanding {
			a.st.DirectDisjoint++
			for _, id := range hi.IDs {
				if prev, ok := owner[id]; ok && prev != hi.H {
					a.report("disjoint:shared-input-at-barrier", "two outstanding funded transactions share an input", map[string]any{"barrier": e, "output": id, "handles": []int{prev, hi.H}})
				}
				owner[id] = hi.H
				if p1[id] || p2[id] {
					a.report("disjoint:outstanding-input-pool-spent", "an outstanding funded transaction shares an input with a pooled transaction", map[string]any{"barrier": e, "output": id, "handle": hi.H})
				}
			}
		}
	}
}

// ---------------------------------------------------------------------------
// acceptance

func (a *analysis) checkAcceptance() {
	for i := range a.ev {
		e := &a.ev[i]
		switch e.Op {
		case OpSubmit1, OpSubmit2, OpBroadcast:
		default:
			continue
		}
		a.st.Submits++
		if a.lagOf[e.H] > 0 {
			a.st.SubmitsLagging++
			if e.OK {
				a.st.AcceptedLagging++
			}
		}
		if e.OK {
			a.st.Accepted++
			continue
		}
		overlap := false
		for _, k := range a.changes {
			c := &a.ev[k]
			if c.Call < e.Ret && c.Ret > e.Call {
				overlap = true
			}
		}
		// a selection that ran while a block was being applied may have seen
		// the pool after and the wallet store before that block (the manager
		// and the store are updated one after the other): an input confirmed
		// spent by that very block can then look free. Inherent to the
		// two-step update, so not held against the wallet.
		for j := range a.ev {
			f := &a.ev[j]
			if f.H != e.H || !f.IsAcquire() {
				continue
			}
			if a.overlapsChange(f.Call, f.Ret, true) {
				overlap = true
			}
		}
		if overlap {
			a.st.Undecided++
			continue
		}
		// The wallet's index may lag the manager: an input that a pending
		// block (connected to the manager, not yet delivered to the wallet
		// store when the selecting call began) had spent explains a refusal.
		// Nothing else about a lagging wallet does: the returned basis is the
		// index the proofs are valid for, and the pool updates them from there.
		explained := false
		for j := range a.ev {
			f := &a.ev[j]
			if f.H != e.H || !f.IsAcquire() {
				continue
			}
			for _, sel := range f.Sel {
				for _, x := range sel {
					if a.spentInPendingBlock(x.ID, f.Call, e.Ret) {
						explained = true
					}
				}
			}
		}
		if explained {
			a.st.RefusedPendingSpend++
			continue
		}
		if a.tainted[e.H] {
			continue // double-spends an output the wallet selected twice: reported where it was selected
		}
		// was an unconfirmed output of the other transaction version selected?
		cross := false
		if len(e.Txs) > 0 {
			t := e.Txs[len(e.Txs)-1]
			for _, id := range t.Spends {
				o := a.outs[id]
				if o == nil || (o.createdEv >= 0 && a.ev[o.createdEv].Ret < e.Call) {
					continue
				}
				for _, c := range o.creators {
					if p := a.ptx[c]; p != nil && p.V2 != t.V2 {
						cross = true
					}
				}
			}
		}
		if cross {
			a.report("acceptance:unconfirmed-parent-of-other-version", "the funded transaction spends an unconfirmed output created by a pooled transaction of the other version; no pool submission can carry both", map[string]any{"event": e})
			continue
		}
		a.report("acceptance:"+e.Op, "the signed funded transaction was rejected by the pool", map[string]any{"event": e})
	}
}
