package walletlab

import (
	"crypto/sha256"
	"encoding/hex"
	"fmt"
	"sort"

	"go.sia.tech/core/types"
)

// Operation names in the event log.
const (
	OpFund1     = "FundTransaction"
	OpFund2     = "FundV2Transaction"
	OpRedist    = "Redistribute"
	OpSplit     = "SplitUTXO"
	OpRelease   = "ReleaseInputs"
	OpSign1     = "SignTransaction"
	OpSign2     = "SignV2Inputs"
	OpSubmit1   = "AddPoolTransactions"
	OpSubmit2   = "AddV2PoolTransactions"
	OpBroadcast = "BroadcastV2TransactionSet"
	OpBalance   = "Balance"
	OpSpendable = "SpendableOutputs"
	OpBlock     = "block"
	OpDeliver   = "deliver"
	OpRestart   = "restart"
	OpBarrier   = "barrier"
	OpSleep     = "sleep"
)

// A Sel is one input the wallet selected.
type Sel struct {
	ID        types.SiacoinOutputID `json:"id"`
	Claimed   *types.Currency       `json:"claimed,omitempty"` // value the v2 input's parent element states
	Ephemeral bool                  `json:"ephemeral,omitempty"`
}

// An OutRec describes a siacoin output.
type OutRec struct {
	ID       types.SiacoinOutputID `json:"id"`
	Value    types.Currency        `json:"value"`
	Addr     types.Address         `json:"addr"`
	Maturity uint64                `json:"maturity,omitempty"`
}

// A PoolTx is a transaction handed to the pool.
type PoolTx struct {
	ID      types.TransactionID     `json:"id"`
	V2      bool                    `json:"v2,omitempty"`
	Spends  []types.SiacoinOutputID `json:"spends,omitempty"`
	Creates []OutRec                `json:"creates,omitempty"`
}

// HandleInputs lists the inputs of one outstanding funded transaction (set).
type HandleInputs struct {
	H   int                     `json:"h"`
	IDs []types.SiacoinOutputID `json:"ids"`
}

// An Event is one recorded call at the caller boundary (or a block, restart,
// barrier observation made by the harness).
type Event struct {
	G     int    `json:"g"`
	Op    string `json:"op"`
	Call  int64  `json:"call"`
	Ret   int64  `json:"ret"`
	H     int    `json:"h,omitempty"`     // handle of the transaction (set) concerned
	Probe string `json:"probe,omitempty"` // barrier tag / probe kind

	// arguments
	Amount types.Currency `json:"amount"`
	Unconf bool           `json:"use_unconfirmed,omitempty"`
	N      int            `json:"n,omitempty"` // outputs (Redistribute) / n (SplitUTXO)
	Fee    types.Currency `json:"fee"`         // feePerByte (Redistribute) / minAmount (SplitUTXO)
	PreIn  int            `json:"pre_inputs,omitempty"`
	SleepM int64          `json:"sleep_ms,omitempty"`

	// results
	OK        bool                    `json:"ok"`
	Err       string                  `json:"err,omitempty"`
	NotEnough bool                    `json:"err_not_enough_funds,omitempty"`
	Panic     string                  `json:"panic,omitempty"`
	Sel       [][]Sel                 `json:"selected,omitempty"` // per resulting transaction
	Outs      [][]types.Currency      `json:"outputs_added,omitempty"`
	Fees      []types.Currency        `json:"miner_fees,omitempty"`
	Basis     types.ChainIndex        `json:"basis"`
	Struct    []string                `json:"structural,omitempty"` // structural defects seen at the call site
	Txs       []PoolTx                `json:"txs,omitempty"`        // set handed to the pool
	Released  []types.SiacoinOutputID `json:"released,omitempty"`

	// block / restart / barrier
	Height      uint64                  `json:"height,omitempty"`
	From        uint64                  `json:"delivered_from,omitempty"` // heights applied to the wallet store within this event
	To          uint64                  `json:"delivered_to,omitempty"`
	Proofs      int                     `json:"proofs_verified,omitempty"` // inputs whose proof was verified against the returned basis
	StaleAtTip  bool                    `json:"proofs_stale_at_manager_tip,omitempty"`
	Created     []OutRec                `json:"created,omitempty"`
	Spent       []types.SiacoinOutputID `json:"spent,omitempty"`
	Pool        []types.TransactionID   `json:"pool,omitempty"`
	Spendable   types.Currency          `json:"spendable"`
	Listed      []OutRec                `json:"listed,omitempty"`
	PoolSpentV1 []types.SiacoinOutputID `json:"pool_spent_v1,omitempty"`
	PoolSpentV2 []types.SiacoinOutputID `json:"pool_spent_v2,omitempty"`
	Outstanding []HandleInputs          `json:"outstanding,omitempty"`
}

// IsAcquire reports whether the event is a successful call that selected (and
// must have reserved) inputs.
func (e *Event) IsAcquire() bool {
	switch e.Op {
	case OpFund1, OpFund2, OpRedist, OpSplit:
		return e.OK && len(e.Sel) > 0
	}
	return false
}

// IsFundKind reports whether the event is a fund/redistribute/split call.
func (e *Event) IsFundKind() bool {
	switch e.Op {
	case OpFund1, OpFund2, OpRedist, OpSplit:
		return true
	}
	return false
}

// A History is everything recorded about one wallet from genesis on.
type History struct {
	Kind     string        `json:"kind"`
	Stream   uint64        `json:"rng_stream"`
	Regime   string        `json:"regime"`
	Opts     Opts          `json:"opts"`
	Workers  int           `json:"workers"`
	Addr     types.Address `json:"wallet_address"`
	Maturity uint64        `json:"maturity_delay"`
	Note     string        `json:"note,omitempty"`
	Events   []Event       `json:"events"`
}

// Merge folds per-goroutine logs into the history, ordered by call number.
func (h *History) Merge(recs ...*Rec) {
	for _, rc := range recs {
		h.Events = append(h.Events, rc.Events...)
		rc.Events = nil
	}
	sort.SliceStable(h.Events, func(i, j int) bool { return h.Events[i].Call < h.Events[j].Call })
}

// InterleavingSig hashes the order of call/return events of the wallet calls.
func (h *History) InterleavingSig() (sig string, maxConc int, overlaps int) {
	type pt struct {
		seq int64
		g   int
		op  string
		ret bool
	}
	var pts []pt
	for i := range h.Events {
		e := &h.Events[i]
		if e.Op == OpBarrier {
			continue
		}
		pts = append(pts, pt{e.Call, e.G, e.Op, false}, pt{e.Ret, e.G, e.Op, true})
	}
	sort.Slice(pts, func(i, j int) bool { return pts[i].seq < pts[j].seq })
	hs := sha256.New()
	open := 0
	for _, p := range pts {
		fmt.Fprintf(hs, "%d:%s:%v|", p.g, p.op, p.ret)
		if p.ret {
			open--
		} else {
			if open > 0 {
				overlaps++
			}
			open++
			if open > maxConc {
				maxConc = open
			}
		}
	}
	return hex.EncodeToString(hs.Sum(nil)[:12]), maxConc, overlaps
}
