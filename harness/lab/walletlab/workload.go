package walletlab

import (
	"errors"
	"fmt"
	"math/rand/v2"
	"runtime"
	"sync"
	"sync/atomic"
	"time"

	"go.sia.tech/core/types"
)

// History kinds.
const (
	KindConcurrent    = "concurrent"
	KindSequential    = "sequential"
	KindRestartDefect = "restart-after-broadcast"
	KindExpiryShort   = "expiry-30ms"
	KindExpiryLong    = "expiry-3h"
	// scripted reproducers of defects the random workload found
	KindFundAll      = "fund-everything-low-defrag-threshold"
	KindSplitV1Pool  = "split-with-unconfirmed-v1-output"
	KindCrossVersion = "fund-with-unconfirmed-output-of-other-version"
	// the wallet's index lags the chain manager by 1..8 blocks while it funds
	KindLagging = "lagging-wallet"
)

// A Config fully determines a history up to scheduling.
type Config struct {
	Kind    string `json:"kind"`
	Stream  uint64 `json:"rng_stream"`
	Regime  string `json:"regime"`
	Opts    Opts   `json:"opts"`
	Workers int    `json:"workers"`
	Phases  int    `json:"phases"`
	OpsEach int    `json:"ops_per_worker_per_phase"`
	UTXOs   int    `json:"initial_utxos"`
}

// RNGFor derives the PRNG of goroutine sub of a history.
type RNGFor func(sub uint64) *rand.Rand

type worker struct {
	g     int
	rng   *rand.Rand
	rec   *Rec
	owned []*Owned
}

type session struct {
	cfg     Config
	lab     *Lab
	h       *History
	main    *Rec
	rng     *rand.Rand
	workers []*worker
	miner   *Rec
}

var hasting = types.NewCurrency64(1)

// pow10 returns 10^n hastings.
func pow10(n int) types.Currency {
	c := types.NewCurrency64(1)
	for ; n > 0; n-- {
		c = c.Mul64(10)
	}
	return c
}

// typicalValue draws an output value from classes spanning 1 H .. ~10 KS.
func typicalValue(rng *rand.Rand) types.Currency {
	switch rng.IntN(8) {
	case 0:
		return types.NewCurrency64(1 + rng.Uint64N(5)) // a few hastings
	case 1:
		return pow10(18 + rng.IntN(4)).Mul64(1 + rng.Uint64N(9)) // below a split fee
	case 2, 3:
		return pow10(23 + rng.IntN(3)).Mul64(1 + rng.Uint64N(9))
	case 4, 5:
		return pow10(25 + rng.IntN(2)).Mul64(1 + rng.Uint64N(9))
	default:
		return pow10(27).Mul64(1 + rng.Uint64N(40))
	}
}

func (s *session) outstanding() (all []*Owned) {
	for _, w := range s.workers {
		all = append(all, w.owned...)
	}
	return
}

func (s *session) addr(rng *rand.Rand) types.Address {
	switch rng.IntN(4) {
	case 0:
		return s.lab.Addr
	case 1:
		return s.lab.Other
	}
	return types.VoidAddress
}

// newTxn builds an unfunded transaction whose outputs (and fee) total amount.
func (s *session) newTxn(rng *rand.Rand, v2 bool, amount types.Currency) *Owned {
	o := &Owned{H: s.lab.NewHandle(), V2: v2}
	var outs []types.SiacoinOutput
	var fee types.Currency
	rest := amount
	if rest.Cmp(types.NewCurrency64(4)) > 0 && rng.IntN(2) == 0 {
		fee = rest.Div64(uint64(4 + rng.IntN(1000)))
		if fee.IsZero() {
			fee = hasting
		}
		rest = rest.Sub(fee)
	}
	for parts := 1 + rng.IntN(3); parts > 0 && !rest.IsZero(); parts-- {
		v := rest
		if parts > 1 {
			v = rest.Div64(uint64(2 + rng.IntN(5)))
			if v.IsZero() {
				continue
			}
		}
		outs = append(outs, types.SiacoinOutput{Address: s.addr(rng), Value: v})
		rest = rest.Sub(v)
	}
	if v2 {
		o.T2 = []types.V2Transaction{{SiacoinOutputs: outs, MinerFee: fee}}
		o.Sign2 = [][]int{nil}
	} else {
		o.T1 = types.Transaction{SiacoinOutputs: outs}
		if !fee.IsZero() {
			o.T1.MinerFees = []types.Currency{fee}
		}
	}
	return o
}

// extend adds outputs worth amount to an owned, not yet signed transaction.
func (s *session) extend(rng *rand.Rand, o *Owned, amount types.Currency) {
	out := types.SiacoinOutput{Address: s.addr(rng), Value: amount}
	if o.V2 {
		o.T2[0].SiacoinOutputs = append(o.T2[0].SiacoinOutputs, out)
	} else {
		o.T1.SiacoinOutputs = append(o.T1.SiacoinOutputs, out)
	}
}

func (s *session) pickVersion(rng *rand.Rand) (v2 bool) {
	switch s.lab.Regime {
	case RegimeV1:
		return rng.IntN(8) == 0 // mostly the usable path; the other one is funded and released
	case RegimeV2:
		return rng.IntN(8) != 0
	}
	return rng.IntN(2) == 0
}

func (w *worker) drop(o *Owned) {
	for i, x := range w.owned {
		if x == o {
			w.owned = append(w.owned[:i], w.owned[i+1:]...)
			return
		}
	}
}

func (s *session) pickAmount(w *worker) types.Currency {
	rng := w.rng
	switch k := rng.IntN(12); {
	case k == 0:
		return types.ZeroCurrency
	case k == 1:
		return hasting
	case k <= 5:
		_, b := s.lab.Balance(w.rec)
		switch k {
		case 2:
			return b.Spendable
		case 3:
			return b.Spendable.Add(hasting)
		default:
			return b.Spendable.Div64(16).Mul64(1 + rng.Uint64N(15))
		}
	}
	return typicalValue(rng)
}

func hasInputs(o *Owned) bool {
	if !o.V2 {
		return len(o.T1.SiacoinInputs) > 0
	}
	for _, t := range o.T2 {
		if len(t.SiacoinInputs) > 0 {
			return true
		}
	}
	return false
}

func (s *session) canSubmit(o *Owned) bool {
	if o.Stale || !hasInputs(o) {
		return false
	}
	if o.V2 {
		return s.lab.V2OK()
	}
	return s.lab.V1OK()
}

// submit signs (once) and hands o to the pool; a refused transaction is
// retried twice (a block may have been mined underneath it) and then released.
func (s *session) submit(w *worker, o *Owned) {
	if !o.Signed {
		s.lab.Sign(w.rec, o)
	}
	via := o.V2 && w.rng.IntN(2) == 0
	for attempt := 0; attempt < 3; attempt++ {
		if ev := s.lab.Submit(w.rec, o, via); ev.OK {
			w.drop(o)
			return
		}
		runtime.Gosched()
	}
	s.lab.Release(w.rec, o)
	w.drop(o)
}

// step issues one random operation.
func (s *session) step(w *worker) {
	rng, l := w.rng, s.lab
	k := rng.IntN(100)
	if len(w.owned) >= 3 && k < 60 {
		k = 60 + rng.IntN(30) // too many outstanding: submit or release
	}
	switch {
	case k < 45: // fund a new transaction
		v2 := s.pickVersion(rng)
		amount := s.pickAmount(w)
		unconf := rng.IntN(3) == 0
		o := s.newTxn(rng, v2, amount)
		var ev *Event
		if v2 {
			ev = l.Fund2(w.rec, o, amount, unconf, "")
		} else {
			ev = l.Fund1(w.rec, o, amount, unconf, "")
		}
		if ev.OK && len(ev.Sel) > 0 {
			w.owned = append(w.owned, o)
			if !s.canSubmit(o) {
				// the version this regime's pool refuses: give it back
				l.Release(w.rec, o)
				w.drop(o)
			} else if rng.IntN(3) == 0 {
				s.submit(w, o)
			}
		}
	case k < 52: // fund an owned transaction a second time
		var cand *Owned
		for _, o := range w.owned {
			if !o.Signed && !o.Stale && len(o.T2) <= 1 {
				cand = o
			}
		}
		if cand == nil {
			l.Spendable(w.rec)
			return
		}
		amount := typicalValue(rng)
		s.extend(rng, cand, amount)
		unconf := rng.IntN(3) == 0
		var ev *Event
		if cand.V2 {
			ev = l.Fund2(w.rec, cand, amount, unconf, "")
		} else {
			ev = l.Fund1(w.rec, cand, amount, unconf, "")
		}
		if !ev.OK {
			// the added output stays unfunded: give the whole thing up
			l.Release(w.rec, cand)
			w.drop(cand)
		}
	case k < 58: // redistribute
		n := []int{1, 2, 3, 5, 12, 25}[rng.IntN(6)]
		var amount types.Currency
		switch rng.IntN(4) {
		case 0:
			amount = typicalValue(rng)
		case 1:
			_, b := l.Balance(w.rec)
			amount = b.Spendable.Div64(uint64(2 * n)).Add(hasting)
		case 2:
			_, b := l.Balance(w.rec)
			amount = b.Spendable.Add(hasting) // cannot be met
		default:
			amount = pow10(24)
		}
		fee := []types.Currency{types.ZeroCurrency, hasting, pow10(19)}[rng.IntN(3)]
		if _, o := l.Redistribute(w.rec, n, amount, fee); o != nil {
			w.owned = append(w.owned, o)
			if !s.canSubmit(o) {
				l.Release(w.rec, o)
				w.drop(o)
			}
		}
	case k < 62: // split
		n := []int{1, 2, 3, 5}[rng.IntN(4)]
		if t := l.Opts.DefragThreshold; t >= 2 && rng.IntN(6) != 0 {
			n = 2 + rng.IntN(min(t, 6)-1) // mostly an n the threshold admits
		}
		var minAmount types.Currency
		switch rng.IntN(8) {
		case 0:
			minAmount = types.ZeroCurrency
		case 1:
			minAmount = hasting
		case 2:
			minAmount = pow10(30) // more than a block reward
		case 3:
			minAmount = typicalValue(rng)
		default:
			_, b := l.Balance(w.rec)
			minAmount = b.Spendable.Div64(uint64(2 * (n + 1) * (1 + rng.IntN(4)))).Add(hasting)
		}
		l.Split(w.rec, n, minAmount)
	case k < 78: // submit an owned transaction
		if len(w.owned) == 0 {
			l.Balance(w.rec)
			return
		}
		o := w.owned[rng.IntN(len(w.owned))]
		if s.canSubmit(o) {
			s.submit(w, o)
		} else {
			l.Release(w.rec, o)
			w.drop(o)
		}
	case k < 90: // release an owned transaction
		if len(w.owned) == 0 {
			l.Spendable(w.rec)
			return
		}
		o := w.owned[rng.IntN(len(w.owned))]
		l.Release(w.rec, o)
		w.drop(o)
	case k < 95:
		l.Balance(w.rec)
	default:
		l.Spendable(w.rec)
	}
}

// barrier records the quiescent observation and probes the selection with
// exactly the spendable amount and one hasting more.
func (s *session) barrier(tag string) error {
	l := s.lab
	ev := l.Barrier(s.main, tag, s.outstanding())
	if !ev.OK {
		return errors.New("wallet not synced at barrier")
	}
	v2 := l.Regime == RegimeV2 || (l.Regime == RegimeMix && s.rng.IntN(2) == 0)
	fund := func(amount types.Currency, probe string) {
		o := &Owned{H: l.NewHandle(), V2: v2}
		var fe *Event
		if v2 {
			o.T2 = []types.V2Transaction{{}}
			fe = l.Fund2(s.main, o, amount, false, probe)
		} else {
			fe = l.Fund1(s.main, o, amount, false, probe)
		}
		if fe.OK && hasInputs(o) {
			l.Release(s.main, o)
		}
	}
	fund(ev.Spendable.Add(hasting), "plus1")
	if !ev.Spendable.IsZero() {
		fund(ev.Spendable, "exact")
	}
	return nil
}

func (s *session) restart() error {
	if _, err := s.lab.Restart(s.main); err != nil {
		return err
	}
	for _, w := range s.workers {
		w.owned = nil // their reservations are gone; they must not be used any more
	}
	return nil
}

func (s *session) mine(rc *Rec, toWallet bool) error {
	addr := types.VoidAddress
	if toWallet {
		addr = s.lab.Addr
	}
	_, err := s.lab.Mine(rc, addr, true)
	return err
}

// minePending mines a block the wallet store is not told about yet.
func (s *session) minePending(rc *Rec, toWallet bool) error {
	addr := types.VoidAddress
	if toWallet {
		addr = s.lab.Addr
	}
	_, err := s.lab.Mine(rc, addr, false)
	return err
}

// setup funds the wallet: one matured block reward, fanned out into
// cfg.UTXOs outputs of widely different values by a transaction the wallet
// funds itself, plus (sometimes) a fresh, immature reward.
func (s *session) setup() error {
	l := s.lab
	if err := s.mine(s.main, true); err != nil {
		return err
	}
	for i := 0; ; i++ {
		if err := s.mine(s.main, false); err != nil {
			return err
		}
		if b, err := l.W.Balance(); err != nil {
			return err
		} else if !b.Spendable.IsZero() {
			break
		} else if i > int(l.Maturity)+3 {
			return errors.New("block reward never matured")
		}
	}
	if s.cfg.UTXOs > 1 {
		v2 := l.V2OK() && (l.Regime == RegimeV2 || s.rng.IntN(2) == 0)
		o := &Owned{H: l.NewHandle(), V2: v2}
		var outs []types.SiacoinOutput
		var total types.Currency
		_, bal := l.Balance(s.main)
		budget := bal.Spendable.Div64(4).Mul64(3)
		for i := 0; i < s.cfg.UTXOs-1; i++ {
			v := typicalValue(s.rng)
			for total.Add(v).Cmp(budget) > 0 {
				v = v.Div64(10) // keep the fan-out within the matured reward
				if v.IsZero() {
					v = hasting
					break
				}
			}
			outs = append(outs, types.SiacoinOutput{Address: l.Addr, Value: v})
			total = total.Add(v)
		}
		var ev *Event
		if v2 {
			o.T2 = []types.V2Transaction{{SiacoinOutputs: outs}}
			o.Sign2 = [][]int{nil}
			ev = l.Fund2(s.main, o, total, false, "")
		} else {
			o.T1 = types.Transaction{SiacoinOutputs: outs}
			ev = l.Fund1(s.main, o, total, false, "")
		}
		if !ev.OK {
			return fmt.Errorf("fan-out funding failed: %s", ev.Err)
		}
		l.Sign(s.main, o)
		if ev := l.Submit(s.main, o, false); !ev.OK {
			return fmt.Errorf("fan-out submission failed: %s", ev.Err)
		}
		if err := s.mine(s.main, s.rng.IntN(3) == 0); err != nil {
			return err
		}
	}
	if s.rng.IntN(3) == 0 {
		if err := s.mine(s.main, true); err != nil {
			return err
		}
	}
	return s.barrier("setup")
}

// Run executes one history and returns the recording. A non-nil error means
// the harness could not drive the workload (never a verdict).
func Run(cfg Config, rngFor RNGFor) (*History, error) {
	rng := rngFor(0)
	lab, err := NewLab(cfg.Regime, cfg.Opts, rng)
	if err != nil {
		return nil, err
	}
	defer lab.Close()
	s := &session{cfg: cfg, lab: lab, rng: rng, main: lab.NewRec(0), miner: lab.NewRec(1000)}
	s.h = &History{Kind: cfg.Kind, Stream: cfg.Stream, Regime: cfg.Regime, Opts: cfg.Opts, Workers: cfg.Workers, Addr: lab.Addr, Maturity: lab.Maturity}
	for g := 1; g <= cfg.Workers; g++ {
		s.workers = append(s.workers, &worker{g: g, rng: rngFor(uint64(g)), rec: lab.NewRec(g)})
	}
	finish := func(err error) (*History, error) {
		recs := []*Rec{s.main, s.miner}
		for _, w := range s.workers {
			recs = append(recs, w.rec)
		}
		s.h.Merge(recs...)
		return s.h, err
	}
	if err := s.setup(); err != nil {
		return finish(fmt.Errorf("setup: %w", err))
	}
	switch cfg.Kind {
	case KindConcurrent:
		err = s.runConcurrent()
	case KindSequential:
		err = s.runSequential()
	case KindRestartDefect:
		err = s.runRestartDefect()
	case KindExpiryShort:
		err = s.runExpiryShort()
	case KindExpiryLong:
		err = s.runExpiryLong()
	case KindFundAll:
		// the barrier's "exact" probe in setup already funded everything
	case KindSplitV1Pool:
		err = s.runSplitV1Pool()
	case KindCrossVersion:
		err = s.runCrossVersion()
	case KindLagging:
		err = s.runLagging()
	default:
		err = errors.New("unknown history kind " + cfg.Kind)
	}
	return finish(err)
}

func (s *session) runConcurrent() error {
	for phase := 0; phase < s.cfg.Phases; phase++ {
		total := s.cfg.Workers * s.cfg.OpsEach
		nblocks := 1 + s.rng.IntN(3)
		thresholds := make([]int64, nblocks)
		for i := range thresholds {
			thresholds[i] = int64(s.rng.IntN(total + 1))
		}
		toWallet := make([]bool, nblocks)
		pending := make([]bool, nblocks) // block is not delivered to the wallet store right away
		for i := range toWallet {
			toWallet[i] = s.rng.IntN(3) == 0
			pending[i] = s.rng.IntN(3) == 0
		}
		catchUp := int64(s.rng.IntN(total + 1))
		var done atomic.Int64
		var finished atomic.Bool
		var minerErr error
		start := make(chan struct{})
		var wg, mwg sync.WaitGroup
		for _, w := range s.workers {
			wg.Add(1)
			go func(w *worker) {
				defer wg.Done()
				<-start
				for i := 0; i < s.cfg.OpsEach; i++ {
					s.step(w)
					done.Add(1)
					if w.rng.IntN(4) == 0 {
						runtime.Gosched()
					}
				}
			}(w)
		}
		mwg.Add(1)
		go func() {
			defer mwg.Done()
			<-start
			for i, t := range thresholds {
				for done.Load() < t && !finished.Load() {
					time.Sleep(20 * time.Microsecond)
				}
				var err error
				if pending[i] {
					err = s.minePending(s.miner, toWallet[i])
				} else {
					err = s.mine(s.miner, toWallet[i]) // also delivers what was pending
				}
				if err != nil {
					minerErr = err
					return
				}
			}
			if s.lab.Pending() > 0 {
				for done.Load() < catchUp && !finished.Load() {
					time.Sleep(20 * time.Microsecond)
				}
				if _, err := s.lab.Deliver(s.miner, 0); err != nil {
					minerErr = err
				}
			}
		}()
		close(start)
		wg.Wait()
		finished.Store(true)
		mwg.Wait()
		if minerErr != nil {
			return minerErr
		}
		if err := s.barrier("after-phase"); err != nil {
			return err
		}
		if s.rng.IntN(3) == 0 {
			if err := s.restart(); err != nil {
				return err
			}
			if err := s.barrier("after-restart"); err != nil {
				return err
			}
		}
		if s.rng.IntN(2) == 0 {
			for n := 1 + s.rng.IntN(int(s.lab.Maturity)+1); n > 0; n-- {
				if err := s.mine(s.main, s.rng.IntN(4) == 0); err != nil {
					return err
				}
			}
			if err := s.barrier("after-blocks"); err != nil {
				return err
			}
		}
	}
	return nil
}

// runSequential issues the same random operations from one goroutine with a
// barrier (agreement + probes) after every single one, so every failed call
// is followed by "Balance unchanged, the full spendable amount can be funded".
func (s *session) runSequential() error {
	w := s.workers[0]
	n := s.cfg.Phases * s.cfg.OpsEach
	for i := 0; i < n; i++ {
		s.step(w)
		if err := s.barrier("after-op"); err != nil {
			return err
		}
		switch s.rng.IntN(12) {
		case 0:
			if err := s.mine(s.main, s.rng.IntN(3) == 0); err != nil {
				return err
			}
			if err := s.barrier("after-blocks"); err != nil {
				return err
			}
		case 1:
			if err := s.restart(); err != nil {
				return err
			}
			if err := s.barrier("after-restart"); err != nil {
				return err
			}
		}
	}
	return nil
}

// runRestartDefect: fund, sign and broadcast a v2 transaction through the
// wallet, restart, observe. After the restart the pool holds the re-added
// transaction but the reservation is gone.
func (s *session) runRestartDefect() error {
	l := s.lab
	w := s.workers[0]
	_, b := l.Balance(w.rec)
	if b.Spendable.IsZero() {
		return errors.New("nothing spendable")
	}
	amount := b.Spendable.Div64(16).Mul64(1 + s.rng.Uint64N(15))
	if amount.IsZero() {
		amount = hasting
	}
	done := false
	if s.rng.IntN(3) == 0 {
		// more outputs than the wallet has, so that the split is carried out
		ev, o := l.Split(w.rec, s.cfg.UTXOs+3, pow10(22))
		if done = o != nil; !done {
			s.h.Note = "split not carried out: " + ev.Err
		}
	}
	if !done {
		o := s.newTxn(s.rng, true, amount)
		if ev := l.Fund2(w.rec, o, amount, false, ""); !ev.OK {
			return errors.New("funding failed: " + ev.Err)
		}
		l.Sign(w.rec, o)
		if ev := l.Submit(w.rec, o, true); !ev.OK {
			return errors.New("broadcast failed: " + ev.Err)
		}
	}
	if err := s.barrier("after-broadcast"); err != nil {
		return err
	}
	if err := s.restart(); err != nil {
		return err
	}
	if err := s.barrier("after-restart"); err != nil {
		return err
	}
	// once the transaction is confirmed everything agrees again
	if err := s.mine(s.main, false); err != nil {
		return err
	}
	return s.barrier("after-blocks")
}

func (s *session) sleep(ms int64, tag string) {
	s.main.do(Event{Op: OpSleep, SleepM: ms, Probe: tag}, func() { time.Sleep(time.Duration(ms) * time.Millisecond) }, func(ev *Event) { ev.OK = true })
}

// runExpiryShort (ReservationDuration = 30 ms): reservations are never looked
// at before an explicit sleep of more than a second has passed, after which
// they must all be gone.
func (s *session) runExpiryShort() error {
	l := s.lab
	w := s.workers[0]
	for round := 0; round < 2; round++ {
		_, b := l.Balance(w.rec)
		v2 := s.pickVersion(s.rng)
		amount := b.Spendable
		if round == 1 {
			amount = b.Spendable.Div64(2).Add(hasting)
		}
		o := s.newTxn(s.rng, v2, amount)
		var ev *Event
		if v2 {
			ev = l.Fund2(w.rec, o, amount, false, "")
		} else {
			ev = l.Fund1(w.rec, o, amount, false, "")
		}
		if !ev.OK {
			return errors.New("funding failed: " + ev.Err)
		}
		// never released: it has to expire on its own
		s.sleep(1200, "expired")
		if err := s.barrier("after-expiry"); err != nil {
			return err
		}
		s.sleep(1200, "expired") // the probes' own reservations
		if round == 0 {
			// releasing a long-expired transaction changes nothing
			l.Release(w.rec, o)
			if err := s.barrier("after-late-release"); err != nil {
				return err
			}
			s.sleep(1200, "expired")
		}
	}
	return nil
}

// runExpiryLong (ReservationDuration = 3 h): a reservation holds without any
// sleeping until it is released.
func (s *session) runExpiryLong() error {
	l := s.lab
	w := s.workers[0]
	_, b := l.Balance(w.rec)
	v2 := s.pickVersion(s.rng)
	o := s.newTxn(s.rng, v2, b.Spendable)
	var ev *Event
	if v2 {
		ev = l.Fund2(w.rec, o, b.Spendable, false, "")
	} else {
		ev = l.Fund1(w.rec, o, b.Spendable, false, "")
	}
	if !ev.OK {
		return errors.New("funding failed: " + ev.Err)
	}
	w.owned = append(w.owned, o)
	if err := s.barrier("all-reserved"); err != nil {
		return err
	}
	l.Release(w.rec, o)
	w.drop(o)
	return s.barrier("after-release")
}

// runSplitV1Pool: a pooled v1 transaction pays the wallet its largest output;
// SplitUTXO then picks that unconfirmed output and asks the manager for a v2
// transaction set.
func (s *session) runSplitV1Pool() error {
	l := s.lab
	w := s.workers[0]
	_, b := l.Balance(w.rec)
	big := b.Spendable.Div64(4).Mul64(3)
	if big.IsZero() {
		return errors.New("nothing spendable")
	}
	o := &Owned{H: l.NewHandle()}
	o.T1 = types.Transaction{SiacoinOutputs: []types.SiacoinOutput{{Address: l.Addr, Value: big}}}
	if ev := l.Fund1(w.rec, o, big, false, ""); !ev.OK {
		return errors.New("funding failed: " + ev.Err)
	}
	l.Sign(w.rec, o)
	if ev := l.Submit(w.rec, o, false); !ev.OK {
		return errors.New("v1 submission failed: " + ev.Err)
	}
	l.Split(w.rec, 5, big.Div64(8))
	return s.barrier("after-split")
}

// runCrossVersion: a pooled transaction of one version pays the wallet; a
// transaction of the other version is funded with useUnconfirmed for more
// than the confirmed outputs can cover, signed and submitted.
func (s *session) runCrossVersion() error {
	l := s.lab
	w := s.workers[0]
	firstV2 := s.cfg.Stream%2 == 0
	_, b := l.Balance(w.rec)
	half := b.Spendable.Div64(2)
	if half.IsZero() {
		return errors.New("nothing spendable")
	}
	o := &Owned{H: l.NewHandle(), V2: firstV2}
	outs := []types.SiacoinOutput{{Address: l.Addr, Value: half}}
	var ev *Event
	if firstV2 {
		o.T2 = []types.V2Transaction{{SiacoinOutputs: outs}}
		o.Sign2 = [][]int{nil}
		ev = l.Fund2(w.rec, o, half, false, "")
	} else {
		o.T1 = types.Transaction{SiacoinOutputs: outs}
		ev = l.Fund1(w.rec, o, half, false, "")
	}
	if !ev.OK {
		return errors.New("funding failed: " + ev.Err)
	}
	l.Sign(w.rec, o)
	if ev := l.Submit(w.rec, o, false); !ev.OK {
		return errors.New("submission failed: " + ev.Err)
	}
	_, b = l.Balance(w.rec)
	amount := b.Spendable.Add(half.Div64(2)) // needs the unconfirmed output
	o2 := &Owned{H: l.NewHandle(), V2: !firstV2}
	outs = []types.SiacoinOutput{{Address: types.VoidAddress, Value: amount}}
	if o2.V2 {
		o2.T2 = []types.V2Transaction{{SiacoinOutputs: outs}}
		o2.Sign2 = [][]int{nil}
		ev = l.Fund2(w.rec, o2, amount, true, "")
	} else {
		o2.T1 = types.Transaction{SiacoinOutputs: outs}
		ev = l.Fund1(w.rec, o2, amount, true, "")
	}
	if !ev.OK {
		// with unconfirmed outputs of the other version excluded this is
		// the expected outcome
		s.h.Note = "second funding refused: " + ev.Err
		return s.barrier("after-refusal")
	}
	w.owned = append(w.owned, o2)
	l.Sign(w.rec, o2)
	if ev := l.Submit(w.rec, o2, false); !ev.OK {
		l.Release(w.rec, o2)
	}
	w.drop(o2)
	return s.barrier("after-submit")
}

// bulk submits a wallet-funded transaction with as many (1 H, burnt) outputs
// as the element accumulator has leaves, so that the block confirming it
// doubles the accumulator and the Merkle proof of EVERY older element changes.
func (s *session) bulk(w *worker) {
	l := s.lab
	n := l.CM.TipState().Elements.NumLeaves
	if n > 600 {
		n = 600
	}
	v2 := l.V2OK()
	if !v2 && !l.V1OK() {
		return
	}
	outs := make([]types.SiacoinOutput, n)
	for i := range outs {
		outs[i] = types.SiacoinOutput{Address: types.VoidAddress, Value: hasting}
	}
	amount := types.NewCurrency64(n)
	o := &Owned{H: l.NewHandle(), V2: v2}
	var ev *Event
	if v2 {
		o.T2 = []types.V2Transaction{{SiacoinOutputs: outs}}
		o.Sign2 = [][]int{nil}
		ev = l.Fund2(w.rec, o, amount, false, "")
	} else {
		o.T1 = types.Transaction{SiacoinOutputs: outs}
		ev = l.Fund1(w.rec, o, amount, false, "")
	}
	if !ev.OK || len(ev.Sel) == 0 {
		return
	}
	w.owned = append(w.owned, o)
	s.submit(w, o)
}

// lagStep issues one operation biased towards "fund, sign, submit with the
// returned basis right away", which is what the lagging dimension is about.
func (s *session) lagStep(w *worker) {
	rng, l := w.rng, s.lab
	switch k := rng.IntN(11); {
	case k == 10: // split (see below)
		n := 2 + rng.IntN(4)
		_, b := l.Balance(w.rec)
		l.Split(w.rec, n, b.Spendable.Div64(uint64(4*(n+1))).Add(hasting))
	case k < 4: // fund and submit
		v2 := s.pickVersion(rng)
		amount := s.pickAmount(w)
		if amount.IsZero() {
			amount = typicalValue(rng)
		}
		o := s.newTxn(rng, v2, amount)
		var ev *Event
		if v2 {
			ev = l.Fund2(w.rec, o, amount, rng.IntN(4) == 0, "")
		} else {
			ev = l.Fund1(w.rec, o, amount, rng.IntN(4) == 0, "")
		}
		if ev.OK && len(ev.Sel) > 0 {
			w.owned = append(w.owned, o)
			if s.canSubmit(o) {
				s.submit(w, o)
			} else {
				l.Release(w.rec, o)
				w.drop(o)
			}
		}
	case k < 6: // redistribute and submit
		n := []int{1, 2, 3, 5, 12}[rng.IntN(5)]
		_, b := l.Balance(w.rec)
		amount := b.Spendable.Div64(uint64(2 * n * (1 + rng.IntN(3)))).Add(hasting)
		fee := []types.Currency{types.ZeroCurrency, hasting, pow10(19)}[rng.IntN(3)]
		if _, o := l.Redistribute(w.rec, n, amount, fee); o != nil {
			w.owned = append(w.owned, o)
			if s.canSubmit(o) {
				s.submit(w, o)
			} else {
				l.Release(w.rec, o)
				w.drop(o)
			}
		}
	case k < 7: // split (broadcasts itself)
		n := 2 + rng.IntN(4)
		_, b := l.Balance(w.rec)
		l.Split(w.rec, n, b.Spendable.Div64(uint64(2*(n+1)*(1+rng.IntN(4)))).Add(hasting))
	default:
		s.step(w)
	}
}

// runLagging: the harness decides when chain updates reach the wallet. Blocks
// are connected to the chain manager (confirming pooled transactions that
// spend and create wallet outputs, among them one that doubles the
// accumulator) but stay pending for the wallet store; funding calls of every
// kind are made, signed and submitted with the returned basis while 1..8
// blocks are pending; the pending blocks are delivered in PRNG-sized portions
// with more calls in between; once the wallet has caught up, the barrier
// oracles (agreement, probes) run.
func (s *session) runLagging() error {
	l := s.lab
	w := s.workers[0]
	for round := 0; round < s.cfg.Phases; round++ {
		// synced: put transactions into the pool for the pending blocks to confirm
		for i := 0; i < 3; i++ {
			s.lagStep(w)
		}
		if round == 0 || s.rng.IntN(3) == 0 {
			s.bulk(w)
		}
		for ops := s.cfg.OpsEach; ops > 0; {
			// connect blocks the wallet is not told about (at most 8 pending)
			for n := 1 + s.rng.IntN(4); n > 0 && l.Pending() < 8; n-- {
				if err := s.minePending(s.main, s.rng.IntN(3) == 0); err != nil {
					return err
				}
			}
			for n := 1 + s.rng.IntN(4); n > 0 && ops > 0; n-- {
				s.lagStep(w)
				ops--
			}
			// deliver some of the pending blocks (possibly none, possibly all)
			if k := s.rng.IntN(l.Pending() + 1); k > 0 {
				if _, err := l.Deliver(s.main, k); err != nil {
					return err
				}
			}
		}
		if _, err := l.Deliver(s.main, 0); err != nil {
			return err
		}
		if err := s.barrier("after-catch-up"); err != nil {
			return err
		}
		if s.rng.IntN(4) == 0 {
			if err := s.restart(); err != nil {
				return err
			}
			if err := s.barrier("after-restart"); err != nil {
				return err
			}
		}
	}
	return nil
}
