// Package walletlab stands up a real wallet.SingleAddressWallet on a real
// chain.Manager (MemDB) and records every call made at the caller boundary
// into a history that the oracles in analyze.go decide post hoc. Nothing in
// here touches the wallet's internals: selection, reservation, pool and store
// are only observed through the public API and the injectable store.
package walletlab

import (
	"errors"
	"fmt"
	"math/rand/v2"
	"runtime/debug"
	"sync/atomic"
	"time"

	"go.sia.tech/core/consensus"
	"go.sia.tech/core/types"
	"go.sia.tech/coreutils"
	"go.sia.tech/coreutils/chain"
	"go.sia.tech/coreutils/testutil"
	"go.sia.tech/coreutils/wallet"
)

// Regimes: which transaction versions the chain accepts during a history.
const (
	RegimeV1  = "v1"  // height stays below the v2 allow height
	RegimeMix = "mix" // allow height reached, require height never
	RegimeV2  = "v2"  // testutil.V2Network: v2 required from block 1
)

// Opts are the public wallet options swept by the workload.
type Opts struct {
	DefragThreshold    int   `json:"defrag_threshold"`
	MaxInputsForDefrag int   `json:"max_inputs_for_defrag"`
	MaxDefragUTXOs     int   `json:"max_defrag_utxos"`
	ReservationMS      int64 `json:"reservation_ms,omitempty"` // 0 = 3 h
	DebounceMS         int64 `json:"debounce_ms,omitempty"`    // 0 = package default (15 s)
}

func (o Opts) String() string {
	return fmt.Sprintf("dt%d-mi%d-md%d-res%d-deb%d", o.DefragThreshold, o.MaxInputsForDefrag, o.MaxDefragUTXOs, o.ReservationMS, o.DebounceMS)
}

func (o Opts) walletOptions() []wallet.Option {
	opts := []wallet.Option{
		wallet.WithDefragThreshold(o.DefragThreshold),
		wallet.WithMaxInputsForDefrag(o.MaxInputsForDefrag),
		wallet.WithMaxDefragUTXOs(o.MaxDefragUTXOs),
	}
	if o.ReservationMS > 0 {
		opts = append(opts, wallet.WithReservationDuration(time.Duration(o.ReservationMS)*time.Millisecond))
	} else {
		opts = append(opts, wallet.WithReservationDuration(3*time.Hour))
	}
	if o.DebounceMS > 0 {
		opts = append(opts, wallet.WithDebounceInterval(time.Duration(o.DebounceMS)*time.Millisecond))
	}
	return opts
}

// A Lab is one wallet on one chain.
type Lab struct {
	Regime   string
	Opts     Opts
	Net      *consensus.Network
	Genesis  types.Block
	DB       *chain.MemDB
	Store    *chain.DBStore
	CM       *chain.Manager
	WS       *testutil.EphemeralWalletStore
	W        *wallet.SingleAddressWallet
	Priv     types.PrivateKey
	Addr     types.Address
	UC       types.UnlockConditions
	Other    types.Address // some other party's address
	Syncer   *testutil.MockSyncer
	Maturity uint64

	seq     atomic.Int64 // the ONE counter behind all call/return sequence numbers
	handles atomic.Int64
	Blocks  atomic.Int64 // number of blocks added so far (monitor bookkeeping)
}

// NewLab creates the chain, the manager and the wallet.
func NewLab(regime string, opts Opts, rng *rand.Rand) (*Lab, error) {
	var n *consensus.Network
	var g types.Block
	switch regime {
	case RegimeV2:
		n, g = testutil.V2Network()
	case RegimeMix:
		n, g = testutil.Network()
		n.HardforkV2.AllowHeight = 2
		n.HardforkV2.RequireHeight = 100000
		n.HardforkV2.FinalCutHeight = 100010
	case RegimeV1:
		n, g = testutil.Network()
		n.HardforkV2.AllowHeight = 100000
		n.HardforkV2.RequireHeight = 100010
		n.HardforkV2.FinalCutHeight = 100020
	default:
		return nil, errors.New("unknown regime " + regime)
	}
	n.MaturityDelay = uint64(1 + rng.IntN(3))
	var seed [32]byte
	for i := range seed {
		seed[i] = byte(rng.UintN(256))
	}
	priv := types.NewPrivateKeyFromSeed(seed[:])
	seed[0] ^= 0xff
	other := types.NewPrivateKeyFromSeed(seed[:])

	l := &Lab{
		Regime: regime, Opts: opts, Net: n, Genesis: g,
		DB: chain.NewMemDB(), WS: testutil.NewEphemeralWalletStore(),
		Priv: priv, Syncer: &testutil.MockSyncer{}, Maturity: n.MaturityDelay,
	}
	l.UC = types.StandardUnlockConditions(priv.PublicKey())
	l.Addr = l.UC.UnlockHash()
	l.Other = types.StandardUnlockHash(other.PublicKey())
	store, tip, err := chain.NewDBStore(l.DB, n, g, nil)
	if err != nil {
		return nil, err
	}
	l.Store = store
	l.CM = chain.NewManager(store, tip)
	w, err := wallet.NewSingleAddressWallet(priv, l.CM, l.WS, l.Syncer, opts.walletOptions()...)
	if err != nil {
		return nil, err
	}
	l.W = w
	return l, nil
}

// Close stops the wallet's background goroutine.
func (l *Lab) Close() {
	if l.W != nil {
		l.W.Close()
	}
}

// V1OK reports whether the pool accepts v1 transactions in this regime.
func (l *Lab) V1OK() bool { return l.Regime != RegimeV2 }

// V2OK reports whether the pool accepts v2 transactions at the current height.
func (l *Lab) V2OK() bool {
	return l.Regime != RegimeV1 && l.CM.Tip().Height+1 >= l.Net.HardforkV2.AllowHeight
}

// NewHandle returns a fresh id for a transaction (set) a caller is building.
func (l *Lab) NewHandle() int { return int(l.handles.Add(1)) }

// A Rec is the private event log of one goroutine. Only the sequence counter
// is shared between goroutines; logs are merged after the goroutines are joined.
type Rec struct {
	G      int
	lab    *Lab
	Events []Event
}

// NewRec returns the recorder of goroutine g.
func (l *Lab) NewRec(g int) *Rec { return &Rec{G: g, lab: l} }

// guard converts a panic into a value.
func guard(fn func()) (p any) {
	defer func() {
		if r := recover(); r != nil {
			p = fmt.Sprintf("%v\n%s", r, debug.Stack())
		}
	}()
	fn()
	return nil
}

// do records ev around invoke: the call sequence number is drawn before the
// call is issued, the return number right after it came back; post runs after
// that and only fills in result fields.
func (rc *Rec) do(ev Event, invoke func(), post func(ev *Event)) *Event {
	ev.G = rc.G
	ev.Call = rc.lab.seq.Add(1)
	p := guard(invoke)
	ev.Ret = rc.lab.seq.Add(1)
	if p != nil {
		ev.Panic = fmt.Sprint(p)
	} else if post != nil {
		post(&ev)
	}
	rc.Events = append(rc.Events, ev)
	return &rc.Events[len(rc.Events)-1]
}

func errStr(err error) string {
	if err == nil {
		return ""
	}
	return err.Error()
}

// poolIDs lists what the manager's pool currently holds.
func (l *Lab) poolIDs() (ids []types.TransactionID) {
	for _, t := range l.CM.PoolTransactions() {
		ids = append(ids, t.ID())
	}
	for _, t := range l.CM.V2PoolTransactions() {
		ids = append(ids, t.ID())
	}
	return
}

// Mine mines one block on the tip (payout to addr) and adds it to the chain
// manager. With deliver the wallet store is then driven to the new tip the way
// the repository's tests do (this also delivers blocks left pending earlier);
// without it the block stays PENDING: the manager (and its pool) know it, the
// wallet's index lags behind until Deliver is called. The event records the
// block's siacoin element diffs (from core's ApplyUpdate, the trusted base),
// the pool contents afterwards and which heights reached the wallet store.
func (l *Lab) Mine(rc *Rec, addr types.Address, deliver bool) (*Event, error) {
	var err error
	var aus []chain.ApplyUpdate
	var pool []types.TransactionID
	var from, to uint64
	ev := rc.do(Event{Op: OpBlock}, func() {
		prev := l.CM.Tip()
		b, ok := coreutils.MineBlock(l.CM, addr, 60*time.Second)
		if !ok {
			err = errors.New("no nonce found")
			return
		}
		if err = l.CM.AddBlocks([]types.Block{b}); err != nil {
			return
		}
		if _, aus, err = l.CM.UpdatesSince(prev, 4); err != nil {
			return
		}
		if deliver {
			from, to, err = l.syncWallet(0)
		}
		pool = l.poolIDs()
	}, func(ev *Event) {
		for _, au := range aus {
			ev.Height = au.State.Index.Height
			for _, d := range au.SiacoinElementDiffs() {
				e := d.SiacoinElement
				if d.Created {
					ev.Created = append(ev.Created, OutRec{ID: e.ID, Value: e.SiacoinOutput.Value, Addr: e.SiacoinOutput.Address, Maturity: e.MaturityHeight})
				}
				if d.Spent {
					ev.Spent = append(ev.Spent, e.ID)
				}
			}
		}
		ev.Pool = pool
		ev.From, ev.To = from, to
	})
	if err == nil && ev.Panic != "" {
		err = errors.New("panic while mining: " + ev.Panic)
	}
	if err == nil && len(aus) != 1 {
		err = fmt.Errorf("expected one applied update for the mined block, got %d", len(aus))
	}
	ev.Err = errStr(err)
	ev.OK = err == nil
	l.Blocks.Add(1)
	return ev, err
}

// Deliver applies up to k pending blocks (k <= 0: all of them) to the wallet
// store through UpdateChainState.
func (l *Lab) Deliver(rc *Rec, k int) (*Event, error) {
	var err error
	var from, to uint64
	ev := rc.do(Event{Op: OpDeliver, N: k}, func() {
		from, to, err = l.syncWallet(k)
	}, func(ev *Event) { ev.From, ev.To = from, to })
	if err == nil && ev.Panic != "" {
		err = errors.New("panic while delivering chain updates: " + ev.Panic)
	}
	ev.Err = errStr(err)
	ev.OK = err == nil
	return ev, err
}

// Pending returns how many blocks the wallet store lags behind the manager.
func (l *Lab) Pending() int {
	tip, _ := l.WS.Tip()
	return int(l.CM.Tip().Height - tip.Height)
}

// syncWallet delivers up to max blocks (max <= 0: all) to the wallet store and
// returns the range of heights delivered (0, 0 if none).
func (l *Lab) syncWallet(max int) (from, to uint64, err error) {
	delivered := 0
	for {
		tip, err := l.WS.Tip()
		if err != nil {
			return from, to, err
		} else if tip == l.CM.Tip() {
			return from, to, nil
		}
		n := 100
		if max > 0 {
			if n = max - delivered; n <= 0 {
				return from, to, nil
			}
		}
		reverted, applied, err := l.CM.UpdatesSince(tip, n)
		if err != nil {
			return from, to, err
		}
		if len(reverted) != 0 || len(applied) == 0 {
			return from, to, errors.New("unexpected reorg in wallet lab")
		}
		err = l.WS.UpdateChainState(func(tx wallet.UpdateTx) error {
			return l.W.UpdateChainState(tx, reverted, applied)
		})
		if err != nil {
			return from, to, err
		}
		if from == 0 {
			from = applied[0].State.Index.Height
		}
		to = applied[len(applied)-1].State.Index.Height
		delivered += len(applied)
	}
}

// Restart closes the wallet, opens a NEW chain store and manager over the same
// database (so the pool is empty) and a NEW wallet over the same wallet store
// (so persisted broadcast sets are re-added and in-memory reservations are
// gone). Must only be called at a quiescent point.
func (l *Lab) Restart(rc *Rec) (*Event, error) {
	var err error
	var pool []types.TransactionID
	ev := rc.do(Event{Op: OpRestart}, func() {
		l.W.Close()
		if err = l.Store.Flush(); err != nil {
			return
		}
		store, tip, e := chain.NewDBStore(l.DB, l.Net, l.Genesis, nil)
		if e != nil {
			err = e
			return
		}
		cm := chain.NewManager(store, tip)
		w, e := wallet.NewSingleAddressWallet(l.Priv, cm, l.WS, l.Syncer, l.Opts.walletOptions()...)
		if e != nil {
			err = e
			return
		}
		l.Store, l.CM, l.W = store, cm, w
		pool = l.poolIDs()
	}, func(ev *Event) { ev.Pool = pool })
	if err == nil && ev.Panic != "" {
		err = errors.New("panic in restart: " + ev.Panic)
	}
	ev.Err = errStr(err)
	ev.OK = err == nil
	return ev, err
}

// ---------------------------------------------------------------------------
// recorded wallet calls

// An Owned is a transaction (or redistribute set) a caller is building or has
// handed to the pool.
type Owned struct {
	H      int
	V2     bool
	T1     types.Transaction
	Sign1  []types.Hash256
	T2     []types.V2Transaction
	Sign2  [][]int
	Basis  types.ChainIndex
	Unconf bool // funded with useUnconfirmed
	Signed bool
	Stale  bool // cannot be submitted any more; release it
}

func v1Prefix(t types.Transaction, nin, nout int) types.Hash256 {
	t.SiacoinInputs = t.SiacoinInputs[:nin]
	t.SiacoinOutputs = t.SiacoinOutputs[:nout]
	return t.FullHash()
}

// v2Digest hashes the first nin inputs, the first nout outputs and the rest
// of a v2 transaction (FullHash cannot encode a not yet signed input).
func v2Digest(t types.V2Transaction, nin, nout int) types.Hash256 {
	h := types.NewHasher()
	h.E.WriteUint64(uint64(nin))
	for _, in := range t.SiacoinInputs[:nin] {
		in.Parent.EncodeTo(h.E)
		signed := in.SatisfiedPolicy.Policy.Type != nil
		h.E.WriteBool(signed)
		if signed {
			in.SatisfiedPolicy.EncodeTo(h.E)
		}
	}
	h.E.WriteUint64(uint64(nout))
	for _, o := range t.SiacoinOutputs[:nout] {
		o.Address.EncodeTo(h.E)
		types.V2Currency(o.Value).EncodeTo(h.E)
	}
	types.V2Currency(t.MinerFee).EncodeTo(h.E)
	h.E.WriteBytes(t.ArbitraryData)
	h.E.WriteUint64(uint64(len(t.SiafundInputs)<<48 | len(t.SiafundOutputs)<<40 | len(t.FileContracts)<<32 | len(t.FileContractRevisions)<<24 | len(t.FileContractResolutions)<<16 | len(t.Attestations)))
	return h.Sum()
}

func v2Prefix(t types.V2Transaction, nin, nout int) types.Hash256 { return v2Digest(t, nin, nout) }

func (l *Lab) changeRecs(outs []types.SiacoinOutput, structural *[]string) (vals []types.Currency) {
	for _, o := range outs {
		vals = append(vals, o.Value)
		if o.Address != l.Addr {
			*structural = append(*structural, "wallet-added output pays a foreign address")
		}
	}
	return
}

// checkProofs verifies oracle (a) of the lagging-wallet dimension: every
// non-ephemeral input of txns carries a (leaf index, proof) that verifies
// against the element accumulator of the basis the call returned. It also
// notes whether the same inputs would NOT verify against the manager's tip,
// i.e. whether returning the wrong index would have been visible.
func (l *Lab) checkProofs(cm *chain.Manager, ev *Event, basis types.ChainIndex, txns []types.V2Transaction, st *[]string) {
	n := 0
	for _, t := range txns {
		for _, in := range t.SiacoinInputs {
			if in.Parent.StateElement.LeafIndex != types.UnassignedLeafIndex {
				n++
			}
		}
	}
	if n == 0 {
		return
	}
	ev.Proofs = n
	cs, ok := cm.State(basis.ID)
	if !ok || cs.Index != basis {
		*st = append(*st, "returned basis is not an index of the chain")
		return
	}
	for _, t := range txns {
		if err := cs.Elements.ValidateTransactionElements(t); err != nil {
			*st = append(*st, "input proof does not verify against the accumulator of the returned basis")
			break
		}
	}
	if tip := cm.TipState(); tip.Index != basis {
		for _, t := range txns {
			if tip.Elements.ValidateTransactionElements(t) != nil {
				ev.StaleAtTip = true
			}
		}
	}
}

// Fund1 calls FundTransaction on o.T1.
func (l *Lab) Fund1(rc *Rec, o *Owned, amount types.Currency, unconf bool, probe string) *Event {
	txn := &o.T1
	preIn, preOut := len(txn.SiacoinInputs), len(txn.SiacoinOutputs)
	pre := txn.FullHash()
	var toSign []types.Hash256
	var err error
	w := l.W
	return rc.do(Event{Op: OpFund1, H: o.H, Amount: amount, Unconf: unconf, PreIn: preIn, Probe: probe}, func() {
		toSign, err = w.FundTransaction(txn, amount, unconf)
	}, func(ev *Event) {
		ev.Err, ev.OK, ev.NotEnough = errStr(err), err == nil, errors.Is(err, wallet.ErrNotEnoughFunds)
		var st []string
		if err != nil {
			if txn.FullHash() != pre {
				st = append(st, "failed call modified the caller's transaction")
			}
			if len(toSign) != 0 {
				st = append(st, "failed call returned inputs to sign")
			}
			ev.Struct = st
			return
		}
		if len(txn.SiacoinInputs) < preIn || len(txn.SiacoinOutputs) < preOut || v1Prefix(*txn, preIn, preOut) != pre {
			st = append(st, "pre-existing part of the transaction was modified")
			ev.Struct = st
			return
		}
		var sel []Sel
		for i, in := range txn.SiacoinInputs[preIn:] {
			sel = append(sel, Sel{ID: in.ParentID})
			if in.UnlockConditions.UnlockHash() != l.Addr {
				st = append(st, "added input carries foreign unlock conditions")
			}
			if i >= len(toSign) || toSign[i] != types.Hash256(in.ParentID) {
				st = append(st, "toSign does not list the added inputs in order")
			}
		}
		if len(toSign) != len(sel) {
			st = append(st, "toSign length differs from the number of added inputs")
		}
		ev.Sel = [][]Sel{sel}
		ev.Outs = [][]types.Currency{l.changeRecs(txn.SiacoinOutputs[preOut:], &st)}
		ev.Struct = st
		o.Sign1 = append(o.Sign1, toSign...)
		o.Unconf = o.Unconf || unconf
	})
}

// Fund2 calls FundV2Transaction on o.T2[0].
func (l *Lab) Fund2(rc *Rec, o *Owned, amount types.Currency, unconf bool, probe string) *Event {
	txn := &o.T2[0]
	preIn, preOut := len(txn.SiacoinInputs), len(txn.SiacoinOutputs)
	pre := v2Digest(*txn, preIn, preOut)
	var toSign []int
	var basis types.ChainIndex
	var err error
	w, cm := l.W, l.CM
	return rc.do(Event{Op: OpFund2, H: o.H, Amount: amount, Unconf: unconf, PreIn: preIn, Probe: probe}, func() {
		basis, toSign, err = w.FundV2Transaction(txn, amount, unconf)
	}, func(ev *Event) {
		ev.Err, ev.OK, ev.NotEnough = errStr(err), err == nil, errors.Is(err, wallet.ErrNotEnoughFunds)
		var st []string
		if err != nil {
			if v2Digest(*txn, len(txn.SiacoinInputs), len(txn.SiacoinOutputs)) != pre {
				st = append(st, "failed call modified the caller's transaction")
			}
			if len(toSign) != 0 {
				st = append(st, "failed call returned inputs to sign")
			}
			ev.Struct = st
			return
		}
		if len(txn.SiacoinInputs) < preIn || len(txn.SiacoinOutputs) < preOut || v2Prefix(*txn, preIn, preOut) != pre {
			st = append(st, "pre-existing part of the transaction was modified")
			ev.Struct = st
			return
		}
		var sel []Sel
		for i, in := range txn.SiacoinInputs[preIn:] {
			v := in.Parent.SiacoinOutput.Value
			sel = append(sel, Sel{ID: in.Parent.ID, Claimed: &v, Ephemeral: in.Parent.StateElement.LeafIndex == types.UnassignedLeafIndex})
			if in.Parent.SiacoinOutput.Address != l.Addr {
				st = append(st, "added input's parent pays a foreign address")
			}
			if i >= len(toSign) || toSign[i] != preIn+i {
				st = append(st, "toSign does not list the added inputs in order")
			}
		}
		if len(toSign) != len(sel) {
			st = append(st, "toSign length differs from the number of added inputs")
		}
		ev.Sel = [][]Sel{sel}
		ev.Outs = [][]types.Currency{l.changeRecs(txn.SiacoinOutputs[preOut:], &st)}
		ev.Basis = basis
		added := types.V2Transaction{SiacoinInputs: txn.SiacoinInputs[preIn:]}
		l.checkProofs(cm, ev, basis, []types.V2Transaction{added}, &st)
		ev.Struct = st
		if len(o.Sign2) == 0 {
			o.Sign2 = [][]int{nil}
		}
		o.Sign2[0] = append(o.Sign2[0], toSign...)
		if o.Basis == (types.ChainIndex{}) {
			o.Basis = basis
		} else if o.Basis != basis && len(sel) > 0 {
			// two funding rounds straddled a block: the inputs carry proofs
			// for different bases; the caller gives the transaction up
			o.Stale = true
		}
		o.Unconf = o.Unconf || unconf
	})
}

// Redistribute calls Redistribute; the resulting set becomes one Owned.
func (l *Lab) Redistribute(rc *Rec, outputs int, amount, feePerByte types.Currency) (*Event, *Owned) {
	var txns []types.V2Transaction
	var toSign [][]int
	var basis types.ChainIndex
	var err error
	w, cm := l.W, l.CM
	o := &Owned{H: l.NewHandle(), V2: true}
	ev := rc.do(Event{Op: OpRedist, H: o.H, Amount: amount, N: outputs, Fee: feePerByte}, func() {
		basis, txns, toSign, err = w.Redistribute(outputs, amount, feePerByte)
	}, func(ev *Event) {
		ev.Err, ev.OK, ev.NotEnough = errStr(err), err == nil, errors.Is(err, wallet.ErrNotEnoughFunds)
		var st []string
		if err != nil {
			if len(txns) != 0 || len(toSign) != 0 {
				st = append(st, "failed call returned transactions")
			}
			ev.Struct = st
			return
		}
		if len(toSign) != len(txns) {
			st = append(st, "toSign length differs from the number of transactions")
		}
		for j, t := range txns {
			var sel []Sel
			for i, in := range t.SiacoinInputs {
				v := in.Parent.SiacoinOutput.Value
				sel = append(sel, Sel{ID: in.Parent.ID, Claimed: &v, Ephemeral: in.Parent.StateElement.LeafIndex == types.UnassignedLeafIndex})
				if in.Parent.SiacoinOutput.Address != l.Addr {
					st = append(st, "input's parent pays a foreign address")
				}
				if j >= len(toSign) || i >= len(toSign[j]) || toSign[j][i] != i {
					st = append(st, "toSign does not list the inputs in order")
				}
			}
			ev.Sel = append(ev.Sel, sel)
			ev.Outs = append(ev.Outs, l.changeRecs(t.SiacoinOutputs, &st))
			ev.Fees = append(ev.Fees, t.MinerFee)
		}
		ev.Basis = basis
		if len(txns) > 0 {
			l.checkProofs(cm, ev, basis, txns, &st)
		}
		ev.Struct = st
		o.T2, o.Sign2, o.Basis = txns, toSign, basis
	})
	if !ev.OK || len(txns) == 0 {
		return ev, nil
	}
	return ev, o
}

// Split calls SplitUTXO, which broadcasts its result itself.
func (l *Lab) Split(rc *Rec, n int, minAmount types.Currency) (*Event, *Owned) {
	var txn types.V2Transaction
	var err error
	w := l.W
	o := &Owned{H: l.NewHandle(), V2: true, Signed: true}
	ev := rc.do(Event{Op: OpSplit, H: o.H, N: n, Fee: minAmount}, func() {
		txn, err = w.SplitUTXO(n, minAmount)
	}, func(ev *Event) {
		ev.Err, ev.OK = errStr(err), err == nil
		var st []string
		if err != nil {
			if len(txn.SiacoinInputs) != 0 || len(txn.SiacoinOutputs) != 0 {
				st = append(st, "failed call returned a transaction")
			}
			ev.Struct = st
			return
		}
		if len(txn.SiacoinInputs) == 0 && len(txn.SiacoinOutputs) == 0 {
			return // nothing to split
		}
		var sel []Sel
		for _, in := range txn.SiacoinInputs {
			v := in.Parent.SiacoinOutput.Value
			// the returned transaction has been through the pool's basis
			// update, so "ephemeral" is whatever it says now
			sel = append(sel, Sel{ID: in.Parent.ID, Claimed: &v, Ephemeral: in.Parent.StateElement.LeafIndex == types.UnassignedLeafIndex})
			if in.Parent.SiacoinOutput.Address != l.Addr {
				st = append(st, "input's parent pays a foreign address")
			}
		}
		ev.Sel = [][]Sel{sel}
		ev.Outs = [][]types.Currency{l.changeRecs(txn.SiacoinOutputs, &st)}
		ev.Fees = []types.Currency{txn.MinerFee}
		ev.Txs = []PoolTx{poolTxV2(txn)}
		ev.Struct = st
		o.T2 = []types.V2Transaction{txn}
	})
	if !ev.OK || len(o.T2) == 0 {
		return ev, nil
	}
	return ev, o
}

// Release calls ReleaseInputs for everything in o.
func (l *Lab) Release(rc *Rec, o *Owned) *Event {
	var ids []types.SiacoinOutputID
	var v1 []types.Transaction
	if !o.V2 {
		v1 = []types.Transaction{o.T1}
		for _, in := range o.T1.SiacoinInputs {
			ids = append(ids, in.ParentID)
		}
	}
	for _, t := range o.T2 {
		for _, in := range t.SiacoinInputs {
			ids = append(ids, in.Parent.ID)
		}
	}
	w := l.W
	return rc.do(Event{Op: OpRelease, H: o.H, Released: ids}, func() {
		w.ReleaseInputs(v1, o.T2)
	}, func(ev *Event) { ev.OK = true })
}

// Sign signs everything the wallet asked the caller to sign.
func (l *Lab) Sign(rc *Rec, o *Owned) *Event {
	w := l.W
	op := OpSign1
	if o.V2 {
		op = OpSign2
	}
	return rc.do(Event{Op: op, H: o.H}, func() {
		if !o.V2 {
			w.SignTransaction(&o.T1, o.Sign1, types.CoveredFields{WholeTransaction: true})
			return
		}
		for i := range o.T2 {
			w.SignV2Inputs(&o.T2[i], o.Sign2[i])
		}
	}, func(ev *Event) { ev.OK = true; o.Signed = true })
}

func poolTxV1(t types.Transaction) PoolTx {
	p := PoolTx{ID: t.ID()}
	for _, in := range t.SiacoinInputs {
		p.Spends = append(p.Spends, in.ParentID)
	}
	for i, o := range t.SiacoinOutputs {
		p.Creates = append(p.Creates, OutRec{ID: t.SiacoinOutputID(i), Value: o.Value, Addr: o.Address})
	}
	return p
}

func poolTxV2(t types.V2Transaction) PoolTx {
	id := t.ID()
	p := PoolTx{ID: id, V2: true}
	for _, in := range t.SiacoinInputs {
		p.Spends = append(p.Spends, in.Parent.ID)
	}
	for i, o := range t.SiacoinOutputs {
		p.Creates = append(p.Creates, OutRec{ID: t.SiacoinOutputID(id, i), Value: o.Value, Addr: o.Address})
	}
	return p
}

// v1Parents returns the pooled v1 transactions that create outputs txn spends
// (transitively), in pool order. The harness computes this itself from
// PoolTransactions() instead of using Manager.UnconfirmedParents, whose
// behaviour with a mixed v1/v2 pool is another property's business.
func v1Parents(pool []types.Transaction, txn types.Transaction) (parents []types.Transaction) {
	creator := make(map[types.SiacoinOutputID]int)
	for i := range pool {
		for j := range pool[i].SiacoinOutputs {
			creator[pool[i].SiacoinOutputID(j)] = i
		}
	}
	need := make(map[int]bool)
	var visit func(t *types.Transaction)
	visit = func(t *types.Transaction) {
		for _, in := range t.SiacoinInputs {
			if i, ok := creator[in.ParentID]; ok && !need[i] {
				need[i] = true
				visit(&pool[i])
			}
		}
	}
	visit(&txn)
	for i := range pool {
		if need[i] {
			parents = append(parents, pool[i])
		}
	}
	return
}

func v2Parents(pool []types.V2Transaction, txn types.V2Transaction) (parents []types.V2Transaction) {
	creator := make(map[types.SiacoinOutputID]int)
	for i := range pool {
		id := pool[i].ID()
		for j := range pool[i].SiacoinOutputs {
			creator[pool[i].SiacoinOutputID(id, j)] = i
		}
	}
	need := make(map[int]bool)
	var visit func(t *types.V2Transaction)
	visit = func(t *types.V2Transaction) {
		for _, in := range t.SiacoinInputs {
			if i, ok := creator[in.Parent.ID]; ok && !need[i] {
				need[i] = true
				visit(&pool[i])
			}
		}
	}
	visit(&txn)
	for i := range pool {
		if need[i] {
			parents = append(parents, pool[i])
		}
	}
	return
}

// Submit hands a signed Owned to the pool: v1 through AddPoolTransactions
// (preceded by its unconfirmed parents), v2 through AddV2PoolTransactions with
// the basis FundV2Transaction / Redistribute returned, or through the wallet's
// own BroadcastV2TransactionSet. A v2 transaction that spends unconfirmed
// outputs is first brought to the tip the pool snapshot belongs to and is
// submitted behind its pooled parents.
func (l *Lab) Submit(rc *Rec, o *Owned, viaWallet bool) *Event {
	cm, w := l.CM, l.W
	var err error
	if !o.V2 {
		var set []types.Transaction
		return rc.do(Event{Op: OpSubmit1, H: o.H}, func() {
			set = append(v1Parents(cm.PoolTransactions(), o.T1), o.T1)
			_, err = cm.AddPoolTransactions(set)
		}, func(ev *Event) {
			ev.Err, ev.OK = errStr(err), err == nil
			for _, t := range set {
				ev.Txs = append(ev.Txs, poolTxV1(t))
			}
		})
	}
	op := OpSubmit2
	if viaWallet {
		op = OpBroadcast
	}
	var set []types.V2Transaction
	return rc.do(Event{Op: op, H: o.H, Basis: o.Basis}, func() {
		basis := o.Basis
		set = o.T2
		ephemeral := false
		for _, t := range o.T2 {
			for _, in := range t.SiacoinInputs {
				ephemeral = ephemeral || in.Parent.StateElement.LeafIndex == types.UnassignedLeafIndex
			}
		}
		if ephemeral && len(o.T2) == 1 {
			var tip types.ChainIndex
			var pool []types.V2Transaction
			for {
				tip = cm.Tip()
				pool = cm.V2PoolTransactions()
				if cm.Tip() == tip {
					break
				}
			}
			own, e := cm.UpdateV2TransactionSet([]types.V2Transaction{o.T2[0].DeepCopy()}, o.Basis, tip)
			if e != nil || len(own) != 1 {
				err = fmt.Errorf("cannot bring the transaction from its basis to the tip: %v", e)
				return
			}
			basis, set = tip, append(v2Parents(pool, own[0]), own[0])
		}
		if viaWallet {
			err = w.BroadcastV2TransactionSet(basis, set)
		} else {
			_, err = cm.AddV2PoolTransactions(basis, set)
		}
	}, func(ev *Event) {
		ev.Err, ev.OK = errStr(err), err == nil
		for _, t := range set {
			ev.Txs = append(ev.Txs, poolTxV2(t))
		}
	})
}

// Balance records a Balance() call.
func (l *Lab) Balance(rc *Rec) (*Event, wallet.Balance) {
	var b wallet.Balance
	var err error
	w := l.W
	ev := rc.do(Event{Op: OpBalance}, func() { b, err = w.Balance() }, func(ev *Event) {
		ev.Err, ev.OK = errStr(err), err == nil
		ev.Spendable = b.Spendable
	})
	return ev, b
}

// Spendable records a SpendableOutputs() call.
func (l *Lab) Spendable(rc *Rec) *Event {
	var outs []types.SiacoinElement
	var err error
	w := l.W
	return rc.do(Event{Op: OpSpendable}, func() { outs, err = w.SpendableOutputs() }, func(ev *Event) {
		ev.Err, ev.OK = errStr(err), err == nil
		ev.Listed = make([]OutRec, 0, len(outs))
		for _, e := range outs {
			ev.Listed = append(ev.Listed, OutRec{ID: e.ID, Value: e.SiacoinOutput.Value, Addr: e.SiacoinOutput.Address, Maturity: e.MaturityHeight})
		}
	})
}

// Barrier records the quiescent-point observation: the wallet's own view
// (Balance, SpendableOutputs), the pool's spent sets, the chain height and the
// input sets of every funded transaction that is neither released nor handed
// to the pool.
func (l *Lab) Barrier(rc *Rec, tag string, outstanding []*Owned) *Event {
	_, bal := l.Balance(rc)
	sp := l.Spendable(rc)
	var p1, p2 []types.SiacoinOutputID
	var height uint64
	var storeTip types.ChainIndex
	var pool []types.TransactionID
	return rc.do(Event{Op: OpBarrier, Probe: tag}, func() {
		for _, t := range l.CM.PoolTransactions() {
			for _, in := range t.SiacoinInputs {
				p1 = append(p1, in.ParentID)
			}
		}
		for _, t := range l.CM.V2PoolTransactions() {
			for _, in := range t.SiacoinInputs {
				p2 = append(p2, in.Parent.ID)
			}
		}
		height = l.CM.Tip().Height
		storeTip, _ = l.WS.Tip()
		pool = l.poolIDs()
	}, func(ev *Event) {
		ev.Pool = pool
		ev.OK = storeTip == l.CM.Tip()
		ev.Spendable = bal.Spendable
		ev.Listed = sp.Listed
		ev.PoolSpentV1, ev.PoolSpentV2 = p1, p2
		ev.Height = height
		for _, o := range outstanding {
			hi := HandleInputs{H: o.H}
			if !o.V2 {
				for _, in := range o.T1.SiacoinInputs {
					hi.IDs = append(hi.IDs, in.ParentID)
				}
			}
			for _, t := range o.T2 {
				for _, in := range t.SiacoinInputs {
					hi.IDs = append(hi.IDs, in.Parent.ID)
				}
			}
			ev.Outstanding = append(ev.Outstanding, hi)
		}
	})
}
