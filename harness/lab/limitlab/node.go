package limitlab

import (
	"encoding/binary"
	"errors"
	"fmt"
	"net"
	"sync"
	"time"

	"go.sia.tech/core/consensus"
	"go.sia.tech/core/gateway"
	"go.sia.tech/core/types"
	"go.sia.tech/coreutils"
	"go.sia.tech/coreutils/chain"
	"go.sia.tech/coreutils/syncer"
	"go.sia.tech/coreutils/testutil"
)

// A World is one private test network: the genesis id is made unique to this
// lab so that no other process on the machine can ever complete a gateway
// handshake with one of our nodes.
type World struct {
	Net     *consensus.Network
	Genesis types.Block

	mu  sync.Mutex
	uid uint64
}

// NewWorld creates a v2 test network whose genesis differs per salt.
func NewWorld(salt uint64) *World {
	n, g := testutil.V2Network()
	g.Timestamp = g.Timestamp.Add(time.Duration(1800+salt%100000) * time.Second)
	return &World{Net: n, Genesis: g, uid: salt<<20 | 1}
}

// NewWorldV1 is NewWorld on the network whose v2 hardfork starts late (allow
// height 200, require height 250): blocks below are synced through AddBlocks.
func NewWorldV1(salt uint64) *World {
	n, g := testutil.Network()
	g.Timestamp = g.Timestamp.Add(time.Duration(1800+salt%100000) * time.Second)
	return &World{Net: n, Genesis: g, uid: salt<<20 | 1}
}

// CopyChain replays the best chain of src into dst.
func CopyChain(dst, src *chain.Manager) error {
	tip := src.Tip().Height
	var batch []types.Block
	for h := dst.Tip().Height + 1; h <= tip; h++ {
		idx, ok := src.BestIndex(h)
		if !ok {
			return fmt.Errorf("no best index at height %d", h)
		}
		b, ok := src.Block(idx.ID)
		if !ok {
			return fmt.Errorf("missing block at height %d", h)
		}
		batch = append(batch, b)
		if len(batch) == 50 || h == tip {
			if err := dst.AddBlocks(batch); err != nil {
				return err
			}
			batch = nil
		}
	}
	return nil
}

// UniqueID returns a fresh gateway id (deterministic, never repeated).
func (w *World) UniqueID() (id gateway.UniqueID) {
	w.mu.Lock()
	w.uid++
	v := w.uid
	w.mu.Unlock()
	binary.BigEndian.PutUint64(id[:], v*0x9E3779B97F4A7C15+0xC18)
	return
}

// NewManager creates a chain.Manager on a MemDB.
func (w *World) NewManager() (*chain.Manager, error) {
	store, ts, err := chain.NewDBStore(chain.NewMemDB(), w.Net, w.Genesis, nil)
	if err != nil {
		return nil, err
	}
	return chain.NewManager(store, ts), nil
}

// Mine appends n blocks to cm.
func Mine(cm *chain.Manager, n int) error {
	for i := 0; i < n; i++ {
		b, ok := coreutils.MineBlock(cm, types.VoidAddress, 30*time.Second)
		if !ok {
			return errors.New("mining timed out")
		}
		if err := cm.AddBlocks([]types.Block{b}); err != nil {
			return err
		}
	}
	return nil
}

// A Node is an in-process syncer with all of its injectable interfaces proxied.
type Node struct {
	W    *World
	IP   string
	Addr string
	S    *syncer.Syncer
	Real *chain.Manager
	CM   *GateCM
	PS   *RecPeerStore
	L    *SlowListener
	D    *DelayDialer

	runMu   sync.Mutex
	runDone chan struct{}
	runErr  error
	started bool
}

// NodeConfig describes a node.
type NodeConfig struct {
	IP        string // loopback alias to listen on and dial from
	Blocks    int    // blocks to mine before start
	Linger    func() time.Duration
	LingerRun func() time.Duration // delay of the listener Close issued by Run
	DialWait  func() time.Duration
	CopyFrom  *chain.Manager // replay this chain before mining Blocks
	Opts      []syncer.Option
}

// NewNode builds (but does not run) a node.
func (w *World) NewNode(c NodeConfig) (*Node, error) {
	cm, err := w.NewManager()
	if err != nil {
		return nil, err
	}
	if c.CopyFrom != nil {
		if err := CopyChain(cm, c.CopyFrom); err != nil {
			return nil, err
		}
	}
	if c.Blocks > 0 {
		if err := Mine(cm, c.Blocks); err != nil {
			return nil, err
		}
	}
	l, err := net.Listen("tcp", net.JoinHostPort(c.IP, "0"))
	if err != nil {
		return nil, fmt.Errorf("listen on %s: %w", c.IP, err)
	}
	n := &Node{W: w, IP: c.IP, Addr: l.Addr().String(), Real: cm, CM: NewGateCM(cm), PS: NewRecPeerStore(), L: NewSlowListener(l, c.Linger), runDone: make(chan struct{})}
	n.L.LingerAgain = c.LingerRun
	n.D = &DelayDialer{LocalIP: c.IP, Delay: c.DialWait}
	opts := append([]syncer.Option{syncer.WithDialer(n.D)}, c.Opts...)
	n.S = syncer.New(n.L, n.CM, n.PS, gateway.Header{GenesisID: w.Genesis.ID(), UniqueID: w.UniqueID(), NetAddress: n.Addr}, opts...)
	return n, nil
}

// Start runs the syncer in a goroutine.
func (n *Node) Start() {
	n.runMu.Lock()
	n.started = true
	n.runMu.Unlock()
	go func() {
		err := n.S.Run()
		n.runMu.Lock()
		n.runErr = err
		n.runMu.Unlock()
		close(n.runDone)
	}()
}

// RunReturned reports whether Run has returned (true if it was never started).
func (n *Node) RunReturned() bool {
	n.runMu.Lock()
	st := n.started
	n.runMu.Unlock()
	if !st {
		return true
	}
	select {
	case <-n.runDone:
		return true
	default:
		return false
	}
}

// WaitRun waits for Run to return.
func (n *Node) WaitRun(timeout time.Duration) bool {
	n.runMu.Lock()
	st := n.started
	n.runMu.Unlock()
	if !st {
		return true
	}
	select {
	case <-n.runDone:
		return true
	case <-time.After(timeout):
		return false
	}
}

// PeerCounts samples Peers().
func (n *Node) PeerCounts() (in, out int) {
	for _, p := range n.S.Peers() {
		if p.Inbound {
			in++
		} else {
			out++
		}
	}
	return
}

// SubnetKey is the monitor's own computation of the subnet a source address
// falls into for the given prefix lengths (reference for the per-subnet limit).
func SubnetKey(ip string, v4bits int) string {
	p := net.ParseIP(ip).To4()
	if p == nil {
		return ""
	}
	if v4bits < 0 || v4bits > 32 {
		v4bits = 32
	}
	m := net.CIDRMask(v4bits, 32)
	return (&net.IPNet{IP: p.Mask(m), Mask: m}).String()
}
