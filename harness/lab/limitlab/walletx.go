package limitlab

import (
	"sync"
	"sync/atomic"
	"time"

	"go.sia.tech/core/types"
	"go.sia.tech/coreutils/chain"
	"go.sia.tech/coreutils/testutil"
	"go.sia.tech/coreutils/wallet"
	"go.uber.org/zap"
	"go.uber.org/zap/zapcore"
)

// walletCM is the wallet's ChainManager: the real manager, except that the two
// calls of the rebroadcast goroutine are gated and made to succeed so that the
// goroutine goes on to the syncer.
type walletCM struct {
	*chain.Manager
	g     *Gate
	armed *atomic.Bool
}

func (c *walletCM) UpdateV2TransactionSet(txns []types.V2Transaction, from, to types.ChainIndex) ([]types.V2Transaction, error) {
	defer c.g.Through("cm.UpdateV2TransactionSet", c.armed.Load())()
	return txns, nil
}

func (c *walletCM) AddV2PoolTransactions(basis types.ChainIndex, txns []types.V2Transaction) (bool, error) {
	defer c.g.Through("cm.AddV2PoolTransactions", c.armed.Load())()
	return false, nil
}

// OnReorg hands the wallet's subscription through, but records the call of the
// returned unsubscribe function: the wallet's goroutine calls it on its way
// out, so it tells the monitor when that goroutine really ended.
func (c *walletCM) OnReorg(fn func(types.ChainIndex)) func() {
	cancel := c.Manager.OnReorg(fn)
	return func() {
		defer c.g.Through("cm.OnReorg-unsubscribe", false)()
		cancel()
	}
}

// gateCore is a zap core that reports every log entry of the wallet to the gate.
type gateCore struct{ g *Gate }

func (c gateCore) Enabled(zapcore.Level) bool        { return true }
func (c gateCore) With([]zapcore.Field) zapcore.Core { return c }
func (c gateCore) Sync() error                       { return nil }
func (c gateCore) Check(e zapcore.Entry, ce *zapcore.CheckedEntry) *zapcore.CheckedEntry {
	return ce.AddCore(e, c)
}
func (c gateCore) Write(e zapcore.Entry, _ []zapcore.Field) error {
	c.g.Through("log:"+e.Message, false)()
	return nil
}

// walletStore wraps the ephemeral store; BroadcastedSets always reports one
// recent set so every rebroadcast round has work to do.
type walletStore struct {
	*testutil.EphemeralWalletStore
	g     *Gate
	armed *atomic.Bool
}

func (s *walletStore) BroadcastedSets() ([]wallet.BroadcastedSet, error) {
	defer s.g.Through("store.BroadcastedSets", s.armed.Load())()
	return []wallet.BroadcastedSet{{
		BroadcastedAt: time.Now(),
		Transactions:  []types.V2Transaction{{ArbitraryData: []byte("limitlab")}},
	}}, nil
}

func (s *walletStore) RemoveBroadcastedSet(set wallet.BroadcastedSet) error {
	defer s.g.Through("store.RemoveBroadcastedSet", false)()
	return nil
}

type walletSyncer struct {
	g     *Gate
	armed *atomic.Bool
}

func (s *walletSyncer) BroadcastV2TransactionSet(types.ChainIndex, []types.V2Transaction) error {
	defer s.g.Through("syncer.BroadcastV2TransactionSet", s.armed.Load())()
	return nil
}

// A WalletRig is a SingleAddressWallet whose store, chain manager and syncer
// are gated proxies sharing one Gate. Calls park only once Arm was called (the
// constructor itself calls into the store and the manager).
type WalletRig struct {
	W     *wallet.SingleAddressWallet
	CM    *chain.Manager
	G     *Gate
	armed atomic.Bool
	mu    sync.Mutex
}

// NewWalletRig creates the wallet with the given debounce interval.
func (w *World) NewWalletRig(key types.PrivateKey, debounce time.Duration) (*WalletRig, error) {
	cm, err := w.NewManager()
	if err != nil {
		return nil, err
	}
	r := &WalletRig{CM: cm, G: NewGate(true)}
	sw, err := wallet.NewSingleAddressWallet(key,
		&walletCM{Manager: cm, g: r.G, armed: &r.armed},
		&walletStore{EphemeralWalletStore: testutil.NewEphemeralWalletStore(), g: r.G, armed: &r.armed},
		&walletSyncer{g: r.G, armed: &r.armed},
		wallet.WithDebounceInterval(debounce),
		wallet.WithLogger(zap.New(gateCore{r.G})))
	if err != nil {
		return nil, err
	}
	r.W = sw
	return r, nil
}

// Arm makes background calls park while the gate is shut.
func (r *WalletRig) Arm() { r.armed.Store(true) }

// Reorg mines a block, which notifies the wallet's reorg subscription and so
// schedules another rebroadcast round.
func (r *WalletRig) Reorg() error { return Mine(r.CM, 1) }
