package limitlab

import (
	"bytes"
	"context"
	"encoding/binary"
	"errors"
	"fmt"
	"io"
	"net"
	"sync"
	"time"

	"go.sia.tech/core/types"
	"go.sia.tech/mux"
)

// Handshake stages at which a RawPeer can stop talking.
const (
	HSNothing       = iota // TCP connection only
	HSVersion              // our version sent
	HSPartialHeader        // version and half of our header sent
	HSNoAccept             // everything up to (not including) our final "accept"
	HSComplete             // handshake and multiplexer established
)

// HSName names a handshake stage.
func HSName(s int) string {
	return [...]string{"tcp-only", "version-only", "partial-header", "no-final-accept", "complete"}[s]
}

// A RawPeer speaks the gateway wire protocol by hand, so that it can stop in
// the middle of the handshake, of an RPC id or of a request body.
type RawPeer struct {
	Conn net.Conn
	M    *mux.Mux

	mu      sync.Mutex
	streams []*mux.Stream
}

func v1(fn func(e *types.Encoder)) []byte {
	var buf bytes.Buffer
	e := types.NewEncoder(&buf)
	e.WriteUint64(0)
	fn(e)
	e.Flush()
	b := buf.Bytes()
	binary.LittleEndian.PutUint64(b, uint64(len(b)-8))
	return b
}

func readV1(r io.Reader, max int) ([]byte, error) {
	var p [8]byte
	if _, err := io.ReadFull(r, p[:]); err != nil {
		return nil, err
	}
	n := binary.LittleEndian.Uint64(p[:])
	if n > uint64(max) {
		return nil, fmt.Errorf("object too large (%d)", n)
	}
	b := make([]byte, n)
	_, err := io.ReadFull(r, b)
	return b, err
}

// DialRaw connects to victim from localIP and walks through the gateway
// handshake up to (and excluding) stage; with HSComplete the multiplexer is
// established as well.
func (w *World) DialRaw(victim, localIP string, announcePort int, stage int) (*RawPeer, error) {
	d := &net.Dialer{LocalAddr: &net.TCPAddr{IP: net.ParseIP(localIP)}, Timeout: 60 * time.Second}
	conn, err := d.DialContext(context.Background(), "tcp", victim)
	if err != nil {
		return nil, err
	}
	rp := &RawPeer{Conn: conn}
	fail := func(err error) (*RawPeer, error) { conn.Close(); return nil, err }
	if stage == HSNothing {
		return rp, nil
	}
	conn.SetDeadline(time.Now().Add(60 * time.Second))
	defer conn.SetDeadline(time.Time{})
	if _, err := conn.Write(v1(func(e *types.Encoder) { e.WriteString("2.0.0") })); err != nil {
		return fail(err)
	}
	if stage == HSVersion {
		return rp, nil
	}
	if _, err := readV1(conn, 128); err != nil {
		return fail(fmt.Errorf("read version: %w", err))
	}
	uid := w.UniqueID()
	gid := w.Genesis.ID()
	hdr := v1(func(e *types.Encoder) {
		gid.EncodeTo(e)
		e.Write(uid[:])
		e.WriteString(net.JoinHostPort(localIP, fmt.Sprint(announcePort)))
	})
	if stage == HSPartialHeader {
		_, err := conn.Write(hdr[:len(hdr)/2])
		if err != nil {
			return fail(err)
		}
		return rp, nil
	}
	if _, err := conn.Write(hdr); err != nil {
		return fail(err)
	}
	acc, err := readV1(conn, 256)
	if err != nil {
		return fail(fmt.Errorf("read acceptance: %w", err))
	} else if !bytes.Contains(acc, []byte("accept")) {
		return fail(fmt.Errorf("header refused: %q", acc))
	}
	if _, err := readV1(conn, 32+8+8+256); err != nil {
		return fail(fmt.Errorf("read peer header: %w", err))
	}
	if stage == HSNoAccept {
		return rp, nil
	}
	if _, err := conn.Write(v1(func(e *types.Encoder) { e.WriteString("accept") })); err != nil {
		return fail(err)
	}
	m, err := mux.DialAnonymous(conn)
	if err != nil {
		return fail(fmt.Errorf("mux: %w", err))
	}
	rp.M = m
	return rp, nil
}

// SendHeadersBytes is the wire form (RPC id, request body) of a SendHeaders
// request whose index carries the tag.
func SendHeadersBytes(t Tag) (id, body []byte) {
	var b1, b2 bytes.Buffer
	e := types.NewEncoder(&b1)
	types.NewSpecifier("SendHeaders").EncodeTo(e)
	e.Flush()
	e = types.NewEncoder(&b2)
	types.ChainIndex{Height: 1, ID: t.ID()}.EncodeTo(e)
	e.WriteUint64(1)
	e.Flush()
	return b1.Bytes(), b2.Bytes()
}

// OpenStalled opens a stream, writes data and keeps the stream open.
func (rp *RawPeer) OpenStalled(data []byte) (*mux.Stream, error) {
	if rp.M == nil {
		return nil, errors.New("no multiplexer")
	}
	s := rp.M.DialStream()
	s.SetDeadline(time.Now().Add(5 * time.Minute))
	if _, err := s.Write(data); err != nil {
		s.Close()
		return nil, err
	}
	rp.mu.Lock()
	rp.streams = append(rp.streams, s)
	rp.mu.Unlock()
	return s, nil
}

// WaitTornDown reads from r until the remote side ends the conversation (any
// error, including EOF) and reports whether that happened within the timeout.
func WaitTornDown(r interface {
	Read([]byte) (int, error)
	SetReadDeadline(time.Time) error
}, timeout time.Duration) bool {
	r.SetReadDeadline(time.Now().Add(timeout))
	buf := make([]byte, 4096)
	start := time.Now()
	for {
		_, err := r.Read(buf)
		if err != nil {
			// a local deadline means the remote side never ended it
			return time.Since(start) < timeout-50*time.Millisecond
		}
	}
}

// Close hangs up.
func (rp *RawPeer) Close() {
	rp.mu.Lock()
	ss := rp.streams
	rp.streams = nil
	rp.mu.Unlock()
	for _, s := range ss {
		s.Close()
	}
	if rp.M != nil {
		rp.M.Close()
	}
	rp.Conn.Close()
}
