package limitlab

import (
	"context"
	"errors"
	"math/rand/v2"
	"net"
	"sync"
	"sync/atomic"
	"time"

	"go.sia.tech/coreutils/syncer"
	"go.sia.tech/coreutils/testutil"
)

// LockedRand is a PRNG that may be used from several goroutines.
type LockedRand struct {
	mu sync.Mutex
	r  *rand.Rand
}

// NewLockedRand wraps r.
func NewLockedRand(r *rand.Rand) *LockedRand { return &LockedRand{r: r} }

// IntN returns a value in [0,n).
func (l *LockedRand) IntN(n int) int {
	if n <= 0 {
		return 0
	}
	l.mu.Lock()
	defer l.mu.Unlock()
	return l.r.IntN(n)
}

// Uint64 returns a random value.
func (l *LockedRand) Uint64() uint64 {
	l.mu.Lock()
	defer l.mu.Unlock()
	return l.r.Uint64()
}

// Dur returns a duration in [0,max).
func (l *LockedRand) Dur(max time.Duration) time.Duration {
	if max <= 0 {
		return 0
	}
	return time.Duration(l.IntN(int(max)))
}

// RecPeerStore is a recording syncer.PeerStore. Every call is counted and
// passes through a Gate (so the monitor knows whether a peer-store call is in
// progress when Close returns); AddPeer/UpdatePeerInfo/Banned can be delayed to
// widen the windows around them.
type RecPeerStore struct {
	inner *testutil.EphemeralPeerStore
	G     *Gate

	mu      sync.Mutex
	banned  []string // arguments of Banned, in order
	added   []string
	conns   []string // addresses whose LastConnect was updated, i.e. peers put into the peer map
	delay   func(method string) time.Duration
	changed chan struct{}
}

var _ syncer.PeerStore = (*RecPeerStore)(nil)

// NewRecPeerStore returns an empty store.
func NewRecPeerStore() *RecPeerStore {
	return &RecPeerStore{inner: testutil.NewEphemeralPeerStore(), G: NewGate(true), changed: make(chan struct{})}
}

// SetDelay installs a delay source (nil = none).
func (p *RecPeerStore) SetDelay(fn func(method string) time.Duration) {
	p.mu.Lock()
	p.delay = fn
	p.mu.Unlock()
}

func (p *RecPeerStore) through(method string) func() {
	p.mu.Lock()
	d := p.delay
	p.mu.Unlock()
	done := p.G.Through(method, false)
	if d != nil {
		if w := d(method); w > 0 {
			time.Sleep(w)
		}
	}
	return done
}

// AddPeer implements syncer.PeerStore.
func (p *RecPeerStore) AddPeer(addr string) error {
	defer p.through("AddPeer")()
	p.mu.Lock()
	p.added = append(p.added, addr)
	p.mu.Unlock()
	return p.inner.AddPeer(addr)
}

// Peers implements syncer.PeerStore.
func (p *RecPeerStore) Peers() ([]syncer.PeerInfo, error) {
	defer p.through("Peers")()
	return p.inner.Peers()
}

// PeerInfo implements syncer.PeerStore.
func (p *RecPeerStore) PeerInfo(addr string) (syncer.PeerInfo, error) {
	defer p.through("PeerInfo")()
	return p.inner.PeerInfo(addr)
}

// UpdatePeerInfo implements syncer.PeerStore.
func (p *RecPeerStore) UpdatePeerInfo(addr string, fn func(*syncer.PeerInfo)) error {
	defer p.through("UpdatePeerInfo")()
	return p.inner.UpdatePeerInfo(addr, func(info *syncer.PeerInfo) {
		before := info.LastConnect
		fn(info)
		if !info.LastConnect.Equal(before) {
			// only addPeer touches LastConnect: a connection is being added
			p.mu.Lock()
			p.conns = append(p.conns, addr)
			p.mu.Unlock()
		}
	})
}

// Ban implements syncer.PeerStore.
func (p *RecPeerStore) Ban(addr string, d time.Duration, reason string) error {
	defer p.through("Ban")()
	return p.inner.Ban(addr, d, reason)
}

// Banned implements syncer.PeerStore. allowConnect calls it (under the syncer
// mutex) right before it counts the peers, so the number of Banned calls tells
// the monitor how many connection attempts have passed the admission check.
func (p *RecPeerStore) Banned(addr string) (bool, error) {
	defer p.through("Banned")()
	p.mu.Lock()
	p.banned = append(p.banned, addr)
	close(p.changed)
	p.changed = make(chan struct{})
	p.mu.Unlock()
	return p.inner.Banned(addr)
}

// BannedCalls returns how many admission checks were seen.
func (p *RecPeerStore) BannedCalls() int {
	p.mu.Lock()
	defer p.mu.Unlock()
	return len(p.banned)
}

// DuplicateConnAddrs returns the dial-back addresses under which more than one
// connection was put into the peer map during the life of the syncer.
func (p *RecPeerStore) DuplicateConnAddrs() []string {
	p.mu.Lock()
	defer p.mu.Unlock()
	seen := map[string]int{}
	var dup []string
	for _, a := range p.conns {
		if seen[a]++; seen[a] == 2 {
			dup = append(dup, a)
		}
	}
	return dup
}

// Added returns the addresses passed to AddPeer.
func (p *RecPeerStore) Added() []string {
	p.mu.Lock()
	defer p.mu.Unlock()
	return append([]string(nil), p.added...)
}

// WaitBanned waits until n admission checks were seen.
func (p *RecPeerStore) WaitBanned(n int, timeout time.Duration) bool {
	t := time.NewTimer(timeout)
	defer t.Stop()
	for {
		p.mu.Lock()
		have, ch := len(p.banned), p.changed
		p.mu.Unlock()
		if have >= n {
			return true
		}
		select {
		case <-ch:
		case <-t.C:
			return false
		}
	}
}

// Seed adds addresses directly (used to hand the peer loop its candidates).
func (p *RecPeerStore) Seed(addrs ...string) {
	for _, a := range addrs {
		p.inner.AddPeer(a)
	}
}

// SlowListener wraps a net.Listener: Close closes the socket and then lingers
// for a PRNG-chosen time before returning (closing a socket is a system call,
// i.e. a point at which the closing goroutine may be descheduled).
type SlowListener struct {
	net.Listener
	linger func() time.Duration
	// LingerAgain delays every later Close call (Run closes the listener once
	// more on its way out): the goroutine running Run is descheduled there.
	LingerAgain func() time.Duration
	closed      atomic.Bool
	accepts     atomic.Int64
	// InnerClosed is closed once the socket itself has been closed (Close may
	// still be lingering).
	InnerClosed chan struct{}
}

// NewSlowListener wraps l.
func NewSlowListener(l net.Listener, linger func() time.Duration) *SlowListener {
	return &SlowListener{Listener: l, linger: linger, InnerClosed: make(chan struct{})}
}

// Accept implements net.Listener.
func (s *SlowListener) Accept() (net.Conn, error) {
	c, err := s.Listener.Accept()
	if err == nil {
		s.accepts.Add(1)
	}
	return c, err
}

// Accepted returns the number of accepted connections.
func (s *SlowListener) Accepted() int64 { return s.accepts.Load() }

// Close implements net.Listener.
func (s *SlowListener) Close() error {
	err := s.Listener.Close()
	// only the call that really closed the socket lingers (a second Close,
	// e.g. the one Run issues on its way out, returns an error immediately)
	if err == nil && s.closed.CompareAndSwap(false, true) {
		close(s.InnerClosed)
		if s.linger != nil {
			if d := s.linger(); d > 0 {
				time.Sleep(d)
			}
		}
	} else if s.LingerAgain != nil {
		if d := s.LingerAgain(); d > 0 {
			time.Sleep(d)
		}
	}
	return err
}

// DelayDialer is a syncer.Dialer whose connections are established after a
// delay and bound to a chosen source address.
type DelayDialer struct {
	LocalIP string
	Delay   func() time.Duration
	dials   atomic.Int64

	// hanging mode: a dial only returns when its context is cancelled (the
	// way a dial to a black-holed address behaves) or when the monitor lets
	// it fail
	hang      atomic.Bool
	parked    atomic.Int64 // dials currently hanging
	everHung  atomic.Int64
	cancelled atomic.Int64 // hanging dials that saw their context cancelled
	relMu     sync.Mutex
	release   chan struct{}
}

// Hang switches the hanging mode on.
func (d *DelayDialer) Hang() {
	d.relMu.Lock()
	if d.release == nil {
		d.release = make(chan struct{})
	}
	d.relMu.Unlock()
	d.hang.Store(true)
}

// LetFail ends the hanging mode: every hanging dial fails with an error.
func (d *DelayDialer) LetFail() {
	d.hang.Store(false)
	d.relMu.Lock()
	if d.release != nil {
		select {
		case <-d.release:
		default:
			close(d.release)
		}
	}
	d.relMu.Unlock()
}

// Hanging returns how many dials are in flight (hanging) right now.
func (d *DelayDialer) Hanging() int64 { return d.parked.Load() }

// EverHung returns how many dials have hung so far.
func (d *DelayDialer) EverHung() int64 { return d.everHung.Load() }

// Cancelled returns how many hanging dials saw their context cancelled.
func (d *DelayDialer) Cancelled() int64 { return d.cancelled.Load() }

// Dials returns the number of DialContext calls.
func (d *DelayDialer) Dials() int64 { return d.dials.Load() }

// DialContext implements syncer.Dialer.
func (d *DelayDialer) DialContext(ctx context.Context, network, address string) (net.Conn, error) {
	d.dials.Add(1)
	if d.hang.Load() {
		d.relMu.Lock()
		rel := d.release
		d.relMu.Unlock()
		d.parked.Add(1)
		d.everHung.Add(1)
		defer d.parked.Add(-1)
		select {
		case <-ctx.Done():
			d.cancelled.Add(1)
			return nil, ctx.Err()
		case <-rel:
			return nil, errors.New("limitlab: hanging dial released by the monitor")
		}
	}
	if d.Delay != nil {
		if w := d.Delay(); w > 0 {
			t := time.NewTimer(w)
			select {
			case <-t.C:
			case <-ctx.Done():
				t.Stop()
				return nil, ctx.Err()
			}
		}
	}
	nd := &net.Dialer{}
	if d.LocalIP != "" {
		nd.LocalAddr = &net.TCPAddr{IP: net.ParseIP(d.LocalIP)}
	}
	return nd.DialContext(ctx, network, address)
}
