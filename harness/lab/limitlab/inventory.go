package limitlab

import (
	"regexp"
	"runtime"
	"sort"
	"strconv"
	"strings"
	"time"
)

// A Goroutine is one entry of the goroutine inventory.
type Goroutine struct {
	ID        int      `json:"id"`
	State     string   `json:"state"`
	Funcs     []string `json:"funcs"`     // innermost first
	CreatedBy string   `json:"createdBy"` // "" for the main goroutine
}

var (
	watched    = regexp.MustCompile(`go\.sia\.tech/coreutils/(syncer|rhp/v4|rhp/v4/siamux|rhp/v4/quic|wallet|threadgroup)\.`)
	headerLine = regexp.MustCompile(`^goroutine (\d+) \[([^\]]*)\]:$`)
)

func stacks() string {
	n := 1 << 20
	for {
		buf := make([]byte, n)
		m := runtime.Stack(buf, true)
		if m < n {
			return string(buf[:m])
		}
		n *= 2
	}
}

func stripArgs(fn string) string {
	// "pkg.(*T).m(0xc0000, ...)" -> "pkg.(*T).m"
	if i := strings.LastIndex(fn, "("); i > 0 && strings.HasSuffix(fn, ")") {
		// keep method receivers like (*T): only cut the trailing argument list
		return fn[:i]
	}
	return fn
}

// AllGoroutines parses runtime.Stack(all).
func AllGoroutines() []Goroutine {
	var out []Goroutine
	for _, block := range strings.Split(stacks(), "\n\n") {
		lines := strings.Split(strings.TrimSpace(block), "\n")
		if len(lines) == 0 {
			continue
		}
		m := headerLine.FindStringSubmatch(lines[0])
		if m == nil {
			continue
		}
		g := Goroutine{State: m[2]}
		g.ID, _ = strconv.Atoi(m[1])
		for _, ln := range lines[1:] {
			if strings.HasPrefix(ln, "\t") {
				continue // file:line
			}
			if strings.HasPrefix(ln, "created by ") {
				c := strings.TrimPrefix(ln, "created by ")
				if i := strings.Index(c, " in goroutine"); i >= 0 {
					c = c[:i]
				}
				g.CreatedBy = c
				continue
			}
			g.Funcs = append(g.Funcs, stripArgs(ln))
		}
		out = append(out, g)
	}
	return out
}

// Watched reports whether a goroutine has a frame in (or was created by) one
// of the coreutils packages the property names.
func (g Goroutine) Watched() bool {
	if watched.MatchString(g.CreatedBy) {
		return true
	}
	for _, f := range g.Funcs {
		if watched.MatchString(f) {
			return true
		}
	}
	return false
}

// Has reports whether any frame or the creator contains s.
func (g Goroutine) Has(s string) bool {
	if strings.Contains(g.CreatedBy, s) {
		return true
	}
	for _, f := range g.Funcs {
		if strings.Contains(f, s) {
			return true
		}
	}
	return false
}

// Key is a stable description of a goroutine: its innermost coreutils frame
// and its creator.
func (g Goroutine) Key() string {
	top := ""
	for _, f := range g.Funcs {
		if watched.MatchString(f) {
			top = f
			break
		}
	}
	return shortFn(top) + " <- " + shortFn(g.CreatedBy)
}

func shortFn(f string) string {
	f = strings.TrimPrefix(f, "go.sia.tech/coreutils/")
	return f
}

// Inventory returns the goroutines with coreutils frames, minus those for
// which ignore returns true.
func Inventory(ignore func(Goroutine) bool) []Goroutine {
	var out []Goroutine
	for _, g := range AllGoroutines() {
		if g.Watched() && (ignore == nil || !ignore(g)) {
			out = append(out, g)
		}
	}
	sort.Slice(out, func(i, j int) bool { return out[i].ID < out[j].ID })
	return out
}

// Keys summarises an inventory.
func Keys(gs []Goroutine) []string {
	m := map[string]int{}
	for _, g := range gs {
		m[g.Key()]++
	}
	var ks []string
	for k, n := range m {
		ks = append(ks, k+" x"+strconv.Itoa(n))
	}
	sort.Strings(ks)
	return ks
}

// Settle polls the inventory until pred accepts it (typically: empty) or the
// timeout passes, and returns the last inventory and whether pred held.
func Settle(timeout time.Duration, ignore func(Goroutine) bool, pred func([]Goroutine) bool) ([]Goroutine, bool) {
	deadline := time.Now().Add(timeout)
	wait := time.Millisecond
	for {
		inv := Inventory(ignore)
		if pred(inv) {
			return inv, true
		}
		if time.Now().After(deadline) {
			return inv, false
		}
		time.Sleep(wait)
		if wait < 50*time.Millisecond {
			wait *= 2
		}
	}
}

// HandlerGoroutines counts live RPC handler goroutines of all syncers in the
// process (goroutines spawned by runPeer).
func HandlerGoroutines() int {
	n := 0
	for _, g := range AllGoroutines() {
		if !strings.Contains(g.CreatedBy, "coreutils/syncer.(*Syncer).runPeer") {
			continue
		}
		// a goroutine of runPeer that does nothing but select (e.g. a
		// shutdown watcher a repaired tree may add) is not a handler: handlers
		// never select in the closure itself
		if strings.HasPrefix(g.State, "select") && len(g.Funcs) > 0 && strings.Contains(g.Funcs[0], "syncer.(*Syncer).runPeer.func") {
			continue
		}
		n++
	}
	return n
}

// WaitHandlersQuiet waits until no RPC handler goroutine is alive.
func WaitHandlersQuiet(timeout time.Duration) bool {
	deadline := time.Now().Add(timeout)
	wait := 500 * time.Microsecond
	for {
		if HandlerGoroutines() == 0 {
			return true
		}
		if time.Now().After(deadline) {
			return false
		}
		time.Sleep(wait)
		if wait < 20*time.Millisecond {
			wait *= 2
		}
	}
}

// Stacks renders up to n goroutines of an inventory with all their frames.
func Stacks(gs []Goroutine, n int) []string {
	var out []string
	for i, g := range gs {
		if i >= n {
			break
		}
		out = append(out, "["+g.State+"] "+strings.Join(g.Funcs, " < ")+" << "+g.CreatedBy)
	}
	return out
}

// WaitHandlersAtMost waits until at most n RPC handler goroutines are alive.
func WaitHandlersAtMost(n int, timeout time.Duration) bool {
	deadline := time.Now().Add(timeout)
	wait := 500 * time.Microsecond
	for {
		if HandlerGoroutines() <= n {
			return true
		}
		if time.Now().After(deadline) {
			return false
		}
		time.Sleep(wait)
		if wait < 20*time.Millisecond {
			wait *= 2
		}
	}
}

// BackpressuredPeerLoops counts peer loops that hold an accepted stream and
// wait for a free per-peer slot (runPeer blocked in its select).
func BackpressuredPeerLoops() int {
	n := 0
	for _, g := range AllGoroutines() {
		if !strings.HasPrefix(g.State, "select") {
			continue
		}
		for _, f := range g.Funcs {
			if watched.MatchString(f) {
				if strings.HasSuffix(f, "syncer.(*Syncer).runPeer") {
					n++
				}
				break
			}
		}
	}
	return n
}

// TransportGoroutines returns the goroutines of gateway/siamux multiplexers
// (read loop, write loop, stream pruner). The lab closes every multiplexer it
// creates itself, so at a quiescent point - every component closed, every
// harness peer gone - the remaining ones belong to transports that coreutils
// created and never closed.
func TransportGoroutines() []Goroutine {
	var out []Goroutine
	for _, g := range AllGoroutines() {
		if strings.HasPrefix(g.CreatedBy, "go.sia.tech/mux/v3.newMux") || g.Has("go.sia.tech/mux/v3.(*Mux).readLoop") || g.Has("go.sia.tech/mux/v3.(*Mux).writeLoop") {
			out = append(out, g)
		}
	}
	return out
}

// SettleTransports waits until at most n transport goroutines are left.
func SettleTransports(n int, timeout time.Duration) ([]Goroutine, bool) {
	deadline := time.Now().Add(timeout)
	wait := time.Millisecond
	for {
		gs := TransportGoroutines()
		if len(gs) <= n {
			return gs, true
		}
		if time.Now().After(deadline) {
			return gs, false
		}
		time.Sleep(wait)
		if wait < 100*time.Millisecond {
			wait *= 2
		}
	}
}
