package limitlab

import (
	"encoding/binary"
	"errors"
	"fmt"
	"sync"
	"time"

	"go.sia.tech/core/consensus"
	"go.sia.tech/core/types"
	"go.sia.tech/coreutils/chain"
	"go.sia.tech/coreutils/syncer"
)

// A Tag identifies one attack request. It travels inside the request as a
// fake block id, which the handler passes verbatim to the ChainManager, so
// the proxy knows for which peer (and therefore which subnet) a handler runs.
type Tag struct {
	Peer  uint32 `json:"peer"`
	Burst uint32 `json:"burst"`
	Req   uint32 `json:"req"`
}

const tagMagic = "C18LIMIT"

// ID encodes the tag as a block id.
func (t Tag) ID() (id types.BlockID) {
	copy(id[:8], tagMagic)
	binary.BigEndian.PutUint32(id[8:], t.Peer)
	binary.BigEndian.PutUint32(id[12:], t.Burst)
	binary.BigEndian.PutUint32(id[16:], t.Req)
	return
}

// ParseTag decodes a tag.
func ParseTag(id types.BlockID) (Tag, bool) {
	if string(id[:8]) != tagMagic {
		return Tag{}, false
	}
	return Tag{binary.BigEndian.Uint32(id[8:]), binary.BigEndian.Uint32(id[12:]), binary.BigEndian.Uint32(id[16:])}, true
}

// An Excess is one observation of more concurrent handlers than a limit allows.
type Excess struct {
	Kind     string `json:"kind"` // "peer" or "subnet"
	Key      string `json:"key"`
	Observed int    `json:"observed"`
	Limit    int    `json:"limit"`
	Method   string `json:"method"`
}

// GateCM wraps a real chain.Manager as a syncer.ChainManager. Calls that carry
// a Tag are attack requests: they are counted per peer and per subnet, checked
// against the configured limits at the moment of entry, and parked on the gate.
// All other calls pass through (counted, optionally perturbed by a short
// PRNG-chosen delay).
type GateCM struct {
	*chain.Manager
	G *Gate

	mu          sync.Mutex
	perPeer     int
	perSubnet   int // <= 0: disabled
	subnetOf    map[uint32]string
	curPeer     map[uint32]int
	curSubnet   map[string]int
	maxPeer     int
	maxSubnet   int
	entered     map[Tag]struct{}
	excess      []Excess
	jitter      func() time.Duration
	parkPlain   map[string]bool // untagged methods that park on the gate as well
	hookTime    time.Duration   // tagged calls take this long once the gate lets them pass (slow manager)
	maxHook     time.Duration   // longest time a tagged call really spent sleeping
	order       []Tag           // tags in the order their handlers entered
	failHistory bool            // History returns an error (fatal for the sync loop)
}

// FailHistory makes History return an error from now on: the sync loop, and
// with it Run, gives up.
func (g *GateCM) FailHistory() {
	g.mu.Lock()
	g.failHistory = true
	g.mu.Unlock()
}

var _ syncer.ChainManager = (*GateCM)(nil)

// NewGateCM wraps cm. The gate starts open.
func NewGateCM(cm *chain.Manager) *GateCM {
	return &GateCM{
		Manager:   cm,
		G:         NewGate(true),
		subnetOf:  make(map[uint32]string),
		curPeer:   make(map[uint32]int),
		curSubnet: make(map[string]int),
		entered:   make(map[Tag]struct{}),
	}
}

// SetLimits tells the proxy which limits the syncer was configured with.
func (g *GateCM) SetLimits(perPeer, perSubnet int) {
	g.mu.Lock()
	g.perPeer, g.perSubnet = perPeer, perSubnet
	g.mu.Unlock()
}

// SetJitter installs a delay source for untagged calls (nil = none).
func (g *GateCM) SetJitter(fn func() time.Duration) {
	g.mu.Lock()
	g.jitter = fn
	g.mu.Unlock()
}

// ParkMethods makes untagged calls of the named methods (e.g. AddBlocks,
// AddValidatedV2Blocks: the calls of the block-download machinery) park while
// the gate is shut.
func (g *GateCM) ParkMethods(methods ...string) {
	g.mu.Lock()
	g.parkPlain = map[string]bool{}
	for _, m := range methods {
		g.parkPlain[m] = true
	}
	g.mu.Unlock()
}

// SetHookTime makes every tagged call take d inside the manager (outside any
// stream I/O) after the gate let it pass.
func (g *GateCM) SetHookTime(d time.Duration) {
	g.mu.Lock()
	g.hookTime = d
	g.mu.Unlock()
}

// MaxHookTime returns the longest time a tagged call spent in the slow hook.
func (g *GateCM) MaxHookTime() time.Duration {
	g.mu.Lock()
	defer g.mu.Unlock()
	return g.maxHook
}

// EntryOrder returns the tags in the order their handlers reached the manager.
func (g *GateCM) EntryOrder() []Tag {
	g.mu.Lock()
	defer g.mu.Unlock()
	return append([]Tag(nil), g.order...)
}

// ReleaseTag lets the parked handler of one request go while the gate stays shut.
func (g *GateCM) ReleaseTag(t Tag) bool { return g.G.ReleaseKey(tagKey(t)) }

func tagKey(t Tag) string { return fmt.Sprintf("%d/%d/%d", t.Peer, t.Burst, t.Req) }

// RegisterPeer binds an attacker index to the subnet key the monitor computed
// for its source address.
func (g *GateCM) RegisterPeer(peer uint32, subnet string) {
	g.mu.Lock()
	g.subnetOf[peer] = subnet
	g.mu.Unlock()
}

// Observed is what the proxy saw so far.
type Observed struct {
	MaxPerPeer   int
	MaxPerSubnet int
	Entered      int
	Excess       []Excess
	CurPeer      map[uint32]int
	CurSubnet    map[string]int
}

// Observed returns a copy of the concurrency observations.
func (g *GateCM) Observed() Observed {
	g.mu.Lock()
	defer g.mu.Unlock()
	o := Observed{MaxPerPeer: g.maxPeer, MaxPerSubnet: g.maxSubnet, Entered: len(g.entered), Excess: append([]Excess(nil), g.excess...), CurPeer: map[uint32]int{}, CurSubnet: map[string]int{}}
	for k, v := range g.curPeer {
		if v != 0 {
			o.CurPeer[k] = v
		}
	}
	for k, v := range g.curSubnet {
		if v != 0 {
			o.CurSubnet[k] = v
		}
	}
	return o
}

// WasEntered reports whether the request with this tag reached a handler.
func (g *GateCM) WasEntered(t Tag) bool {
	g.mu.Lock()
	defer g.mu.Unlock()
	_, ok := g.entered[t]
	return ok
}

// ResetMax clears the running maxima (between bursts).
func (g *GateCM) ResetMax() {
	g.mu.Lock()
	g.maxPeer, g.maxSubnet = 0, 0
	g.mu.Unlock()
}

func (g *GateCM) tagged(t Tag, method string) (exit func()) {
	g.mu.Lock()
	sub := g.subnetOf[t.Peer]
	g.curPeer[t.Peer]++
	g.curSubnet[sub]++
	if n := g.curPeer[t.Peer]; n > g.maxPeer {
		g.maxPeer = n
	}
	if n := g.curSubnet[sub]; n > g.maxSubnet {
		g.maxSubnet = n
	}
	if n := g.curPeer[t.Peer]; g.perPeer >= 1 && n > g.perPeer {
		g.excess = append(g.excess, Excess{"peer", fmt.Sprint(t.Peer), n, g.perPeer, method})
	}
	if n := g.curSubnet[sub]; g.perSubnet > 0 && n > g.perSubnet {
		g.excess = append(g.excess, Excess{"subnet", sub, n, g.perSubnet, method})
	}
	g.entered[t] = struct{}{}
	g.order = append(g.order, t)
	hook := g.hookTime
	g.mu.Unlock()

	done := g.G.ThroughKey(method+":tagged", tagKey(t), true)
	if hook > 0 {
		t0 := time.Now()
		time.Sleep(hook)
		g.mu.Lock()
		if d := time.Since(t0); d > g.maxHook {
			g.maxHook = d
		}
		g.mu.Unlock()
	}
	return func() {
		// leave the per-peer / per-subnet books before the handler can go on
		// to release its slots, so the observed count never exceeds the true
		// number of live handlers
		g.mu.Lock()
		g.curPeer[t.Peer]--
		g.curSubnet[sub]--
		g.mu.Unlock()
		done()
	}
}

func (g *GateCM) plain(method string) (exit func()) {
	g.mu.Lock()
	j := g.jitter
	park := g.parkPlain[method]
	g.mu.Unlock()
	done := g.G.Through(method, park)
	if j != nil {
		if d := j(); d > 0 {
			time.Sleep(d)
		}
	}
	return done
}

// Headers is called by the SendHeaders handler.
func (g *GateCM) Headers(index types.ChainIndex, max uint64) ([]types.BlockHeader, uint64, error) {
	if t, ok := ParseTag(index.ID); ok {
		defer g.tagged(t, "Headers")()
		return nil, 0, nil
	}
	defer g.plain("Headers")()
	return g.Manager.Headers(index, max)
}

// BlocksForHistory is called by the SendV2Blocks handler.
func (g *GateCM) BlocksForHistory(history []types.BlockID, max uint64) ([]types.Block, uint64, error) {
	if len(history) > 0 {
		if t, ok := ParseTag(history[0]); ok {
			defer g.tagged(t, "BlocksForHistory")()
			return nil, 0, nil
		}
	}
	defer g.plain("BlocksForHistory")()
	return g.Manager.BlocksForHistory(history, max)
}

// Block is called by the SendTransactions handler (among others).
func (g *GateCM) Block(id types.BlockID) (types.Block, bool) {
	if t, ok := ParseTag(id); ok {
		defer g.tagged(t, "Block")()
		return types.Block{}, false
	}
	defer g.plain("Block")()
	return g.Manager.Block(id)
}

// History implements syncer.ChainManager.
func (g *GateCM) History() ([32]types.BlockID, error) {
	defer g.plain("History")()
	g.mu.Lock()
	fail := g.failHistory
	g.mu.Unlock()
	if fail {
		return [32]types.BlockID{}, errors.New("limitlab: history unavailable")
	}
	return g.Manager.History()
}

// State implements syncer.ChainManager.
func (g *GateCM) State(id types.BlockID) (consensus.State, bool) {
	defer g.plain("State")()
	return g.Manager.State(id)
}

// AddBlocks implements syncer.ChainManager.
func (g *GateCM) AddBlocks(blocks []types.Block) error {
	defer g.plain("AddBlocks")()
	return g.Manager.AddBlocks(blocks)
}

// AddValidatedV2Blocks implements syncer.ChainManager.
func (g *GateCM) AddValidatedV2Blocks(blocks []types.Block, states []consensus.State) error {
	defer g.plain("AddValidatedV2Blocks")()
	return g.Manager.AddValidatedV2Blocks(blocks, states)
}

// Tip implements syncer.ChainManager.
func (g *GateCM) Tip() types.ChainIndex {
	defer g.plain("Tip")()
	return g.Manager.Tip()
}

// TipState implements syncer.ChainManager.
func (g *GateCM) TipState() consensus.State {
	defer g.plain("TipState")()
	return g.Manager.TipState()
}

// PoolTransaction implements syncer.ChainManager.
func (g *GateCM) PoolTransaction(txid types.TransactionID) (types.Transaction, bool) {
	defer g.plain("PoolTransaction")()
	return g.Manager.PoolTransaction(txid)
}

// AddPoolTransactions implements syncer.ChainManager.
func (g *GateCM) AddPoolTransactions(txns []types.Transaction) (bool, error) {
	defer g.plain("AddPoolTransactions")()
	return g.Manager.AddPoolTransactions(txns)
}

// V2PoolTransaction implements syncer.ChainManager.
func (g *GateCM) V2PoolTransaction(txid types.TransactionID) (types.V2Transaction, bool) {
	defer g.plain("V2PoolTransaction")()
	return g.Manager.V2PoolTransaction(txid)
}

// AddV2PoolTransactions implements syncer.ChainManager.
func (g *GateCM) AddV2PoolTransactions(basis types.ChainIndex, txns []types.V2Transaction) (bool, error) {
	defer g.plain("AddV2PoolTransactions")()
	return g.Manager.AddV2PoolTransactions(basis, txns)
}

// TransactionsForPartialBlock implements syncer.ChainManager.
func (g *GateCM) TransactionsForPartialBlock(missing []types.Hash256) ([]types.Transaction, []types.V2Transaction) {
	defer g.plain("TransactionsForPartialBlock")()
	return g.Manager.TransactionsForPartialBlock(missing)
}
