package limitlab

import (
	"context"
	"errors"
	"net"
	"sync"
	"time"

	proto4 "go.sia.tech/core/rhp/v4"
	"go.sia.tech/core/types"
	"go.sia.tech/coreutils/chain"
	rhp "go.sia.tech/coreutils/rhp/v4"
	"go.sia.tech/coreutils/rhp/v4/siamux"
	"go.sia.tech/coreutils/testutil"
	"go.uber.org/zap"
)

// gateSettings, gateContractor and gateSectors are blocking proxies for the
// interfaces RHP handlers call into.
type gateSettings struct {
	inner rhp.Settings
	g     *Gate
}

func (s *gateSettings) RHP4Settings() proto4.HostSettings {
	defer s.g.Through("Settings.RHP4Settings", true)()
	return s.inner.RHP4Settings()
}

type gateContractor struct {
	rhp.Contractor
	g *Gate
}

func (c *gateContractor) AccountBalance(a proto4.Account) (types.Currency, error) {
	defer c.g.Through("Contractor.AccountBalance", true)()
	return c.Contractor.AccountBalance(a)
}

func (c *gateContractor) LockV2Contract(id types.FileContractID) (rhp.RevisionState, func(), error) {
	defer c.g.Through("Contractor.LockV2Contract", true)()
	return c.Contractor.LockV2Contract(id)
}

type gateSectors struct {
	rhp.Sectors
	g *Gate
}

func (s *gateSectors) HasSector(root types.Hash256) (bool, error) {
	defer s.g.Through("Sectors.HasSector", true)()
	return s.Sectors.HasSector(root)
}

// stubWallet satisfies rhp.Wallet; none of the RPCs the lab issues reach it.
type stubWallet struct{}

func (stubWallet) Address() types.Address { return types.VoidAddress }
func (stubWallet) FundV2Transaction(*types.V2Transaction, types.Currency, bool) (types.ChainIndex, []int, error) {
	return types.ChainIndex{}, nil, errors.New("stub wallet")
}
func (stubWallet) SignV2Inputs(*types.V2Transaction, []int)                 {}
func (stubWallet) ReleaseInputs([]types.Transaction, []types.V2Transaction) {}
func (stubWallet) BroadcastV2TransactionSet(types.ChainIndex, []types.V2Transaction) error {
	return errors.New("stub wallet")
}

// An RHPHost is an rhp.Server behind a real siamux listener on loopback whose
// Settings / Contractor / Sectors are gated proxies sharing one Gate.
type RHPHost struct {
	Server  *rhp.Server
	HostKey types.PrivateKey
	Addr    string
	G       *Gate

	l          net.Listener
	cm         *chain.Manager
	contractor *testutil.EphemeralContractor
	serveDone  chan struct{}

	mu      sync.Mutex
	clients []rhp.TransportClient
}

// RHP RPC kinds the lab issues (each parks in a different proxy method).
const (
	RHPSettings = iota
	RHPAccountBalance
	RHPLatestRevision
	RHPVerifySector
	NumRHPKinds
)

// RHPKindName names an RHP RPC kind.
func RHPKindName(k int) string {
	return [...]string{"Settings", "AccountBalance", "LatestRevision", "VerifySector"}[k%NumRHPKinds]
}

// NewRHPHost stands up a host on ip:0. The gate starts open.
func (w *World) NewRHPHost(ip string, key types.PrivateKey, opts ...rhp.ServerOption) (*RHPHost, error) {
	cm, err := w.NewManager()
	if err != nil {
		return nil, err
	}
	l, err := net.Listen("tcp", net.JoinHostPort(ip, "0"))
	if err != nil {
		return nil, err
	}
	h := &RHPHost{HostKey: key, Addr: l.Addr().String(), G: NewGate(true), l: l, cm: cm, serveDone: make(chan struct{})}
	h.contractor = testutil.NewEphemeralContractor(cm)
	sr := testutil.NewEphemeralSettingsReporter()
	sr.Update(proto4.HostSettings{
		Release:             "limitlab",
		AcceptingContracts:  true,
		WalletAddress:       types.VoidAddress,
		MaxCollateral:       types.Siacoins(1000),
		MaxContractDuration: 1000,
		RemainingStorage:    100,
		TotalStorage:        100,
		Prices: proto4.HostPrices{
			ContractPrice: types.Siacoins(1).Div64(5),
			StoragePrice:  types.NewCurrency64(100),
			IngressPrice:  types.NewCurrency64(100),
			EgressPrice:   types.NewCurrency64(100),
			Collateral:    types.NewCurrency64(200),
		},
	})
	h.Server = rhp.NewServer(key, cm,
		&gateContractor{Contractor: h.contractor, g: h.G},
		stubWallet{},
		&gateSettings{inner: sr, g: h.G},
		&gateSectors{Sectors: testutil.NewEphemeralSectorStore(), g: h.G},
		opts...)
	go func() {
		defer close(h.serveDone)
		siamux.Serve(l, h.Server, zap.NewNop())
	}()
	return h, nil
}

// Dial opens a siamux client transport.
func (h *RHPHost) Dial(ctx context.Context) (rhp.TransportClient, error) {
	c, err := siamux.Dial(ctx, h.Addr, h.HostKey.PublicKey())
	if err != nil {
		return nil, err
	}
	h.mu.Lock()
	h.clients = append(h.clients, c)
	h.mu.Unlock()
	return c, nil
}

// Call issues one RPC of the given kind and reports whether an answer (any
// well-formed response, including an RPC error such as "sector not found")
// came back, and the error.
func (h *RHPHost) Call(ctx context.Context, c rhp.TransportClient, kind int, prices proto4.HostPrices, renter types.PrivateKey, salt uint64) error {
	switch kind % NumRHPKinds {
	case RHPSettings:
		_, err := rhp.RPCSettings(ctx, c)
		return err
	case RHPAccountBalance:
		_, err := rhp.RPCAccountBalance(ctx, c, proto4.Account(renter.PublicKey()))
		return err
	case RHPLatestRevision:
		var id types.FileContractID
		id[0], id[1] = byte(salt), byte(salt>>8)
		_, err := rhp.RPCLatestRevision(ctx, c, id)
		return err
	default:
		var root types.Hash256
		root[0], root[1] = byte(salt), byte(salt>>8)
		_, err := rhp.RPCVerifySector(ctx, c, prices, proto4.NewAccountToken(renter, h.HostKey.PublicKey()), root)
		return err
	}
}

// IsHostAnswer reports whether err is a response produced by a handler that
// ran to its end (nil, or an RPC error written by the host), as opposed to a
// transport failure.
func IsHostAnswer(err error) bool {
	if err == nil {
		return true
	}
	var re *proto4.RPCError
	if errors.As(err, &re) {
		return re.Code != proto4.ErrorCodeTransport && re.Code != proto4.ErrorCodeClientError
	}
	return false
}

// IsShuttingDown reports whether err is the host's "shutting down" rejection.
func IsShuttingDown(err error) bool {
	var re *proto4.RPCError
	return errors.As(err, &re) && re.Description == proto4.ErrHostShuttingDown.(*proto4.RPCError).Description
}

// Teardown closes the client transports and the listener and waits for the
// accept loop to return.
func (h *RHPHost) Teardown(timeout time.Duration) bool {
	h.mu.Lock()
	cl := h.clients
	h.clients = nil
	h.mu.Unlock()
	for _, c := range cl {
		c.Close()
	}
	h.l.Close()
	h.contractor.Close()
	select {
	case <-h.serveDone:
		return true
	case <-time.After(timeout):
		return false
	}
}
