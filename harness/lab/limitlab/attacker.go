package limitlab

import (
	"context"
	"fmt"
	"net"
	"sync"
	"sync/atomic"
	"time"

	"go.sia.tech/core/gateway"
	"go.sia.tech/core/types"
)

// RPC kinds an attacker fires; each one makes the handler call a different
// ChainManager method with the tag as argument.
const (
	KindSendHeaders = iota
	KindSendV2Blocks
	KindSendTransactions
	NumKinds
)

// KindName names an RPC kind.
func KindName(k int) string {
	return [...]string{"SendHeaders", "SendV2Blocks", "SendTransactions"}[k%NumKinds]
}

// An Attacker is a harness peer that speaks core/gateway directly.
type Attacker struct {
	Idx      uint32
	LocalIP  string
	Announce string // NetAddress announced in the header
	T        *gateway.Transport
	conn     net.Conn

	closed  atomic.Bool
	served  atomic.Int64
	serveWG sync.WaitGroup

	// wmu keeps the two frames of a request (RPC id, request body) adjacent on
	// the connection. The mux delivers frames strictly in order and waits for
	// each one to be consumed, so an id frame of a not-yet-accepted stream
	// that slips between another stream's id and body stalls that handler
	// until its RPC timeout (see the dedicated back-pressure stall scenario).
	wmu        sync.Mutex
	Interleave bool // true: do not serialise (used by the stall scenario only)
}

// DialAttacker opens a TCP connection from localIP to victim, calls hold (the
// place where a remote peer may dawdle before starting the handshake: the
// victim has already run its admission check by then) and performs the
// gateway handshake announcing the given port.
func (w *World) DialAttacker(idx uint32, victim, localIP string, announcePort int, hold func()) (*Attacker, error) {
	d := &net.Dialer{LocalAddr: &net.TCPAddr{IP: net.ParseIP(localIP)}, Timeout: 60 * time.Second}
	conn, err := d.DialContext(context.Background(), "tcp", victim)
	if err != nil {
		return nil, fmt.Errorf("tcp: %w", err)
	}
	if hold != nil {
		hold()
	}
	conn.SetDeadline(time.Now().Add(120 * time.Second))
	a := &Attacker{Idx: idx, LocalIP: localIP, Announce: net.JoinHostPort(localIP, fmt.Sprint(announcePort)), conn: conn}
	t, err := gateway.Dial(conn, gateway.Header{GenesisID: w.Genesis.ID(), UniqueID: w.UniqueID(), NetAddress: a.Announce})
	if err != nil {
		conn.Close()
		return nil, fmt.Errorf("handshake: %w", err)
	}
	conn.SetDeadline(time.Time{})
	a.T = t
	return a, nil
}

// Serve answers the streams the victim opens towards the attacker: SendHeaders
// gets an empty answer (the victim then considers us synced), ShareNodes an
// empty list, everything else is closed.
func (a *Attacker) Serve() {
	a.serveWG.Add(1)
	go func() {
		defer a.serveWG.Done()
		for {
			s, err := a.T.AcceptStream()
			if err != nil {
				return
			}
			a.served.Add(1)
			a.serveWG.Add(1)
			go func() {
				defer a.serveWG.Done()
				defer s.Close()
				s.SetDeadline(time.Now().Add(30 * time.Second))
				id, err := s.ReadID()
				if err != nil {
					return
				}
				switch r := gateway.ObjectForID(id).(type) {
				case *gateway.RPCSendHeaders:
					if s.ReadRequest(r) == nil {
						r.Headers, r.Remaining = nil, 0
						s.WriteResponse(r)
					}
				case *gateway.RPCShareNodes:
					s.WriteResponse(r)
				}
			}()
		}
	}()
}

// Served returns the number of streams the victim opened towards us.
func (a *Attacker) Served() int64 { return a.served.Load() }

// Close drops the connection (idempotent) and waits for the serve goroutines.
func (a *Attacker) Close() {
	if a.closed.CompareAndSwap(false, true) {
		if a.T != nil {
			a.T.Close()
		}
		a.conn.Close()
	}
	a.serveWG.Wait()
}

// A ReqResult is the fate of one attack request as seen by the attacker.
type ReqResult struct {
	Tag       Tag    `json:"tag"`
	Kind      string `json:"kind"`
	OK        bool   `json:"ok"`
	Abandoned bool   `json:"abandoned,omitempty"`
	HalfOpen  bool   `json:"halfOpen,omitempty"`
	Err       string `json:"err,omitempty"`
}

// A ReqPlan says how one request of a burst behaves.
type ReqPlan struct {
	Kind     int
	Abandon  bool // send the request, keep the stream until release, then close it without reading
	HalfOpen bool // send only the RPC id, keep the stream until release, then close
}

func requestFor(kind int, t Tag) gateway.Object {
	switch kind % NumKinds {
	case KindSendHeaders:
		return &gateway.RPCSendHeaders{Index: types.ChainIndex{Height: 1, ID: t.ID()}, Max: 1}
	case KindSendV2Blocks:
		return &gateway.RPCSendV2Blocks{History: []types.BlockID{t.ID()}, Max: 1}
	default:
		return &gateway.RPCSendTransactions{Index: types.ChainIndex{Height: 1, ID: t.ID()}}
	}
}

// Burst fires len(plan) concurrent RPC streams and returns when every one of
// them has been answered, dropped, or abandoned. release is closed by the
// caller when half-open streams may be closed.
func (a *Attacker) Burst(burst uint32, plan []ReqPlan, timeout time.Duration, release <-chan struct{}) []ReqResult {
	res := make([]ReqResult, len(plan))
	var wg sync.WaitGroup
	start := make(chan struct{})
	for i, p := range plan {
		wg.Add(1)
		go func(i int, p ReqPlan) {
			defer wg.Done()
			tag := Tag{Peer: a.Idx, Burst: burst, Req: uint32(i)}
			rr := ReqResult{Tag: tag, Kind: KindName(p.Kind), Abandoned: p.Abandon, HalfOpen: p.HalfOpen}
			defer func() { res[i] = rr }()
			<-start
			s, err := a.T.DialStream()
			if err != nil {
				rr.Err = "dial: " + err.Error()
				return
			}
			defer s.Close()
			s.SetDeadline(time.Now().Add(timeout))
			req := requestFor(p.Kind, tag)
			if !a.Interleave {
				a.wmu.Lock()
			}
			err = s.WriteID(req)
			if err == nil && !p.HalfOpen {
				if err = s.WriteRequest(req); err != nil {
					err = fmt.Errorf("write request: %w", err)
				}
			}
			if !a.Interleave {
				a.wmu.Unlock()
			}
			if err != nil {
				rr.Err = "write: " + err.Error()
				return
			}
			if p.HalfOpen {
				if release != nil {
					<-release
				}
				return
			}
			if p.Abandon {
				if release != nil {
					<-release
				}
				return
			}
			if err := s.ReadResponse(req); err != nil {
				rr.Err = "read response: " + err.Error()
				return
			}
			rr.OK = true
		}(i, p)
	}
	close(start)
	wg.Wait()
	return res
}

// Ping performs one DiscoverIP round trip; success proves the victim has
// added this peer and runs its RPC loop.
func (a *Attacker) Ping(timeout time.Duration) error {
	s, err := a.T.DialStream()
	if err != nil {
		return err
	}
	defer s.Close()
	s.SetDeadline(time.Now().Add(timeout))
	r := &gateway.RPCDiscoverIP{}
	if err := s.WriteID(r); err != nil {
		return err
	}
	return s.ReadResponse(r)
}

// An Acceptor is a harness listener that accepts gateway connections from a
// victim's peer loop (for the outbound cap).
type Acceptor struct {
	W    *World
	L    net.Listener
	Addr string
	Hold func() // dawdle before the handshake

	mu    sync.Mutex
	conns []*gateway.Transport
	raw   []net.Conn
	wg    sync.WaitGroup
	ok    atomic.Int64
	ended atomic.Int64 // established connections whose transport has ended (the remote side hung up)
}

// NewAcceptor listens on ip:0.
func (w *World) NewAcceptor(ip string, hold func()) (*Acceptor, error) {
	l, err := net.Listen("tcp", net.JoinHostPort(ip, "0"))
	if err != nil {
		return nil, err
	}
	ac := &Acceptor{W: w, L: l, Addr: l.Addr().String(), Hold: hold}
	ac.wg.Add(1)
	go ac.loop()
	return ac, nil
}

func (ac *Acceptor) loop() {
	defer ac.wg.Done()
	for {
		c, err := ac.L.Accept()
		if err != nil {
			return
		}
		ac.mu.Lock()
		ac.raw = append(ac.raw, c)
		ac.mu.Unlock()
		ac.wg.Add(1)
		go func() {
			defer ac.wg.Done()
			if ac.Hold != nil {
				ac.Hold()
			}
			c.SetDeadline(time.Now().Add(60 * time.Second))
			t, err := gateway.Accept(c, gateway.Header{GenesisID: ac.W.Genesis.ID(), UniqueID: ac.W.UniqueID(), NetAddress: ac.Addr})
			if err != nil {
				c.Close()
				return
			}
			c.SetDeadline(time.Time{})
			ac.ok.Add(1)
			ac.mu.Lock()
			ac.conns = append(ac.conns, t)
			ac.mu.Unlock()
			// drain streams the victim opens (answer SendHeaders with nothing)
			for {
				s, err := t.AcceptStream()
				if err != nil {
					ac.ended.Add(1)
					return
				}
				ac.wg.Add(1)
				go func() {
					defer ac.wg.Done()
					defer s.Close()
					s.SetDeadline(time.Now().Add(30 * time.Second))
					id, err := s.ReadID()
					if err != nil {
						return
					}
					switch r := gateway.ObjectForID(id).(type) {
					case *gateway.RPCSendHeaders:
						if s.ReadRequest(r) == nil {
							r.Headers, r.Remaining = nil, 0
							s.WriteResponse(r)
						}
					case *gateway.RPCShareNodes:
						s.WriteResponse(r)
					}
				}()
			}
		}()
	}
}

// OpenConns returns how many established connections are still open, i.e.
// were not ended by the remote side (or by DropConns/Close).
func (ac *Acceptor) OpenConns() int64 { return ac.ok.Load() - ac.ended.Load() }

// Handshakes returns the number of completed handshakes.
func (ac *Acceptor) Handshakes() int64 { return ac.ok.Load() }

// DropConns closes every established connection (churn) but keeps listening.
func (ac *Acceptor) DropConns() {
	ac.mu.Lock()
	conns := ac.conns
	ac.conns = nil
	ac.mu.Unlock()
	for _, t := range conns {
		t.Close()
	}
}

// Close stops listening and drops everything.
func (ac *Acceptor) Close() {
	ac.L.Close()
	ac.mu.Lock()
	conns, raw := ac.conns, ac.raw
	ac.conns, ac.raw = nil, nil
	ac.mu.Unlock()
	for _, t := range conns {
		t.Close()
	}
	for _, c := range raw {
		c.Close()
	}
	ac.wg.Wait()
}

// OrderedBurst opens m streams and writes, from one goroutine, first the RPC
// id of every stream and only then the request bodies - the frame order two
// or more goroutines of an honest client calling Peer.SendHeaders etc.
// concurrently can produce, since id and body are separate writes. The answers
// are then read concurrently.
func (a *Attacker) OrderedBurst(burst uint32, m int, timeout time.Duration) []ReqResult {
	res := make([]ReqResult, m)
	streams := make([]*gateway.Stream, m)
	reqs := make([]gateway.Object, m)
	a.wmu.Lock()
	for i := 0; i < m; i++ {
		tag := Tag{Peer: a.Idx, Burst: burst, Req: uint32(i)}
		res[i] = ReqResult{Tag: tag, Kind: KindName(KindSendHeaders)}
		s, err := a.T.DialStream()
		if err != nil {
			res[i].Err = "dial: " + err.Error()
			continue
		}
		s.SetDeadline(time.Now().Add(timeout))
		reqs[i] = requestFor(KindSendHeaders, tag)
		if err := s.WriteID(reqs[i]); err != nil {
			res[i].Err = "write id: " + err.Error()
			s.Close()
			continue
		}
		streams[i] = s
	}
	for i, s := range streams {
		if s == nil {
			continue
		}
		if err := s.WriteRequest(reqs[i]); err != nil {
			res[i].Err = "write request: " + err.Error()
			s.Close()
			streams[i] = nil
		}
	}
	a.wmu.Unlock()
	var wg sync.WaitGroup
	for i, s := range streams {
		if s == nil {
			continue
		}
		wg.Add(1)
		go func(i int, s *gateway.Stream) {
			defer wg.Done()
			defer s.Close()
			if err := s.ReadResponse(reqs[i]); err != nil {
				res[i].Err = "read response: " + err.Error()
				return
			}
			res[i].OK = true
		}(i, s)
	}
	wg.Wait()
	return res
}
