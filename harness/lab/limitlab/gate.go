// Package limitlab is the workload lab of property C18 (limits and shutdown
// under any schedule): in-process syncers on distinct loopback addresses,
// blocking ("gated") proxies for every injectable interface an RPC handler or
// background goroutine calls into, attacking peers that speak core/gateway
// directly, delaying net.Conn / Dialer / Listener wrappers, and a goroutine
// inventory filtered to coreutils frames.
//
// Everything here only observes or delays at interface boundaries that are
// real suspension points of the code under test (manager calls, peer store
// calls, socket operations); no coreutils internals are touched.
package limitlab

import (
	"sync"
	"time"
)

// A Gate is a barrier that proxied calls park on until the monitor opens it,
// together with exact bookkeeping of which calls are inside the proxy. It is
// the monitor's view of "work in flight": a call that has entered and not yet
// exited belongs to a handler or background goroutine that is still running.
type Gate struct {
	mu      sync.Mutex
	ch      chan struct{} // closed while the gate is open
	isOpen  bool
	changed chan struct{} // closed and replaced at every state change

	waiting  []waiter // one channel per parked call, for selective release
	inflight int      // calls inside the proxy (parked or running the delegate)
	parked   int      // calls waiting on the gate
	entries  int64
	exits    int64
	maxIn    int

	marked     bool // set by the monitor once Close/Stop has returned
	afterMark  []string
	inAtMark   int
	labelCount map[string]int64
	inLabels   map[string]int // labels of the calls currently inside
	markLabels []string       // labels inside at the moment of Mark
}

type waiter struct {
	ch  chan struct{}
	key string
}

// NewGate returns a gate; open decides its initial state.
func NewGate(open bool) *Gate {
	g := &Gate{ch: make(chan struct{}), changed: make(chan struct{}), labelCount: make(map[string]int64), inLabels: make(map[string]int)}
	if open {
		g.isOpen = true
		close(g.ch)
	}
	return g
}

func (g *Gate) bump() {
	close(g.changed)
	g.changed = make(chan struct{})
}

// Open releases every parked call and lets later calls pass.
func (g *Gate) Open() {
	g.mu.Lock()
	if !g.isOpen {
		g.isOpen = true
		close(g.ch)
		g.bump()
	}
	g.mu.Unlock()
}

// ReleaseN lets up to n of the currently parked calls go (the gate itself
// stays shut) and returns how many were released.
func (g *Gate) ReleaseN(n int) int {
	g.mu.Lock()
	defer g.mu.Unlock()
	k := 0
	for k < n && len(g.waiting) > 0 {
		close(g.waiting[0].ch)
		g.waiting = g.waiting[1:]
		k++
	}
	return k
}

// ReleaseKey lets the parked call that entered with the given key go (the gate
// stays shut) and reports whether such a call was parked.
func (g *Gate) ReleaseKey(key string) bool {
	g.mu.Lock()
	defer g.mu.Unlock()
	for i, w := range g.waiting {
		if w.key == key {
			close(w.ch)
			g.waiting = append(g.waiting[:i], g.waiting[i+1:]...)
			return true
		}
	}
	return false
}

// Shut makes later calls park.
func (g *Gate) Shut() {
	g.mu.Lock()
	if g.isOpen {
		g.isOpen = false
		g.ch = make(chan struct{})
		g.bump()
	}
	g.mu.Unlock()
}

// Through records entry of a call, parks it while the gate is shut (only if
// park is true) and returns the function recording its exit.
func (g *Gate) Through(label string, park bool) (exit func()) {
	return g.ThroughKey(label, "", park)
}

// ThroughKey is Through for a call that can be released individually by key.
func (g *Gate) ThroughKey(label, key string, park bool) (exit func()) {
	g.mu.Lock()
	g.inflight++
	g.entries++
	g.labelCount[label]++
	g.inLabels[label]++
	if g.inflight > g.maxIn {
		g.maxIn = g.inflight
	}
	if g.marked {
		g.afterMark = append(g.afterMark, label)
	}
	ch := g.ch
	var own chan struct{}
	if park {
		g.parked++
		if !g.isOpen {
			own = make(chan struct{})
			g.waiting = append(g.waiting, waiter{own, key})
		}
	}
	g.bump()
	g.mu.Unlock()
	if park {
		if own != nil {
			select {
			case <-ch:
			case <-own:
			}
		} else {
			<-ch
		}
		g.mu.Lock()
		g.parked--
		for i, w := range g.waiting {
			if w.ch == own {
				g.waiting = append(g.waiting[:i], g.waiting[i+1:]...)
				break
			}
		}
		g.bump()
		g.mu.Unlock()
	}
	return func() {
		g.mu.Lock()
		g.inflight--
		if g.inLabels[label]--; g.inLabels[label] <= 0 {
			delete(g.inLabels, label)
		}
		g.exits++
		g.bump()
		g.mu.Unlock()
	}
}

// Snapshot is a consistent reading of a gate.
type GateSnapshot struct {
	Inflight, Parked, MaxInflight int
	Entries, Exits                int64
	AfterMark                     []string
	InflightAtMark                int
}

// Snap reads the gate.
func (g *Gate) Snap() GateSnapshot {
	g.mu.Lock()
	defer g.mu.Unlock()
	return GateSnapshot{g.inflight, g.parked, g.maxIn, g.entries, g.exits, append([]string(nil), g.afterMark...), g.inAtMark}
}

// Labels returns how often each label entered.
func (g *Gate) Labels() map[string]int64 {
	g.mu.Lock()
	defer g.mu.Unlock()
	m := make(map[string]int64, len(g.labelCount))
	for k, v := range g.labelCount {
		m[k] = v
	}
	return m
}

// Mark is called by the monitor immediately after Close/Stop returned: it
// records how many calls were still inside the proxy at that moment (must be
// zero) and from now on every entering call is remembered (must stay empty).
func (g *Gate) Mark() (inflightAtMark int) {
	g.mu.Lock()
	defer g.mu.Unlock()
	g.marked = true
	g.inAtMark = g.inflight
	for l := range g.inLabels {
		g.markLabels = append(g.markLabels, l)
	}
	return g.inflight
}

// MarkLabels returns the labels of the calls that were inside at Mark.
func (g *Gate) MarkLabels() []string {
	g.mu.Lock()
	defer g.mu.Unlock()
	return append([]string(nil), g.markLabels...)
}

// WaitFor blocks until cond holds for the gate's snapshot or the timeout
// passes; it reports whether cond held.
func (g *Gate) WaitFor(timeout time.Duration, cond func(GateSnapshot) bool) bool {
	deadline := time.NewTimer(timeout)
	defer deadline.Stop()
	for {
		g.mu.Lock()
		s := GateSnapshot{g.inflight, g.parked, g.maxIn, g.entries, g.exits, nil, g.inAtMark}
		ch := g.changed
		g.mu.Unlock()
		if cond(s) {
			return true
		}
		select {
		case <-ch:
		case <-deadline.C:
			return false
		}
	}
}
