package rhplab

import (
	"context"
	"encoding/binary"
	"errors"
	"fmt"
	"slices"
	"sync"
	"time"

	"go.sia.tech/core/consensus"
	proto4 "go.sia.tech/core/rhp/v4"
	"go.sia.tech/core/types"
	"go.sia.tech/coreutils"
	"go.sia.tech/coreutils/chain"
	rhp "go.sia.tech/coreutils/rhp/v4"
	"go.sia.tech/coreutils/testutil"
	"go.sia.tech/coreutils/wallet"
	"go.uber.org/zap"
	"go.uber.org/zap/zapcore"
	"go.uber.org/zap/zaptest/observer"
)

// Watchdog is the generous bound used for every wait that is not a deciding
// oracle; a wait that exceeds it makes the caller's run inconclusive.
const Watchdog = 120 * time.Second

// ErrWatchdog is returned when a harness wait exceeded Watchdog.
var ErrWatchdog = errors.New("rhplab: watchdog expired")

// Options configure a Lab.
type Options struct {
	Seed          uint64            // derives host/renter keys
	Prices        proto4.HostPrices // zero value: DefaultPrices()
	PriceValidity time.Duration     // default 6h (never "about to expire")
	RPCTimeout    time.Duration     // default 5 min
	FundBlocks    int               // mature blocks mined to each wallet (default 12)
}

// DefaultPrices returns small but non-zero prices so that every cost term of
// every RPC is distinguishable.
func DefaultPrices() proto4.HostPrices {
	return proto4.HostPrices{
		ContractPrice:   types.Siacoins(1).Div64(5),
		StoragePrice:    types.NewCurrency64(100),
		IngressPrice:    types.NewCurrency64(70),
		EgressPrice:     types.NewCurrency64(130),
		Collateral:      types.NewCurrency64(200),
		FreeSectorPrice: types.NewCurrency64(1_000_003),
	}
}

// A Lab is one host with its chain node, wallets, recording proxies and
// in-memory transport.
type Lab struct {
	Network *consensus.Network
	Genesis types.Block
	CM      *chain.Manager

	HostKey   types.PrivateKey
	RenterKey types.PrivateKey

	HostWallet   *wallet.SingleAddressWallet
	RenterWallet *wallet.SingleAddressWallet
	hostStore    *testutil.EphemeralWalletStore
	renterStore  *testutil.EphemeralWalletStore

	Contractor *testutil.EphemeralContractor
	Sectors    *testutil.EphemeralSectorStore
	Settings   *testutil.EphemeralSettingsReporter

	Log     *Log
	Mux     *Mux
	Server  *rhp.Server
	ZapLogs *observer.ObservedLogs

	stops   []func()
	serveWG sync.WaitGroup

	basePrices proto4.HostPrices

	// the lab's own view of every v2 contract element on the best chain
	elemMu  sync.Mutex
	elemTip types.ChainIndex
	elems   map[types.FileContractID]types.V2FileContractElement
}

// trackElements follows the chain like the wallets do and keeps every v2
// contract element with a current proof, independently of the Contractor.
func (l *Lab) trackElements() {
	l.elems = map[types.FileContractID]types.V2FileContractElement{}
	l.elemTip = types.ChainIndex{}
	reorgCh := make(chan struct{}, 1)
	done := make(chan struct{})
	update := func() {
		for {
			l.elemMu.Lock()
			tip := l.elemTip
			l.elemMu.Unlock()
			reverted, applied, err := l.CM.UpdatesSince(tip, 1000)
			if err != nil || (len(reverted) == 0 && len(applied) == 0) {
				return
			}
			l.elemMu.Lock()
			for _, cru := range reverted {
				for _, d := range cru.V2FileContractElementDiffs() {
					id := d.V2FileContractElement.ID
					if d.Created {
						delete(l.elems, id)
					} else {
						l.elems[id] = d.V2FileContractElement.Copy() // the element as it was before the block
					}
				}
				for id, fce := range l.elems {
					cru.UpdateElementProof(&fce.StateElement)
					l.elems[id] = fce.Move()
				}
				l.elemTip = cru.State.Index
			}
			for _, cau := range applied {
				for _, d := range cau.V2FileContractElementDiffs() {
					id := d.V2FileContractElement.ID
					switch {
					case d.Resolution != nil:
						delete(l.elems, id)
					case d.Revision != nil:
						fce := d.V2FileContractElement.Copy()
						fce.V2FileContract = *d.Revision
						l.elems[id] = fce
					default:
						l.elems[id] = d.V2FileContractElement.Copy()
					}
				}
				for id, fce := range l.elems {
					cau.UpdateElementProof(&fce.StateElement)
					l.elems[id] = fce.Move()
				}
				l.elemTip = cau.State.Index
			}
			l.elemMu.Unlock()
		}
	}
	go func() {
		defer close(done)
		for range reorgCh {
			update()
		}
	}()
	stop := l.CM.OnReorg(func(types.ChainIndex) {
		select {
		case reorgCh <- struct{}{}:
		default:
		}
	})
	l.stops = append(l.stops, func() {
		stop()
		close(reorgCh)
		<-done
	})
}

// Element returns the lab's own copy of a contract's element and the tip its
// proof is valid for.
func (l *Lab) Element(id types.FileContractID) (types.ChainIndex, types.V2FileContractElement, bool) {
	l.elemMu.Lock()
	defer l.elemMu.Unlock()
	fce, ok := l.elems[id]
	return l.elemTip, fce.Copy(), ok
}

// ContractorElementValid reports whether the element the Contractor hands out
// for a contract is a member of the current element accumulator.
func (l *Lab) ContractorElementValid(id types.FileContractID) error {
	_, fce, err := l.Contractor.V2FileContractElement(id)
	if err != nil {
		return err
	}
	ts := l.CM.TipState()
	return ts.Elements.ValidateTransactionElements(types.V2Transaction{FileContractRevisions: []types.V2FileContractRevision{{Parent: fce, Revision: fce.V2FileContract}}})
}

func keyFromSeed(seed uint64, tag byte) types.PrivateKey {
	var b [32]byte
	binary.LittleEndian.PutUint64(b[:], seed)
	b[8] = tag
	b[9] = 0x5a
	return types.NewPrivateKeyFromSeed(b[:])
}

// KeyFromSeed derives a deterministic key.
func KeyFromSeed(seed uint64, tag byte) types.PrivateKey { return keyFromSeed(seed, tag) }

func (l *Lab) startWallet(key types.PrivateKey) (*wallet.SingleAddressWallet, *testutil.EphemeralWalletStore, error) {
	ws := testutil.NewEphemeralWalletStore()
	w, err := wallet.NewSingleAddressWallet(key, l.CM, ws, &testutil.MockSyncer{})
	if err != nil {
		return nil, nil, err
	}
	reorgCh := make(chan struct{}, 1)
	done := make(chan struct{})
	go func() {
		defer close(done)
		for range reorgCh {
			for {
				tip, err := ws.Tip()
				if err != nil {
					return
				}
				reverted, applied, err := l.CM.UpdatesSince(tip, 1000)
				if err != nil || (len(reverted) == 0 && len(applied) == 0) {
					break
				}
				err = ws.UpdateChainState(func(tx wallet.UpdateTx) error {
					return w.UpdateChainState(tx, reverted, applied)
				})
				if err != nil {
					break
				}
			}
		}
	}()
	stop := l.CM.OnReorg(func(types.ChainIndex) {
		select {
		case reorgCh <- struct{}{}:
		default:
		}
	})
	l.stops = append(l.stops, func() {
		stop()
		close(reorgCh)
		<-done
		w.Close()
	})
	return w, ws, nil
}

// New builds a lab: v2-regime chain, funded host and renter wallets, a host
// serving on the in-memory transport.
func New(o Options) (*Lab, error) {
	if o.PriceValidity == 0 {
		o.PriceValidity = 6 * time.Hour
	}
	if o.RPCTimeout == 0 {
		o.RPCTimeout = 5 * time.Minute
	}
	if o.FundBlocks == 0 {
		o.FundBlocks = 12
	}
	if o.Prices == (proto4.HostPrices{}) {
		o.Prices = DefaultPrices()
	}
	n, genesis := testutil.V2Network()
	db, tipState, err := chain.NewDBStore(chain.NewMemDB(), n, genesis, nil)
	if err != nil {
		return nil, err
	}
	l := &Lab{
		Network:   n,
		Genesis:   genesis,
		CM:        chain.NewManager(db, tipState),
		HostKey:   keyFromSeed(o.Seed, 1),
		RenterKey: keyFromSeed(o.Seed, 2),
	}
	if l.HostWallet, l.hostStore, err = l.startWallet(l.HostKey); err != nil {
		return nil, err
	}
	if l.RenterWallet, l.renterStore, err = l.startWallet(l.RenterKey); err != nil {
		l.Close()
		return nil, err
	}
	l.trackElements()
	l.Contractor = testutil.NewEphemeralContractor(l.CM)
	l.stops = append(l.stops, func() { l.Contractor.Close() })
	l.Sectors = testutil.NewEphemeralSectorStore()
	l.Settings = testutil.NewEphemeralSettingsReporter()
	l.Settings.Update(proto4.HostSettings{
		Release:             "verif",
		AcceptingContracts:  true,
		WalletAddress:       l.HostWallet.Address(),
		MaxCollateral:       types.Siacoins(1_000_000),
		MaxContractDuration: 5000,
		RemainingStorage:    1000,
		TotalStorage:        1000,
		Prices:              o.Prices,
	})
	l.basePrices = o.Prices
	l.Mux = NewMux(l.HostKey.PublicKey())
	l.Log = &Log{mux: l.Mux}

	core, logs := observer.New(zapcore.WarnLevel)
	l.ZapLogs = logs
	l.Server = rhp.NewServer(l.HostKey, l.CM,
		&RecContractor{Inner: l.Contractor, Log: l.Log},
		l.HostWallet,
		&RecSettings{Inner: l.Settings, Log: l.Log},
		&RecSectors{Inner: l.Sectors, Log: l.Log},
		rhp.WithPriceTableValidity(o.PriceValidity), rhp.WithRPCTimeout(o.RPCTimeout))
	l.serveWG.Add(1)
	go func() {
		defer l.serveWG.Done()
		l.Server.Serve(l.Mux, zap.New(core))
	}()

	// fund both wallets and let the coinbases mature
	if err := l.Mine(l.HostWallet.Address(), o.FundBlocks); err != nil {
		l.Close()
		return nil, err
	}
	if err := l.Mine(l.RenterWallet.Address(), o.FundBlocks); err != nil {
		l.Close()
		return nil, err
	}
	if err := l.Mine(types.VoidAddress, int(n.MaturityDelay)+1); err != nil {
		l.Close()
		return nil, err
	}
	return l, nil
}

// Close shuts the lab down.
func (l *Lab) Close() {
	if l.Mux != nil {
		l.Mux.Close()
	}
	if l.Server != nil {
		l.Server.Close()
	}
	l.serveWG.Wait()
	for i := len(l.stops) - 1; i >= 0; i-- {
		l.stops[i]()
	}
	l.stops = nil
}

// Mine mines n blocks to addr and waits until both wallets and the contractor
// have processed them.
func (l *Lab) Mine(addr types.Address, n int) error {
	for ; n > 0; n-- {
		b, ok := coreutils.MineBlock(l.CM, addr, 30*time.Second)
		if !ok {
			return fmt.Errorf("%w: mining", ErrWatchdog)
		} else if err := l.CM.AddBlocks([]types.Block{b}); err != nil {
			return fmt.Errorf("mined block rejected: %w", err)
		}
	}
	return l.Sync()
}

// Sync waits until wallets and contractor reached the manager's tip.
func (l *Lab) Sync() error {
	deadline := time.Now().Add(Watchdog)
	for {
		tip := l.CM.Tip()
		ht, _ := l.hostStore.Tip()
		rt, _ := l.renterStore.Tip()
		ct, _ := l.Contractor.Tip()
		l.elemMu.Lock()
		et := l.elemTip
		l.elemMu.Unlock()
		if ht == tip && rt == tip && ct == tip && et == tip {
			return nil
		}
		if time.Now().After(deadline) {
			return fmt.Errorf("%w: subscribers did not reach tip %v (host wallet %v, renter wallet %v, contractor %v)", ErrWatchdog, tip, ht, rt, ct)
		}
		time.Sleep(200 * time.Microsecond)
	}
}

// RenterUTXOs returns every unspent output the renter wallet's store holds,
// mature or not, with the tip its proofs are valid for.
func (l *Lab) RenterUTXOs() (types.ChainIndex, []types.SiacoinElement) {
	tip, els, _ := l.renterStore.UnspentSiacoinElements()
	return tip, els
}

// HostSpendable returns the ids of the outputs the host wallet could spend
// right now (confirmed, mature, neither reserved nor spent in the pool).
func (l *Lab) HostSpendable() map[types.SiacoinOutputID]bool {
	out := map[types.SiacoinOutputID]bool{}
	els, _ := l.HostWallet.SpendableOutputs()
	for _, el := range els {
		out[el.ID] = true
	}
	return out
}

// PoolIDs returns the ids of the v2 transactions in the host's pool.
func (l *Lab) PoolIDs() map[types.TransactionID]bool {
	out := map[types.TransactionID]bool{}
	for _, txn := range l.CM.V2PoolTransactions() {
		out[txn.ID()] = true
	}
	return out
}

// BroadcastRevision wraps a doubly signed revision of a contract into a v2
// transaction (fee paid by the renter wallet) and puts it into the pool, the
// way a renter or host publishes an off-chain revision. The contract element
// comes from the Contractor, which keeps its proof current.
func (l *Lab) BroadcastRevision(id types.FileContractID, rev types.V2FileContract) (types.TransactionID, error) {
	if err := l.Sync(); err != nil {
		return types.TransactionID{}, err
	}
	basis, fce, ok := l.Element(id)
	if !ok {
		return types.TransactionID{}, fmt.Errorf("contract %v is not on chain", id)
	}
	fee := types.Siacoins(1).Div64(50)
	txn := types.V2Transaction{MinerFee: fee, FileContractRevisions: []types.V2FileContractRevision{{Parent: fce, Revision: rev}}}
	wbasis, toSign, err := l.RenterWallet.FundV2Transaction(&txn, fee, true)
	if err != nil {
		return types.TransactionID{}, err
	}
	if wbasis != basis {
		l.RenterWallet.ReleaseInputs(nil, []types.V2Transaction{txn})
		return types.TransactionID{}, fmt.Errorf("wallet basis %v differs from contractor basis %v", wbasis, basis)
	}
	l.RenterWallet.SignV2Inputs(&txn, toSign)
	// the fee may come from an unconfirmed output: submit the parents along
	sbasis, set, err := l.CM.V2TransactionSet(basis, txn)
	if err == nil {
		_, err = l.CM.AddV2PoolTransactions(sbasis, set)
	}
	// the wallet's own reservation is dropped either way: while the transaction
	// is pooled its inputs count as spent, and if a reorg un-confirms it for
	// good they must be usable again
	l.RenterWallet.ReleaseInputs(nil, []types.V2Transaction{txn})
	if err != nil {
		return types.TransactionID{}, err
	}
	return txn.ID(), nil
}

// OnChainRevisionNumber returns the revision number of the contract's element
// as the Contractor tracks it from the chain.
func (l *Lab) OnChainRevisionNumber(id types.FileContractID) (uint64, error) {
	_, fce, ok := l.Element(id)
	if !ok {
		return 0, fmt.Errorf("contract %v is not on chain", id)
	}
	return fce.V2FileContract.RevisionNumber, nil
}

// Reorg replaces the last depth blocks by depth+1 empty blocks mined on their
// common parent, and waits until all subscribers followed.
func (l *Lab) Reorg(depth int) error {
	tip := l.CM.Tip()
	if uint64(depth) >= tip.Height {
		return fmt.Errorf("reorg depth %d exceeds chain height", depth)
	}
	parent, ok := l.CM.BestIndex(tip.Height - uint64(depth))
	if !ok {
		return fmt.Errorf("no block at height %d", tip.Height-uint64(depth))
	}
	cs, ok := l.CM.State(parent.ID)
	if !ok {
		return fmt.Errorf("no state for %v", parent)
	}
	var blocks []types.Block
	for i := 0; i <= depth; i++ {
		b := types.Block{
			ParentID:     cs.Index.ID,
			Timestamp:    types.CurrentTimestamp(),
			MinerPayouts: []types.SiacoinOutput{{Value: cs.BlockReward(), Address: types.VoidAddress}},
			V2: &types.V2BlockData{
				Height:       cs.Index.Height + 1,
				Transactions: []types.V2Transaction{{ArbitraryData: []byte(fmt.Sprintf("reorg %v %d %d", tip.ID, depth, i))}},
			},
		}
		b.V2.Commitment = cs.Commitment(types.VoidAddress, nil, b.V2Transactions())
		if !coreutils.FindBlockNonce(cs, &b, 30*time.Second) {
			return fmt.Errorf("%w: mining fork block", ErrWatchdog)
		}
		blocks = append(blocks, b)
		// the state after an empty block, elements included (the manager only keeps
		// header-level states for side-chain blocks); past the Oak hardfork the
		// ancestor timestamp plays no role
		cs, _ = consensus.ApplyBlock(cs, b, consensus.V1BlockSupplement{}, time.Time{})
	}
	if err := l.CM.AddBlocks(blocks); err != nil {
		return fmt.Errorf("fork rejected: %w", err)
	}
	if got := l.CM.Tip(); got.ID != blocks[len(blocks)-1].ID() {
		return fmt.Errorf("fork of %d blocks did not become the best chain (tip %v)", len(blocks), got)
	}
	return l.Sync()
}

// SetPriceFactor changes the host's current settings: every per-unit price of
// the lab's base price table is scaled ("x0.5", "x2", "x1000"), zeroed
// ("zero") or restored ("x1"). Price tables the host signed earlier stay valid
// until they expire; only tables fetched afterwards carry the new prices.
func (l *Lab) SetPriceFactor(f string) error {
	hs := l.Settings.RHP4Settings()
	b := l.basePrices
	scale := func(c types.Currency) types.Currency {
		switch f {
		case "x1":
			return c
		case "x0.5":
			return c.Div64(2)
		case "x2":
			return c.Mul64(2)
		case "x1000":
			return c.Mul64(1000)
		case "zero":
			return types.ZeroCurrency
		}
		return c
	}
	switch f {
	case "x1", "x0.5", "x2", "x1000", "zero":
	default:
		return fmt.Errorf("unknown price factor %q", f)
	}
	hs.Prices.StoragePrice = scale(b.StoragePrice)
	hs.Prices.IngressPrice = scale(b.IngressPrice)
	hs.Prices.EgressPrice = scale(b.EgressPrice)
	hs.Prices.FreeSectorPrice = scale(b.FreeSectorPrice)
	l.Settings.Update(hs)
	return nil
}

// Quiesce waits for the handler-quiescence barrier.
func (l *Lab) Quiesce() error { return l.Mux.Quiesce(Watchdog) }

// HostPanics returns the number of handler panics the server recovered and
// the number of "internal error" failures it logged so far.
func (l *Lab) HostPanics() (panics int) {
	return l.ZapLogs.FilterMessage("panic in RPC handler").Len()
}

// FundAndSign adapts a wallet and a contract key to rhp.FormContractSigner.
type FundAndSign struct {
	W  *wallet.SingleAddressWallet
	PK types.PrivateKey
}

// FundV2Transaction implements rhp.TransactionFunder.
func (fs *FundAndSign) FundV2Transaction(txn *types.V2Transaction, amount types.Currency) (types.ChainIndex, []int, error) {
	return fs.W.FundV2Transaction(txn, amount, true)
}

// RecommendedFee implements rhp.TransactionFunder.
func (fs *FundAndSign) RecommendedFee() types.Currency { return fs.W.RecommendedFee() }

// ReleaseInputs implements rhp.TransactionFunder.
func (fs *FundAndSign) ReleaseInputs(txns []types.V2Transaction) { fs.W.ReleaseInputs(nil, txns) }

// SignV2Inputs implements rhp.TransactionInputSigner.
func (fs *FundAndSign) SignV2Inputs(txn *types.V2Transaction, toSign []int) {
	fs.W.SignV2Inputs(txn, toSign)
}

// SignHash implements rhp.ContractSigner.
func (fs *FundAndSign) SignHash(h types.Hash256) types.Signature { return fs.PK.SignHash(h) }

// Signer returns the renter's funding-and-signing adapter.
func (l *Lab) Signer() *FundAndSign { return &FundAndSign{W: l.RenterWallet, PK: l.RenterKey} }

// HostPrices fetches a host-signed price table through RPCSettings.
func (l *Lab) HostPrices(c *Client) (proto4.HostPrices, error) {
	hs, err := rhp.RPCSettings(context.Background(), c)
	if err != nil {
		return proto4.HostPrices{}, err
	}
	if err := l.Quiesce(); err != nil {
		return proto4.HostPrices{}, err
	}
	return hs.Prices, nil
}

// SignPrices signs a price table with key (the host key for validly signed
// but e.g. expired tables, any other key for foreign tables).
func SignPrices(p proto4.HostPrices, key types.PrivateKey) proto4.HostPrices {
	p.Signature = key.SignHash(p.SigHash())
	return p
}

// FormContract forms a contract through the honest client.
func (l *Lab) FormContract(c *Client, prices proto4.HostPrices, allowance, collateral types.Currency, duration uint64) (rhp.ContractRevision, error) {
	hs := l.Settings.RHP4Settings()
	res, err := rhp.RPCFormContract(context.Background(), c, l.CM, l.Signer(), l.CM.TipState(), prices, l.HostKey.PublicKey(), hs.WalletAddress, proto4.RPCFormContractParams{
		RenterPublicKey: l.RenterKey.PublicKey(),
		RenterAddress:   l.RenterWallet.Address(),
		Allowance:       allowance,
		Collateral:      collateral,
		ProofHeight:     l.CM.Tip().Height + duration,
	})
	if qerr := l.Quiesce(); qerr != nil {
		return rhp.ContractRevision{}, qerr
	}
	if err != nil {
		return rhp.ContractRevision{}, err
	}
	return res.Contract, nil
}

// A HostState is a deep copy of what the host holds for one contract, taken
// through the inner contractor. It must only be taken at the quiescence barrier.
type HostState struct {
	Revision  types.V2FileContract `json:"revision"`
	Roots     []types.Hash256      `json:"roots"`
	Revisable bool                 `json:"revisable"`
	Renewed   bool                 `json:"renewed"`
}

// Equal reports byte equality of two states.
func (a HostState) Equal(b HostState) bool {
	return a.Revision == b.Revision && slices.Equal(a.Roots, b.Roots) && a.Revisable == b.Revisable && a.Renewed == b.Renewed
}

// State snapshots a contract's host-side state.
func (l *Lab) State(id types.FileContractID) (HostState, error) {
	rs, unlock, err := l.Contractor.LockV2Contract(id)
	if err != nil {
		return HostState{}, err
	}
	hs := HostState{Revision: rs.Revision, Roots: slices.Clone(rs.Roots), Revisable: rs.Revisable, Renewed: rs.Renewed}
	unlock()
	return hs, nil
}

// Balances snapshots account and pool balances through the inner contractor.
func (l *Lab) Balances(accounts, pools []proto4.Account) (acc, pool []types.Currency) {
	if len(accounts) > 0 {
		acc, _ = l.Contractor.AccountBalances(accounts)
	}
	if len(pools) > 0 {
		pool, _ = l.Contractor.PoolBalances(pools)
	}
	return
}

// CheckRoots reports whether the host's roots are consistent with the
// committed revision (the always-invariant of C09).
func (hs HostState) CheckRoots() error {
	if got := proto4.MetaRoot(hs.Roots); got != hs.Revision.FileMerkleRoot {
		return fmt.Errorf("MetaRoot(host roots)=%v but committed FileMerkleRoot=%v (%d roots)", got, hs.Revision.FileMerkleRoot, len(hs.Roots))
	}
	if uint64(len(hs.Roots))*proto4.SectorSize != hs.Revision.Filesize {
		return fmt.Errorf("%d roots but committed Filesize=%d", len(hs.Roots), hs.Revision.Filesize)
	}
	return nil
}
