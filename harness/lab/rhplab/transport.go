// Package rhplab stands up a complete RHP4 host (real rhp.Server on a v2-regime
// chain node with funded wallets) behind an in-memory transport whose server
// side is instrumented: every stream is recorded as a sequence of byte runs
// (one run per protocol message, because RHP4 strictly alternates directions),
// streams can be cut at an exact byte of an exact message, and the number of
// streams the server has not closed yet is counted, which yields an exact
// handler-quiescence barrier.
package rhplab

import (
	"bytes"
	"context"
	"errors"
	"fmt"
	"net"
	"runtime"
	"strconv"
	"sync"
	"sync/atomic"
	"time"

	"go.sia.tech/core/types"
)

// Dir is the direction of a run of bytes as seen by the host.
type Dir int

// Directions.
const (
	DirIn  Dir = iota // renter -> host (host reads)
	DirOut            // host -> renter (host writes)
)

func (d Dir) String() string {
	if d == DirIn {
		return "in"
	}
	return "out"
}

// maxRunKeep bounds the bytes kept per run (sector payloads are not kept).
const maxRunKeep = 1 << 16

// A Run is a maximal sequence of bytes the host moved in one direction, i.e.
// one protocol message (the first inbound run also carries the RPC id; sector
// payloads ride on the run of the message that announces them).
type Run struct {
	Dir  Dir
	N    int    // total bytes moved
	Data []byte // first maxRunKeep bytes
}

// A Cut closes the renter's end of the stream when the host is about to move
// byte number Bytes (0-based) of its run number Run (0-based; run 0 is the
// inbound id+request). The host then observes exactly what it would observe on
// a dropped connection: EOF on read, a closed-pipe error on write.
type Cut struct {
	Run   int `json:"run"`
	Bytes int `json:"bytes"`
}

func (c Cut) String() string { return fmt.Sprintf("run%d+%d", c.Run, c.Bytes) }

// A Stream is the record of one server-side stream.
type Stream struct {
	ID uint64

	mu           sync.Mutex
	runs         []Run
	cut          *Cut
	cutHit       bool
	serverClosed bool
	goid         uint64
	done         chan struct{} // closed when the server closed the stream
	failRun      int           // run in which the host's I/O first failed (-1: never)
	failBytes    int           // bytes of that run moved before the failure
}

// Failure returns the host-side run in which the stream's I/O first failed
// (because of a cut, or because the renter went away) and how many bytes of
// that run had moved; run is -1 if no I/O ever failed.
func (s *Stream) Failure() (run, bytes int) {
	s.mu.Lock()
	defer s.mu.Unlock()
	return s.failRun, s.failBytes
}

// noteFailure must be called with s.mu held.
func (s *Stream) noteFailure() {
	if s.failRun < 0 && len(s.runs) > 0 {
		s.failRun = len(s.runs) - 1
		s.failBytes = s.runs[len(s.runs)-1].N
	}
}

// Runs returns a copy of the recorded runs.
func (s *Stream) Runs() []Run {
	s.mu.Lock()
	defer s.mu.Unlock()
	out := make([]Run, len(s.runs))
	for i, r := range s.runs {
		out[i] = Run{Dir: r.Dir, N: r.N, Data: bytes.Clone(r.Data)}
	}
	return out
}

// Done is closed once the server has closed the stream, i.e. once the handler
// and its deferred unlocks have returned.
func (s *Stream) Done() <-chan struct{} { return s.done }

// CutHit reports whether the stream's cut plan fired.
func (s *Stream) CutHit() bool {
	s.mu.Lock()
	defer s.mu.Unlock()
	return s.cutHit
}

// BytesOut returns the number of bytes the renter's side consumed from the host.
func (s *Stream) BytesOut() (n int) {
	s.mu.Lock()
	defer s.mu.Unlock()
	for _, r := range s.runs {
		if r.Dir == DirOut {
			n += r.N
		}
	}
	return
}

// RPC returns the RPC id the renter sent, if 16 bytes arrived.
func (s *Stream) RPC() (id types.Specifier, ok bool) {
	s.mu.Lock()
	defer s.mu.Unlock()
	if len(s.runs) == 0 || s.runs[0].Dir != DirIn || len(s.runs[0].Data) < 16 {
		return id, false
	}
	copy(id[:], s.runs[0].Data[:16])
	return id, true
}

// A Mux is an in-memory rhp.TransportMux over net.Pipe pairs.
type Mux struct {
	hostKey types.PublicKey

	mu      sync.Mutex
	cond    *sync.Cond
	open    int
	streams map[uint64]*Stream
	keep    bool

	accept    chan net.Conn
	closed    chan struct{}
	closeOnce sync.Once
	nextID    atomic.Uint64
	total     atomic.Uint64

	goStreams sync.Map // goroutine id -> stream id (handler goroutines)
}

// NewMux creates a transport whose clients report hostKey as peer key.
func NewMux(hostKey types.PublicKey) *Mux {
	m := &Mux{
		hostKey: hostKey,
		streams: make(map[uint64]*Stream),
		keep:    true,
		accept:  make(chan net.Conn, 64),
		closed:  make(chan struct{}),
	}
	m.cond = sync.NewCond(&m.mu)
	return m
}

// AcceptStream implements rhp.TransportMux.
func (m *Mux) AcceptStream() (net.Conn, error) {
	select {
	case c := <-m.accept:
		return c, nil
	case <-m.closed:
		return nil, net.ErrClosed
	}
}

// Close implements rhp.TransportMux.
func (m *Mux) Close() error {
	m.closeOnce.Do(func() { close(m.closed) })
	return nil
}

// Streams returns the total number of streams dialed so far.
func (m *Mux) Streams() uint64 { return m.total.Load() }

// Stream returns the record of a stream (nil once forgotten).
func (m *Mux) Stream(id uint64) *Stream {
	m.mu.Lock()
	defer m.mu.Unlock()
	return m.streams[id]
}

// Forget drops the records of all streams with id <= upTo.
func (m *Mux) Forget(upTo uint64) {
	m.mu.Lock()
	for id := range m.streams {
		if id <= upTo {
			delete(m.streams, id)
		}
	}
	m.mu.Unlock()
}

// ErrQuiesceTimeout is returned by Quiesce when the watchdog fires.
var ErrQuiesceTimeout = errors.New("rhplab: server streams still open after watchdog")

// Quiesce blocks until the server has closed every stream that was dialed,
// i.e. until every handler and its deferred unlock has returned.
func (m *Mux) Quiesce(watchdog time.Duration) error {
	var timedOut atomic.Bool
	t := time.AfterFunc(watchdog, func() {
		timedOut.Store(true)
		m.mu.Lock()
		m.cond.Broadcast()
		m.mu.Unlock()
	})
	defer t.Stop()
	m.mu.Lock()
	for m.open > 0 && !timedOut.Load() {
		m.cond.Wait()
	}
	open := m.open
	m.mu.Unlock()
	if open > 0 {
		return ErrQuiesceTimeout
	}
	return nil
}

// Open returns the number of streams the server has not closed yet.
func (m *Mux) Open() int {
	m.mu.Lock()
	defer m.mu.Unlock()
	return m.open
}

// CurrentStream returns the id of the stream whose handler runs on the calling
// goroutine (0 if the caller is not a handler goroutine).
func (m *Mux) CurrentStream() uint64 {
	if v, ok := m.goStreams.Load(goid()); ok {
		return v.(uint64)
	}
	return 0
}

func goid() uint64 {
	var buf [48]byte
	n := runtime.Stack(buf[:], false)
	// "goroutine 123 [running]:"
	b := buf[:n]
	b = b[len("goroutine "):]
	i := bytes.IndexByte(b, ' ')
	if i < 0 {
		return 0
	}
	id, _ := strconv.ParseUint(string(b[:i]), 10, 64)
	return id
}

// A Client is an rhp.TransportClient bound to a Mux. It is cheap; every actor
// should use its own so that LastStream and the one-shot cut are its own.
type Client struct {
	m       *Mux
	peerKey types.PublicKey

	mu   sync.Mutex
	cut  *Cut
	last uint64
	all  []uint64
}

// NewClient returns a new client for the mux.
func (m *Mux) NewClient() *Client { return &Client{m: m, peerKey: m.hostKey} }

// WithPeerKey makes the client claim a different host key (foreign host).
func (c *Client) WithPeerKey(pk types.PublicKey) *Client { c.peerKey = pk; return c }

// CutNext arms a cut for the next stream this client dials.
func (c *Client) CutNext(cut Cut) {
	c.mu.Lock()
	c.cut = &cut
	c.mu.Unlock()
}

// WaitLast blocks until the server has closed the stream this client dialed
// last (per-client handler barrier; other clients keep running).
func (c *Client) WaitLast(watchdog time.Duration) error {
	st := c.m.Stream(c.LastStream())
	if st == nil {
		return nil
	}
	select {
	case <-st.Done():
		return nil
	case <-time.After(watchdog):
		return ErrQuiesceTimeout
	}
}

// LastStream returns the id of the stream dialed last by this client.
func (c *Client) LastStream() uint64 {
	c.mu.Lock()
	defer c.mu.Unlock()
	return c.last
}

// TakeStreams returns and forgets the ids of all streams dialed since the last call.
func (c *Client) TakeStreams() []uint64 {
	c.mu.Lock()
	defer c.mu.Unlock()
	out := c.all
	c.all = nil
	return out
}

// FrameSize implements rhp.TransportClient.
func (c *Client) FrameSize() int { return 4296 }

// PeerKey implements rhp.TransportClient.
func (c *Client) PeerKey() types.PublicKey { return c.peerKey }

// Close implements rhp.TransportClient.
func (c *Client) Close() error { return nil }

// DialStream implements rhp.TransportClient.
func (c *Client) DialStream(ctx context.Context) (net.Conn, error) {
	m := c.m
	select {
	case <-m.closed:
		return nil, net.ErrClosed
	default:
	}
	cl, sv := net.Pipe()
	id := m.nextID.Add(1)
	m.total.Add(1)
	st := &Stream{ID: id, failRun: -1, done: make(chan struct{})}
	c.mu.Lock()
	st.cut = c.cut
	c.cut = nil
	c.last = id
	c.all = append(c.all, id)
	c.mu.Unlock()
	tc := &tapConn{Conn: sv, peer: cl, st: st, m: m}
	m.mu.Lock()
	m.open++
	if m.keep {
		m.streams[id] = st
	}
	m.mu.Unlock()
	select {
	case m.accept <- tc:
	case <-m.closed:
		m.mu.Lock()
		m.open--
		m.cond.Broadcast()
		m.mu.Unlock()
		cl.Close()
		sv.Close()
		return nil, net.ErrClosed
	case <-ctx.Done():
		m.mu.Lock()
		m.open--
		m.cond.Broadcast()
		m.mu.Unlock()
		cl.Close()
		sv.Close()
		return nil, ctx.Err()
	}
	return newClientConn(cl), nil
}

// clientConn is the renter's end of a stream. net.Pipe has no buffering at
// all, which real transports do not share: a renter that sends its next
// message while the host is already writing an error would deadlock until a
// deadline. clientConn therefore queues writes like a socket send buffer and
// delivers them from a pump goroutine; Close flushes what is queued (for at
// most closeGrace) before closing, like a socket close does. The host's side
// stays synchronous so that cut points and delivery counts are exact.
type clientConn struct {
	net.Conn
	mu      sync.Mutex
	cond    *sync.Cond
	queue   [][]byte
	closing bool
	werr    error
}

const closeGrace = 2 * time.Second

func newClientConn(c net.Conn) *clientConn {
	cc := &clientConn{Conn: c}
	cc.cond = sync.NewCond(&cc.mu)
	go cc.pump()
	return cc
}

func (c *clientConn) pump() {
	for {
		c.mu.Lock()
		for len(c.queue) == 0 && !c.closing {
			c.cond.Wait()
		}
		if len(c.queue) == 0 {
			c.mu.Unlock()
			c.Conn.Close()
			return
		}
		p := c.queue[0]
		c.queue = c.queue[1:]
		failed := c.werr != nil
		c.mu.Unlock()
		if failed {
			continue
		}
		if _, err := c.Conn.Write(p); err != nil {
			c.mu.Lock()
			c.werr = err
			c.mu.Unlock()
		}
	}
}

func (c *clientConn) Write(p []byte) (int, error) {
	c.mu.Lock()
	defer c.mu.Unlock()
	if c.closing {
		return 0, net.ErrClosed
	}
	if c.werr != nil {
		return 0, c.werr
	}
	c.queue = append(c.queue, bytes.Clone(p))
	c.cond.Signal()
	return len(p), nil
}

func (c *clientConn) Close() error {
	c.mu.Lock()
	if c.closing {
		c.mu.Unlock()
		return nil
	}
	c.closing = true
	c.cond.Signal()
	c.mu.Unlock()
	// flush like a socket close, but never wait long for a host that does not read
	c.Conn.SetWriteDeadline(time.Now().Add(closeGrace))
	// unblock a Read of our own user immediately
	c.Conn.SetReadDeadline(time.Unix(1, 0))
	return nil
}

// tapConn is the server's end of a stream.
type tapConn struct {
	net.Conn          // server end of the pipe
	peer     net.Conn // renter end (closed by a cut)
	st       *Stream
	m        *Mux
	bindOnce sync.Once
}

func (t *tapConn) bind() {
	t.bindOnce.Do(func() {
		g := goid()
		t.st.mu.Lock()
		t.st.goid = g
		t.st.mu.Unlock()
		t.m.goStreams.Store(g, t.st.ID)
	})
}

// begin opens (or continues) a run in direction d and returns how many bytes
// may still be moved before the cut fires (-1: no limit). When it returns 0 the
// renter's end has been closed.
func (t *tapConn) begin(d Dir) int {
	s := t.st
	s.mu.Lock()
	defer s.mu.Unlock()
	if len(s.runs) == 0 || s.runs[len(s.runs)-1].Dir != d {
		if len(s.runs) == 0 && d == DirOut {
			// host speaks first (never happens in RHP4): keep run numbering aligned
			s.runs = append(s.runs, Run{Dir: DirIn})
		}
		s.runs = append(s.runs, Run{Dir: d})
	}
	if s.cut == nil || s.cutHit {
		return -1
	}
	idx := len(s.runs) - 1
	if idx < s.cut.Run {
		return -1
	}
	if idx > s.cut.Run {
		// the run the cut was aimed at never reached the byte: fire now
		s.cutHit = true
		s.noteFailure()
		t.peer.Close()
		return 0
	}
	left := s.cut.Bytes - s.runs[idx].N
	if left <= 0 {
		s.cutHit = true
		s.noteFailure()
		t.peer.Close()
		return 0
	}
	return left
}

func (t *tapConn) moved(p []byte, err error) {
	s := t.st
	s.mu.Lock()
	if len(p) > 0 {
		r := &s.runs[len(s.runs)-1]
		if keep := maxRunKeep - len(r.Data); keep > 0 {
			r.Data = append(r.Data, p[:min(keep, len(p))]...)
		}
		r.N += len(p)
	}
	if err != nil {
		s.noteFailure()
	}
	s.mu.Unlock()
}

func (t *tapConn) Read(p []byte) (int, error) {
	t.bind()
	if len(p) == 0 {
		return t.Conn.Read(p)
	}
	left := t.begin(DirIn)
	if left > 0 && left < len(p) {
		p = p[:left]
	}
	n, err := t.Conn.Read(p)
	t.moved(p[:n], err)
	return n, err
}

func (t *tapConn) Write(p []byte) (int, error) {
	t.bind()
	total := 0
	for len(p) > 0 {
		left := t.begin(DirOut)
		chunk := p
		if left > 0 && left < len(p) {
			chunk = p[:left]
		}
		n, err := t.Conn.Write(chunk)
		t.moved(chunk[:n], err)
		total += n
		if err != nil {
			return total, err
		}
		p = p[n:]
	}
	return total, nil
}

func (t *tapConn) SetDeadline(d time.Time) error {
	t.bind()
	return t.Conn.SetDeadline(d)
}

func (t *tapConn) Close() error {
	s := t.st
	s.mu.Lock()
	first := !s.serverClosed
	s.serverClosed = true
	g := s.goid
	s.mu.Unlock()
	err := t.Conn.Close()
	if first {
		close(s.done)
		if g != 0 {
			t.m.goStreams.CompareAndDelete(g, s.ID)
		}
		t.m.mu.Lock()
		t.m.open--
		t.m.cond.Broadcast()
		t.m.mu.Unlock()
	}
	return err
}
