package rhplab

import (
	"bytes"
	"errors"
	"fmt"

	proto4 "go.sia.tech/core/rhp/v4"
	"go.sia.tech/core/types"
)

type msgTable struct {
	in  []func() proto4.Object // renter -> host, in[0] is the request
	out []func() proto4.Object // host -> renter
}

func mk[T any, P interface {
	*T
	proto4.Object
}]() func() proto4.Object {
	return func() proto4.Object { return P(new(T)) }
}

// wireTable lists, per RPC id, the typed messages of each direction in order
// (DESIGN Appendix A).
var wireTable = map[types.Specifier]msgTable{
	proto4.RPCSettingsID:          {in: nil, out: []func() proto4.Object{mk[proto4.RPCSettingsResponse]()}},
	proto4.RPCFormContractID:      {in: []func() proto4.Object{mk[proto4.RPCFormContractRequest](), mk[proto4.RPCFormContractSecondResponse]()}, out: []func() proto4.Object{mk[proto4.RPCFormContractResponse](), mk[proto4.RPCFormContractThirdResponse]()}},
	proto4.RPCRefreshContractID:   {in: []func() proto4.Object{mk[proto4.RPCRefreshContractRequest](), mk[proto4.RPCRefreshContractSecondResponse]()}, out: []func() proto4.Object{mk[proto4.RPCRefreshContractResponse](), mk[proto4.RPCRefreshContractThirdResponse]()}},
	proto4.RPCRefreshPartialID:    {in: []func() proto4.Object{mk[proto4.RPCRefreshContractRequest](), mk[proto4.RPCRefreshContractSecondResponse]()}, out: []func() proto4.Object{mk[proto4.RPCRefreshContractResponse](), mk[proto4.RPCRefreshContractThirdResponse]()}},
	proto4.RPCRenewContractID:     {in: []func() proto4.Object{mk[proto4.RPCRenewContractRequest](), mk[proto4.RPCRenewContractSecondResponse]()}, out: []func() proto4.Object{mk[proto4.RPCRenewContractResponse](), mk[proto4.RPCRenewContractThirdResponse]()}},
	proto4.RPCFreeSectorsID:       {in: []func() proto4.Object{mk[proto4.RPCFreeSectorsRequest](), mk[proto4.RPCFreeSectorsSecondResponse]()}, out: []func() proto4.Object{mk[proto4.RPCFreeSectorsResponse](), mk[proto4.RPCFreeSectorsThirdResponse]()}},
	proto4.RPCAppendSectorsID:     {in: []func() proto4.Object{mk[proto4.RPCAppendSectorsRequest](), mk[proto4.RPCAppendSectorsSecondResponse]()}, out: []func() proto4.Object{mk[proto4.RPCAppendSectorsResponse](), mk[proto4.RPCAppendSectorsThirdResponse]()}},
	proto4.RPCReplenishAccountsID: {in: []func() proto4.Object{mk[proto4.RPCReplenishAccountsRequest](), mk[proto4.RPCReplenishAccountsSecondResponse]()}, out: []func() proto4.Object{mk[proto4.RPCReplenishAccountsResponse](), mk[proto4.RPCReplenishAccountsThirdResponse]()}},
	proto4.RPCReplenishPoolsID:    {in: []func() proto4.Object{mk[proto4.RPCReplenishAccountsRequest](), mk[proto4.RPCReplenishAccountsSecondResponse]()}, out: []func() proto4.Object{mk[proto4.RPCReplenishAccountsResponse](), mk[proto4.RPCReplenishAccountsThirdResponse]()}},
	proto4.RPCSectorRootsID:       {in: []func() proto4.Object{mk[proto4.RPCSectorRootsRequest]()}, out: []func() proto4.Object{mk[proto4.RPCSectorRootsResponse]()}},
	proto4.RPCLatestRevisionID:    {in: []func() proto4.Object{mk[proto4.RPCLatestRevisionRequest]()}, out: []func() proto4.Object{mk[proto4.RPCLatestRevisionResponse]()}},
	proto4.RPCFundAccountsID:      {in: []func() proto4.Object{mk[proto4.RPCFundAccountsRequest]()}, out: []func() proto4.Object{mk[proto4.RPCFundAccountsResponse]()}},
	proto4.RPCAccountBalanceID:    {in: []func() proto4.Object{mk[proto4.RPCAccountBalanceRequest]()}, out: []func() proto4.Object{mk[proto4.RPCAccountBalanceResponse]()}},
	proto4.RPCReadSectorID:        {in: []func() proto4.Object{mk[proto4.RPCReadSectorRequest]()}, out: []func() proto4.Object{mk[proto4.RPCReadSectorResponse]()}},
	proto4.RPCWriteSectorID:       {in: []func() proto4.Object{mk[proto4.RPCWriteSectorRequest]()}, out: []func() proto4.Object{mk[proto4.RPCWriteSectorResponse]()}},
	proto4.RPCVerifySectorID:      {in: []func() proto4.Object{mk[proto4.RPCVerifySectorRequest]()}, out: []func() proto4.Object{mk[proto4.RPCVerifySectorResponse]()}},
	proto4.RPCAttachPoolsID:       {in: []func() proto4.Object{mk[proto4.RPCAttachPoolsRequest]()}, out: []func() proto4.Object{mk[proto4.RPCAttachPoolsResponse]()}},
	proto4.RPCDetachPoolsID:       {in: []func() proto4.Object{mk[proto4.RPCDetachPoolsRequest]()}, out: []func() proto4.Object{mk[proto4.RPCDetachPoolsResponse]()}},
}

// A Msg is one parsed protocol message of a tapped stream.
type Msg struct {
	Dir      Dir
	Obj      proto4.Object    // nil if the bytes did not parse (truncated, cut)
	HostErr  *proto4.RPCError // outbound message that is an RPC error
	Trailing int              // bytes following the object in the same run (sector payload)
	Bytes    int              // total bytes of the run
}

// An Exchange is the typed view of a tapped stream.
type Exchange struct {
	Stream uint64
	RPC    types.Specifier
	Known  bool // RPC id is in the wire table
	Msgs   []Msg
}

// Request returns the parsed request object (nil if it did not arrive whole).
func (x *Exchange) Request() proto4.Object {
	if len(x.Msgs) == 0 || x.Msgs[0].Dir != DirIn {
		return nil
	}
	return x.Msgs[0].Obj
}

// In returns the k-th (0-based) renter->host message, Out the k-th host->renter one.
func (x *Exchange) In(k int) *Msg  { return x.nth(DirIn, k) }
func (x *Exchange) Out(k int) *Msg { return x.nth(DirOut, k) }

func (x *Exchange) nth(d Dir, k int) *Msg {
	for i := range x.Msgs {
		if x.Msgs[i].Dir == d {
			if k == 0 {
				return &x.Msgs[i]
			}
			k--
		}
	}
	return nil
}

// HostError returns the RPC error the host sent, if any.
func (x *Exchange) HostError() *proto4.RPCError {
	for i := range x.Msgs {
		if x.Msgs[i].HostErr != nil {
			return x.Msgs[i].HostErr
		}
	}
	return nil
}

// Parse decodes the recorded runs of a stream with core's public readers.
func Parse(st *Stream) (*Exchange, error) {
	if st == nil {
		return nil, errors.New("no stream record")
	}
	runs := st.Runs()
	x := &Exchange{Stream: st.ID}
	if len(runs) == 0 || runs[0].Dir != DirIn || len(runs[0].Data) < 16 {
		return x, nil
	}
	copy(x.RPC[:], runs[0].Data[:16])
	tab, ok := wireTable[x.RPC]
	x.Known = ok
	nin, nout := 0, 0
	for i, r := range runs {
		m := Msg{Dir: r.Dir, Bytes: r.N}
		data := r.Data
		if i == 0 {
			data = data[16:]
		}
		rd := bytes.NewReader(data)
		if r.Dir == DirIn {
			if ok && nin < len(tab.in) {
				obj := tab.in[nin]()
				var err error
				if nin == 0 {
					err = proto4.ReadRequest(rd, obj)
				} else {
					err = proto4.ReadResponse(rd, obj)
				}
				if err == nil {
					m.Obj = obj
					m.Trailing = r.N - (len(r.Data) - rd.Len())
				}
			}
			nin++
		} else {
			if ok && nout < len(tab.out) {
				obj := tab.out[nout]()
				err := proto4.ReadResponse(rd, obj)
				var re *proto4.RPCError
				switch {
				case err == nil:
					m.Obj = obj
					m.Trailing = r.N - (len(r.Data) - rd.Len())
				case errors.As(err, &re):
					m.HostErr = re
				}
			} else if !ok {
				var re *proto4.RPCError
				if err := proto4.ReadResponse(rd, new(proto4.RPCSettingsResponse)); errors.As(err, &re) {
					m.HostErr = re
				}
			}
			nout++
		}
		x.Msgs = append(x.Msgs, m)
	}
	return x, nil
}

// Describe renders the message sequence for diagnostics.
func (x *Exchange) Describe() string {
	var b bytes.Buffer
	fmt.Fprintf(&b, "%v:", x.RPC)
	for _, m := range x.Msgs {
		switch {
		case m.HostErr != nil:
			fmt.Fprintf(&b, " %v[err %q]", m.Dir, m.HostErr.Description)
		case m.Obj != nil:
			fmt.Fprintf(&b, " %v[%T %dB]", m.Dir, m.Obj, m.Bytes)
		default:
			fmt.Fprintf(&b, " %v[? %dB]", m.Dir, m.Bytes)
		}
	}
	return b.String()
}
