package rhplab

import (
	"encoding/binary"
	"sync"

	proto4 "go.sia.tech/core/rhp/v4"
	"go.sia.tech/core/types"
)

// A TestSector is a small payload padded with zeros to the sector size. The
// data is shared between labs and must never be modified.
type TestSector struct {
	Index    int
	Root     types.Hash256
	Data     *[proto4.SectorSize]byte
	Subtrees []types.Hash256
	Payload  []byte // the first 64 bytes (one leaf)
}

var (
	sectorMu    sync.Mutex
	sectorCache = map[int]*TestSector{}
)

// Sector returns the i-th test sector (computed once per process).
func Sector(i int) *TestSector {
	sectorMu.Lock()
	defer sectorMu.Unlock()
	if s, ok := sectorCache[i]; ok {
		return s
	}
	data := new([proto4.SectorSize]byte)
	copy(data[:], "verif test sector")
	binary.LittleEndian.PutUint64(data[32:], uint64(i)+1)
	binary.LittleEndian.PutUint64(data[56:], ^uint64(i))
	// a second non-zero leaf far into the sector so that proofs are not all-zero
	binary.LittleEndian.PutUint64(data[proto4.SectorSize-64:], uint64(i)*7+3)
	sub := proto4.CachedSectorSubtrees(data)
	s := &TestSector{Index: i, Root: proto4.MetaRoot(sub), Data: data, Subtrees: sub, Payload: append([]byte(nil), data[:64]...)}
	sectorCache[i] = s
	return s
}

// UnknownRoot returns a root no sector store ever holds.
func UnknownRoot(i int) types.Hash256 {
	var h types.Hash256
	copy(h[:], "unknown root")
	binary.LittleEndian.PutUint64(h[16:], uint64(i)+1)
	return h
}

// StoreDirect puts test sector i into the host's sector store without an RPC
// (setup only; never used for a step whose effect is being judged).
func (l *Lab) StoreDirect(i int) *TestSector {
	s := Sector(i)
	l.Sectors.StoreSector(s.Root, s.Data, s.Subtrees, 1<<40)
	return s
}
