package rhplab

import (
	"context"
	"errors"
	"fmt"
	"io"
	"net"
	"time"

	"go.sia.tech/core/consensus"
	proto4 "go.sia.tech/core/rhp/v4"
	"go.sia.tech/core/types"
	rhp "go.sia.tech/coreutils/rhp/v4"
)

// A Raw renter speaks the RHP4 wire protocol directly with core's message
// types, without any of the honest client's normalisation or validation. It
// is safe to use several Raw values (each with its own Client) concurrently.
type Raw struct {
	L   *Lab
	C   *Client
	Key types.PrivateKey // contract (renter) key used for honest signatures
}

// NewRaw returns a raw renter with its own transport client.
func (l *Lab) NewRaw() *Raw { return &Raw{L: l, C: l.Mux.NewClient(), Key: l.RenterKey} }

// Stage says how far a raw exchange got.
type Stage int

// Stages of a raw exchange.
const (
	StageDial     Stage = iota // could not open the stream
	StageRequest               // request written (or failed while writing)
	StageResp1                 // first host response read
	StageRound2                // renter's second message written
	StageComplete              // final host response read
)

func (r *Raw) dial() (net.Conn, error) {
	s, err := r.C.DialStream(context.Background())
	if err != nil {
		return nil, err
	}
	s.SetDeadline(time.Now().Add(Watchdog))
	return s, nil
}

// RoundTrip performs a single-round RPC: id+req (+payload) out, resp in. If
// drain is non-nil it is called after the response was read and may read raw
// bytes that follow it (sector data). closeEarly closes the stream right after
// the request without reading anything.
func (r *Raw) RoundTrip(id types.Specifier, req, resp proto4.Object, payload []byte, closeEarly bool, drain func(io.Reader) error) error {
	s, err := r.dial()
	if err != nil {
		return err
	}
	defer s.Close()
	if err := proto4.WriteRequest(s, id, req); err != nil {
		return fmt.Errorf("write request: %w", err)
	}
	if len(payload) > 0 {
		if _, err := s.Write(payload); err != nil {
			return fmt.Errorf("write payload: %w", err)
		}
	}
	if closeEarly {
		return errAborted
	}
	if err := proto4.ReadResponse(s, resp); err != nil {
		return err
	}
	if drain != nil {
		return drain(s)
	}
	return nil
}

var errAborted = errors.New("raw renter aborted the exchange")

// WrapSum adds deposit amounts modulo 2^128 and reports whether the true sum
// exceeds 2^128-1.
func WrapSum(ds []proto4.AccountDeposit) (total types.Currency, wrapped bool) {
	for _, d := range ds {
		var o bool
		total, o = total.AddWithOverflow(d.Amount)
		wrapped = wrapped || o
	}
	return
}

// WrappedRevision is the revision a renter gets when it pays total out of its
// payout with wrap-around arithmetic instead of core's checked arithmetic.
func WrappedRevision(fc types.V2FileContract, total types.Currency) types.V2FileContract {
	fc.RevisionNumber++
	fc.RenterOutput.Value, _ = fc.RenterOutput.Value.SubWithUnderflow(total)
	fc.HostOutput.Value, _ = fc.HostOutput.Value.AddWithOverflow(total)
	fc.RenterSignature, fc.HostSignature = types.Signature{}, types.Signature{}
	return fc
}

// Abandon sends id+req and the first part of a payload, optionally stalls,
// and closes the stream without reading anything: a renter that dies in the
// middle of its own request body.
func (r *Raw) Abandon(id types.Specifier, req proto4.Object, partial []byte, stall time.Duration) error {
	s, err := r.dial()
	if err != nil {
		return err
	}
	defer s.Close()
	if err := proto4.WriteRequest(s, id, req); err != nil {
		return fmt.Errorf("write request: %w", err)
	}
	if len(partial) > 0 {
		if _, err := s.Write(partial); err != nil {
			return fmt.Errorf("write payload: %w", err)
		}
	}
	if stall > 0 {
		time.Sleep(stall)
	}
	return errAborted
}

// RequestLen returns the number of bytes id+req occupy on the wire.
func RequestLen(id types.Specifier, req proto4.Object) int {
	var n countWriter
	proto4.WriteRequest(&n, id, req)
	return int(n)
}

type countWriter int

func (c *countWriter) Write(p []byte) (int, error) { *c += countWriter(len(p)); return len(p), nil }

// IsAborted reports whether err is the raw renter's own abort marker.
func IsAborted(err error) bool { return errors.Is(err, errAborted) }

// Round2 decides what the raw renter sends as its second message, given the
// revision an honest renter would sign and its signature hash. send=false
// closes the stream instead.
type Round2 func(honest types.V2FileContract, sigHash types.Hash256) (sig types.Signature, send bool)

// HonestRound2 signs the honest revision with key.
func HonestRound2(key types.PrivateKey) Round2 {
	return func(_ types.V2FileContract, h types.Hash256) (types.Signature, bool) { return key.SignHash(h), true }
}

// FreeCall is one raw RPCFreeSectors exchange.
type FreeCall struct {
	Contract  rhp.ContractRevision // the revision the renter builds on
	Prices    proto4.HostPrices
	Indices   []uint64
	MutReq    func(*proto4.RPCFreeSectorsRequest) // applied after honest construction
	NoRead    bool                                // close after the request without reading
	Round2    Round2                              // nil: honest
	SkipProof bool
}

// FreeResult is the outcome of a raw free exchange.
type FreeResult struct {
	Stage    Stage
	Err      error
	Resp     proto4.RPCFreeSectorsResponse
	ProofOK  bool                 // core's VerifyFreeSectorsProof on the host's proof
	Revision types.V2FileContract // honest revision (with signatures when complete)
	Usage    proto4.Usage
}

// Free runs a raw RPCFreeSectors exchange.
func (r *Raw) Free(cs consensus.State, c FreeCall) (res FreeResult) {
	req := proto4.RPCFreeSectorsRequest{ContractID: c.Contract.ID, Prices: c.Prices, Indices: c.Indices}
	req.ChallengeSignature = r.Key.SignHash(req.ChallengeSigHash(c.Contract.Revision.RevisionNumber + 1))
	if c.MutReq != nil {
		c.MutReq(&req)
	}
	s, err := r.dial()
	if err != nil {
		res.Err = err
		return
	}
	defer s.Close()
	res.Stage = StageRequest
	if res.Err = proto4.WriteRequest(s, proto4.RPCFreeSectorsID, &req); res.Err != nil {
		return
	}
	if c.NoRead {
		res.Err = errAborted
		return
	}
	if res.Err = proto4.ReadResponse(s, &res.Resp); res.Err != nil {
		return
	}
	res.Stage = StageResp1
	if !c.SkipProof {
		res.ProofOK = proto4.VerifyFreeSectorsProof(res.Resp.OldSubtreeHashes, res.Resp.OldLeafHashes, req.Indices, c.Contract.Revision.Filesize/proto4.SectorSize, c.Contract.Revision.FileMerkleRoot, res.Resp.NewMerkleRoot)
	}
	rev, usage, err := proto4.ReviseForFreeSectors(c.Contract.Revision, req.Prices, res.Resp.NewMerkleRoot, len(req.Indices))
	if err != nil && c.Round2 == nil {
		res.Err = fmt.Errorf("renter cannot build revision: %w", err)
		return
	}
	res.Revision, res.Usage = rev, usage
	sigHash := cs.ContractSigHash(rev)
	r2 := c.Round2
	if r2 == nil {
		r2 = HonestRound2(r.Key)
	}
	sig, send := r2(rev, sigHash)
	if !send {
		res.Err = errAborted
		return
	}
	if res.Err = proto4.WriteResponse(s, &proto4.RPCFreeSectorsSecondResponse{RenterSignature: sig}); res.Err != nil {
		return
	}
	res.Stage = StageRound2
	var third proto4.RPCFreeSectorsThirdResponse
	if res.Err = proto4.ReadResponse(s, &third); res.Err != nil {
		return
	}
	res.Stage = StageComplete
	res.Revision.RenterSignature = sig
	res.Revision.HostSignature = third.HostSignature
	return
}

// AppendCall is one raw RPCAppendSectors exchange.
type AppendCall struct {
	Contract rhp.ContractRevision
	Prices   proto4.HostPrices
	Roots    []types.Hash256
	MutReq   func(*proto4.RPCAppendSectorsRequest)
	NoRead   bool
	Round2   Round2
}

// AppendResult is the outcome of a raw append exchange.
type AppendResult struct {
	Stage    Stage
	Err      error
	Resp     proto4.RPCAppendSectorsResponse
	ProofOK  bool
	Accepted []types.Hash256
	Revision types.V2FileContract
	Usage    proto4.Usage
}

// Append runs a raw RPCAppendSectors exchange.
func (r *Raw) Append(cs consensus.State, c AppendCall) (res AppendResult) {
	req := proto4.RPCAppendSectorsRequest{Prices: c.Prices, Sectors: c.Roots, ContractID: c.Contract.ID}
	req.ChallengeSignature = r.Key.SignHash(req.ChallengeSigHash(c.Contract.Revision.RevisionNumber + 1))
	if c.MutReq != nil {
		c.MutReq(&req)
	}
	s, err := r.dial()
	if err != nil {
		res.Err = err
		return
	}
	defer s.Close()
	res.Stage = StageRequest
	if res.Err = proto4.WriteRequest(s, proto4.RPCAppendSectorsID, &req); res.Err != nil {
		return
	}
	if c.NoRead {
		res.Err = errAborted
		return
	}
	if res.Err = proto4.ReadResponse(s, &res.Resp); res.Err != nil {
		return
	}
	res.Stage = StageResp1
	if len(res.Resp.Accepted) != len(req.Sectors) {
		res.Err = fmt.Errorf("host answered %d accepted flags for %d roots", len(res.Resp.Accepted), len(req.Sectors))
		return
	}
	for i, ok := range res.Resp.Accepted {
		if ok {
			res.Accepted = append(res.Accepted, req.Sectors[i])
		}
	}
	fc := c.Contract.Revision
	numSectors := (fc.Filesize + proto4.SectorSize - 1) / proto4.SectorSize
	res.ProofOK = proto4.VerifyAppendSectorsProof(numSectors, res.Resp.SubtreeRoots, res.Accepted, fc.FileMerkleRoot, res.Resp.NewMerkleRoot)
	rev, usage, err := proto4.ReviseForAppendSectors(fc, req.Prices, res.Resp.NewMerkleRoot, uint64(len(res.Accepted)))
	if err != nil && c.Round2 == nil {
		res.Err = fmt.Errorf("renter cannot build revision: %w", err)
		return
	}
	res.Revision, res.Usage = rev, usage
	sigHash := cs.ContractSigHash(rev)
	r2 := c.Round2
	if r2 == nil {
		r2 = HonestRound2(r.Key)
	}
	sig, send := r2(rev, sigHash)
	if !send {
		res.Err = errAborted
		return
	}
	if res.Err = proto4.WriteResponse(s, &proto4.RPCAppendSectorsSecondResponse{RenterSignature: sig}); res.Err != nil {
		return
	}
	res.Stage = StageRound2
	var third proto4.RPCAppendSectorsThirdResponse
	if res.Err = proto4.ReadResponse(s, &third); res.Err != nil {
		return
	}
	res.Stage = StageComplete
	res.Revision.RenterSignature = sig
	res.Revision.HostSignature = third.HostSignature
	return
}

// ReplenishCall is one raw RPCReplenishAccounts / RPCReplenishPools exchange.
type ReplenishCall struct {
	Pools    bool
	Contract rhp.ContractRevision
	Accounts []proto4.Account
	Target   types.Currency
	MutReq   func(*proto4.RPCReplenishAccountsRequest)
	NoRead   bool
	Round2   Round2
}

// ReplenishResult is the outcome of a raw replenish exchange.
type ReplenishResult struct {
	Wrapped  bool // the host's deposits sum past 2^128-1
	Stage    Stage
	Err      error
	Resp     proto4.RPCReplenishAccountsResponse
	NoCost   bool // host asked for nothing: exchange ends after its first message
	Revision types.V2FileContract
	Usage    proto4.Usage
}

// Replenish runs a raw replenish exchange.
func (r *Raw) Replenish(cs consensus.State, c ReplenishCall) (res ReplenishResult) {
	req := proto4.RPCReplenishAccountsRequest{Accounts: c.Accounts, Target: c.Target, ContractID: c.Contract.ID}
	req.ChallengeSignature = r.Key.SignHash(req.ChallengeSigHash(c.Contract.Revision.RevisionNumber))
	if c.MutReq != nil {
		c.MutReq(&req)
	}
	id := proto4.RPCReplenishAccountsID
	if c.Pools {
		id = proto4.RPCReplenishPoolsID
	}
	s, err := r.dial()
	if err != nil {
		res.Err = err
		return
	}
	defer s.Close()
	res.Stage = StageRequest
	if res.Err = proto4.WriteRequest(s, id, &req); res.Err != nil {
		return
	}
	if c.NoRead {
		res.Err = errAborted
		return
	}
	if res.Err = proto4.ReadResponse(s, &res.Resp); res.Err != nil {
		return
	}
	res.Stage = StageResp1
	total, wrapped := WrapSum(res.Resp.Deposits)
	res.Wrapped = wrapped
	if total.IsZero() && !wrapped {
		res.NoCost = true
		res.Stage = StageComplete
		res.Revision = c.Contract.Revision
		return
	}
	rev, usage, err := proto4.ReviseForReplenish(c.Contract.Revision, total)
	if err != nil && c.Round2 == nil {
		res.Err = fmt.Errorf("renter cannot build revision: %w", err)
		return
	} else if err != nil {
		rev = WrappedRevision(c.Contract.Revision, total)
	}
	res.Revision, res.Usage = rev, usage
	sigHash := cs.ContractSigHash(rev)
	r2 := c.Round2
	if r2 == nil {
		r2 = HonestRound2(r.Key)
	}
	sig, send := r2(rev, sigHash)
	if !send {
		res.Err = errAborted
		return
	}
	if res.Err = proto4.WriteResponse(s, &proto4.RPCReplenishAccountsSecondResponse{RenterSignature: sig}); res.Err != nil {
		return
	}
	res.Stage = StageRound2
	var third proto4.RPCReplenishAccountsThirdResponse
	if res.Err = proto4.ReadResponse(s, &third); res.Err != nil {
		return
	}
	res.Stage = StageComplete
	res.Revision.RenterSignature = sig
	res.Revision.HostSignature = third.HostSignature
	return
}

// RootsCall is one raw RPCSectorRoots exchange. The renter signature covers
// the revision an honest renter would derive for (SignLength, Prices) from
// Contract unless MutReq replaces it.
type RootsCall struct {
	Contract rhp.ContractRevision
	Prices   proto4.HostPrices
	Offset   uint64
	Length   uint64
	MutReq   func(req *proto4.RPCSectorRootsRequest, honest types.V2FileContract)
	NoRead   bool
}

// RootsResult is the outcome of a raw sector-roots exchange.
type RootsResult struct {
	Err      error
	Resp     proto4.RPCSectorRootsResponse
	ProofOK  bool
	Revision types.V2FileContract
	Usage    proto4.Usage
	Built    bool // the renter could build a revision at all
}

// Roots runs a raw RPCSectorRoots exchange.
func (r *Raw) Roots(cs consensus.State, c RootsCall) (res RootsResult) {
	req := proto4.RPCSectorRootsRequest{Prices: c.Prices, ContractID: c.Contract.ID, Offset: c.Offset, Length: c.Length}
	rev, usage, err := proto4.ReviseForSectorRoots(c.Contract.Revision, c.Prices, c.Length)
	if err == nil {
		res.Built = true
		res.Revision, res.Usage = rev, usage
		req.RenterSignature = r.Key.SignHash(cs.ContractSigHash(rev))
	}
	if c.MutReq != nil {
		c.MutReq(&req, rev)
	}
	res.Err = r.RoundTrip(proto4.RPCSectorRootsID, &req, &res.Resp, nil, c.NoRead, nil)
	if res.Err != nil {
		return
	}
	fc := c.Contract.Revision
	numSectors := (fc.Filesize + proto4.SectorSize - 1) / proto4.SectorSize
	if c.Offset <= numSectors && c.Length <= numSectors-c.Offset {
		res.ProofOK = proto4.VerifySectorRootsProof(res.Resp.Proof, res.Resp.Roots, numSectors, c.Offset, c.Offset+c.Length, fc.FileMerkleRoot)
	}
	res.Revision.RenterSignature = req.RenterSignature
	res.Revision.HostSignature = res.Resp.HostSignature
	return
}

// FundCall is one raw RPCFundAccounts exchange.
type FundCall struct {
	Contract rhp.ContractRevision
	Deposits []proto4.AccountDeposit
	MutReq   func(req *proto4.RPCFundAccountsRequest, honest types.V2FileContract)
	NoRead   bool
}

// FundResult is the outcome of a raw fund exchange.
type FundResult struct {
	Wrapped  bool // the deposits sum past 2^128-1
	Err      error
	Resp     proto4.RPCFundAccountsResponse
	Revision types.V2FileContract
	Usage    proto4.Usage
	Built    bool
}

// Fund runs a raw RPCFundAccounts exchange.
func (r *Raw) Fund(cs consensus.State, c FundCall) (res FundResult) {
	// the raw renter adds with wrap-around: for deposits whose sum exceeds
	// 2^128-1 it signs the revision that wrapped arithmetic produces
	total, wrapped := WrapSum(c.Deposits)
	res.Wrapped = wrapped
	req := proto4.RPCFundAccountsRequest{ContractID: c.Contract.ID, Deposits: c.Deposits}
	rev, usage, err := proto4.ReviseForFundAccounts(c.Contract.Revision, total)
	if err == nil {
		res.Built = true
		res.Revision, res.Usage = rev, usage
		req.RenterSignature = r.Key.SignHash(cs.ContractSigHash(rev))
	} else {
		rev = WrappedRevision(c.Contract.Revision, total) // handed to MutReq, not signed by default
	}
	if c.MutReq != nil {
		c.MutReq(&req, rev)
	}
	res.Err = r.RoundTrip(proto4.RPCFundAccountsID, &req, &res.Resp, nil, c.NoRead, nil)
	if res.Err != nil {
		return
	}
	res.Revision.RenterSignature = req.RenterSignature
	res.Revision.HostSignature = res.Resp.HostSignature
	return
}

// LatestRevision runs RPCLatestRevision raw.
func (r *Raw) LatestRevision(id types.FileContractID) (proto4.RPCLatestRevisionResponse, error) {
	var resp proto4.RPCLatestRevisionResponse
	err := r.RoundTrip(proto4.RPCLatestRevisionID, &proto4.RPCLatestRevisionRequest{ContractID: id}, &resp, nil, false, nil)
	return resp, err
}

// RenewKind selects which of the three renewal RPCs a RenewCall speaks.
type RenewKind int

// Renewal RPC kinds.
const (
	KindRenew RenewKind = iota
	KindRefreshFull
	KindRefreshPartial
	KindForm // contract formation (Existing is ignored)
)

func (k RenewKind) String() string {
	return [...]string{"renew", "refresh-full", "refresh-partial", "form"}[k]
}

// Funding replaces the renter wallet's input selection by hand-picked
// elements: Inputs are spent (a change output to the renter address is added
// exactly as the host computes it), Parents are sent as RenterParents, Basis
// is the chain index the element proofs are claimed to be valid for.
type Funding struct {
	Basis   types.ChainIndex
	Inputs  []types.SiacoinElement
	Parents []types.V2Transaction
}

// RenewCall is one raw renew / refresh exchange, built the way the honest
// client builds it and then handed to the mutators.
type RenewCall struct {
	Kind     RenewKind
	Existing rhp.ContractRevision
	Prices   proto4.HostPrices
	// renew: Allowance, Collateral, ProofHeight; refresh: Allowance, Collateral
	Allowance   types.Currency
	Collateral  types.Currency
	ProofHeight uint64

	MutRenew   func(*proto4.RPCRenewContractRequest)
	MutRefresh func(*proto4.RPCRefreshContractRequest)
	MutForm    func(*proto4.RPCFormContractRequest)
	NoRead     bool
	// Funding, if set, is used instead of the renter wallet's own selection.
	Funding *Funding
	// BeforeRound2 runs after the host's inputs were read (the host holds the
	// contract lock and its funded inputs) and before the renter signs.
	BeforeRound2 func()
	// Round2 may alter the two renter signatures; send=false aborts. For a
	// formation only contractSig is used.
	Round2 func(renewalSig, contractSig *types.Signature) (send bool)
	// MutPolicies may alter the renter's satisfied policies before they are sent.
	MutPolicies func([]types.SatisfiedPolicy)
}

// RenewResult is the outcome of a raw renew / refresh exchange.
type RenewResult struct {
	Stage   Stage
	Err     error
	Renewal types.V2FileContractRenewal // as built by the renter
	Usage   proto4.Usage
	NewID   types.FileContractID
	Set     rhp.TransactionSet
	// the request as sent (exactly one is set)
	RenewReq   *proto4.RPCRenewContractRequest
	RefreshReq *proto4.RPCRefreshContractRequest
	FormReq    *proto4.RPCFormContractRequest
	Contract   types.V2FileContract // formation: the contract as built by the renter
	Txn        types.V2Transaction  // the transaction as assembled and signed by the renter
}

// Renew runs a raw renew or refresh exchange. Inputs it funded are released
// again unless the exchange completed.
func (r *Raw) Renew(cs consensus.State, c RenewCall) (res RenewResult) {
	signer := r.L.Signer()
	signer.PK = r.Key
	hostAddr := r.L.Settings.RHP4Settings().WalletAddress
	existing := c.Existing.Revision
	var renewal types.V2FileContractRenewal
	var fc types.V2FileContract
	var id types.Specifier
	var renterCost, hostCost types.Currency
	var renterAddr, hostChangeAddr types.Address
	txn := types.V2Transaction{MinerFee: signer.RecommendedFee().Mul64(1000)}
	switch c.Kind {
	case KindForm:
		p := proto4.RPCFormContractParams{RenterPublicKey: r.Key.PublicKey(), RenterAddress: r.L.RenterWallet.Address(), Allowance: c.Allowance, Collateral: c.Collateral, ProofHeight: c.ProofHeight}
		fc, res.Usage = proto4.NewContract(c.Prices, p, r.L.HostKey.PublicKey(), hostAddr)
		txn.FileContracts = []types.V2FileContract{fc}
		renterCost, _ = proto4.ContractCost(cs, fc, txn.MinerFee)
		hostCost = fc.TotalCollateral
		id = proto4.RPCFormContractID
		res.FormReq = &proto4.RPCFormContractRequest{Prices: c.Prices, Contract: p, MinerFee: txn.MinerFee}
		renterAddr, hostChangeAddr = p.RenterAddress, fc.HostOutput.Address
	case KindRenew:
		p := proto4.RPCRenewContractParams{ContractID: c.Existing.ID, Allowance: c.Allowance, Collateral: c.Collateral, ProofHeight: c.ProofHeight}
		renewal, res.Usage = proto4.RenewContract(existing, c.Prices, hostAddr, p)
		renterCost, hostCost = proto4.RenewalCost(cs, renewal, txn.MinerFee)
		id = proto4.RPCRenewContractID
		res.RenewReq = &proto4.RPCRenewContractRequest{Prices: c.Prices, Renewal: p, MinerFee: txn.MinerFee}
	default:
		p := proto4.RPCRefreshContractParams{ContractID: c.Existing.ID, Allowance: c.Allowance, Collateral: c.Collateral}
		if c.Kind == KindRefreshPartial {
			renewal, res.Usage = proto4.RefreshContractPartialRollover(existing, c.Prices, hostAddr, p)
			id = proto4.RPCRefreshPartialID
		} else {
			renewal, res.Usage = proto4.RefreshContractFullRollover(existing, c.Prices, hostAddr, p)
			id = proto4.RPCRefreshContractID
		}
		renterCost, hostCost = proto4.RefreshCost(cs, c.Prices, renewal, txn.MinerFee)
		res.RefreshReq = &proto4.RPCRefreshContractRequest{Prices: c.Prices, Refresh: p, MinerFee: txn.MinerFee}
	}
	if c.Kind != KindForm {
		res.NewID = c.Existing.ID.V2RenewalID()
		renterAddr, hostChangeAddr = renewal.NewContract.RenterOutput.Address, renewal.NewContract.HostOutput.Address
	}

	var basis types.ChainIndex
	var toSign []int
	var parents []types.V2Transaction
	release := false
	defer func() {
		if release {
			signer.ReleaseInputs([]types.V2Transaction{txn})
		}
	}()
	if c.Funding != nil {
		var sum types.Currency
		for i, el := range c.Funding.Inputs {
			sum = sum.Add(el.SiacoinOutput.Value)
			txn.SiacoinInputs = append(txn.SiacoinInputs, types.V2SiacoinInput{Parent: el.Copy()})
			toSign = append(toSign, i)
		}
		if sum.Cmp(renterCost) > 0 {
			// the host adds exactly this change output for a renter that overpays
			txn.SiacoinOutputs = append(txn.SiacoinOutputs, types.SiacoinOutput{Address: renterAddr, Value: sum.Sub(renterCost)})
		} else if sum.Cmp(renterCost) < 0 {
			res.Err = fmt.Errorf("hand-picked inputs (%v) do not cover the renter's cost (%v)", sum, renterCost)
			return
		}
		basis, parents = c.Funding.Basis, c.Funding.Parents
	} else {
		var err error
		basis, toSign, err = signer.FundV2Transaction(&txn, renterCost)
		if err != nil {
			res.Err = fmt.Errorf("renter cannot fund: %w", err)
			return
		}
		release = true
		basis, parents, err = r.L.CM.V2TransactionSet(basis, txn)
		if err != nil {
			res.Err = fmt.Errorf("renter cannot build parents: %w", err)
			return
		}
		if c.Kind == KindForm {
			txn = parents[len(parents)-1]
		}
		parents = parents[:len(parents)-1]
	}
	var inputs []types.SiacoinElement
	for _, si := range txn.SiacoinInputs {
		inputs = append(inputs, si.Parent.Copy())
	}
	var reqObj proto4.Object
	switch {
	case res.FormReq != nil:
		q := res.FormReq
		q.Basis, q.RenterInputs, q.RenterParents = basis, inputs, parents
		if c.MutForm != nil {
			c.MutForm(q)
		}
		reqObj = q
	case res.RenewReq != nil:
		q := res.RenewReq
		q.Basis, q.RenterInputs, q.RenterParents = basis, inputs, parents
		q.ChallengeSignature = r.Key.SignHash(q.ChallengeSigHash(existing.RevisionNumber))
		if c.MutRenew != nil {
			c.MutRenew(q)
		}
		reqObj = q
	default:
		q := res.RefreshReq
		q.Basis, q.RenterInputs, q.RenterParents = basis, inputs, parents
		q.ChallengeSignature = r.Key.SignHash(q.ChallengeSigHash(existing.RevisionNumber))
		if c.MutRefresh != nil {
			c.MutRefresh(q)
		}
		reqObj = q
	}

	s, err := r.dial()
	if err != nil {
		res.Err = err
		return
	}
	defer s.Close()
	res.Stage = StageRequest
	if res.Err = proto4.WriteRequest(s, id, reqObj); res.Err != nil {
		return
	}
	if c.NoRead {
		res.Err = errAborted
		return
	}
	var hostInputs []types.V2SiacoinInput
	if res.FormReq != nil {
		var resp proto4.RPCFormContractResponse
		if res.Err = proto4.ReadResponse(s, &resp); res.Err != nil {
			return
		}
		hostInputs = resp.HostInputs
	} else if res.RenewReq != nil {
		var resp proto4.RPCRenewContractResponse
		if res.Err = proto4.ReadResponse(s, &resp); res.Err != nil {
			return
		}
		hostInputs = resp.HostInputs
	} else {
		var resp proto4.RPCRefreshContractResponse
		if res.Err = proto4.ReadResponse(s, &resp); res.Err != nil {
			return
		}
		hostInputs = resp.HostInputs
	}
	res.Stage = StageResp1
	var hostSum types.Currency
	for _, si := range hostInputs {
		hostSum = hostSum.Add(si.Parent.SiacoinOutput.Value)
		txn.SiacoinInputs = append(txn.SiacoinInputs, si)
	}
	if n := hostSum.Cmp(hostCost); n < 0 {
		res.Err = fmt.Errorf("host funded %v, expected %v", hostSum, hostCost)
		return
	} else if n > 0 {
		txn.SiacoinOutputs = append(txn.SiacoinOutputs, types.SiacoinOutput{Address: hostChangeAddr, Value: hostSum.Sub(hostCost)})
	}
	if c.BeforeRound2 != nil {
		c.BeforeRound2()
	}
	var rs, csig types.Signature
	if c.Kind == KindForm {
		signer.SignV2Inputs(&txn, toSign)
		fc.RenterSignature = r.Key.SignHash(cs.ContractSigHash(fc))
		res.Contract = fc
		csig = fc.RenterSignature
	} else {
		txn.FileContractResolutions = []types.V2FileContractResolution{{
			Parent:     types.V2FileContractElement{ID: c.Existing.ID},
			Resolution: &renewal,
		}}
		signer.SignV2Inputs(&txn, toSign)
		renewal.RenterSignature = r.Key.SignHash(cs.RenewalSigHash(renewal))
		renewal.NewContract.RenterSignature = r.Key.SignHash(cs.ContractSigHash(renewal.NewContract))
		res.Renewal = renewal
		rs, csig = renewal.RenterSignature, renewal.NewContract.RenterSignature
	}
	res.Txn = txn
	if c.Round2 != nil && !c.Round2(&rs, &csig) {
		res.Err = errAborted
		return
	}
	var policies []types.SatisfiedPolicy
	for _, si := range txn.SiacoinInputs[:len(inputs)] {
		policies = append(policies, si.SatisfiedPolicy)
	}
	if c.MutPolicies != nil {
		c.MutPolicies(policies)
	}
	var second proto4.Object
	switch {
	case res.FormReq != nil:
		second = &proto4.RPCFormContractSecondResponse{RenterContractSignature: csig, RenterSatisfiedPolicies: policies}
	case res.RenewReq != nil:
		second = &proto4.RPCRenewContractSecondResponse{RenterRenewalSignature: rs, RenterContractSignature: csig, RenterSatisfiedPolicies: policies}
	default:
		second = &proto4.RPCRefreshContractSecondResponse{RenterRenewalSignature: rs, RenterContractSignature: csig, RenterSatisfiedPolicies: policies}
	}
	if res.Err = proto4.WriteResponse(s, second); res.Err != nil {
		return
	}
	res.Stage = StageRound2
	switch {
	case res.FormReq != nil:
		var third proto4.RPCFormContractThirdResponse
		if res.Err = proto4.ReadResponse(s, &third); res.Err != nil {
			return
		}
		res.Set = rhp.TransactionSet{Basis: third.Basis, Transactions: third.TransactionSet}
		if n := len(third.TransactionSet); n > 0 {
			ft := third.TransactionSet[n-1]
			res.NewID = ft.V2FileContractID(ft.ID(), 0)
		}
	case res.RenewReq != nil:
		var third proto4.RPCRenewContractThirdResponse
		if res.Err = proto4.ReadResponse(s, &third); res.Err != nil {
			return
		}
		res.Set = rhp.TransactionSet{Basis: third.Basis, Transactions: third.TransactionSet}
	default:
		var third proto4.RPCRefreshContractThirdResponse
		if res.Err = proto4.ReadResponse(s, &third); res.Err != nil {
			return
		}
		res.Set = rhp.TransactionSet{Basis: third.Basis, Transactions: third.TransactionSet}
	}
	res.Stage = StageComplete
	release = false
	return
}
