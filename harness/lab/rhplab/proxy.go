package rhplab

import (
	"errors"
	"slices"
	"sync"
	"sync/atomic"

	proto4 "go.sia.tech/core/rhp/v4"
	"go.sia.tech/core/types"
	rhp "go.sia.tech/coreutils/rhp/v4"
)

// Event kinds recorded by the proxies.
const (
	EvLock            = "Lock"
	EvUnlock          = "Unlock"
	EvAddContract     = "AddV2Contract"
	EvRenewContract   = "RenewV2Contract"
	EvRevise          = "ReviseV2Contract"
	EvElement         = "V2FileContractElement"
	EvAccountBalance  = "AccountBalance"
	EvAccountBalances = "AccountBalances"
	EvCreditAccounts  = "CreditAccountsWithContract"
	EvDebit           = "DebitAccount"
	EvPoolBalances    = "PoolBalances"
	EvCreditPools     = "CreditPoolsWithContract"
	EvAttach          = "AttachPools"
	EvDetach          = "DetachPools"
	EvHasSector       = "HasSector"
	EvReadSector      = "ReadSector"
	EvStoreSector     = "StoreSector"
	EvSettings        = "RHP4Settings"
)

// An Event is one call the server made on an injected interface. All slices
// are private copies.
type Event struct {
	Seq    uint64 // global order (taken when the inner call returned)
	Stream uint64 // stream whose handler made the call (0: unknown)
	Kind   string
	Err    string // "" on success

	ContractID types.FileContractID
	Revision   types.V2FileContract // Lock result / Revise / Credit* argument / Add / Renew (new contract)
	Roots      []types.Hash256      // Lock result / Revise argument
	Revisable  bool
	Renewed    bool
	Usage      proto4.Usage

	Renewal   *types.V2FileContractRenewal // RenewV2Contract
	ParentID  types.FileContractID         // RenewV2Contract: the renewed contract
	TxnSet    []types.V2Transaction        // Add / Renew
	Basis     types.ChainIndex
	Deposits  []proto4.AccountDeposit
	Accounts  []proto4.Account
	Balances  []types.Currency
	Attach    []proto4.PoolAttachment
	Detach    []proto4.PoolDetachment
	Root      types.Hash256
	Offset    uint64
	Length    uint64
	Found     bool
	DataLen   int
	Expiry    uint64
	UnlockSeq uint64 // Unlock: Seq of the matching Lock
	Injected  bool   // the error was injected by the proxy; the inner store was not called
}

// Persisting reports whether the event is a call that persists a revision.
func (e *Event) Persisting() bool {
	switch e.Kind {
	case EvRevise, EvCreditAccounts, EvCreditPools, EvAddContract, EvRenewContract:
		return true
	}
	return false
}

// A Log is the global, ordered record of proxy events.
type Log struct {
	seq atomic.Uint64
	mu  sync.Mutex
	evs []Event
	mux *Mux

	// Perturb, if set, is called on the handler goroutine before every inner
	// call (schedule perturbation at real suspension points).
	Perturb atomic.Pointer[func(kind string)]

	// Fault, if set, is asked before every persisting call (the five revision
	// persisting methods and DebitAccount); a non-nil error is returned to the
	// server in place of calling the inner store (a failing store).
	Fault atomic.Pointer[func(kind string) error]

	holdMu         sync.Mutex
	holders        map[types.FileContractID]uint64
	lockViolations []LockViolation
}

func (l *Log) add(e Event) uint64 {
	if l.mux != nil {
		e.Stream = l.mux.CurrentStream()
	}
	l.mu.Lock()
	e.Seq = l.seq.Add(1)
	l.evs = append(l.evs, e)
	l.mu.Unlock()
	return e.Seq
}

func (l *Log) fault(kind string) error {
	if f := l.Fault.Load(); f != nil {
		return (*f)(kind)
	}
	return nil
}

// ErrInjected is what an injected store fault returns to the server.
var ErrInjected = errors.New("verif: injected store failure")

// FailNext arms a one-shot fault: the next persisting call whose kind is in
// kinds (any persisting call if empty) fails. The returned function disarms it
// and reports whether it fired.
func (l *Log) FailNext(kinds ...string) (disarm func() bool) {
	var fired atomic.Bool
	fn := func(kind string) error {
		if len(kinds) > 0 && !slices.Contains(kinds, kind) {
			return nil
		}
		if fired.CompareAndSwap(false, true) {
			return ErrInjected
		}
		return nil
	}
	l.Fault.Store(&fn)
	return func() bool {
		l.Fault.Store(nil)
		return fired.Load()
	}
}

func (l *Log) perturb(kind string) {
	if p := l.Perturb.Load(); p != nil {
		(*p)(kind)
	}
}

// Seq returns the sequence number of the latest event.
func (l *Log) Seq() uint64 { return l.seq.Load() }

// Since returns copies of all events with Seq > after.
func (l *Log) Since(after uint64) []Event {
	l.mu.Lock()
	defer l.mu.Unlock()
	i, _ := slices.BinarySearchFunc(l.evs, after+1, func(e Event, t uint64) int {
		switch {
		case e.Seq < t:
			return -1
		case e.Seq > t:
			return 1
		}
		return 0
	})
	return slices.Clone(l.evs[i:])
}

// Trim forgets all events with Seq <= upTo.
func (l *Log) Trim(upTo uint64) {
	l.mu.Lock()
	i := 0
	for i < len(l.evs) && l.evs[i].Seq <= upTo {
		i++
	}
	l.evs = slices.Clone(l.evs[i:])
	l.mu.Unlock()
}

func errStr(err error) string {
	if err == nil {
		return ""
	}
	if s := err.Error(); s != "" {
		return s
	}
	return "(empty error)"
}

// RecContractor wraps an rhp.Contractor and records every call.
type RecContractor struct {
	Inner rhp.Contractor
	Log   *Log
}

var _ rhp.Contractor = (*RecContractor)(nil)

// LockV2Contract implements rhp.Contractor.
func (c *RecContractor) LockV2Contract(id types.FileContractID) (rhp.RevisionState, func(), error) {
	c.Log.perturb(EvLock)
	rs, unlock, err := c.Inner.LockV2Contract(id)
	seq := c.Log.add(Event{Kind: EvLock, Err: errStr(err), ContractID: id, Revision: rs.Revision, Roots: slices.Clone(rs.Roots), Revisable: rs.Revisable, Renewed: rs.Renewed})
	if err != nil {
		return rs, unlock, err
	}
	// mutual exclusion monitor: at most one holder per contract at any instant
	stream := uint64(0)
	if c.Log.mux != nil {
		stream = c.Log.mux.CurrentStream()
	}
	c.Log.holdMu.Lock()
	if c.Log.holders == nil {
		c.Log.holders = map[types.FileContractID]uint64{}
	}
	if prev, held := c.Log.holders[id]; held {
		c.Log.lockViolations = append(c.Log.lockViolations, LockViolation{ContractID: id, Holder: prev, Intruder: stream, Seq: seq})
	}
	c.Log.holders[id] = stream
	c.Log.holdMu.Unlock()
	var once sync.Once
	return rs, func() {
		c.Log.perturb(EvUnlock)
		once.Do(func() {
			c.Log.holdMu.Lock()
			if c.Log.holders[id] == stream {
				delete(c.Log.holders, id)
			}
			c.Log.holdMu.Unlock()
		})
		unlock()
		c.Log.add(Event{Kind: EvUnlock, ContractID: id, UnlockSeq: seq})
	}, nil
}

// A LockViolation records a contract lock that was granted while another
// handler still held it.
type LockViolation struct {
	ContractID types.FileContractID `json:"contract"`
	Holder     uint64               `json:"holder_stream"`
	Intruder   uint64               `json:"intruder_stream"`
	Seq        uint64               `json:"seq"`
}

// TakeLockViolations returns and clears the violations of the mutual
// exclusion monitor.
func (l *Log) TakeLockViolations() []LockViolation {
	l.holdMu.Lock()
	defer l.holdMu.Unlock()
	out := l.lockViolations
	l.lockViolations = nil
	return out
}

// ForgetLock drops a contract from the monitor (after a leaked lock was reported).
func (l *Log) ForgetLock(id types.FileContractID) {
	l.holdMu.Lock()
	delete(l.holders, id)
	l.holdMu.Unlock()
}

// HeldLocks returns the contracts whose lock is held right now, with the
// stream of the holder.
func (l *Log) HeldLocks() map[types.FileContractID]uint64 {
	l.holdMu.Lock()
	defer l.holdMu.Unlock()
	out := make(map[types.FileContractID]uint64, len(l.holders))
	for k, v := range l.holders {
		out[k] = v
	}
	return out
}

func copySet(ts rhp.TransactionSet) []types.V2Transaction {
	out := make([]types.V2Transaction, len(ts.Transactions))
	for i := range ts.Transactions {
		out[i] = ts.Transactions[i].DeepCopy()
	}
	return out
}

// AddV2Contract implements rhp.Contractor.
func (c *RecContractor) AddV2Contract(ts rhp.TransactionSet, usage proto4.Usage) error {
	c.Log.perturb(EvAddContract)
	ev := Event{Kind: EvAddContract, TxnSet: copySet(ts), Basis: ts.Basis, Usage: usage}
	if n := len(ev.TxnSet); n > 0 {
		txn := ev.TxnSet[n-1]
		if len(txn.FileContracts) > 0 {
			ev.Revision = txn.FileContracts[0]
			ev.ContractID = txn.V2FileContractID(txn.ID(), 0)
		}
	}
	if ferr := c.Log.fault(EvAddContract); ferr != nil {
		ev.Err, ev.Injected = errStr(ferr), true
		c.Log.add(ev)
		return ferr
	}
	err := c.Inner.AddV2Contract(ts, usage)
	ev.Err = errStr(err)
	c.Log.add(ev)
	return err
}

// RenewV2Contract implements rhp.Contractor.
func (c *RecContractor) RenewV2Contract(ts rhp.TransactionSet, usage proto4.Usage) error {
	c.Log.perturb(EvRenewContract)
	ev := Event{Kind: EvRenewContract, TxnSet: copySet(ts), Basis: ts.Basis, Usage: usage}
	if n := len(ev.TxnSet); n > 0 {
		txn := ev.TxnSet[n-1]
		if len(txn.FileContractResolutions) > 0 {
			res := txn.FileContractResolutions[0]
			ev.ParentID = res.Parent.ID
			ev.ContractID = res.Parent.ID.V2RenewalID()
			if r, ok := res.Resolution.(*types.V2FileContractRenewal); ok {
				rc := *r
				ev.Renewal = &rc
				ev.Revision = rc.NewContract
			}
		}
	}
	if ferr := c.Log.fault(EvRenewContract); ferr != nil {
		ev.Err, ev.Injected = errStr(ferr), true
		c.Log.add(ev)
		return ferr
	}
	err := c.Inner.RenewV2Contract(ts, usage)
	ev.Err = errStr(err)
	c.Log.add(ev)
	return err
}

// ReviseV2Contract implements rhp.Contractor.
func (c *RecContractor) ReviseV2Contract(id types.FileContractID, rev types.V2FileContract, roots []types.Hash256, usage proto4.Usage) error {
	c.Log.perturb(EvRevise)
	ev := Event{Kind: EvRevise, ContractID: id, Revision: rev, Roots: slices.Clone(roots), Usage: usage}
	if ferr := c.Log.fault(EvRevise); ferr != nil {
		ev.Err, ev.Injected = errStr(ferr), true
		c.Log.add(ev)
		return ferr
	}
	err := c.Inner.ReviseV2Contract(id, rev, roots, usage)
	ev.Err = errStr(err)
	c.Log.add(ev)
	return err
}

// V2FileContractElement implements rhp.Contractor.
func (c *RecContractor) V2FileContractElement(id types.FileContractID) (types.ChainIndex, types.V2FileContractElement, error) {
	c.Log.perturb(EvElement)
	ci, fce, err := c.Inner.V2FileContractElement(id)
	c.Log.add(Event{Kind: EvElement, ContractID: id, Basis: ci, Err: errStr(err)})
	return ci, fce, err
}

// AccountBalance implements rhp.Contractor.
func (c *RecContractor) AccountBalance(a proto4.Account) (types.Currency, error) {
	c.Log.perturb(EvAccountBalance)
	b, err := c.Inner.AccountBalance(a)
	c.Log.add(Event{Kind: EvAccountBalance, Accounts: []proto4.Account{a}, Balances: []types.Currency{b}, Err: errStr(err)})
	return b, err
}

// AccountBalances implements rhp.Contractor.
func (c *RecContractor) AccountBalances(as []proto4.Account) ([]types.Currency, error) {
	c.Log.perturb(EvAccountBalances)
	bs, err := c.Inner.AccountBalances(as)
	c.Log.add(Event{Kind: EvAccountBalances, Accounts: slices.Clone(as), Balances: slices.Clone(bs), Err: errStr(err)})
	return bs, err
}

// CreditAccountsWithContract implements rhp.Contractor.
func (c *RecContractor) CreditAccountsWithContract(ds []proto4.AccountDeposit, id types.FileContractID, rev types.V2FileContract, usage proto4.Usage) ([]types.Currency, error) {
	c.Log.perturb(EvCreditAccounts)
	ev := Event{Kind: EvCreditAccounts, ContractID: id, Revision: rev, Deposits: slices.Clone(ds), Usage: usage}
	if ferr := c.Log.fault(EvCreditAccounts); ferr != nil {
		ev.Err, ev.Injected = errStr(ferr), true
		c.Log.add(ev)
		return nil, ferr
	}
	bs, err := c.Inner.CreditAccountsWithContract(ds, id, rev, usage)
	ev.Balances = slices.Clone(bs)
	ev.Err = errStr(err)
	c.Log.add(ev)
	return bs, err
}

// DebitAccount implements rhp.Contractor.
func (c *RecContractor) DebitAccount(a proto4.Account, usage proto4.Usage) error {
	c.Log.perturb(EvDebit)
	if ferr := c.Log.fault(EvDebit); ferr != nil {
		c.Log.add(Event{Kind: EvDebit, Accounts: []proto4.Account{a}, Usage: usage, Err: errStr(ferr), Injected: true})
		return ferr
	}
	err := c.Inner.DebitAccount(a, usage)
	c.Log.add(Event{Kind: EvDebit, Accounts: []proto4.Account{a}, Usage: usage, Err: errStr(err)})
	return err
}

// PoolBalances implements rhp.Contractor.
func (c *RecContractor) PoolBalances(ps []proto4.Account) ([]types.Currency, error) {
	c.Log.perturb(EvPoolBalances)
	bs, err := c.Inner.PoolBalances(ps)
	c.Log.add(Event{Kind: EvPoolBalances, Accounts: slices.Clone(ps), Balances: slices.Clone(bs), Err: errStr(err)})
	return bs, err
}

// CreditPoolsWithContract implements rhp.Contractor.
func (c *RecContractor) CreditPoolsWithContract(ds []proto4.AccountDeposit, id types.FileContractID, rev types.V2FileContract, usage proto4.Usage) ([]types.Currency, error) {
	c.Log.perturb(EvCreditPools)
	ev := Event{Kind: EvCreditPools, ContractID: id, Revision: rev, Deposits: slices.Clone(ds), Usage: usage}
	if ferr := c.Log.fault(EvCreditPools); ferr != nil {
		ev.Err, ev.Injected = errStr(ferr), true
		c.Log.add(ev)
		return nil, ferr
	}
	bs, err := c.Inner.CreditPoolsWithContract(ds, id, rev, usage)
	ev.Balances = slices.Clone(bs)
	ev.Err = errStr(err)
	c.Log.add(ev)
	return bs, err
}

// AttachPools implements rhp.Contractor.
func (c *RecContractor) AttachPools(as []proto4.PoolAttachment) error {
	c.Log.perturb(EvAttach)
	cp := slices.Clone(as)
	err := c.Inner.AttachPools(as)
	c.Log.add(Event{Kind: EvAttach, Attach: cp, Err: errStr(err)})
	return err
}

// DetachPools implements rhp.Contractor.
func (c *RecContractor) DetachPools(ds []proto4.PoolDetachment) error {
	c.Log.perturb(EvDetach)
	cp := slices.Clone(ds)
	err := c.Inner.DetachPools(ds)
	c.Log.add(Event{Kind: EvDetach, Detach: cp, Err: errStr(err)})
	return err
}

// RecSectors wraps an rhp.Sectors and records every call.
type RecSectors struct {
	Inner rhp.Sectors
	Log   *Log
}

var _ rhp.Sectors = (*RecSectors)(nil)

// HasSector implements rhp.Sectors.
func (s *RecSectors) HasSector(root types.Hash256) (bool, error) {
	s.Log.perturb(EvHasSector)
	ok, err := s.Inner.HasSector(root)
	s.Log.add(Event{Kind: EvHasSector, Root: root, Found: ok, Err: errStr(err)})
	return ok, err
}

// ReadSector implements rhp.Sectors.
func (s *RecSectors) ReadSector(root types.Hash256, offset, length uint64) ([]byte, []types.Hash256, error) {
	s.Log.perturb(EvReadSector)
	data, proof, err := s.Inner.ReadSector(root, offset, length)
	s.Log.add(Event{Kind: EvReadSector, Root: root, Offset: offset, Length: length, DataLen: len(data), Err: errStr(err)})
	return data, proof, err
}

// StoreSector implements rhp.Sectors.
func (s *RecSectors) StoreSector(root types.Hash256, data *[proto4.SectorSize]byte, subtrees []types.Hash256, expiration uint64) error {
	s.Log.perturb(EvStoreSector)
	err := s.Inner.StoreSector(root, data, subtrees, expiration)
	s.Log.add(Event{Kind: EvStoreSector, Root: root, Expiry: expiration, DataLen: len(data), Err: errStr(err)})
	return err
}

// RecSettings wraps an rhp.Settings and records every call.
type RecSettings struct {
	Inner rhp.Settings
	Log   *Log
}

// RHP4Settings implements rhp.Settings.
func (s *RecSettings) RHP4Settings() proto4.HostSettings {
	hs := s.Inner.RHP4Settings()
	s.Log.add(Event{Kind: EvSettings})
	return hs
}
