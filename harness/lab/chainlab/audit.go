package chainlab

import (
	"encoding/json"
	"errors"
	"fmt"

	"go.sia.tech/core/consensus"
	"go.sia.tech/core/types"
)

// A Finding is what an audit reports: a stable signature plus detail.
type Finding struct {
	Sig    string `json:"signature"`
	What   string `json:"what"`
	Detail any    `json:"detail,omitempty"`
}

// An Auditor drives one TestNode with batches of tree nodes and checks the C01
// oracle after every call.
type Auditor struct {
	T    *Tree
	N    *TestNode
	Deep bool // compare blocks/states of the whole best chain and full views

	Tip       *Node // model's tip
	Submitted map[types.BlockID]bool
	Calls     int
	Reorgs    int // tip changes that reverted at least one block
	MaxDepth  int
	Rollbacks int // failed reorgs (error after a sufficiently heavier invalid chain)
	Rejected  int
	Log       []CallRecord
	// OnReorgCalls collects OnReorg notifications when a listener is installed
	reorgNotes []types.ChainIndex
}

// A CallRecord is one submission, kept for replay files.
type CallRecord struct {
	Batch   []int  `json:"batch"` // node indices
	Kind    string `json:"kind"`  // AddBlocks / AddValidatedV2Blocks
	Err     string `json:"err,omitempty"`
	TipFrom int    `json:"tip_from"`
	TipTo   int    `json:"tip_to"`
}

// NewAuditor starts auditing n, which must be at genesis of t.
func NewAuditor(t *Tree, n *TestNode) *Auditor {
	return &Auditor{T: t, N: n, Tip: t.Root, Submitted: map[types.BlockID]bool{t.Root.ID: true}}
}

// expectation of one call, computed from the tree labels and what the node
// knew before the call
type expect struct {
	err    bool
	tip    *Node
	reason string
}

func (a *Auditor) predict(batch []*Node) expect {
	cm := a.N.CM
	known := map[types.BlockID]bool{}
	stateKnown := func(id types.BlockID) bool {
		if known[id] {
			return true
		}
		_, ok := cm.State(id)
		return ok
	}
	cur := a.Tip.ID
	for _, nd := range batch {
		if _, bs, _ := a.N.Store.Block(nd.ID); bs != nil {
			cur = nd.ID
			continue
		}
		if nd.Block.ParentID != cur {
			if !stateKnown(nd.Block.ParentID) {
				return expect{true, a.Tip, "unknown parent"}
			}
		}
		if nd.Future {
			return expect{true, a.Tip, "future block"}
		}
		if !nd.OrphanValid {
			return expect{true, a.Tip, "orphan-invalid block"}
		}
		known[nd.ID] = true
		cur = nd.ID
	}
	if len(batch) == 0 {
		return expect{false, a.Tip, "empty"}
	}
	last := batch[len(batch)-1]
	if last.State().SufficientlyHeavierThan(a.Tip.L.State) {
		if last.ChainValid {
			return expect{false, last, "heavier valid chain"}
		}
		return expect{true, a.Tip, "heavier chain contains an invalid block"}
	}
	return expect{false, a.Tip, "not sufficiently heavier"}
}

func idxs(ns []*Node) []int {
	out := make([]int, len(ns))
	for i, n := range ns {
		out[i] = n.Idx
	}
	return out
}

// Submit calls AddBlocks with the batch and audits the result. The returned
// findings are empty when the oracle is satisfied.
func (a *Auditor) Submit(batch []*Node) (err error, fs []Finding) {
	return a.submit("AddBlocks", batch, func() error { return a.N.CM.AddBlocks(Blocks(batch)) }, nil)
}

// ErrNoState is returned by SubmitValidated (without calling the manager) when
// the generator has no state for one of the blocks.
var ErrNoState = errors.New("chainlab: no state for pre-validated block")

// SubmitValidated calls AddValidatedV2Blocks the way the syncer does: only
// chain-valid v2 blocks with their pure states.
func (a *Auditor) SubmitValidated(batch []*Node) (err error, fs []Finding) {
	states := make([]consensus.State, len(batch))
	for i, n := range batch {
		// blocks above an invalid (header-checked only) block come with the
		// states they are valid relative to, as a checkpoint-synced peer has them
		g := a.T.GhostLedger(n)
		if g == nil {
			return ErrNoState, nil
		}
		states[i] = g.State
	}
	exp := a.predictValidated(batch)
	return a.submit("AddValidatedV2Blocks", batch, func() error { return a.N.CM.AddValidatedV2Blocks(Blocks(batch), states) }, &exp)
}

func (a *Auditor) predictValidated(batch []*Node) expect {
	if len(batch) == 0 {
		return expect{false, a.Tip, "empty"}
	}
	if _, ok := a.N.CM.State(batch[0].Block.ParentID); !ok {
		return expect{true, a.Tip, "unknown parent"}
	}
	for _, n := range batch {
		if n.Block.V2 == nil {
			return expect{true, a.Tip, "v1 block in pre-validated batch"}
		}
	}
	last := batch[len(batch)-1]
	if last.State().SufficientlyHeavierThan(a.Tip.L.State) {
		if last.ChainValid {
			return expect{false, last, "heavier valid chain"}
		}
		// the batch itself is taken on trust, but the stored blocks below it are
		// validated when the reorg applies them
		return expect{true, a.Tip, "heavier chain contains an invalid block below the pre-validated batch"}
	}
	return expect{false, a.Tip, "not sufficiently heavier"}
}

func (a *Auditor) submit(kind string, batch []*Node, call func() error, pre *expect) (err error, fs []Finding) {
	var exp expect
	if pre != nil {
		exp = *pre
	} else {
		exp = a.predict(batch)
	}
	var before View
	if a.Deep {
		before = a.N.ServedView(true)
	} else {
		before = a.N.ServedView(false)
	}
	oldTip := a.Tip
	a.Calls++
	if p := guard(func() { err = call() }); p != nil {
		fs = append(fs, Finding{"panic:" + kind, fmt.Sprintf("%s panicked: %v", kind, p), nil})
		a.Log = append(a.Log, CallRecord{idxs(batch), kind, fmt.Sprint("panic: ", p), oldTip.Idx, -1})
		return
	}
	for _, n := range batch {
		a.Submitted[n.ID] = true
	}
	rec := CallRecord{Batch: idxs(batch), Kind: kind, TipFrom: oldTip.Idx, TipTo: oldTip.Idx}
	if err != nil {
		rec.Err = err.Error()
		a.Rejected++
	}
	tip := a.N.CM.Tip()
	got := a.T.ByID[tip.ID]
	if got != nil {
		rec.TipTo = got.Idx
	}
	a.Log = append(a.Log, rec)

	// generic invariants first (independent of the prediction)
	if got == nil {
		fs = append(fs, Finding{"tip-unknown-block", "tip is not a generated block", tip.String()})
		return
	}
	if !got.ChainValid {
		fs = append(fs, Finding{"invalid-block-on-best-chain", fmt.Sprintf("tip %v (node %d) is on a chain with an invalid block: %s", tip, got.Idx, got.Err), nil})
		return
	}
	if got != oldTip {
		if !got.L.State.SufficientlyHeavierThan(oldTip.L.State) {
			fs = append(fs, Finding{"tip-moved-without-sufficient-work", fmt.Sprintf("tip moved from node %d to node %d which is not sufficiently heavier", oldTip.Idx, got.Idx), nil})
		}
		if got.L.State.TotalWork.Cmp(oldTip.L.State.TotalWork) < 0 {
			fs = append(fs, Finding{"tip-work-decreased", fmt.Sprintf("tip work decreased moving from node %d to node %d", oldTip.Idx, got.Idx), nil})
		}
		for x := got; x != nil; x = x.Parent {
			if !a.Submitted[x.ID] {
				fs = append(fs, Finding{"tip-on-unsubmitted-block", fmt.Sprintf("best chain contains node %d which was never submitted", x.Idx), nil})
				break
			}
		}
		if err != nil {
			fs = append(fs, Finding{"error-but-tip-moved", fmt.Sprintf("%s returned %q but the tip moved", kind, err), nil})
		}
	}
	a.Tip = got
	// prediction
	if exp.err != (err != nil) {
		sig := "unexpected-error"
		if exp.err {
			sig = "missing-error"
		}
		fs = append(fs, Finding{sig, fmt.Sprintf("%s: expected error=%v (%s), got %v", kind, exp.err, exp.reason, err), nil})
	}
	if exp.tip != got {
		sig := "tip-not-adopted"
		if exp.tip == oldTip {
			sig = "tip-adopted-unexpectedly"
		}
		fs = append(fs, Finding{sig, fmt.Sprintf("%s: expected tip node %d (%s), got node %d", kind, exp.tip.Idx, exp.reason, got.Idx), nil})
	}
	if got != oldTip {
		fork := CommonAncestor(got, oldTip)
		if d := int(oldTip.Height - fork.Height); d > 0 {
			a.Reorgs++
			if d > a.MaxDepth {
				a.MaxDepth = d
			}
		}
	}
	if exp.err && exp.reason == "heavier chain contains an invalid block" {
		a.Rollbacks++
	}
	// the chain itself
	fs = append(fs, a.AuditChain()...)
	// nothing may change when the tip did not move
	if got == oldTip {
		var after View
		if a.Deep {
			after = a.N.ServedView(true)
		} else {
			after = a.N.ServedView(false)
		}
		if k, x, y := before.Diff(after); k != "" {
			what := "view changed although the tip did not move"
			sig := "view-changed-without-tip-change"
			if err != nil {
				what = "view changed although the submission failed"
				sig = "view-changed-after-failed-submission"
			}
			fs = append(fs, Finding{sig + ":" + viewKeyClass(k), what, map[string]string{"key": k, "before": clip(x), "after": clip(y)}})
		}
	}
	return
}

func clip(s string) string {
	if len(s) > 200 {
		return s[:200] + "..."
	}
	return s
}

// viewKeyClass reduces a view key to its class (for stable signatures).
func viewKeyClass(k string) string {
	for i := 0; i < len(k); i++ {
		if k[i] == '/' {
			j := i + 1
			for j < len(k) && k[j] != '/' {
				j++
			}
			if k[:i] == "kv" || k[:i] == "served" {
				return k[:j]
			}
			return k[:i]
		}
	}
	return k
}

// AuditChain checks the node's best chain against the model tip: index,
// linkage, tip state, and (Deep) every block and state.
func (a *Auditor) AuditChain() (fs []Finding) {
	cm := a.N.CM
	tip := a.Tip
	ts := cm.TipState()
	if StateBytes(ts) != StateBytes(tip.L.State) {
		fs = append(fs, Finding{"tipstate-differs-from-replay", fmt.Sprintf("TipState at node %d differs from the pure replay of the best chain", tip.Idx), map[string]any{"got": describeState(ts), "want": describeState(tip.L.State), "differing_fields": StateDiff(ts, tip.L.State)}})
	}
	path := append([]*Node{a.T.Root}, tip.PathFromGenesis()...)
	for h, nd := range path {
		idx, ok := cm.BestIndex(uint64(h))
		if !ok || idx.ID != nd.ID || idx.Height != uint64(h) {
			fs = append(fs, Finding{"best-index-wrong", fmt.Sprintf("BestIndex(%d) = %v,%v; want node %d", h, idx, ok, nd.Idx), nil})
			return
		}
	}
	if idx, ok := cm.BestIndex(uint64(len(path))); ok {
		fs = append(fs, Finding{"best-index-beyond-tip", fmt.Sprintf("BestIndex(%d) = %v beyond the tip", len(path), idx), nil})
	}
	lo := 0
	if !a.Deep && len(path) > 3 {
		lo = len(path) - 3
	}
	for _, nd := range path[lo:] {
		b, ok := cm.Block(nd.ID)
		if !ok || b.ID() != nd.ID || (nd.Parent != nil && b.ParentID != nd.Parent.ID) {
			fs = append(fs, Finding{"best-chain-block-wrong", fmt.Sprintf("Block(node %d) missing or not parent-linked", nd.Idx), nil})
			return
		}
		if encode(types.V2Block(b)) != encode(types.V2Block(nd.Block)) {
			fs = append(fs, Finding{"best-chain-block-differs", fmt.Sprintf("Block(node %d) differs from the submitted block", nd.Idx), nil})
		}
		cs, ok := cm.State(nd.ID)
		if !ok || StateBytes(cs) != StateBytes(nd.L.State) {
			fs = append(fs, Finding{"best-chain-state-wrong", fmt.Sprintf("State(node %d) missing or differs from pure replay", nd.Idx), nil})
		}
	}
	return
}

func describeState(cs consensus.State) string {
	return fmt.Sprintf("index=%v leaves=%d work=%v sftax=%v att=%d", cs.Index, cs.Elements.NumLeaves, cs.TotalWork, cs.SiafundTaxRevenue, cs.Attestations)
}

// AuditElements compares the element buckets and the proofs the store serves
// with the pure ledger of the model tip (only meaningful up to the require
// height, after which the store stops tracking elements by design).
func (a *Auditor) AuditElements() (fs []Finding) {
	return AuditElementsAgainst(a.N, a.Tip.L)
}

// AuditElementsAgainst compares node n's element buckets with ledger l.
func AuditElementsAgainst(n *TestNode, l *Ledger) (fs []Finding) {
	if l.Height() > n.Env.Net.HardforkV2.RequireHeight {
		return nil
	}
	live := n.Shadow.Model.Live
	count := func(bucket string) int {
		c := 0
		for k := range live[bucket] {
			if len(k) == 32 {
				c++
			}
		}
		return c
	}
	if c := count("SiacoinElements"); c != len(l.SC) {
		fs = append(fs, Finding{"element-set-size:sc", fmt.Sprintf("store holds %d siacoin elements, pure ledger %d", c, len(l.SC)), nil})
	}
	if c := count("SiafundElements"); c != len(l.SF) {
		fs = append(fs, Finding{"element-set-size:sf", fmt.Sprintf("store holds %d siafund elements, pure ledger %d", c, len(l.SF)), nil})
	}
	if c := count("FileContracts"); c != len(l.FC) {
		fs = append(fs, Finding{"element-set-size:fc", fmt.Sprintf("store holds %d file contracts, pure ledger %d", c, len(l.FC)), nil})
	}
	// served elements (with proofs) must equal the ledger's
	var probe types.Transaction
	for id := range l.SC {
		probe.SiacoinInputs = append(probe.SiacoinInputs, types.SiacoinInput{ParentID: id})
	}
	for id := range l.SF {
		probe.SiafundInputs = append(probe.SiafundInputs, types.SiafundInput{ParentID: id})
	}
	for id := range l.FC {
		probe.FileContractRevisions = append(probe.FileContractRevisions, types.FileContractRevision{ParentID: id})
	}
	var sup consensus.V1TransactionSupplement
	if p := guard(func() { sup = n.Store.SupplementTipTransaction(probe) }); p != nil {
		return append(fs, Finding{"supplement-panic", fmt.Sprint("SupplementTipTransaction panicked: ", p), nil})
	}
	if l.Height() >= n.Env.Net.HardforkV2.RequireHeight {
		return fs // supplements are empty from here on
	}
	if len(sup.SiacoinInputs) != len(l.SC) || len(sup.SiafundInputs) != len(l.SF) || len(sup.RevisedFileContracts) != len(l.FC) {
		fs = append(fs, Finding{"served-elements-missing", fmt.Sprintf("store serves %d/%d/%d elements, ledger has %d/%d/%d", len(sup.SiacoinInputs), len(sup.SiafundInputs), len(sup.RevisedFileContracts), len(l.SC), len(l.SF), len(l.FC)), nil})
		return
	}
	for _, e := range sup.SiacoinInputs {
		if encode(e) != encode(l.SC[e.ID]) {
			fs = append(fs, Finding{"served-element-differs:sc", fmt.Sprintf("siacoin element %v differs from the pure ledger (value, maturity, leaf index or proof)", e.ID), nil})
			break
		}
	}
	for _, e := range sup.SiafundInputs {
		if encode(e) != encode(l.SF[e.ID]) {
			fs = append(fs, Finding{"served-element-differs:sf", fmt.Sprintf("siafund element %v differs from the pure ledger", e.ID), nil})
			break
		}
	}
	for _, e := range sup.RevisedFileContracts {
		if encode(e) != encode(l.FC[e.ID]) {
			fs = append(fs, Finding{"served-element-differs:fc", fmt.Sprintf("file contract %v differs from the pure ledger", e.ID), nil})
			break
		}
	}
	// expiration schedule as sets (order is C02's business)
	for h := uint64(0); h <= l.Height()+64; h++ {
		got := n.Store.ExpiringFileContractIDs(h)
		want := l.Expiry[h]
		if len(got) != len(want) {
			fs = append(fs, Finding{"expiry-schedule-differs", fmt.Sprintf("height %d: store lists %d expiring contracts, ledger %d", h, len(got), len(want)), nil})
			break
		}
		set := map[types.FileContractID]bool{}
		for _, id := range want {
			set[id] = true
		}
		for _, id := range got {
			if !set[id] {
				fs = append(fs, Finding{"expiry-schedule-differs", fmt.Sprintf("height %d: store lists %v which the ledger does not", h, id), nil})
				break
			}
		}
	}
	return
}

// StateDiff lists the JSON fields in which two states differ.
func StateDiff(a, b consensus.State) map[string][2]string {
	out := map[string][2]string{}
	var ma, mb map[string]json.RawMessage
	ja, _ := json.Marshal(a)
	jb, _ := json.Marshal(b)
	json.Unmarshal(ja, &ma)
	json.Unmarshal(jb, &mb)
	for k, v := range ma {
		if string(v) != string(mb[k]) {
			out[k] = [2]string{clip(string(v)), clip(string(mb[k]))}
		}
	}
	return out
}
