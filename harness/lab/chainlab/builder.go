package chainlab

import (
	"math/rand/v2"
	"sort"
	"time"

	"go.sia.tech/core/consensus"
	"go.sia.tech/core/types"
)

// A Builder assembles transactions on top of a ledger, validating each one
// with consensus.ValidateTransaction / ValidateV2Transaction against a MidState
// (the pure oracle) before accepting it. It is used both for block bodies and
// for pool submissions.
type Builder struct {
	L   *Ledger
	Env *Env
	Rng *rand.Rand

	ms      *consensus.MidState
	spentSC map[types.SiacoinOutputID]bool
	spentSF map[types.SiafundOutputID]bool
	usedFC  map[types.FileContractID]bool // revised or resolved by an accepted txn
	// ephemeral siacoin outputs created by accepted transactions
	Eph []types.SiacoinElement
	// EphFloor: ephemeral outputs below this index of Eph are not offered as
	// inputs (used to keep a submitted set self-contained)
	EphFloor int
	// v1 contracts created by accepted transactions (revisable later in the block)
	EphFC map[types.FileContractID]types.FileContract
	// window ends claimed by contracts formed/revised in this builder
	claimedEnds map[uint64]bool
	// SharedEnds lets order scenarios reuse window ends on purpose
	SharedEnds bool
	// FarEnds: every v1 contract gets a window end from a small set far above
	// any height the history reaches, so that expiration lists are shared (and
	// get permuted by removals and reverts) but never expire
	FarEnds bool

	Txns   []types.Transaction
	V2Txns []types.V2Transaction
	Kinds  []string // kind tag of every accepted transaction, in order
	Reject int      // generator attempts the oracle refused
}

// NewBuilder starts a builder on l.
func (l *Ledger) NewBuilder(rng *rand.Rand) *Builder {
	return &Builder{
		L: l, Env: l.Env, Rng: rng,
		ms:          consensus.NewMidState(l.State),
		spentSC:     map[types.SiacoinOutputID]bool{},
		spentSF:     map[types.SiafundOutputID]bool{},
		usedFC:      map[types.FileContractID]bool{},
		EphFC:       map[types.FileContractID]types.FileContract{},
		claimedEnds: map[uint64]bool{},
	}
}

// Child returns the height of the block being built.
func (b *Builder) Child() uint64 { return b.L.State.Index.Height + 1 }

// V1Allowed reports whether v1 transactions may appear at the child height.
func (b *Builder) V1Allowed() bool { return b.Child() < b.Env.Net.HardforkV2.RequireHeight }

// V2Allowed reports whether v2 transactions may appear at the child height.
func (b *Builder) V2Allowed() bool { return b.Child() >= b.Env.Net.HardforkV2.AllowHeight }

// TryV1 validates txn in context and accepts it if the oracle does.
func (b *Builder) TryV1(kind string, txn types.Transaction) bool {
	if len(b.V2Txns) > 0 {
		// a block applies all v1 transactions before any v2 transaction
		b.Reject++
		return false
	}
	ts := b.L.TxnSupplement(txn)
	ok := false
	func() {
		defer func() { recover() }()
		if err := consensus.ValidateTransaction(b.ms, txn, ts); err != nil {
			return
		}
		b.ms.ApplyTransaction(txn, ts)
		ok = true
	}()
	if !ok {
		b.Reject++
		return false
	}
	for _, in := range txn.SiacoinInputs {
		b.spentSC[in.ParentID] = true
	}
	for _, in := range txn.SiafundInputs {
		b.spentSF[in.ParentID] = true
	}
	for _, r := range txn.FileContractRevisions {
		b.usedFC[r.ParentID] = true
		if _, ok := b.EphFC[r.ParentID]; ok {
			b.EphFC[r.ParentID] = r.FileContract
		}
	}
	for _, sp := range txn.StorageProofs {
		b.usedFC[sp.ParentID] = true
	}
	for i, fc := range txn.FileContracts {
		b.EphFC[txn.FileContractID(i)] = fc
	}
	for i, sco := range txn.SiacoinOutputs {
		b.Eph = append(b.Eph, types.SiacoinElement{
			ID:            txn.SiacoinOutputID(i),
			StateElement:  types.StateElement{LeafIndex: types.UnassignedLeafIndex},
			SiacoinOutput: sco,
		})
	}
	b.Txns = append(b.Txns, txn)
	b.Kinds = append(b.Kinds, kind)
	return true
}

// TryV2 validates txn in context and accepts it if the oracle does.
func (b *Builder) TryV2(kind string, txn types.V2Transaction) bool {
	ok := false
	func() {
		defer func() { recover() }()
		if err := consensus.ValidateV2Transaction(b.ms, txn); err != nil {
			return
		}
		b.ms.ApplyV2Transaction(txn)
		ok = true
	}()
	if !ok {
		b.Reject++
		return false
	}
	for _, in := range txn.SiacoinInputs {
		b.spentSC[in.Parent.ID] = true
	}
	for _, in := range txn.SiafundInputs {
		b.spentSF[in.Parent.ID] = true
	}
	for _, r := range txn.FileContractRevisions {
		b.usedFC[r.Parent.ID] = true
	}
	for _, r := range txn.FileContractResolutions {
		b.usedFC[r.Parent.ID] = true
	}
	txid := txn.ID()
	for i := range txn.SiacoinOutputs {
		b.Eph = append(b.Eph, txn.EphemeralSiacoinOutput(i))
		_ = txid
	}
	b.V2Txns = append(b.V2Txns, txn)
	b.Kinds = append(b.Kinds, kind)
	return true
}

// confirmedSC returns the actor's mature unspent confirmed outputs, sorted.
func (b *Builder) confirmedSC(a *Actor) []types.SiacoinElement {
	var out []types.SiacoinElement
	for id, e := range b.L.SC {
		if e.SiacoinOutput.Address == a.Addr && e.MaturityHeight <= b.Child() && !b.spentSC[id] {
			out = append(out, e)
		}
	}
	sort.Slice(out, func(i, j int) bool { return lessID(out[i].ID[:], out[j].ID[:]) })
	return out
}

// ephSC returns the actor's unspent ephemeral outputs.
func (b *Builder) ephSC(a *Actor) []types.SiacoinElement {
	var out []types.SiacoinElement
	for i, e := range b.Eph {
		if i < b.EphFloor {
			continue
		}
		if e.SiacoinOutput.Address == a.Addr && !b.spentSC[e.ID] {
			out = append(out, e)
		}
	}
	return out
}

func lessID(a, b []byte) bool {
	for i := range a {
		if a[i] != b[i] {
			return a[i] < b[i]
		}
	}
	return false
}

// pickInput picks one spendable output of a (ephemeral with probability pEph
// when available).
func (b *Builder) pickInput(a *Actor, pEph float64) (types.SiacoinElement, bool) {
	eph := b.ephSC(a)
	conf := b.confirmedSC(a)
	if len(eph) > 0 && (len(conf) == 0 || b.Rng.Float64() < pEph) {
		return eph[b.Rng.IntN(len(eph))], true
	}
	if len(conf) > 0 {
		return conf[b.Rng.IntN(len(conf))], true
	}
	return types.SiacoinElement{}, false
}

// Seal assembles, commits to and mines the block.
func (b *Builder) Seal(ts time.Time, miner types.Address, v2 bool) types.Block {
	return b.Env.SealBlock(b.L.State, ts, miner, b.Txns, b.V2Txns, v2)
}

// SealBlock builds a block with the given body on parent state cs.
func (e *Env) SealBlock(cs consensus.State, ts time.Time, miner types.Address, txns []types.Transaction, v2txns []types.V2Transaction, v2 bool) types.Block {
	blk := types.Block{
		ParentID:     cs.Index.ID,
		Timestamp:    ts,
		Transactions: txns,
		MinerPayouts: []types.SiacoinOutput{{Address: miner, Value: cs.BlockReward()}},
	}
	for _, t := range txns {
		blk.MinerPayouts[0].Value = blk.MinerPayouts[0].Value.Add(t.TotalFees())
	}
	child := cs.Index.Height + 1
	if child >= e.Net.HardforkV2.RequireHeight || len(v2txns) > 0 {
		v2 = true
	}
	if child < e.Net.HardforkV2.AllowHeight {
		v2 = false
	}
	if v2 {
		blk.V2 = &types.V2BlockData{Height: child, Transactions: v2txns}
		for _, t := range v2txns {
			blk.MinerPayouts[0].Value = blk.MinerPayouts[0].Value.Add(t.MinerFee)
		}
		blk.V2.Commitment = cs.Commitment(miner, blk.Transactions, blk.V2Transactions())
	}
	MineNonce(cs, &blk)
	return blk
}

// MineNonce finds a nonce meeting the parent state's target.
func MineNonce(cs consensus.State, b *types.Block) {
	bh := b.Header()
	bh.Nonce = 0
	factor := cs.NonceFactor()
	target := cs.PoWTarget()
	for bh.ID().CmpWork(target) < 0 {
		bh.Nonce += factor
	}
	b.Nonce = bh.Nonce
}
