package chainlab

import (
	"math/rand/v2"

	"go.sia.tech/core/types"
)

// PoolBuilder returns a builder on l that has already accepted the given
// pooled transactions, so that transactions built next are valid on top of the
// pool. ok is false if the oracle refuses one of the pooled transactions (the
// pool is then not a valid continuation of the tip — C05's business).
func (l *Ledger) PoolBuilder(rng *rand.Rand, v1 []types.Transaction, v2 []types.V2Transaction) (b *Builder, ok bool) {
	b = l.NewBuilder(rng)
	ok = true
	for _, t := range v1 {
		if !b.TryV1("pooled", deepCopyTxn(t)) {
			ok = false
		}
	}
	for _, t := range v2 {
		if !b.TryV2("pooled", t.DeepCopy()) {
			ok = false
		}
	}
	return
}

// TakeNew returns the transactions accepted since the marks and advances them.
func (b *Builder) TakeNew(m1, m2 *int) ([]types.Transaction, []types.V2Transaction) {
	v1 := append([]types.Transaction(nil), b.Txns[*m1:]...)
	v2 := make([]types.V2Transaction, 0, len(b.V2Txns)-*m2)
	for _, t := range b.V2Txns[*m2:] {
		v2 = append(v2, t.DeepCopy())
	}
	*m1, *m2 = len(b.Txns), len(b.V2Txns)
	return v1, v2
}

// EncodeV1 / EncodeV2 give canonical byte images used for aliasing checks.
func EncodeV1(t types.Transaction) string { return encode(t) }

// EncodeV2 encodes a v2 transaction including proofs and signatures.
func EncodeV2(t types.V2Transaction) string { return encode(t) }

// DeepCopyTxn copies a v1 transaction through its encoding.
func DeepCopyTxn(t types.Transaction) types.Transaction { return deepCopyTxn(t) }

// EncodeContract encodes a v2 contract.
func EncodeContract(fc types.V2FileContract) string { return encode(fc) }
