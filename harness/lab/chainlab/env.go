// Package chainlab generates fork trees, blocks and transactions without
// calling coreutils: every generated block is labelled valid or invalid by
// go.sia.tech/core/consensus alone, and every tree node carries a pure ledger
// (all unspent elements with current Merkle proofs) derived from consensus
// ApplyUpdates only. The node under test is then audited against it.
package chainlab

import (
	"fmt"
	"math/big"
	"math/rand/v2"
	"sync"
	"time"

	"go.sia.tech/core/consensus"
	"go.sia.tech/core/types"
	"go.sia.tech/coreutils/chain"
)

// An Actor is a key pair that takes part in generated transactions.
type Actor struct {
	Name string
	SK   types.PrivateKey
	PK   types.PublicKey
	UC   types.UnlockConditions
	Addr types.Address
}

// Policy returns the v2 spend policy of the actor's address.
func (a *Actor) Policy() types.SpendPolicy {
	return types.SpendPolicy{Type: types.PolicyTypeUnlockConditions(a.UC)}
}

// An Env is a network plus its actors.
type Env struct {
	Regime  string
	Net     *consensus.Network
	Genesis types.Block
	Actors  []*Actor
	ByName  map[string]*Actor
	ByAddr  map[types.Address]*Actor

	leafMu sync.Mutex
	ends   map[uint64]bool // window ends claimed by any v1 contract of this env (all forks, pool included)
	leaves map[types.Hash256][64]byte
	files  map[types.Hash256]File
}

// Actor names.
const (
	Miner  = "miner"
	Alice  = "alice"
	Bob    = "bob"
	Renter = "renter"
	Host   = "host"
	Wallet = "wallet"
)

func newActor(name string, seed uint64) *Actor {
	var s [32]byte
	copy(s[:], fmt.Sprintf("verif-actor-%s-%d", name, seed))
	sk := types.NewPrivateKeyFromSeed(s[:])
	pk := sk.PublicKey()
	uc := types.StandardUnlockConditions(pk)
	return &Actor{Name: name, SK: sk, PK: pk, UC: uc, Addr: uc.UnlockHash()}
}

// Regime parameters.
type Params struct {
	Regime        string
	Allow         uint64
	Require       uint64
	FinalCut      uint64
	MaturityDelay uint64
	KeySeed       uint64
	// FoundationIsWallet re-points the foundation subsidy at the wallet actor.
	FoundationActor string
	// HiDiff starts the network at a per-block difficulty of 2^10 with a matching
	// hashrate estimate, so that "sufficiently heavier" (a fifth of the tip's
	// difficulty) is a non-zero margin and forks of equal length with different
	// timestamps are near ties.
	HiDiff bool `json:",omitempty"`
	// OakHeight moves the Oak (and ASIC, Foundation) hardfork away from height
	// 1, so that chains cross the change of the difficulty algorithm; 0 = 1.
	OakHeight uint64 `json:",omitempty"`
}

// RandomParams draws hardfork heights for a regime.
func RandomParams(regime string, rng *rand.Rand) Params {
	p := Params{Regime: regime, MaturityDelay: uint64(2 + rng.IntN(2)), KeySeed: rng.Uint64(), FoundationActor: Wallet}
	switch regime {
	case "v1only":
		p.Allow, p.Require, p.FinalCut = 10000, 10010, 10020
	case "mix":
		p.Allow = uint64(6 + rng.IntN(7))
		p.Require = p.Allow + uint64(3+rng.IntN(6))
		p.FinalCut = p.Require + uint64(rng.IntN(4))
	case "v2only":
		p.Allow, p.Require, p.FinalCut = 1, 1, 1
	default:
		panic("unknown regime " + regime)
	}
	return p
}

// NewEnv builds a small test network the way testutil.Network does, with
// hardfork heights from p, and a genesis block paying the actors.
func NewEnv(p Params) *Env {
	n, _ := chain.TestnetZen()
	n.Name = "verif-" + p.Regime
	n.InitialTarget = types.BlockID{0xFF}
	// whole-second timestamps survive the store's encoding; a long interval
	// makes the Foundation subsidy recur every few blocks (blocksPerMonth = 6)
	n.BlockInterval = 5 * 24 * time.Hour
	n.HardforkOak.GenesisTimestamp = time.Date(2015, 1, 1, 0, 0, 0, 0, time.UTC)
	n.MaturityDelay = p.MaturityDelay
	n.HardforkDevAddr.Height = 1
	n.HardforkTax.Height = 1
	n.HardforkStorageProof.Height = 1
	n.HardforkOak.Height = 1
	n.HardforkASIC.Height = 1
	n.HardforkFoundation.Height = 1
	n.HardforkV2.AllowHeight = p.Allow
	n.HardforkV2.RequireHeight = p.Require
	n.HardforkV2.FinalCutHeight = p.FinalCut

	if p.OakHeight > 1 {
		n.HardforkOak.Height = p.OakHeight
		n.HardforkOak.FixHeight = p.OakHeight + 3
		n.HardforkASIC.Height = p.OakHeight + 2
		n.HardforkFoundation.Height = p.OakHeight + 2
	}
	if p.HiDiff {
		work := func(w int64) (id types.BlockID) {
			t := new(big.Int).Div(new(big.Int).Lsh(big.NewInt(1), 256), big.NewInt(w))
			t.FillBytes(id[:])
			return
		}
		n.InitialTarget = work(1 << 10)
		n.HardforkASIC.OakTime = 200 * n.BlockInterval
		n.HardforkASIC.OakTarget = work(200 << 10)
	}

	env := &Env{Regime: p.Regime, Net: n, ByName: map[string]*Actor{}, ByAddr: map[types.Address]*Actor{}}
	for _, name := range []string{Miner, Alice, Bob, Renter, Host, Wallet} {
		a := newActor(name, p.KeySeed)
		env.Actors = append(env.Actors, a)
		env.ByName[name] = a
		env.ByAddr[a.Addr] = a
	}
	if fa := env.ByName[p.FoundationActor]; fa != nil {
		n.HardforkFoundation.PrimaryAddress = fa.Addr
		n.HardforkFoundation.FailsafeAddress = fa.Addr
	}
	var txn types.Transaction
	for _, a := range env.Actors {
		if a.Name == Miner {
			continue
		}
		// several outputs per actor so that independent spends are possible
		for i := 0; i < 4; i++ {
			txn.SiacoinOutputs = append(txn.SiacoinOutputs, types.SiacoinOutput{Address: a.Addr, Value: types.Siacoins(uint32(1000 * (i + 1)))})
		}
	}
	txn.SiafundOutputs = []types.SiafundOutput{
		{Address: env.ByName[Alice].Addr, Value: 4000},
		{Address: env.ByName[Bob].Addr, Value: 3000},
		{Address: env.ByName[Wallet].Addr, Value: 3000},
	}
	env.Genesis = types.Block{
		Timestamp:    n.HardforkOak.GenesisTimestamp,
		Transactions: []types.Transaction{txn},
	}
	return env
}

// A is shorthand for env.ByName[name].
func (e *Env) A(name string) *Actor { return e.ByName[name] }

// TargetTimestamp mirrors the store's AncestorTimestamp convention for these
// networks (Oak height 1): blocks whose parent is at height <= 1 use the
// genesis timestamp, all others the zero time.
func (e *Env) TargetTimestamp(parent consensus.State) time.Time {
	if parent.Index.Height > e.Net.HardforkOak.Height {
		return time.Time{}
	}
	return e.Genesis.Timestamp
}

var zeroTime time.Time

// leaf table: the data behind every generated contract root
func (e *Env) rememberLeaf(root types.Hash256, leaf [64]byte) {
	e.leafMu.Lock()
	if e.leaves == nil {
		e.leaves = map[types.Hash256][64]byte{}
	}
	e.leaves[root] = leaf
	e.leafMu.Unlock()
}

func (e *Env) leafFor(root types.Hash256) ([64]byte, bool) {
	e.leafMu.Lock()
	defer e.leafMu.Unlock()
	l, ok := e.leaves[root]
	return l, ok
}

// claimEnd returns the smallest window end >= min that no v1 contract of this
// env (on any fork, or pooled) has used: expiration lists stay singletons on
// every chain, which keeps workloads independent of the list-order convention.
func (e *Env) claimEnd(min uint64) uint64 {
	e.leafMu.Lock()
	defer e.leafMu.Unlock()
	if e.ends == nil {
		e.ends = map[uint64]bool{}
	}
	for w := min; ; w++ {
		if !e.ends[w] {
			e.ends[w] = true
			return w
		}
	}
}
