package chainlab

import "go.sia.tech/core/types"

// Touched describes the element ids a block spends/resolves and creates.
type Touched struct {
	Spent   map[types.Hash256]bool
	Created map[types.Hash256]bool
}

// BlockTouched computes the ids from the block's contents only.
func BlockTouched(b types.Block) Touched {
	t := Touched{Spent: map[types.Hash256]bool{}, Created: map[types.Hash256]bool{}}
	for _, txn := range b.Transactions {
		for _, in := range txn.SiacoinInputs {
			t.Spent[types.Hash256(in.ParentID)] = true
		}
		for _, in := range txn.SiafundInputs {
			t.Spent[types.Hash256(in.ParentID)] = true
		}
		for _, r := range txn.FileContractRevisions {
			t.Spent[types.Hash256(r.ParentID)] = true
		}
		for _, sp := range txn.StorageProofs {
			t.Spent[types.Hash256(sp.ParentID)] = true
		}
		for i := range txn.SiacoinOutputs {
			t.Created[types.Hash256(txn.SiacoinOutputID(i))] = true
		}
		for i := range txn.SiafundOutputs {
			t.Created[types.Hash256(txn.SiafundOutputID(i))] = true
		}
		for i := range txn.FileContracts {
			t.Created[types.Hash256(txn.FileContractID(i))] = true
		}
	}
	for _, txn := range b.V2Transactions() {
		txid := txn.ID()
		for _, in := range txn.SiacoinInputs {
			t.Spent[types.Hash256(in.Parent.ID)] = true
		}
		for _, in := range txn.SiafundInputs {
			t.Spent[types.Hash256(in.Parent.ID)] = true
		}
		for _, r := range txn.FileContractRevisions {
			t.Spent[types.Hash256(r.Parent.ID)] = true
		}
		for _, r := range txn.FileContractResolutions {
			t.Spent[types.Hash256(r.Parent.ID)] = true
			if _, ok := r.Resolution.(*types.V2FileContractRenewal); ok {
				t.Created[types.Hash256(r.Parent.ID.V2RenewalID())] = true
			}
		}
		for i := range txn.SiacoinOutputs {
			t.Created[types.Hash256(txn.SiacoinOutputID(txid, i))] = true
		}
		for i := range txn.SiafundOutputs {
			t.Created[types.Hash256(txn.SiafundOutputID(txid, i))] = true
		}
		for i := range txn.FileContracts {
			t.Created[types.Hash256(txn.V2FileContractID(txid, i))] = true
		}
	}
	return t
}

// V1Parents returns the element ids a v1 transaction depends on.
func V1Parents(txn types.Transaction) []types.Hash256 {
	var out []types.Hash256
	for _, in := range txn.SiacoinInputs {
		out = append(out, types.Hash256(in.ParentID))
	}
	for _, in := range txn.SiafundInputs {
		out = append(out, types.Hash256(in.ParentID))
	}
	for _, r := range txn.FileContractRevisions {
		out = append(out, types.Hash256(r.ParentID))
	}
	for _, sp := range txn.StorageProofs {
		out = append(out, types.Hash256(sp.ParentID))
	}
	return out
}

// V2Parents returns the element ids a v2 transaction depends on.
func V2Parents(txn types.V2Transaction) []types.Hash256 {
	var out []types.Hash256
	for _, in := range txn.SiacoinInputs {
		out = append(out, types.Hash256(in.Parent.ID))
	}
	for _, in := range txn.SiafundInputs {
		out = append(out, types.Hash256(in.Parent.ID))
	}
	for _, r := range txn.FileContractRevisions {
		out = append(out, types.Hash256(r.Parent.ID))
	}
	for _, r := range txn.FileContractResolutions {
		out = append(out, types.Hash256(r.Parent.ID))
	}
	return out
}

// V2ProofIndexes returns the ids of the chain index elements (= block ids) that
// the transaction's storage proofs refer to: elements it consumes without
// spending them. If such a block is reverted the transaction becomes invalid.
func V2ProofIndexes(txn types.V2Transaction) []types.Hash256 {
	var out []types.Hash256
	for _, r := range txn.FileContractResolutions {
		if sp, ok := r.Resolution.(*types.V2StorageProof); ok {
			out = append(out, types.Hash256(sp.ProofIndex.ID))
		}
	}
	return out
}

// V1Creates / V2Creates return the element ids a transaction creates.
func V1Creates(txn types.Transaction) []types.Hash256 {
	var out []types.Hash256
	for i := range txn.SiacoinOutputs {
		out = append(out, types.Hash256(txn.SiacoinOutputID(i)))
	}
	for i := range txn.SiafundOutputs {
		out = append(out, types.Hash256(txn.SiafundOutputID(i)))
	}
	for i := range txn.FileContracts {
		out = append(out, types.Hash256(txn.FileContractID(i)))
	}
	return out
}

// V2Creates returns the element ids a v2 transaction creates.
func V2Creates(txn types.V2Transaction) []types.Hash256 {
	var out []types.Hash256
	txid := txn.ID()
	for i := range txn.SiacoinOutputs {
		out = append(out, types.Hash256(txn.SiacoinOutputID(txid, i)))
	}
	for i := range txn.SiafundOutputs {
		out = append(out, types.Hash256(txn.SiafundOutputID(txid, i)))
	}
	for i := range txn.FileContracts {
		out = append(out, types.Hash256(txn.V2FileContractID(txid, i)))
	}
	return out
}

// RebaseV2 returns a copy of txn whose parent elements carry the ledger's
// current leaf indices and proofs. ok is false if a non-ephemeral parent is not
// an unspent element of l. Parents that are not in the ledger but are listed
// in ephemeral (created by pooled transactions) are marked ephemeral.
func (l *Ledger) RebaseV2(txn types.V2Transaction, ephemeral map[types.Hash256]bool) (types.V2Transaction, bool) {
	c := txn.DeepCopy()
	ok := true
	fix := func(id types.Hash256, se *types.StateElement, find func() (types.StateElement, bool)) {
		if e, found := find(); found {
			*se = e.Copy()
			return
		}
		if ephemeral[id] {
			*se = types.StateElement{LeafIndex: types.UnassignedLeafIndex}
			return
		}
		ok = false
	}
	for i := range c.SiacoinInputs {
		p := &c.SiacoinInputs[i].Parent
		fix(types.Hash256(p.ID), &p.StateElement, func() (types.StateElement, bool) {
			e, f := l.SC[p.ID]
			if f {
				p.MaturityHeight = e.MaturityHeight
			}
			return e.StateElement, f
		})
	}
	for i := range c.SiafundInputs {
		p := &c.SiafundInputs[i].Parent
		fix(types.Hash256(p.ID), &p.StateElement, func() (types.StateElement, bool) { e, f := l.SF[p.ID]; return e.StateElement, f })
	}
	for i := range c.FileContractRevisions {
		p := &c.FileContractRevisions[i].Parent
		fix(types.Hash256(p.ID), &p.StateElement, func() (types.StateElement, bool) {
			e, f := l.V2FC[p.ID]
			if f && encode(e.V2FileContract) != encode(p.V2FileContract) {
				return e.StateElement, false
			}
			return e.StateElement, f
		})
	}
	for i := range c.FileContractResolutions {
		p := &c.FileContractResolutions[i].Parent
		fix(types.Hash256(p.ID), &p.StateElement, func() (types.StateElement, bool) {
			e, f := l.V2FC[p.ID]
			if f && encode(e.V2FileContract) != encode(p.V2FileContract) {
				return e.StateElement, false
			}
			return e.StateElement, f
		})
		if sp, isSP := c.FileContractResolutions[i].Resolution.(*types.V2StorageProof); isSP {
			h := sp.ProofIndex.ChainIndex.Height
			if h < uint64(len(l.CI)) && l.CI[h].ID == sp.ProofIndex.ID {
				cp := *sp
				cp.ProofIndex = l.CI[h].Copy()
				c.FileContractResolutions[i].Resolution = &cp
			} else {
				ok = false
			}
		}
	}
	return c, ok
}

// NodeTouched combines the ids visible in the block's contents with the exact
// ledger difference between the node and its parent, so that derived outputs
// (miner and foundation payouts, contract payouts, siafund claims, renewals)
// are included.
func NodeTouched(n *Node) Touched {
	t := BlockTouched(n.Block)
	// every block creates its chain index element (the element a v2 storage
	// proof's ProofIndex refers to); its id is the block id
	t.Created[types.Hash256(n.ID)] = true
	if n.L == nil || n.Parent == nil || n.Parent.L == nil {
		return t
	}
	p := n.Parent.L
	for id := range n.L.SC {
		if _, ok := p.SC[id]; !ok {
			t.Created[types.Hash256(id)] = true
		}
	}
	for id := range p.SC {
		if _, ok := n.L.SC[id]; !ok {
			t.Spent[types.Hash256(id)] = true
		}
	}
	for id := range n.L.SF {
		if _, ok := p.SF[id]; !ok {
			t.Created[types.Hash256(id)] = true
		}
	}
	for id := range p.SF {
		if _, ok := n.L.SF[id]; !ok {
			t.Spent[types.Hash256(id)] = true
		}
	}
	for id, e := range n.L.FC {
		if pe, ok := p.FC[id]; !ok {
			t.Created[types.Hash256(id)] = true
		} else if encode(pe.FileContract) != encode(e.FileContract) {
			t.Spent[types.Hash256(id)] = true // revised
		}
	}
	for id := range p.FC {
		if _, ok := n.L.FC[id]; !ok {
			t.Spent[types.Hash256(id)] = true
		}
	}
	for id, e := range n.L.V2FC {
		if pe, ok := p.V2FC[id]; !ok {
			t.Created[types.Hash256(id)] = true
		} else if encode(pe.V2FileContract) != encode(e.V2FileContract) {
			t.Spent[types.Hash256(id)] = true
		}
	}
	for id := range p.V2FC {
		if _, ok := n.L.V2FC[id]; !ok {
			t.Spent[types.Hash256(id)] = true
		}
	}
	return t
}
