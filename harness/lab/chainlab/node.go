package chainlab

import (
	"bytes"
	"encoding/hex"
	"errors"
	"fmt"
	"iter"
	"sort"

	"go.sia.tech/core/consensus"
	"go.sia.tech/core/types"
	"go.sia.tech/coreutils/chain"
	"verif/harness/ref"
)

// A ShadowDB wraps a chain.DB and mirrors every mutation into the KV reference
// model, so that dumps and durable-image snapshots do not depend on the
// backend's own Iter. OnFlush, if set, is called with the durable image after
// every Flush the backend receives.
type ShadowDB struct {
	Inner   chain.DB
	Model   *ref.KV
	OnFlush func(durable map[string]map[string]string)
	Flushes int
	Puts    int
	// StopAtFlush > 0: the StopAtFlush-th Flush panics with ErrInjectedStop
	// before anything reaches the backend (a process stop before that commit).
	StopAtFlush int
}

// ErrInjectedStop is the panic value of an injected stop.
var ErrInjectedStop = errors.New("chainlab: injected stop before commit")

// NewShadowDB wraps inner.
func NewShadowDB(inner chain.DB) *ShadowDB { return &ShadowDB{Inner: inner, Model: ref.NewKV()} }

type shadowBucket struct {
	name string
	b    chain.DBBucket
	s    *ShadowDB
}

func (b shadowBucket) Get(key []byte) []byte { return b.b.Get(key) }
func (b shadowBucket) Put(key, value []byte) error {
	err := b.b.Put(key, value)
	if err == nil {
		b.s.Puts++
		b.s.Model.Put(b.name, string(key), string(value))
	}
	return err
}
func (b shadowBucket) Delete(key []byte) error {
	err := b.b.Delete(key)
	if err == nil {
		b.s.Model.Delete(b.name, string(key))
	}
	return err
}
func (b shadowBucket) Iter() iter.Seq2[[]byte, []byte] { return b.b.Iter() }

// Bucket implements chain.DB.
func (s *ShadowDB) Bucket(name []byte) chain.DBBucket {
	b := s.Inner.Bucket(name)
	if b == nil {
		return nil
	}
	return shadowBucket{string(name), b, s}
}

// CreateBucket implements chain.DB.
func (s *ShadowDB) CreateBucket(name []byte) (chain.DBBucket, error) {
	b, err := s.Inner.CreateBucket(name)
	if err != nil {
		return nil, err
	}
	s.Model.CreateBucket(string(name))
	return shadowBucket{string(name), b, s}, nil
}

// Flush implements chain.DB.
func (s *ShadowDB) Flush() error {
	if s.StopAtFlush > 0 && s.Flushes+1 == s.StopAtFlush {
		panic(ErrInjectedStop)
	}
	err := s.Inner.Flush()
	if err == nil {
		s.Model.Flush()
		s.Flushes++
		if s.OnFlush != nil {
			s.OnFlush(s.Model.Durable)
		}
	}
	return err
}

// Cancel implements chain.DB.
func (s *ShadowDB) Cancel() {
	s.Inner.Cancel()
	s.Model.Cancel()
}

// DiffDurable cancels the backend's pending writes (what a stop before the
// next commit leaves behind on a database that lives in the process's memory)
// and compares everything the backend then serves with the durable image of
// the model, i.e. with what was committed. A difference means committed data
// was changed without a commit.
func (s *ShadowDB) DiffDurable() string {
	s.Inner.Cancel()
	s.Model.Cancel()
	names := make([]string, 0, len(s.Model.Durable))
	for n := range s.Model.Durable {
		names = append(names, n)
	}
	sort.Strings(names)
	for _, n := range names {
		b := s.Inner.Bucket([]byte(n))
		if b == nil {
			return fmt.Sprintf("bucket %q is gone", n)
		}
		want := s.Model.Durable[n]
		seen := 0
		for k, v := range b.Iter() {
			w, ok := want[string(k)]
			if !ok {
				return fmt.Sprintf("bucket %q holds key %x that was never committed", n, k)
			}
			if w != string(v) {
				return fmt.Sprintf("bucket %q key %x: backend serves %x, committed was %x", n, k, v, w)
			}
			seen++
		}
		if seen != len(want) {
			return fmt.Sprintf("bucket %q serves %d keys, %d were committed", n, seen, len(want))
		}
		for k, w := range want {
			if g := b.Get([]byte(k)); string(g) != w || (g == nil) {
				return fmt.Sprintf("bucket %q key %x: Get serves %x, committed was %x", n, k, g, w)
			}
		}
	}
	return ""
}

// LoadImage fills a fresh MemDB with a durable image.
func LoadImage(img map[string]map[string]string) *chain.MemDB {
	db := chain.NewMemDB()
	names := make([]string, 0, len(img))
	for n := range img {
		names = append(names, n)
	}
	sort.Strings(names)
	for _, n := range names {
		b, err := db.CreateBucket([]byte(n))
		if err != nil {
			panic(err)
		}
		for k, v := range img[n] {
			b.Put([]byte(k), []byte(v))
		}
	}
	db.Flush()
	return db
}

// CloneImage deep-copies a durable image.
func CloneImage(img map[string]map[string]string) map[string]map[string]string {
	out := make(map[string]map[string]string, len(img))
	for b, kv := range img {
		c := make(map[string]string, len(kv))
		for k, v := range kv {
			c[k] = v
		}
		out[b] = c
	}
	return out
}

// A TestNode is a chain.Manager under test on a shadowed database.
type TestNode struct {
	Env    *Env
	Shadow *ShadowDB
	Store  *chain.DBStore
	CM     *chain.Manager
}

// NewTestNode opens a node on db (nil = fresh MemDB).
func NewTestNode(env *Env, db chain.DB, opts ...chain.ManagerOption) (*TestNode, error) {
	if db == nil {
		db = chain.NewMemDB()
	}
	sh, ok := db.(*ShadowDB)
	if !ok {
		sh = NewShadowDB(db)
	}
	store, tip, err := chain.NewDBStore(sh, env.Net, env.Genesis, nil)
	if err != nil {
		return nil, err
	}
	return &TestNode{Env: env, Shadow: sh, Store: store, CM: chain.NewManager(store, tip, opts...)}, nil
}

// NewTestNodeOnImage opens a node on a copy of a durable image; the shadow
// model is primed with the image.
func NewTestNodeOnImage(env *Env, img map[string]map[string]string, opts ...chain.ManagerOption) (*TestNode, error) {
	sh := NewShadowDB(LoadImage(img))
	sh.Model.Durable = CloneImage(img)
	sh.Model.Live = CloneImage(img)
	return NewTestNode(env, sh, opts...)
}

func encode(v types.EncoderTo) string {
	var buf bytes.Buffer
	e := types.NewEncoder(&buf)
	v.EncodeTo(e)
	e.Flush()
	return hex.EncodeToString(buf.Bytes())
}

// StateBytes is the canonical encoding of a consensus state.
func StateBytes(cs consensus.State) string { return encode(cs) }

// A View is everything a node serves about its best chain, as canonical
// strings keyed by a path; two nodes on the same best chain must have equal
// views (C02), and a failed submission must leave the view unchanged (C01).
type View map[string]string

// elementBuckets are the best-chain-dependent element buckets.
var elementBuckets = []string{"SiacoinElements", "SiafundElements", "FileContracts"}

// ServedView collects the view. withBlocks includes every best-chain block and
// its stored supplement (slower).
func (n *TestNode) ServedView(withBlocks bool) View {
	v := View{}
	ts := n.CM.TipState()
	v["tipstate"] = StateBytes(ts)
	for h := uint64(0); h <= ts.Index.Height+2; h++ {
		idx, ok := n.Store.BestIndex(h)
		if !ok {
			v[fmt.Sprintf("index/%06d", h)] = "-"
			continue
		}
		v[fmt.Sprintf("index/%06d", h)] = idx.ID.String()
		if withBlocks {
			b, bs, ok := n.Store.Block(idx.ID)
			if !ok {
				v[fmt.Sprintf("block/%06d", h)] = "-"
			} else {
				s := encode(types.V2Block(b))
				if bs != nil {
					s += "|" + encode(*bs)
				} else {
					s += "|nil"
				}
				v[fmt.Sprintf("block/%06d", h)] = s
			}
			if cs, ok := n.Store.State(idx.ID); ok {
				v[fmt.Sprintf("state/%06d", h)] = StateBytes(cs)
			} else {
				v[fmt.Sprintf("state/%06d", h)] = "-"
			}
		}
	}
	for _, bn := range elementBuckets {
		for k, val := range n.Shadow.Model.Live[bn] {
			if len(k) == 8 && len(val) == 0 {
				continue // an empty expiration list serves the same as an absent one
			}
			v["kv/"+bn+"/"+hex.EncodeToString([]byte(k))] = hex.EncodeToString([]byte(val))
		}
	}
	// served supplements (elements with proofs) for every live element
	if ts.Index.Height < n.Env.Net.HardforkV2.RequireHeight {
		var probe types.Transaction
		for k := range n.Shadow.Model.Live["SiacoinElements"] {
			if len(k) == 32 {
				probe.SiacoinInputs = append(probe.SiacoinInputs, types.SiacoinInput{ParentID: types.SiacoinOutputID([]byte(k))})
			}
		}
		for k := range n.Shadow.Model.Live["SiafundElements"] {
			if len(k) == 32 {
				probe.SiafundInputs = append(probe.SiafundInputs, types.SiafundInput{ParentID: types.SiafundOutputID([]byte(k))})
			}
		}
		for k := range n.Shadow.Model.Live["FileContracts"] {
			if len(k) == 32 {
				probe.FileContractRevisions = append(probe.FileContractRevisions, types.FileContractRevision{ParentID: types.FileContractID([]byte(k))})
				probe.StorageProofs = append(probe.StorageProofs, types.StorageProof{ParentID: types.FileContractID([]byte(k))})
			}
		}
		var sup consensus.V1TransactionSupplement
		if p := guard(func() { sup = n.Store.SupplementTipTransaction(probe) }); p != nil {
			v["supplement/panic"] = fmt.Sprint(p)
		}
		for _, e := range sup.SiacoinInputs {
			v["served/sc/"+e.ID.String()] = encode(e)
		}
		for _, e := range sup.SiafundInputs {
			v["served/sf/"+e.ID.String()] = encode(e)
		}
		for _, e := range sup.RevisedFileContracts {
			v["served/fc/"+e.ID.String()] = encode(e)
		}
		for _, e := range sup.StorageProofs {
			v["served/sp/"+e.FileContract.ID.String()] = e.WindowID.String()
		}
		// the block supplement for an empty child block: expiring contracts in order
		var bsup consensus.V1BlockSupplement
		if p := guard(func() { bsup = n.Store.SupplementTipBlock(types.Block{}) }); p != nil {
			v["blocksupplement/panic"] = fmt.Sprint(p)
		}
		for i, e := range bsup.ExpiringFileContracts {
			v[fmt.Sprintf("served/expiring/%03d", i)] = encode(e)
		}
	}
	return v
}

func guard(fn func()) (p any) {
	defer func() { p = recover() }()
	fn()
	return nil
}

// Diff returns the first differing key of two views (sorted order), or "".
func (v View) Diff(w View) (key, a, b string) {
	keys := map[string]bool{}
	for k := range v {
		keys[k] = true
	}
	for k := range w {
		keys[k] = true
	}
	ks := make([]string, 0, len(keys))
	for k := range keys {
		ks = append(ks, k)
	}
	sort.Strings(ks)
	for _, k := range ks {
		x, okx := v[k]
		y, oky := w[k]
		if !okx {
			x = "(absent)"
		}
		if !oky {
			y = "(absent)"
		}
		if x != y {
			return k, x, y
		}
	}
	return "", "", ""
}

// PrimeShadow fills the shadow model from the backend's own iteration (used
// when a persistent backend is reopened; C17 is what checks that iteration).
func (s *ShadowDB) PrimeShadow(buckets []string) {
	for _, bn := range buckets {
		b := s.Inner.Bucket([]byte(bn))
		if b == nil {
			continue
		}
		s.Model.CreateBucket(bn)
		for k, v := range b.Iter() {
			s.Model.Put(bn, string(k), string(v))
		}
	}
	s.Model.Flush()
}

// StoreBuckets are the buckets the chain store uses.
var StoreBuckets = []string{"Version", "Network", "MainChain", "States", "Blocks", "FileContracts", "SiacoinElements", "SiafundElements", "Tree"}
