package chainlab

import (
	"bytes"
	"encoding/binary"

	"go.sia.tech/core/types"
)

// ---- helpers ---------------------------------------------------------------

func (b *Builder) randActor(except ...string) *Actor {
	for {
		a := b.Env.Actors[b.Rng.IntN(len(b.Env.Actors))]
		skip := false
		for _, x := range except {
			if a.Name == x {
				skip = true
			}
		}
		if !skip {
			return a
		}
	}
}

// splitValue splits v into n parts >= 1H (the last takes the remainder).
func (b *Builder) splitValue(v types.Currency, n int) []types.Currency {
	out := make([]types.Currency, 0, n)
	rest := v
	for i := 0; i < n-1; i++ {
		part := rest.Div64(uint64(2 + b.Rng.IntN(3)))
		if part.IsZero() {
			break
		}
		out = append(out, part)
		rest = rest.Sub(part)
	}
	if !rest.IsZero() {
		out = append(out, rest)
	}
	return out
}

func (b *Builder) signV1(txn *types.Transaction, parent types.Hash256, a *Actor, keyIndex uint64) {
	sig := types.TransactionSignature{
		ParentID:       parent,
		PublicKeyIndex: keyIndex,
		CoveredFields:  types.CoveredFields{WholeTransaction: true},
	}
	txn.Signatures = append(txn.Signatures, sig)
	i := len(txn.Signatures) - 1
	h := b.L.State.WholeSigHash(*txn, parent, keyIndex, 0, nil)
	s := a.SK.SignHash(h)
	txn.Signatures[i].Signature = s[:]
}

func (b *Builder) signV2Inputs(txn *types.V2Transaction) {
	h := b.L.State.InputSigHash(*txn)
	for i := range txn.SiacoinInputs {
		a := b.Env.ByAddr[txn.SiacoinInputs[i].Parent.SiacoinOutput.Address]
		if a == nil {
			continue
		}
		txn.SiacoinInputs[i].SatisfiedPolicy = types.SatisfiedPolicy{Policy: a.Policy(), Signatures: []types.Signature{a.SK.SignHash(h)}}
	}
	for i := range txn.SiafundInputs {
		a := b.Env.ByAddr[txn.SiafundInputs[i].Parent.SiafundOutput.Address]
		if a == nil {
			continue
		}
		txn.SiafundInputs[i].SatisfiedPolicy = types.SatisfiedPolicy{Policy: a.Policy(), Signatures: []types.Signature{a.SK.SignHash(h)}}
	}
}

// ResignV2 re-signs every input of txn against the builder's state.
func (b *Builder) ResignV2(txn *types.V2Transaction) { b.signV2Inputs(txn) }

// ResignV1 signs a v1 transaction again after its contents were changed.
func (b *Builder) ResignV1(txn *types.Transaction) {
	txn.Signatures = nil
	b.signV1Inputs(txn)
}

func (b *Builder) fee() types.Currency {
	return types.Siacoins(1).Div64(uint64(10 + b.Rng.IntN(90)))
}

// ---- v1 --------------------------------------------------------------------

// fundV1 adds one input of a covering at least need (plus a change output) to
// txn. It returns false if a cannot afford it.
func (b *Builder) fundV1(txn *types.Transaction, a *Actor, need types.Currency, pEph float64) bool {
	var sum types.Currency
	var ins []types.SiacoinElement
	for tries := 0; tries < 6 && sum.Cmp(need) < 0; tries++ {
		in, ok := b.pickInput(a, pEph)
		if !ok {
			return false
		}
		dup := false
		for _, e := range ins {
			if e.ID == in.ID {
				dup = true
			}
		}
		if dup {
			continue
		}
		ins = append(ins, in)
		sum = sum.Add(in.SiacoinOutput.Value)
	}
	if sum.Cmp(need) < 0 {
		return false
	}
	for _, in := range ins {
		txn.SiacoinInputs = append(txn.SiacoinInputs, types.SiacoinInput{ParentID: in.ID, UnlockConditions: a.UC})
	}
	if change := sum.Sub(need); !change.IsZero() {
		txn.SiacoinOutputs = append(txn.SiacoinOutputs, types.SiacoinOutput{Address: a.Addr, Value: change})
	}
	return true
}

func (b *Builder) signV1Inputs(txn *types.Transaction) {
	for _, in := range txn.SiacoinInputs {
		a := b.Env.ByAddr[in.UnlockConditions.UnlockHash()]
		b.signV1(txn, types.Hash256(in.ParentID), a, 0)
	}
	for _, in := range txn.SiafundInputs {
		a := b.Env.ByAddr[in.UnlockConditions.UnlockHash()]
		b.signV1(txn, types.Hash256(in.ParentID), a, 0)
	}
}

// V1Spend moves coins from one actor to one or two others.
func (b *Builder) V1Spend(from *Actor, pEph float64) bool {
	in, ok := b.pickInput(from, pEph)
	if !ok {
		return false
	}
	fee := b.fee()
	if in.SiacoinOutput.Value.Cmp(fee.Mul64(4)) < 0 {
		return false
	}
	txn := types.Transaction{
		SiacoinInputs: []types.SiacoinInput{{ParentID: in.ID, UnlockConditions: from.UC}},
		MinerFees:     []types.Currency{fee},
	}
	for _, v := range b.splitValue(in.SiacoinOutput.Value.Sub(fee), 1+b.Rng.IntN(3)) {
		txn.SiacoinOutputs = append(txn.SiacoinOutputs, types.SiacoinOutput{Address: b.randActor(Miner).Addr, Value: v})
	}
	if b.Rng.IntN(4) == 0 {
		txn.ArbitraryData = [][]byte{append([]byte("NonSia"), byte(b.Rng.IntN(256)))}
	}
	b.signV1Inputs(&txn)
	return b.TryV1("v1-spend", txn)
}

// V1SiafundSpend moves siafunds and pays the claim to a PRNG-chosen actor.
func (b *Builder) V1SiafundSpend(from *Actor) bool {
	var cands []types.SiafundElement
	for id, e := range b.L.SF {
		if e.SiafundOutput.Address == from.Addr && !b.spentSF[id] {
			cands = append(cands, e)
		}
	}
	if len(cands) == 0 {
		return false
	}
	sortSF(cands)
	in := cands[b.Rng.IntN(len(cands))]
	claim := b.randActor(Miner)
	txn := types.Transaction{
		SiafundInputs: []types.SiafundInput{{ParentID: in.ID, UnlockConditions: from.UC, ClaimAddress: claim.Addr}},
	}
	to := b.randActor(Miner)
	if in.SiafundOutput.Value > 1 && b.Rng.IntN(2) == 0 {
		part := 1 + b.Rng.Uint64N(in.SiafundOutput.Value-1)
		txn.SiafundOutputs = []types.SiafundOutput{{Address: to.Addr, Value: part}, {Address: from.Addr, Value: in.SiafundOutput.Value - part}}
	} else {
		txn.SiafundOutputs = []types.SiafundOutput{{Address: to.Addr, Value: in.SiafundOutput.Value}}
	}
	b.signV1Inputs(&txn)
	return b.TryV1("v1-siafund", txn)
}

func sortSF(s []types.SiafundElement) {
	for i := 1; i < len(s); i++ {
		for j := i; j > 0 && lessID(s[j].ID[:], s[j-1].ID[:]); j-- {
			s[j], s[j-1] = s[j-1], s[j]
		}
	}
}

// contractUC returns the 2-of-2 unlock conditions of a v1 contract.
func contractUC(renter, host *Actor) types.UnlockConditions {
	return types.UnlockConditions{
		PublicKeys:         []types.UnlockKey{renter.PK.UnlockKey(), host.PK.UnlockKey()},
		SignaturesRequired: 2,
	}
}

// FarEndBase is the first of the three shared far window ends.
const FarEndBase = 100000

// V1Leaf is the 64-byte file every generated contract stores.
func V1Leaf(tag uint64) (leaf [64]byte) {
	binary.LittleEndian.PutUint64(leaf[:], tag)
	copy(leaf[8:], "verif storage proof leaf")
	return
}

// v1Root is the Merkle root of a one-leaf v1 file.
func v1Root(leaf [64]byte) types.Hash256 {
	buf := make([]byte, 65)
	copy(buf[1:], leaf[:])
	return types.HashBytes(buf)
}

// freeEnd returns a window end >= min not shared with any live contract of
// this chain (unless SharedEnds is set).
func (b *Builder) freeEnd(min uint64) uint64 {
	if b.FarEnds {
		w := FarEndBase + uint64(b.Rng.IntN(3))
		if w < min { // a revision asks for an end above the current one
			w = FarEndBase + (min-FarEndBase)%3
		}
		return w
	}
	if b.SharedEnds {
		return min
	}
	return b.Env.claimEnd(min)
}

// V1Form creates a v1 contract between renter and host funded by the renter.
// startDelta/endDelta position the window relative to the child height.
func (b *Builder) V1Form(renter, host *Actor, startDelta, endDelta uint64, withData bool) (types.FileContractID, bool) {
	child := b.Child()
	payout := types.Siacoins(uint32(50 + b.Rng.IntN(200)))
	fc := types.FileContract{
		WindowStart: child + startDelta,
		UnlockHash:  contractUC(renter, host).UnlockHash(),
		Payout:      payout,
	}
	fc.WindowEnd = b.freeEnd(fc.WindowStart + endDelta)
	if withData {
		f := b.newFile(false)
		fc.Filesize = f.Size()
		fc.FileMerkleRoot = f.Root()
		b.Env.rememberFile(fc.FileMerkleRoot, f)
	}
	// payout = outputs + tax, where tax is computed on the payout
	tax := b.L.State.FileContractTax(fc)
	rest := payout.Sub(tax)
	rv := rest.Div64(2)
	hv := rest.Sub(rv)
	fc.ValidProofOutputs = []types.SiacoinOutput{{Address: renter.Addr, Value: rv}, {Address: host.Addr, Value: hv}}
	missedHost := hv.Div64(3)
	fc.MissedProofOutputs = []types.SiacoinOutput{{Address: renter.Addr, Value: rv}, {Address: host.Addr, Value: missedHost}, {Address: types.VoidAddress, Value: hv.Sub(missedHost)}}
	// nothing ties the missed outputs to the addresses of the valid ones
	if b.Rng.IntN(4) == 0 {
		fc.MissedProofOutputs[0].Address = b.randActor().Addr
		fc.MissedProofOutputs[1].Address = b.randActor().Addr
		b.Kinds = append(b.Kinds, "v1-form-missed-addresses-differ")
	}
	fee := b.fee()
	txn := types.Transaction{FileContracts: []types.FileContract{fc}, MinerFees: []types.Currency{fee}}
	if !b.fundV1(&txn, renter, payout.Add(fee), 0.2) {
		return types.FileContractID{}, false
	}
	b.signV1Inputs(&txn)
	if !b.TryV1("v1-form", txn) {
		return types.FileContractID{}, false
	}
	return txn.FileContractID(0), true
}

// liveV1 returns a revisable/provable confirmed or in-block v1 contract.
type v1Cand struct {
	ID  types.FileContractID
	FC  types.FileContract
	Eph bool
}

func (b *Builder) v1Contracts() []v1Cand {
	var out []v1Cand
	for id, e := range b.L.FC {
		if !b.usedFC[id] {
			out = append(out, v1Cand{id, e.FileContract, false})
		}
	}
	for i := 1; i < len(out); i++ {
		for j := i; j > 0 && lessID(out[j].ID[:], out[j-1].ID[:]); j-- {
			out[j], out[j-1] = out[j-1], out[j]
		}
	}
	for _, txn := range b.Txns {
		for i := range txn.FileContracts {
			id := txn.FileContractID(i)
			if !b.usedFC[id] {
				out = append(out, v1Cand{id, b.EphFC[id], true})
			}
		}
	}
	return out
}

func (b *Builder) partiesV1(fc types.FileContract) (renter, host *Actor) {
	if len(fc.ValidProofOutputs) < 2 {
		return nil, nil
	}
	return b.Env.ByAddr[fc.ValidProofOutputs[0].Address], b.Env.ByAddr[fc.ValidProofOutputs[1].Address]
}

// V1Revise revises a v1 contract; changeWindow moves its window end.
func (b *Builder) V1Revise(c v1Cand, changeWindow bool) bool {
	renter, host := b.partiesV1(c.FC)
	if renter == nil || host == nil || c.FC.WindowStart < b.Child() {
		return false
	}
	rev := c.FC
	rev.RevisionNumber += 1 + uint64(b.Rng.IntN(3))
	rev.ValidProofOutputs = append([]types.SiacoinOutput(nil), c.FC.ValidProofOutputs...)
	rev.MissedProofOutputs = append([]types.SiacoinOutput(nil), c.FC.MissedProofOutputs...)
	// move a little value renter -> host in both payout sets
	delta := rev.ValidProofOutputs[0].Value.Div64(10)
	rev.ValidProofOutputs[0].Value = rev.ValidProofOutputs[0].Value.Sub(delta)
	rev.ValidProofOutputs[1].Value = rev.ValidProofOutputs[1].Value.Add(delta)
	rev.MissedProofOutputs[0].Value = rev.MissedProofOutputs[0].Value.Sub(delta)
	rev.MissedProofOutputs[2].Value = rev.MissedProofOutputs[2].Value.Add(delta)
	if changeWindow && b.FarEnds {
		rev.WindowEnd = FarEndBase + (rev.WindowEnd-FarEndBase+1+uint64(b.Rng.IntN(2)))%3
	} else if changeWindow {
		rev.WindowStart += uint64(b.Rng.IntN(2))
		rev.WindowEnd = b.freeEnd(max(rev.WindowEnd+1, rev.WindowStart+1))
	}
	txn := types.Transaction{
		FileContractRevisions: []types.FileContractRevision{{ParentID: c.ID, UnlockConditions: contractUC(renter, host), FileContract: rev}},
	}
	// a revision-only transaction pays no fee; sign with both keys
	b.signV1(&txn, types.Hash256(c.ID), renter, 0)
	b.signV1(&txn, types.Hash256(c.ID), host, 1)
	kind := "v1-revise"
	if changeWindow {
		kind = "v1-revise-window"
	}
	if c.Eph {
		kind += "-sameblock"
	}
	return b.TryV1(kind, txn)
}

// V1Prove submits a storage proof for a confirmed contract whose window is open.
func (b *Builder) V1Prove(c v1Cand) bool {
	if c.Eph || c.FC.WindowStart > b.L.Height() {
		return false
	}
	sp := types.StorageProof{ParentID: c.ID}
	if c.FC.Filesize > 0 {
		f, ok := b.Env.fileFor(c.FC.FileMerkleRoot)
		if !ok || c.FC.WindowStart < 1 || c.FC.WindowStart-1 >= uint64(len(b.L.Chain)) {
			return false
		}
		idx := b.L.State.StorageProofLeafIndex(c.FC.Filesize, b.L.Chain[c.FC.WindowStart-1], c.ID)
		sp.Leaf, sp.Proof = f.Proof(idx)
		if len(f.Leaves) > 1 {
			defer func() { b.multiLeaf("v1") }()
		}
	}
	txn := types.Transaction{StorageProofs: []types.StorageProof{sp}}
	return b.TryV1("v1-proof", txn)
}

// ---- v2 --------------------------------------------------------------------

// fundV2 adds inputs of a covering need, with change.
func (b *Builder) fundV2(txn *types.V2Transaction, a *Actor, need types.Currency, pEph float64) bool {
	var sum types.Currency
	var ins []types.SiacoinElement
	for tries := 0; tries < 6 && sum.Cmp(need) < 0; tries++ {
		in, ok := b.pickInput(a, pEph)
		if !ok {
			return false
		}
		dup := false
		for _, e := range ins {
			if e.ID == in.ID {
				dup = true
			}
		}
		for _, e := range txn.SiacoinInputs {
			if e.Parent.ID == in.ID {
				dup = true
			}
		}
		if dup {
			continue
		}
		ins = append(ins, in)
		sum = sum.Add(in.SiacoinOutput.Value)
	}
	if sum.Cmp(need) < 0 {
		return false
	}
	for _, in := range ins {
		txn.SiacoinInputs = append(txn.SiacoinInputs, types.V2SiacoinInput{Parent: in.Copy()})
	}
	if change := sum.Sub(need); !change.IsZero() {
		txn.SiacoinOutputs = append(txn.SiacoinOutputs, types.SiacoinOutput{Address: a.Addr, Value: change})
	}
	return true
}

// V2Spend moves coins between actors.
func (b *Builder) V2Spend(from *Actor, pEph float64) bool {
	in, ok := b.pickInput(from, pEph)
	if !ok {
		return false
	}
	fee := b.fee()
	if in.SiacoinOutput.Value.Cmp(fee.Mul64(4)) < 0 {
		return false
	}
	txn := types.V2Transaction{
		SiacoinInputs: []types.V2SiacoinInput{{Parent: in.Copy()}},
		MinerFee:      fee,
	}
	for _, v := range b.splitValue(in.SiacoinOutput.Value.Sub(fee), 1+b.Rng.IntN(3)) {
		txn.SiacoinOutputs = append(txn.SiacoinOutputs, types.SiacoinOutput{Address: b.randActor(Miner).Addr, Value: v})
	}
	kind := "v2-spend"
	if in.StateElement.LeafIndex == types.UnassignedLeafIndex {
		kind = "v2-spend-ephemeral"
	}
	if b.Rng.IntN(5) == 0 {
		txn.ArbitraryData = []byte{byte(b.Rng.IntN(256)), 1, 2, 3}
	}
	b.signV2Inputs(&txn)
	return b.TryV2(kind, txn)
}

// PassThrough builds a pair of transactions in which payer pays `through` one
// output that `through` forwards completely (no change) to a third actor - in
// the block the pair is confirmed in, `through` gains and loses exactly that
// output and keeps nothing. Uses v2 transactions when allowed.
func (b *Builder) PassThrough(through *Actor) bool {
	var payer, to *Actor
	for tries := 0; tries < 8 && (payer == nil || to == nil); tries++ {
		if a := b.randActor(Miner); a != through {
			if payer == nil && len(b.confirmedSC(a)) > 0 {
				payer = a
			} else if a != payer {
				to = a
			}
		}
	}
	if payer == nil || to == nil {
		return false
	}
	ins := b.confirmedSC(payer)
	in := ins[b.Rng.IntN(len(ins))]
	fee := b.fee()
	if b.spentSC[in.ID] || in.SiacoinOutput.Value.Cmp(fee.Mul64(8)) < 0 {
		return false
	}
	amount := in.SiacoinOutput.Value.Div64(2)
	rest := in.SiacoinOutput.Value.Sub(amount).Sub(fee)
	if b.V2Allowed() && (!b.V1Allowed() || b.Rng.IntN(2) == 0) {
		t1 := types.V2Transaction{
			SiacoinInputs:  []types.V2SiacoinInput{{Parent: in.Copy()}},
			SiacoinOutputs: []types.SiacoinOutput{{Address: through.Addr, Value: amount}, {Address: payer.Addr, Value: rest}},
			MinerFee:       fee,
		}
		b.signV2Inputs(&t1)
		if !b.TryV2("v2-pass-through-in", t1) {
			return false
		}
		t2 := types.V2Transaction{
			SiacoinInputs:  []types.V2SiacoinInput{{Parent: t1.EphemeralSiacoinOutput(0)}},
			SiacoinOutputs: []types.SiacoinOutput{{Address: to.Addr, Value: amount.Sub(fee)}},
			MinerFee:       fee,
		}
		b.signV2Inputs(&t2)
		return b.TryV2("v2-pass-through-out", t2)
	}
	if !b.V1Allowed() {
		return false
	}
	t1 := types.Transaction{
		SiacoinInputs:  []types.SiacoinInput{{ParentID: in.ID, UnlockConditions: payer.UC}},
		SiacoinOutputs: []types.SiacoinOutput{{Address: through.Addr, Value: amount}, {Address: payer.Addr, Value: rest}},
		MinerFees:      []types.Currency{fee},
	}
	b.signV1Inputs(&t1)
	if !b.TryV1("v1-pass-through-in", t1) {
		return false
	}
	t2 := types.Transaction{
		SiacoinInputs:  []types.SiacoinInput{{ParentID: t1.SiacoinOutputID(0), UnlockConditions: through.UC}},
		SiacoinOutputs: []types.SiacoinOutput{{Address: to.Addr, Value: amount.Sub(fee)}},
		MinerFees:      []types.Currency{fee},
	}
	b.signV1Inputs(&t2)
	return b.TryV1("v1-pass-through-out", t2)
}

// V2SiafundSpend moves siafunds.
func (b *Builder) V2SiafundSpend(from *Actor) bool {
	var cands []types.SiafundElement
	for id, e := range b.L.SF {
		if e.SiafundOutput.Address == from.Addr && !b.spentSF[id] {
			cands = append(cands, e)
		}
	}
	if len(cands) == 0 {
		return false
	}
	sortSF(cands)
	in := cands[b.Rng.IntN(len(cands))]
	to := b.randActor(Miner)
	txn := types.V2Transaction{
		SiafundInputs: []types.V2SiafundInput{{Parent: in.Copy(), ClaimAddress: b.randActor(Miner).Addr}},
	}
	if in.SiafundOutput.Value > 1 && b.Rng.IntN(2) == 0 {
		part := 1 + b.Rng.Uint64N(in.SiafundOutput.Value-1)
		txn.SiafundOutputs = []types.SiafundOutput{{Address: to.Addr, Value: part}, {Address: from.Addr, Value: in.SiafundOutput.Value - part}}
	} else {
		txn.SiafundOutputs = []types.SiafundOutput{{Address: to.Addr, Value: in.SiafundOutput.Value}}
	}
	b.signV2Inputs(&txn)
	return b.TryV2("v2-siafund", txn)
}

// V2Leaf is the 64-byte file stored by generated v2 contracts.
func V2Leaf(tag uint64) (leaf [64]byte) {
	binary.LittleEndian.PutUint64(leaf[:], tag)
	copy(leaf[8:], "verif v2 storage proof leaf")
	return
}

func (b *Builder) signContract(fc *types.V2FileContract, renter, host *Actor) {
	h := b.L.State.ContractSigHash(*fc)
	fc.RenterSignature = renter.SK.SignHash(h)
	fc.HostSignature = host.SK.SignHash(h)
}

// newV2Contract builds a signed contract.
func (b *Builder) newV2Contract(renter, host *Actor, proofDelta, expDelta uint64, withData bool) types.V2FileContract {
	child := b.Child()
	rv := types.Siacoins(uint32(20 + b.Rng.IntN(100)))
	hv := types.Siacoins(uint32(10 + b.Rng.IntN(50)))
	fc := types.V2FileContract{
		Capacity:         128,
		ProofHeight:      child + proofDelta,
		ExpirationHeight: child + proofDelta + expDelta,
		RenterOutput:     types.SiacoinOutput{Address: renter.Addr, Value: rv},
		HostOutput:       types.SiacoinOutput{Address: host.Addr, Value: hv},
		MissedHostValue:  hv.Div64(2),
		TotalCollateral:  hv.Div64(2),
		RenterPublicKey:  renter.PK,
		HostPublicKey:    host.PK,
	}
	if withData {
		f := b.newFile(true)
		fc.Filesize = f.Size()
		fc.Capacity = max(fc.Capacity, f.Size())
		fc.FileMerkleRoot = f.Root()
		b.Env.rememberFile(fc.FileMerkleRoot, f)
	}
	b.signContract(&fc, renter, host)
	return fc
}

// V2Form forms a v2 contract; renter pays its output + tax + fee, host its own.
func (b *Builder) V2Form(renter, host *Actor, proofDelta, expDelta uint64, withData bool) (types.FileContractID, bool) {
	fc := b.newV2Contract(renter, host, proofDelta, expDelta, withData)
	fee := b.fee()
	txn := types.V2Transaction{FileContracts: []types.V2FileContract{fc}, MinerFee: fee}
	tax := b.L.State.V2FileContractTax(fc)
	if !b.fundV2(&txn, renter, fc.RenterOutput.Value.Add(tax).Add(fee), 0.2) {
		return types.FileContractID{}, false
	}
	if !b.fundV2(&txn, host, fc.HostOutput.Value, 0.2) {
		return types.FileContractID{}, false
	}
	b.signV2Inputs(&txn)
	if !b.TryV2("v2-form", txn) {
		return types.FileContractID{}, false
	}
	return txn.V2FileContractID(txn.ID(), 0), true
}

func (b *Builder) v2Contracts() []types.V2FileContractElement {
	var out []types.V2FileContractElement
	for id, e := range b.L.V2FC {
		if !b.usedFC[id] {
			out = append(out, e)
		}
	}
	for i := 1; i < len(out); i++ {
		for j := i; j > 0 && lessID(out[j].ID[:], out[j-1].ID[:]); j-- {
			out[j], out[j-1] = out[j-1], out[j]
		}
	}
	return out
}

func (b *Builder) partiesV2(fc types.V2FileContract) (renter, host *Actor) {
	return b.Env.ByAddr[fc.RenterOutput.Address], b.Env.ByAddr[fc.HostOutput.Address]
}

// V2Revise revises a confirmed contract (moves value renter -> host).
func (b *Builder) V2Revise(e types.V2FileContractElement) bool {
	fc := e.V2FileContract
	renter, host := b.partiesV2(fc)
	if renter == nil || host == nil || fc.ProofHeight < b.Child() {
		return false
	}
	rev := fc
	rev.RevisionNumber += 1 + uint64(b.Rng.IntN(3))
	delta := rev.RenterOutput.Value.Div64(10)
	rev.RenterOutput.Value = rev.RenterOutput.Value.Sub(delta)
	rev.HostOutput.Value = rev.HostOutput.Value.Add(delta)
	if b.Rng.IntN(3) == 0 {
		rev.ProofHeight++
		rev.ExpirationHeight++
	}
	b.signContract(&rev, renter, host)
	txn := types.V2Transaction{
		FileContractRevisions: []types.V2FileContractRevision{{Parent: e.Copy(), Revision: rev}},
		MinerFee:              types.ZeroCurrency,
	}
	return b.TryV2("v2-revise", txn)
}

// V2Renew resolves a contract by renewal, rolling part of the funds over.
func (b *Builder) V2Renew(e types.V2FileContractElement) bool {
	fc := e.V2FileContract
	renter, host := b.partiesV2(fc)
	if renter == nil || host == nil || fc.ProofHeight < b.Child() {
		return false
	}
	nc := b.newV2Contract(renter, host, 2+uint64(b.Rng.IntN(3)), 2+uint64(b.Rng.IntN(3)), b.Rng.IntN(2) == 0)
	ren := types.V2FileContractRenewal{
		NewContract:    nc,
		RenterRollover: fc.RenterOutput.Value.Div64(uint64(2 + b.Rng.IntN(3))),
		HostRollover:   fc.HostOutput.Value.Div64(uint64(2 + b.Rng.IntN(3))),
	}
	// rollover cannot exceed the new contract's cost
	cost := nc.RenterOutput.Value.Add(nc.HostOutput.Value).Add(b.L.State.V2FileContractTax(nc))
	if ren.RenterRollover.Add(ren.HostRollover).Cmp(cost) > 0 {
		ren.RenterRollover = types.ZeroCurrency
		ren.HostRollover = types.ZeroCurrency
	}
	ren.FinalRenterOutput = types.SiacoinOutput{Address: renter.Addr, Value: fc.RenterOutput.Value.Sub(ren.RenterRollover)}
	ren.FinalHostOutput = types.SiacoinOutput{Address: host.Addr, Value: fc.HostOutput.Value.Sub(ren.HostRollover)}
	// consensus does not tie the final payouts to the addresses of the renewed
	// contract: both parties sign whatever addresses the renewal names
	if b.Rng.IntN(3) == 0 {
		ren.FinalRenterOutput.Address = b.randActor().Addr
		b.Kinds = append(b.Kinds, "v2-renew-final-renter-address-differs")
	}
	if b.Rng.IntN(3) == 0 {
		ren.FinalHostOutput.Address = b.randActor().Addr
		b.Kinds = append(b.Kinds, "v2-renew-final-host-address-differs")
	}
	h := b.L.State.RenewalSigHash(ren)
	ren.RenterSignature = renter.SK.SignHash(h)
	ren.HostSignature = host.SK.SignHash(h)
	fee := b.fee()
	txn := types.V2Transaction{
		FileContractResolutions: []types.V2FileContractResolution{{Parent: e.Copy(), Resolution: &ren}},
		MinerFee:                fee,
	}
	// inputs must cover: new contract cost + fee - rollovers
	need := cost.Add(fee).Sub(ren.RenterRollover).Sub(ren.HostRollover)
	if !b.fundV2(&txn, renter, need, 0.1) {
		return false
	}
	b.signV2Inputs(&txn)
	return b.TryV2("v2-renew", txn)
}

// V2Prove resolves a contract with a storage proof.
func (b *Builder) V2Prove(e types.V2FileContractElement) bool {
	fc := e.V2FileContract
	if b.Child() < fc.ProofHeight || fc.ProofHeight >= uint64(len(b.L.CI)) || b.Child() > fc.ExpirationHeight {
		return false
	}
	sp := types.V2StorageProof{ProofIndex: b.L.CI[fc.ProofHeight].Copy()}
	if fc.Filesize > 0 {
		f, ok := b.Env.fileFor(fc.FileMerkleRoot)
		if !ok {
			return false
		}
		idx := b.L.State.StorageProofLeafIndex(fc.Filesize, sp.ProofIndex.ChainIndex.ID, e.ID)
		sp.Leaf, sp.Proof = f.Proof(idx)
	} else {
		return false // empty contracts are resolved by expiration in this generator
	}
	txn := types.V2Transaction{
		FileContractResolutions: []types.V2FileContractResolution{{Parent: e.Copy(), Resolution: &sp}},
	}
	return b.TryV2("v2-proof", txn)
}

// V2Expire resolves an expired contract.
func (b *Builder) V2Expire(e types.V2FileContractElement) bool {
	if b.Child() <= e.V2FileContract.ExpirationHeight {
		return false
	}
	txn := types.V2Transaction{
		FileContractResolutions: []types.V2FileContractResolution{{Parent: e.Copy(), Resolution: &types.V2FileContractExpiration{}}},
	}
	return b.TryV2("v2-expire", txn)
}

// V2Attest publishes an attestation (host-announcement shaped) paid by a.
func (b *Builder) V2Attest(a *Actor) bool {
	att := types.Attestation{PublicKey: a.PK, Key: "verif", Value: []byte{byte(b.Rng.IntN(256)), 7}}
	att.Signature = a.SK.SignHash(b.L.State.AttestationSigHash(att))
	fee := b.fee()
	txn := types.V2Transaction{Attestations: []types.Attestation{att}, MinerFee: fee}
	if !b.fundV2(&txn, a, fee, 0.2) {
		return false
	}
	b.signV2Inputs(&txn)
	return b.TryV2("v2-attest", txn)
}

// V1Cand is an exported alias used by scenario code.
type V1Cand = v1Cand

// V1ContractsForTest lists the confirmed and in-block v1 contracts.
func (b *Builder) V1ContractsForTest() []V1Cand { return b.v1Contracts() }

// ---- Foundation address updates ------------------------------------------

// foundationHolder returns the actor that currently controls the Foundation
// management address, if it is one of ours.
func (b *Builder) foundationHolder() *Actor {
	return b.Env.ByAddr[b.L.State.FoundationManagementAddress]
}

// V1FoundationUpdate moves the Foundation subsidy (and failsafe) address to
// another actor with a v1 transaction signed by the current holder.
func (b *Builder) V1FoundationUpdate(to *Actor) bool {
	holder := b.foundationHolder()
	if holder == nil || to == nil || to.Addr == types.VoidAddress {
		return false
	}
	in, ok := b.pickInput(holder, 0)
	if !ok || in.StateElement.LeafIndex == types.UnassignedLeafIndex {
		return false
	}
	fee := b.fee()
	if in.SiacoinOutput.Value.Cmp(fee.Mul64(4)) < 0 {
		return false
	}
	var buf bytes.Buffer
	e := types.NewEncoder(&buf)
	types.FoundationAddressUpdate{NewPrimary: to.Addr, NewFailsafe: to.Addr}.EncodeTo(e)
	e.Flush()
	txn := types.Transaction{
		SiacoinInputs:  []types.SiacoinInput{{ParentID: in.ID, UnlockConditions: holder.UC}},
		SiacoinOutputs: []types.SiacoinOutput{{Address: holder.Addr, Value: in.SiacoinOutput.Value.Sub(fee)}},
		MinerFees:      []types.Currency{fee},
		ArbitraryData:  [][]byte{append(append([]byte(nil), types.SpecifierFoundation[:]...), buf.Bytes()...)},
	}
	b.signV1Inputs(&txn)
	return b.TryV1("v1-foundation-update", txn)
}

// V2FoundationUpdate does the same with a v2 transaction.
func (b *Builder) V2FoundationUpdate(to *Actor) bool {
	holder := b.foundationHolder()
	if holder == nil || to == nil {
		return false
	}
	var in types.SiacoinElement
	found := false
	for _, c := range b.confirmedSC(holder) {
		in, found = c, true
		break
	}
	if !found {
		return false
	}
	fee := b.fee()
	if in.SiacoinOutput.Value.Cmp(fee.Mul64(4)) < 0 {
		return false
	}
	addr := to.Addr
	txn := types.V2Transaction{
		SiacoinInputs:        []types.V2SiacoinInput{{Parent: in.Copy()}},
		SiacoinOutputs:       []types.SiacoinOutput{{Address: holder.Addr, Value: in.SiacoinOutput.Value.Sub(fee)}},
		NewFoundationAddress: &addr,
		MinerFee:             fee,
	}
	b.signV2Inputs(&txn)
	return b.TryV2("v2-foundation-update", txn)
}

// multiLeaf is a hook for statistics (kept trivial).
func (b *Builder) multiLeaf(string) {}
