package chainlab

import (
	"bytes"
	"fmt"
	"sort"

	"go.sia.tech/core/consensus"
	"go.sia.tech/core/types"
)

// A Ledger is the pure state of one chain: consensus state plus every unspent
// element with a Merkle proof valid against State.Elements. It is derived from
// core/consensus only.
type Ledger struct {
	Env   *Env
	State consensus.State
	Chain []types.BlockID // best chain ids by height

	SC   map[types.SiacoinOutputID]types.SiacoinElement
	SF   map[types.SiafundOutputID]types.SiafundElement
	FC   map[types.FileContractID]types.FileContractElement
	V2FC map[types.FileContractID]types.V2FileContractElement
	CI   []types.ChainIndexElement // by height; entry h valid for h >= CIBase
	// Expiry is the model's v1 expiration schedule: contract ids by WindowEnd,
	// in formation order (workloads keep these lists singletons except in the
	// dedicated order scenarios).
	Expiry map[uint64][]types.FileContractID
}

// GenesisLedger applies the genesis block to the network's genesis state.
func GenesisLedger(env *Env) *Ledger {
	l := &Ledger{
		Env:    env,
		State:  env.Net.GenesisState(),
		SC:     map[types.SiacoinOutputID]types.SiacoinElement{},
		SF:     map[types.SiafundOutputID]types.SiafundElement{},
		FC:     map[types.FileContractID]types.FileContractElement{},
		V2FC:   map[types.FileContractID]types.V2FileContractElement{},
		Expiry: map[uint64][]types.FileContractID{},
	}
	bs := consensus.V1BlockSupplement{Transactions: make([]consensus.V1TransactionSupplement, len(env.Genesis.Transactions))}
	// the store applies genesis with a zero target timestamp
	cs, cau := consensus.ApplyBlock(l.State, env.Genesis, bs, zeroTime)
	return l.next(env.Genesis, cs, cau)
}

// Supplement builds the v1 block supplement for b from the ledger, mirroring
// what a store must provide: confirmed inputs, revised contracts, storage
// proof parents with their window ids, and the contracts expiring at the child
// height.
func (l *Ledger) Supplement(b types.Block) consensus.V1BlockSupplement {
	bs := consensus.V1BlockSupplement{Transactions: make([]consensus.V1TransactionSupplement, len(b.Transactions))}
	child := l.State.Index.Height + 1
	if child >= l.Env.Net.HardforkV2.RequireHeight {
		return bs
	}
	for i, txn := range b.Transactions {
		bs.Transactions[i] = l.TxnSupplement(txn)
	}
	for _, id := range l.Expiry[child] {
		if fce, ok := l.FC[id]; ok {
			bs.ExpiringFileContracts = append(bs.ExpiringFileContracts, fce.Copy())
		}
	}
	return bs
}

// TxnSupplement builds the supplement of one v1 transaction.
func (l *Ledger) TxnSupplement(txn types.Transaction) (ts consensus.V1TransactionSupplement) {
	if l.State.Index.Height >= l.Env.Net.HardforkV2.RequireHeight {
		return
	}
	for _, sci := range txn.SiacoinInputs {
		if sce, ok := l.SC[sci.ParentID]; ok {
			ts.SiacoinInputs = append(ts.SiacoinInputs, sce.Copy())
		}
	}
	for _, sfi := range txn.SiafundInputs {
		if sfe, ok := l.SF[sfi.ParentID]; ok {
			ts.SiafundInputs = append(ts.SiafundInputs, sfe.Copy())
		}
	}
	for _, fcr := range txn.FileContractRevisions {
		if fce, ok := l.FC[fcr.ParentID]; ok {
			ts.RevisedFileContracts = append(ts.RevisedFileContracts, fce.Copy())
		}
	}
	for _, sp := range txn.StorageProofs {
		if fce, ok := l.FC[sp.ParentID]; ok {
			if ws := fce.FileContract.WindowStart; ws >= 1 && ws-1 < uint64(len(l.Chain)) {
				ts.StorageProofs = append(ts.StorageProofs, consensus.V1StorageProofSupplement{
					FileContract: fce.Copy(),
					WindowID:     l.Chain[ws-1],
				})
			}
		}
	}
	return
}

// Validate labels b (a child of the ledger's tip) using consensus only.
func (l *Ledger) Validate(b types.Block) error {
	var err error
	func() {
		defer func() {
			if p := recover(); p != nil {
				err = fmt.Errorf("consensus panicked while validating: %v", p)
			}
		}()
		err = consensus.ValidateBlock(l.State, b, l.Supplement(b))
	}()
	return err
}

// Apply validates and applies b, returning the child ledger.
func (l *Ledger) Apply(b types.Block) (*Ledger, error) {
	if err := l.Validate(b); err != nil {
		return nil, err
	}
	bs := l.Supplement(b)
	cs, cau := consensus.ApplyBlock(l.State, b, bs, l.Env.TargetTimestamp(l.State))
	return l.next(b, cs, cau), nil
}

// ApplyUnchecked applies b without validating it: the ledger a node would hold
// had it trusted the block (what a pre-validated batch built on top of a block
// that was only header-checked is "valid relative to"). Returns nil if
// application itself is impossible.
func (l *Ledger) ApplyUnchecked(b types.Block) (out *Ledger) {
	defer func() {
		if recover() != nil {
			out = nil
		}
	}()
	bs := l.Supplement(b)
	cs, cau := consensus.ApplyBlock(l.State, b, bs, l.Env.TargetTimestamp(l.State))
	return l.next(b, cs, cau)
}

func (l *Ledger) next(b types.Block, cs consensus.State, cau consensus.ApplyUpdate) *Ledger {
	n := &Ledger{
		Env:    l.Env,
		State:  cs,
		Chain:  append(append(make([]types.BlockID, 0, len(l.Chain)+1), l.Chain...), b.ID()),
		SC:     make(map[types.SiacoinOutputID]types.SiacoinElement, len(l.SC)+8),
		SF:     make(map[types.SiafundOutputID]types.SiafundElement, len(l.SF)+2),
		FC:     make(map[types.FileContractID]types.FileContractElement, len(l.FC)+2),
		V2FC:   make(map[types.FileContractID]types.V2FileContractElement, len(l.V2FC)+2),
		CI:     make([]types.ChainIndexElement, 0, len(l.CI)+1),
		Expiry: make(map[uint64][]types.FileContractID, len(l.Expiry)),
	}
	for k, v := range l.Expiry {
		n.Expiry[k] = append([]types.FileContractID(nil), v...)
	}
	for id, e := range l.SC {
		e = e.Copy()
		cau.UpdateElementProof(&e.StateElement)
		n.SC[id] = e
	}
	for id, e := range l.SF {
		e = e.Copy()
		cau.UpdateElementProof(&e.StateElement)
		n.SF[id] = e
	}
	for id, e := range l.FC {
		e = e.Copy()
		cau.UpdateElementProof(&e.StateElement)
		n.FC[id] = e
	}
	for id, e := range l.V2FC {
		e = e.Copy()
		cau.UpdateElementProof(&e.StateElement)
		n.V2FC[id] = e
	}
	for _, e := range l.CI {
		e = e.Copy()
		cau.UpdateElementProof(&e.StateElement)
		n.CI = append(n.CI, e)
	}
	n.CI = append(n.CI, cau.ChainIndexElement().Copy())

	removeExpiry := func(id types.FileContractID, end uint64) {
		ids := n.Expiry[end]
		for i := range ids {
			if ids[i] == id {
				n.Expiry[end] = append(ids[:i:i], ids[i+1:]...)
				break
			}
		}
		if len(n.Expiry[end]) == 0 {
			delete(n.Expiry, end)
		}
	}
	for _, d := range cau.SiacoinElementDiffs() {
		switch {
		case d.Created && d.Spent:
		case d.Spent:
			delete(n.SC, d.SiacoinElement.ID)
		default:
			n.SC[d.SiacoinElement.ID] = d.SiacoinElement.Copy()
		}
	}
	for _, d := range cau.SiafundElementDiffs() {
		switch {
		case d.Created && d.Spent:
		case d.Spent:
			delete(n.SF, d.SiafundElement.ID)
		default:
			n.SF[d.SiafundElement.ID] = d.SiafundElement.Copy()
		}
	}
	for _, d := range cau.FileContractElementDiffs() {
		fce := d.FileContractElement.Copy()
		switch {
		case d.Created && d.Resolved:
		case d.Resolved:
			delete(n.FC, fce.ID)
			removeExpiry(fce.ID, fce.FileContract.WindowEnd)
		case d.Revision != nil:
			old := fce.FileContract.WindowEnd
			fce.FileContract = *d.Revision
			n.FC[fce.ID] = fce
			if d.Created {
				n.Expiry[fce.FileContract.WindowEnd] = append(n.Expiry[fce.FileContract.WindowEnd], fce.ID)
			} else if old != fce.FileContract.WindowEnd {
				removeExpiry(fce.ID, old)
				n.Expiry[fce.FileContract.WindowEnd] = append(n.Expiry[fce.FileContract.WindowEnd], fce.ID)
			}
		default:
			n.FC[fce.ID] = fce
			n.Expiry[fce.FileContract.WindowEnd] = append(n.Expiry[fce.FileContract.WindowEnd], fce.ID)
		}
	}
	for _, d := range cau.V2FileContractElementDiffs() {
		fce := d.V2FileContractElement.Copy()
		switch {
		case d.Created && d.Resolution != nil:
		case d.Resolution != nil:
			delete(n.V2FC, fce.ID)
		case d.Revision != nil:
			fce.V2FileContract = *d.Revision
			n.V2FC[fce.ID] = fce
		default:
			n.V2FC[fce.ID] = fce
		}
	}
	return n
}

// Height returns the tip height.
func (l *Ledger) Height() uint64 { return l.State.Index.Height }

// Digest returns a canonical text description of the element sets (without
// proofs), used for cheap equality and for evidence samples.
func (l *Ledger) Digest() string {
	var buf bytes.Buffer
	type kv struct{ k, v string }
	var rows []kv
	for id, e := range l.SC {
		rows = append(rows, kv{"sc:" + id.String(), fmt.Sprintf("%v/%v/m%d/l%d", e.SiacoinOutput.Value.ExactString(), e.SiacoinOutput.Address, e.MaturityHeight, e.StateElement.LeafIndex)})
	}
	for id, e := range l.SF {
		rows = append(rows, kv{"sf:" + id.String(), fmt.Sprintf("%d/%v/c%v/l%d", e.SiafundOutput.Value, e.SiafundOutput.Address, e.ClaimStart.ExactString(), e.StateElement.LeafIndex)})
	}
	for id, e := range l.FC {
		rows = append(rows, kv{"fc:" + id.String(), fmt.Sprintf("r%d/w%d-%d/l%d", e.FileContract.RevisionNumber, e.FileContract.WindowStart, e.FileContract.WindowEnd, e.StateElement.LeafIndex)})
	}
	for id, e := range l.V2FC {
		rows = append(rows, kv{"v2fc:" + id.String(), fmt.Sprintf("r%d/p%d-%d/l%d", e.V2FileContract.RevisionNumber, e.V2FileContract.ProofHeight, e.V2FileContract.ExpirationHeight, e.StateElement.LeafIndex)})
	}
	sort.Slice(rows, func(i, j int) bool { return rows[i].k < rows[j].k })
	for _, r := range rows {
		buf.WriteString(r.k)
		buf.WriteByte('=')
		buf.WriteString(r.v)
		buf.WriteByte('\n')
	}
	return buf.String()
}

// VerifyProofs checks every held proof against the tip accumulator by
// building a v2 transaction that references each element and asking the
// accumulator to validate it. Returns the first failure.
func (l *Ledger) VerifyProofs() error {
	var txn types.V2Transaction
	for _, e := range l.SC {
		txn.SiacoinInputs = append(txn.SiacoinInputs, types.V2SiacoinInput{Parent: e.Copy()})
	}
	for _, e := range l.SF {
		txn.SiafundInputs = append(txn.SiafundInputs, types.V2SiafundInput{Parent: e.Copy()})
	}
	for _, e := range l.V2FC {
		txn.FileContractRevisions = append(txn.FileContractRevisions, types.V2FileContractRevision{Parent: e.Copy()})
	}
	return l.State.Elements.ValidateTransactionElements(txn)
}

func encodeBytes(v types.EncoderTo) []byte {
	var buf bytes.Buffer
	e := types.NewEncoder(&buf)
	v.EncodeTo(e)
	e.Flush()
	return buf.Bytes()
}
