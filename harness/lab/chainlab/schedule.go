package chainlab

import "math/rand/v2"

// RandomSchedule turns the tree into a list of AddBlocks batches: path
// segments in order, reversed, split, duplicated, orphans first, two branches
// concatenated, known prefixes re-sent.
func (t *Tree) RandomSchedule(rng *rand.Rand) [][]*Node {
	tips := t.Tips()
	rng.Shuffle(len(tips), func(i, j int) { tips[i], tips[j] = tips[j], tips[i] })
	var sched [][]*Node
	sent := map[*Node]bool{}
	suffix := func(path []*Node) []*Node {
		i := 0
		for i < len(path) && sent[path[i]] {
			i++
		}
		return path[i:]
	}
	mark := func(ns []*Node) {
		for _, n := range ns {
			sent[n] = true
		}
	}
	split := func(ns []*Node) [][]*Node {
		var out [][]*Node
		for len(ns) > 0 {
			k := 1 + rng.IntN(len(ns))
			out = append(out, ns[:k])
			ns = ns[k:]
		}
		return out
	}
	for ti, tip := range tips {
		path := tip.PathFromGenesis()
		if len(path) == 0 {
			continue
		}
		switch rng.IntN(8) {
		case 0: // whole path including the known prefix
			sched = append(sched, path)
		case 1: // unknown suffix in one batch
			if s := suffix(path); len(s) > 0 {
				sched = append(sched, s)
			}
		case 2: // block by block
			for _, n := range suffix(path) {
				sched = append(sched, []*Node{n})
			}
		case 3: // split in order
			sched = append(sched, split(suffix(path))...)
		case 4: // split, later parts first (orphans), then in order
			parts := split(suffix(path))
			for i := len(parts) - 1; i >= 0; i-- {
				sched = append(sched, parts[i])
			}
			sched = append(sched, parts...)
		case 5: // concatenated with another branch
			other := tips[(ti+1)%len(tips)].PathFromGenesis()
			b := append(append([]*Node{}, suffix(path)...), suffix(other)...)
			if len(b) > 0 {
				sched = append(sched, b)
			}
			mark(other)
		case 6: // every block twice
			var b []*Node
			for _, n := range suffix(path) {
				b = append(b, n, n)
			}
			if len(b) > 0 {
				sched = append(sched, b)
			}
		default: // reversed order inside one batch, then properly
			s := suffix(path)
			if len(s) > 1 {
				r := make([]*Node, len(s))
				for i := range s {
					r[len(s)-1-i] = s[i]
				}
				sched = append(sched, r)
			}
			if len(s) > 0 {
				sched = append(sched, s)
			}
		}
		mark(path)
	}
	// finally every tip's full path once more, heaviest last
	for _, tip := range tips {
		if p := tip.PathFromGenesis(); len(p) > 0 {
			sched = append(sched, p)
		}
	}
	return sched
}
