package chainlab

import (
	"go.sia.tech/core/blake2b"
	"go.sia.tech/core/types"
)

// Multi-leaf contract files: the data behind generated contract roots, with
// Merkle roots and storage proofs built here (the oracle — core/consensus —
// decides whether a proof is right; a wrong one is simply not accepted by the
// builder).

func leafHashV1(leaf [64]byte) types.Hash256 {
	buf := make([]byte, 65)
	copy(buf[1:], leaf[:])
	return types.HashBytes(buf)
}

func leafHashV2(leaf [64]byte) types.Hash256 { return blake2b.SumLeaf(&leaf) }

func merkleRoot(h []types.Hash256) types.Hash256 {
	if len(h) == 1 {
		return h[0]
	}
	k := 1
	for k*2 < len(h) {
		k *= 2
	}
	return blake2b.SumPair(merkleRoot(h[:k]), merkleRoot(h[k:]))
}

// merkleProof returns the sibling hashes from the leaf up to the root.
func merkleProof(h []types.Hash256, idx int) []types.Hash256 {
	if len(h) == 1 {
		return nil
	}
	k := 1
	for k*2 < len(h) {
		k *= 2
	}
	if idx < k {
		return append(merkleProof(h[:k], idx), merkleRoot(h[k:]))
	}
	return append(merkleProof(h[k:], idx-k), merkleRoot(h[:k]))
}

// A File is the leaf data of a generated contract.
type File struct {
	Leaves [][64]byte
	V2     bool
}

func (f File) hashes() []types.Hash256 {
	out := make([]types.Hash256, len(f.Leaves))
	for i, l := range f.Leaves {
		if f.V2 {
			out[i] = leafHashV2(l)
		} else {
			out[i] = leafHashV1(l)
		}
	}
	return out
}

// Root returns the file's Merkle root; Size its size in bytes.
func (f File) Root() types.Hash256 { return merkleRoot(f.hashes()) }

// Size returns the file size (whole leaves).
func (f File) Size() uint64 { return 64 * uint64(len(f.Leaves)) }

// Proof returns the leaf and proof for a leaf index.
func (f File) Proof(idx uint64) ([64]byte, []types.Hash256) {
	return f.Leaves[idx], merkleProof(f.hashes(), int(idx))
}

func (e *Env) rememberFile(root types.Hash256, f File) {
	e.leafMu.Lock()
	if e.files == nil {
		e.files = map[types.Hash256]File{}
	}
	e.files[root] = f
	e.leafMu.Unlock()
}

func (e *Env) fileFor(root types.Hash256) (File, bool) {
	e.leafMu.Lock()
	defer e.leafMu.Unlock()
	f, ok := e.files[root]
	return f, ok
}

// newFile draws a file of 1..5 leaves.
func (b *Builder) newFile(v2 bool) File {
	n := 1 + b.Rng.IntN(5)
	f := File{V2: v2}
	for i := 0; i < n; i++ {
		var l [64]byte
		for j := 0; j < 64; j += 8 {
			v := b.Rng.Uint64()
			for k := 0; k < 8; k++ {
				l[j+k] = byte(v >> (8 * k))
			}
		}
		f.Leaves = append(f.Leaves, l)
	}
	return f
}
