package chainlab

import (
	"time"

	"go.sia.tech/core/types"
)

// Corruption operators: each takes a valid block (a node of the tree) and
// returns a modified copy; the pure oracle decides whether the result is still
// valid (some flips are).
var CorruptionOps = []string{
	"nonce", "timestamp-past", "timestamp-future", "parent-id", "payout-value", "payout-address",
	"v2-height", "v2-commitment", "drop-txn", "dup-txn", "reorder-txns", "sig-bit",
	"double-spend", "output-inflate", "contract-field", "proof-leaf", "v1-after-require",
	"extra-payout", "missing-input",
}

func deepCopyBlock(b types.Block) types.Block {
	c := b
	c.MinerPayouts = append([]types.SiacoinOutput(nil), b.MinerPayouts...)
	c.Transactions = make([]types.Transaction, len(b.Transactions))
	for i, t := range b.Transactions {
		c.Transactions[i] = deepCopyTxn(t)
	}
	if b.V2 != nil {
		v := *b.V2
		v.Transactions = make([]types.V2Transaction, len(b.V2.Transactions))
		for i, t := range b.V2.Transactions {
			v.Transactions[i] = t.DeepCopy()
		}
		c.V2 = &v
	}
	return c
}

func deepCopyTxn(t types.Transaction) types.Transaction {
	var c types.Transaction
	buf := encodeBytes(t)
	d := types.NewBufDecoder(buf)
	c.DecodeFrom(d)
	return c
}

// Corrupt applies operator op to the block of node n (whose parent must be
// chain-valid) and attaches the result as a sibling. remine controls whether
// the commitment and nonce are recomputed after the change (a corrupted body
// with a stale commitment is a different, shallower failure than one that is
// consistently committed and mined). Returns nil if the operator does not apply.
func (t *Tree) Corrupt(n *Node, op string, remine bool) *Node {
	p := n.Parent
	if p == nil {
		return nil
	}
	b := deepCopyBlock(n.Block)
	ps := p.State()
	rng := t.Rng
	changed := false
	switch op {
	case "nonce":
		b.Nonce += ps.NonceFactor() * uint64(1+rng.IntN(5))
		changed, remine = true, false
	case "timestamp-past":
		// at or before the median of the previous timestamps
		b.Timestamp = ps.PrevTimestamps[min(5, int(ps.Index.Height))].Add(-time.Duration(1+rng.IntN(3)) * time.Hour)
		changed = true
	case "timestamp-future":
		b.Timestamp = time.Now().Add(4*time.Hour + time.Duration(rng.IntN(1000))*time.Hour).Truncate(time.Second)
		changed = true
	case "parent-id":
		b.ParentID[rng.IntN(32)] ^= 1 << rng.IntN(8)
		changed = true
	case "payout-value":
		if rng.IntN(2) == 0 {
			b.MinerPayouts[0].Value = b.MinerPayouts[0].Value.Add(types.NewCurrency64(1))
		} else {
			b.MinerPayouts[0].Value = b.MinerPayouts[0].Value.Sub(types.NewCurrency64(1))
		}
		changed = true
	case "payout-address":
		// still valid for v1 blocks; breaks the commitment of v2 blocks unless re-committed
		b.MinerPayouts[0].Address = t.Env.Actors[rng.IntN(len(t.Env.Actors))].Addr
		b.MinerPayouts[0].Address[0] ^= 0x80
		changed = true
	case "extra-payout":
		v := b.MinerPayouts[0].Value.Div64(2)
		if !v.IsZero() {
			b.MinerPayouts[0].Value = b.MinerPayouts[0].Value.Sub(v)
			b.MinerPayouts = append(b.MinerPayouts, types.SiacoinOutput{Address: t.Env.A(Bob).Addr, Value: v})
			changed = true // valid for v1 blocks, invalid for v2 blocks
		}
	case "v2-height":
		if b.V2 != nil {
			b.V2.Height += uint64(1 + rng.IntN(2))
			changed = true
		}
	case "v2-commitment":
		if b.V2 != nil {
			b.V2.Commitment[rng.IntN(32)] ^= 1 << rng.IntN(8)
			changed, remine = true, false
			MineNonce(ps, &b)
		}
	case "drop-txn":
		if len(b.Transactions) > 0 {
			i := rng.IntN(len(b.Transactions))
			fee := b.Transactions[i].TotalFees()
			b.Transactions = append(b.Transactions[:i:i], b.Transactions[i+1:]...)
			if remine {
				b.MinerPayouts[0].Value = b.MinerPayouts[0].Value.Sub(fee)
			}
			changed = true
		} else if b.V2 != nil && len(b.V2.Transactions) > 0 {
			i := rng.IntN(len(b.V2.Transactions))
			fee := b.V2.Transactions[i].MinerFee
			b.V2.Transactions = append(b.V2.Transactions[:i:i], b.V2.Transactions[i+1:]...)
			if remine {
				b.MinerPayouts[0].Value = b.MinerPayouts[0].Value.Sub(fee)
			}
			changed = true
		}
	case "dup-txn":
		if len(b.Transactions) > 0 {
			i := rng.IntN(len(b.Transactions))
			b.Transactions = append(b.Transactions, deepCopyTxn(b.Transactions[i]))
			if remine {
				b.MinerPayouts[0].Value = b.MinerPayouts[0].Value.Add(b.Transactions[i].TotalFees())
			}
			changed = true
		} else if b.V2 != nil && len(b.V2.Transactions) > 0 {
			i := rng.IntN(len(b.V2.Transactions))
			b.V2.Transactions = append(b.V2.Transactions, b.V2.Transactions[i].DeepCopy())
			if remine {
				b.MinerPayouts[0].Value = b.MinerPayouts[0].Value.Add(b.V2.Transactions[i].MinerFee)
			}
			changed = true
		}
	case "reorder-txns":
		if len(b.Transactions) > 1 {
			b.Transactions[0], b.Transactions[len(b.Transactions)-1] = b.Transactions[len(b.Transactions)-1], b.Transactions[0]
			changed = true
		} else if b.V2 != nil && len(b.V2.Transactions) > 1 {
			k := len(b.V2.Transactions) - 1
			b.V2.Transactions[0], b.V2.Transactions[k] = b.V2.Transactions[k], b.V2.Transactions[0]
			changed = true
		}
	case "sig-bit":
		for i := range b.Transactions {
			if len(b.Transactions[i].Signatures) > 0 && len(b.Transactions[i].Signatures[0].Signature) > 0 {
				b.Transactions[i].Signatures[0].Signature[rng.IntN(64)] ^= 1 << rng.IntN(8)
				changed = true
				break
			}
		}
		if !changed && b.V2 != nil {
			for i := range b.V2.Transactions {
				tx := &b.V2.Transactions[i]
				if len(tx.SiacoinInputs) > 0 && len(tx.SiacoinInputs[0].SatisfiedPolicy.Signatures) > 0 {
					tx.SiacoinInputs[0].SatisfiedPolicy.Signatures[0][rng.IntN(64)] ^= 1 << rng.IntN(8)
					changed = true
					break
				}
				if len(tx.FileContracts) > 0 {
					tx.FileContracts[0].HostSignature[rng.IntN(64)] ^= 1
					changed = true
					break
				}
			}
		}
	case "double-spend":
		// make the last transaction spend the same parent as an earlier one
		if len(b.Transactions) > 1 {
			var src *types.SiacoinInput
			for i := range b.Transactions[:len(b.Transactions)-1] {
				if len(b.Transactions[i].SiacoinInputs) > 0 {
					src = &b.Transactions[i].SiacoinInputs[0]
				}
			}
			last := &b.Transactions[len(b.Transactions)-1]
			if src != nil && len(last.SiacoinInputs) > 0 {
				last.SiacoinInputs[0].ParentID = src.ParentID
				changed = true
			}
		}
		if !changed && b.V2 != nil && len(b.V2.Transactions) > 1 {
			var src *types.V2SiacoinInput
			for i := range b.V2.Transactions[:len(b.V2.Transactions)-1] {
				if len(b.V2.Transactions[i].SiacoinInputs) > 0 {
					src = &b.V2.Transactions[i].SiacoinInputs[0]
				}
			}
			last := &b.V2.Transactions[len(b.V2.Transactions)-1]
			if src != nil && len(last.SiacoinInputs) > 0 {
				last.SiacoinInputs[0].Parent = src.Parent.Copy()
				changed = true
			}
		}
	case "missing-input":
		for i := range b.Transactions {
			if len(b.Transactions[i].SiacoinInputs) > 0 {
				b.Transactions[i].SiacoinInputs[0].ParentID[rng.IntN(32)] ^= 1
				changed = true
				break
			}
		}
		if !changed && b.V2 != nil {
			for i := range b.V2.Transactions {
				if len(b.V2.Transactions[i].SiacoinInputs) > 0 {
					in := &b.V2.Transactions[i].SiacoinInputs[0]
					if in.Parent.StateElement.LeafIndex != types.UnassignedLeafIndex && len(in.Parent.StateElement.MerkleProof) > 0 {
						pr := append([]types.Hash256(nil), in.Parent.StateElement.MerkleProof...)
						pr[rng.IntN(len(pr))][rng.IntN(32)] ^= 1
						in.Parent.StateElement.MerkleProof = pr
					} else {
						in.Parent.ID[rng.IntN(32)] ^= 1
					}
					changed = true
					break
				}
			}
		}
	case "output-inflate":
		for i := range b.Transactions {
			if len(b.Transactions[i].SiacoinOutputs) > 0 {
				o := &b.Transactions[i].SiacoinOutputs[0]
				o.Value = o.Value.Add(types.Siacoins(1))
				changed = true
				break
			}
		}
		if !changed && b.V2 != nil {
			for i := range b.V2.Transactions {
				if len(b.V2.Transactions[i].SiacoinOutputs) > 0 {
					o := &b.V2.Transactions[i].SiacoinOutputs[0]
					o.Value = o.Value.Add(types.Siacoins(1))
					changed = true
					break
				}
			}
		}
	case "contract-field":
		for i := range b.Transactions {
			tx := &b.Transactions[i]
			if len(tx.FileContracts) > 0 {
				switch rng.IntN(3) {
				case 0:
					tx.FileContracts[0].WindowEnd = tx.FileContracts[0].WindowStart
				case 1:
					tx.FileContracts[0].Payout = tx.FileContracts[0].Payout.Add(types.NewCurrency64(1))
				default:
					tx.FileContracts[0].WindowStart = 0
				}
				changed = true
				break
			}
			if len(tx.FileContractRevisions) > 0 {
				tx.FileContractRevisions[0].FileContract.RevisionNumber = 0
				changed = true
				break
			}
		}
		if !changed && b.V2 != nil {
			for i := range b.V2.Transactions {
				tx := &b.V2.Transactions[i]
				if len(tx.FileContracts) > 0 {
					tx.FileContracts[0].ExpirationHeight = tx.FileContracts[0].ProofHeight
					changed = true
					break
				}
				if len(tx.FileContractRevisions) > 0 {
					tx.FileContractRevisions[0].Revision.RevisionNumber = 0
					changed = true
					break
				}
				if len(tx.FileContractResolutions) > 0 {
					if r, ok := tx.FileContractResolutions[0].Resolution.(*types.V2FileContractRenewal); ok {
						c := *r
						c.HostRollover = c.HostRollover.Add(types.NewCurrency64(1))
						tx.FileContractResolutions[0].Resolution = &c
						changed = true
						break
					}
				}
			}
		}
	case "proof-leaf":
		for i := range b.Transactions {
			if len(b.Transactions[i].StorageProofs) > 0 {
				b.Transactions[i].StorageProofs[0].Leaf[rng.IntN(64)] ^= 1
				changed = true
				break
			}
		}
		if !changed && b.V2 != nil {
			for i := range b.V2.Transactions {
				tx := &b.V2.Transactions[i]
				if len(tx.FileContractResolutions) > 0 {
					if r, ok := tx.FileContractResolutions[0].Resolution.(*types.V2StorageProof); ok {
						c := *r
						c.Leaf[rng.IntN(64)] ^= 1
						tx.FileContractResolutions[0].Resolution = &c
						changed = true
						break
					}
				}
			}
		}
	case "v1-after-require":
		if p.Height+1 >= t.Env.Net.HardforkV2.RequireHeight && len(b.Transactions) == 0 {
			b.Transactions = []types.Transaction{{ArbitraryData: [][]byte{[]byte("NonSia v1 after require")}}}
			changed = true
		}
	}
	if !changed {
		return nil
	}
	if remine {
		if b.V2 != nil {
			b.V2.Commitment = ps.Commitment(b.MinerPayouts[0].Address, b.Transactions, b.V2Transactions())
		}
		MineNonce(ps, &b)
	}
	if b.ID() == n.ID {
		return nil
	}
	tag := op
	if remine {
		tag += "+remined"
	}
	return t.Attach(p, b, tag, n.Kinds)
}
