package chainlab

import (
	"fmt"

	"go.sia.tech/core/consensus"
	"go.sia.tech/core/types"
	"go.sia.tech/coreutils/chain"
)

// A Follower is a subscriber of Manager.UpdatesSince: it folds the element
// diffs of the updates into a shadow ledger and moves every held proof with
// UpdateElementProof, exactly the way the repository's own wallet does
// (apply: update proofs, then add created / remove spent; revert: remove
// created / restore spent, then update proofs).
type Follower struct {
	Index types.ChainIndex
	SC    map[types.SiacoinOutputID]types.SiacoinElement
	SF    map[types.SiafundOutputID]types.SiafundElement
	FC    map[types.FileContractID]types.FileContractElement
	V2FC  map[types.FileContractID]types.V2FileContractElement

	Applied, Reverted int
}

// NewFollower returns a subscriber that has seen nothing.
func NewFollower() *Follower {
	return &Follower{
		SC:   map[types.SiacoinOutputID]types.SiacoinElement{},
		SF:   map[types.SiafundOutputID]types.SiafundElement{},
		FC:   map[types.FileContractID]types.FileContractElement{},
		V2FC: map[types.FileContractID]types.V2FileContractElement{},
	}
}

type proofUpdater interface {
	UpdateElementProof(e *types.StateElement)
}

func (f *Follower) updateProofs(u proofUpdater) {
	for id, e := range f.SC {
		u.UpdateElementProof(&e.StateElement)
		f.SC[id] = e
	}
	for id, e := range f.SF {
		u.UpdateElementProof(&e.StateElement)
		f.SF[id] = e
	}
	for id, e := range f.FC {
		u.UpdateElementProof(&e.StateElement)
		f.FC[id] = e
	}
	for id, e := range f.V2FC {
		u.UpdateElementProof(&e.StateElement)
		f.V2FC[id] = e
	}
}

func (f *Follower) apply(au chain.ApplyUpdate) {
	f.updateProofs(au)
	for _, d := range au.SiacoinElementDiffs() {
		switch {
		case d.Created && d.Spent:
		case d.Spent:
			delete(f.SC, d.SiacoinElement.ID)
		default:
			f.SC[d.SiacoinElement.ID] = d.SiacoinElement.Copy()
		}
	}
	for _, d := range au.SiafundElementDiffs() {
		switch {
		case d.Created && d.Spent:
		case d.Spent:
			delete(f.SF, d.SiafundElement.ID)
		default:
			f.SF[d.SiafundElement.ID] = d.SiafundElement.Copy()
		}
	}
	for _, d := range au.FileContractElementDiffs() {
		fce := d.FileContractElement.Copy()
		switch {
		case d.Created && d.Resolved:
		case d.Resolved:
			delete(f.FC, fce.ID)
		case d.Revision != nil:
			fce.FileContract = *d.Revision
			f.FC[fce.ID] = fce
		default:
			f.FC[fce.ID] = fce
		}
	}
	for _, d := range au.V2FileContractElementDiffs() {
		fce := d.V2FileContractElement.Copy()
		switch {
		case d.Created && d.Resolution != nil:
		case d.Resolution != nil:
			delete(f.V2FC, fce.ID)
		case d.Revision != nil:
			fce.V2FileContract = *d.Revision
			f.V2FC[fce.ID] = fce
		default:
			f.V2FC[fce.ID] = fce
		}
	}
	f.Index = au.State.Index
	f.Applied++
}

func (f *Follower) revert(ru chain.RevertUpdate) {
	for _, d := range ru.SiacoinElementDiffs() {
		switch {
		case d.Created && d.Spent:
		case d.Spent:
			f.SC[d.SiacoinElement.ID] = d.SiacoinElement.Copy()
		default:
			delete(f.SC, d.SiacoinElement.ID)
		}
	}
	for _, d := range ru.SiafundElementDiffs() {
		switch {
		case d.Created && d.Spent:
		case d.Spent:
			f.SF[d.SiafundElement.ID] = d.SiafundElement.Copy()
		default:
			delete(f.SF, d.SiafundElement.ID)
		}
	}
	for _, d := range ru.FileContractElementDiffs() {
		fce := d.FileContractElement.Copy()
		switch {
		case d.Created && d.Resolved:
		case d.Created:
			delete(f.FC, fce.ID)
		default:
			// resolved or revised: the diff carries the prior contract
			f.FC[fce.ID] = fce
		}
	}
	for _, d := range ru.V2FileContractElementDiffs() {
		fce := d.V2FileContractElement.Copy()
		switch {
		case d.Created && d.Resolution != nil:
		case d.Created:
			delete(f.V2FC, fce.ID)
		default:
			f.V2FC[fce.ID] = fce
		}
	}
	f.updateProofs(ru)
	f.Index = ru.State.Index
	f.Reverted++
}

// Fold applies the result of one UpdatesSince call.
func (f *Follower) Fold(rus []chain.RevertUpdate, aus []chain.ApplyUpdate) (err error) {
	defer func() {
		if p := recover(); p != nil {
			err = fmt.Errorf("folding updates panicked: %v", p)
		}
	}()
	for _, ru := range rus {
		f.revert(ru)
	}
	for _, au := range aus {
		f.apply(au)
	}
	return nil
}

// CompareLedger reports the first difference between the follower's shadow
// ledger and the pure ledger l (sets, contents, leaf indices, proofs), and
// checks that every held proof verifies against l's accumulator.
func (f *Follower) CompareLedger(l *Ledger) string {
	if f.Index != l.State.Index {
		return fmt.Sprintf("follower is at %v, ledger at %v", f.Index, l.State.Index)
	}
	if len(f.SC) != len(l.SC) || len(f.SF) != len(l.SF) || len(f.FC) != len(l.FC) || len(f.V2FC) != len(l.V2FC) {
		return fmt.Sprintf("element counts differ: follower %d/%d/%d/%d, ledger %d/%d/%d/%d", len(f.SC), len(f.SF), len(f.FC), len(f.V2FC), len(l.SC), len(l.SF), len(l.FC), len(l.V2FC))
	}
	for id, e := range f.SC {
		if w, ok := l.SC[id]; !ok || encode(e) != encode(w) {
			return fmt.Sprintf("siacoin element %v differs (present in ledger: %v, follower leaf %d / ledger leaf %d)", id, ok, e.StateElement.LeafIndex, w.StateElement.LeafIndex)
		}
	}
	for id, e := range f.SF {
		if w, ok := l.SF[id]; !ok || encode(e) != encode(w) {
			return fmt.Sprintf("siafund element %v differs (present in ledger: %v)", id, ok)
		}
	}
	for id, e := range f.FC {
		if w, ok := l.FC[id]; !ok || encode(e) != encode(w) {
			return fmt.Sprintf("file contract %v differs (present in ledger: %v)", id, ok)
		}
	}
	for id, e := range f.V2FC {
		if w, ok := l.V2FC[id]; !ok || encode(e) != encode(w) {
			return fmt.Sprintf("v2 file contract %v differs (present in ledger: %v)", id, ok)
		}
	}
	var txn types.V2Transaction
	for _, e := range f.SC {
		txn.SiacoinInputs = append(txn.SiacoinInputs, types.V2SiacoinInput{Parent: e.Copy()})
	}
	for _, e := range f.SF {
		txn.SiafundInputs = append(txn.SiafundInputs, types.V2SiafundInput{Parent: e.Copy()})
	}
	for _, e := range f.V2FC {
		txn.FileContractRevisions = append(txn.FileContractRevisions, types.V2FileContractRevision{Parent: e.Copy()})
	}
	if err := l.State.Elements.ValidateTransactionElements(txn); err != nil {
		return "a held proof does not verify against the tip accumulator: " + err.Error()
	}
	return ""
}

// CheckPoll verifies the shape of one UpdatesSince result against the tree:
// at most max updates; reverts first, walking parent by parent from index;
// applies attach where the reverts ended and climb one height at a time; every
// State is the pure state. It returns the index the poll leaves the subscriber
// at.
func CheckPoll(t *Tree, index types.ChainIndex, max int, rus []chain.RevertUpdate, aus []chain.ApplyUpdate) (end types.ChainIndex, problem string) {
	if len(rus)+len(aus) > max {
		return index, fmt.Sprintf("returned %d updates, more than the %d requested", len(rus)+len(aus), max)
	}
	cur := index
	for i, ru := range rus {
		bid := ru.Block.ID()
		if bid != cur.ID {
			return cur, fmt.Sprintf("revert %d undoes block %v but the subscriber is at %v", i, bid, cur)
		}
		n := t.ByID[bid]
		if n == nil || n.Parent == nil {
			return cur, fmt.Sprintf("revert %d undoes an unknown block %v", i, bid)
		}
		if ru.State.Index != n.Parent.L.State.Index || StateBytes(ru.State) != StateBytes(n.Parent.L.State) {
			return cur, fmt.Sprintf("revert %d: State is not the pure state of the parent of node %d", i, n.Idx)
		}
		cur = ru.State.Index
	}
	for i, au := range aus {
		n := t.ByID[au.Block.ID()]
		if n == nil || n.L == nil {
			return cur, fmt.Sprintf("apply %d delivers an unknown or invalid block %v", i, au.Block.ID())
		}
		if cur == (types.ChainIndex{}) {
			if n != t.Root {
				return cur, fmt.Sprintf("apply %d from nothing does not start with genesis", i)
			}
		} else if au.Block.ParentID != cur.ID || n.Height != cur.Height+1 {
			return cur, fmt.Sprintf("apply %d (node %d at height %d) does not attach to %v", i, n.Idx, n.Height, cur)
		}
		if au.State.Index != n.L.State.Index || StateBytes(au.State) != StateBytes(n.L.State) {
			return cur, fmt.Sprintf("apply %d: State is not the pure state of node %d", i, n.Idx)
		}
		cur = au.State.Index
	}
	return cur, ""
}

var _ = consensus.State{}
