package chainlab

import (
	"time"

	"go.sia.tech/core/consensus"
	"go.sia.tech/core/types"
	"go.sia.tech/coreutils/chain"
)

// A RecordingStore wraps a chain.Store and records the tip trajectory: the
// index the store is at after every ApplyBlock/RevertBlock. InBlockOp is true
// while an apply/revert is executing (a flush seen then is a commit point
// inside a reorg).
type RecordingStore struct {
	Inner     chain.Store
	Cur       types.ChainIndex
	InBlockOp bool
	Applies   int
	Reverts   int

	// optional hooks, called (under the manager's lock, like every store
	// access) before the call is passed on
	OnBestIndex  func(height uint64)
	OnBlock      func(id types.BlockID)
	OnPruneBlock func(id types.BlockID)
}

func (s *RecordingStore) BestIndex(height uint64) (types.ChainIndex, bool) {
	if s.OnBestIndex != nil {
		s.OnBestIndex(height)
	}
	return s.Inner.BestIndex(height)
}
func (s *RecordingStore) SupplementTipTransaction(txn types.Transaction) consensus.V1TransactionSupplement {
	return s.Inner.SupplementTipTransaction(txn)
}
func (s *RecordingStore) SupplementTipBlock(b types.Block) consensus.V1BlockSupplement {
	return s.Inner.SupplementTipBlock(b)
}
func (s *RecordingStore) Block(id types.BlockID) (types.Block, *consensus.V1BlockSupplement, bool) {
	if s.OnBlock != nil {
		s.OnBlock(id)
	}
	return s.Inner.Block(id)
}
func (s *RecordingStore) Header(id types.BlockID) (types.BlockHeader, bool) {
	return s.Inner.Header(id)
}
func (s *RecordingStore) AddBlock(b types.Block, bs *consensus.V1BlockSupplement) {
	s.Inner.AddBlock(b, bs)
}
func (s *RecordingStore) PruneBlock(id types.BlockID) {
	if s.OnPruneBlock != nil {
		s.OnPruneBlock(id)
	}
	s.Inner.PruneBlock(id)
}
func (s *RecordingStore) State(id types.BlockID) (consensus.State, bool) { return s.Inner.State(id) }
func (s *RecordingStore) AddState(cs consensus.State)                    { s.Inner.AddState(cs) }
func (s *RecordingStore) AncestorTimestamp(id types.BlockID) (time.Time, bool) {
	return s.Inner.AncestorTimestamp(id)
}
func (s *RecordingStore) ExpiringFileContractIDs(height uint64) []types.FileContractID {
	return s.Inner.ExpiringFileContractIDs(height)
}
func (s *RecordingStore) OverwriteExpiringFileContractIDs(height uint64, ids []types.FileContractID) {
	s.Inner.OverwriteExpiringFileContractIDs(height, ids)
}

// ApplyBlock implements chain.Store.
func (s *RecordingStore) ApplyBlock(cs consensus.State, cau consensus.ApplyUpdate) {
	s.Cur = cs.Index
	s.Applies++
	s.InBlockOp = true
	s.Inner.ApplyBlock(cs, cau)
	s.InBlockOp = false
}

// RevertBlock implements chain.Store.
func (s *RecordingStore) RevertBlock(cs consensus.State, cru consensus.RevertUpdate) {
	s.Cur = cs.Index
	s.Reverts++
	s.InBlockOp = true
	s.Inner.RevertBlock(cs, cru)
	s.InBlockOp = false
}

// Flush implements chain.Store.
func (s *RecordingStore) Flush() error { return s.Inner.Flush() }

// NewTestNodeRec opens a node whose manager talks to the store through a
// RecordingStore.
func NewTestNodeRec(env *Env, db chain.DB, opts ...chain.ManagerOption) (*TestNode, *RecordingStore, error) {
	if db == nil {
		db = chain.NewMemDB()
	}
	sh, ok := db.(*ShadowDB)
	if !ok {
		sh = NewShadowDB(db)
	}
	store, tip, err := chain.NewDBStore(sh, env.Net, env.Genesis, nil)
	if err != nil {
		return nil, nil, err
	}
	rec := &RecordingStore{Inner: store, Cur: tip.Index}
	return &TestNode{Env: env, Shadow: sh, Store: store, CM: chain.NewManager(rec, tip, opts...)}, rec, nil
}
