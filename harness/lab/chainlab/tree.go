package chainlab

import (
	"fmt"
	"math/rand/v2"
	"time"

	"go.sia.tech/core/consensus"
	"go.sia.tech/core/types"
)

// A Node is one block of a generated fork tree, labelled by the pure oracle.
type Node struct {
	Idx    int
	ID     types.BlockID
	Block  types.Block
	Parent *Node
	Height uint64

	// OrphanValid: passes consensus.ValidateOrphan against the parent's
	// header-derived state (what AddBlocks checks before storing).
	OrphanValid bool
	// Valid: the block is fully valid on top of a fully valid parent chain.
	Valid bool
	// ChainValid: every block from genesis to this one is Valid.
	ChainValid bool
	Err        string
	Future     bool // timestamp beyond the future-block allowance
	Corruption string
	Kinds      []string

	L      *Ledger         // non-nil iff ChainValid
	Ghost  *Ledger         // see Tree.GhostLedger
	HState consensus.State // header-derived state (total work, targets, timestamps)

	Children []*Node
}

// State returns the best available state for the node.
func (n *Node) State() consensus.State {
	if n.L != nil {
		return n.L.State
	}
	return n.HState
}

// PathFromGenesis returns the nodes from height 1 up to n.
func (n *Node) PathFromGenesis() []*Node {
	var p []*Node
	for x := n; x != nil && x.Parent != nil; x = x.Parent {
		p = append(p, x)
	}
	for i, j := 0, len(p)-1; i < j; i, j = i+1, j-1 {
		p[i], p[j] = p[j], p[i]
	}
	return p
}

// Blocks returns the blocks of a node slice.
func Blocks(ns []*Node) []types.Block {
	out := make([]types.Block, len(ns))
	for i, n := range ns {
		out[i] = n.Block
	}
	return out
}

// A Tree is a generated fork tree rooted at genesis.
type Tree struct {
	Env   *Env
	Root  *Node
	Nodes []*Node
	ByID  map[types.BlockID]*Node
	Rng   *rand.Rand
}

// NewTree creates a tree holding only genesis.
func NewTree(env *Env, rng *rand.Rand) *Tree {
	l := GenesisLedger(env)
	root := &Node{ID: env.Genesis.ID(), Block: env.Genesis, OrphanValid: true, Valid: true, ChainValid: true, L: l, HState: l.State}
	t := &Tree{Env: env, Root: root, ByID: map[types.BlockID]*Node{root.ID: root}, Rng: rng}
	t.Nodes = append(t.Nodes, root)
	return t
}

// nextTimestamp picks a timestamp for a child of parent: normally one block
// interval after the parent's, with PRNG jitter so sibling branches differ in
// work.
func (t *Tree) nextTimestamp(parent *Node, jitter bool) time.Time {
	ts := parent.Block.Timestamp.Add(t.Env.Net.BlockInterval)
	if jitter {
		switch t.Rng.IntN(6) {
		case 0:
			ts = parent.Block.Timestamp.Add(t.Env.Net.BlockInterval / 4)
		case 1:
			ts = parent.Block.Timestamp.Add(t.Env.Net.BlockInterval * 3)
		case 2:
			ts = parent.Block.Timestamp.Add(t.Env.Net.BlockInterval * time.Duration(1+t.Rng.IntN(4)) / 2)
		}
	}
	// never before the median of previous timestamps (would be invalid)
	return ts
}

// Attach labels block b as a child of parent and adds it to the tree.
func (t *Tree) Attach(parent *Node, b types.Block, corruption string, kinds []string) *Node {
	id := b.ID()
	if n, ok := t.ByID[id]; ok {
		return n
	}
	n := &Node{Idx: len(t.Nodes), ID: id, Block: b, Parent: parent, Height: parent.Height + 1, Corruption: corruption, Kinds: kinds}
	ps := parent.State()
	n.Future = b.Timestamp.After(time.Now().Add(2 * time.Hour))
	func() {
		defer func() {
			if p := recover(); p != nil {
				n.Err = fmt.Sprint("orphan validation panicked: ", p)
			}
		}()
		if b.ParentID != parent.ID {
			n.Err = "wrong parent id"
			return
		}
		if err := consensus.ValidateOrphan(ps, b); err != nil {
			n.Err = err.Error()
			return
		}
		n.OrphanValid = true
	}()
	if n.OrphanValid {
		n.HState = consensus.ApplyHeader(ps, b.Header(), t.Env.TargetTimestamp(ps))
	}
	if parent.ChainValid && n.OrphanValid {
		l, err := parent.L.Apply(b)
		if err != nil {
			n.Err = err.Error()
		} else {
			n.Valid, n.ChainValid, n.L = true, true, l
		}
	} else if n.OrphanValid && n.Err == "" {
		n.Err = "descends from an invalid block"
	}
	parent.Children = append(parent.Children, n)
	t.Nodes = append(t.Nodes, n)
	t.ByID[id] = n
	return n
}

// Profile biases the transaction kinds of generated block bodies.
type Profile struct {
	MaxTxns     int
	WalletHeavy bool // the wallet actor takes part in most transactions
	NoContracts bool
	// FarSharedEnds: v1 contracts share three far window ends (see Builder.FarEnds)
	FarSharedEnds bool
	// V1ContractHeavy biases v1 bodies towards contract formation/revision/proofs
	V1ContractHeavy bool
}

// RandomBody fills a builder with PRNG-chosen transactions appropriate to the
// child height, coverage-biased so that every kind shows up regularly.
func (t *Tree) RandomBody(b *Builder, prof Profile) {
	n := prof.MaxTxns
	if n == 0 {
		n = 4
	}
	n = t.Rng.IntN(n + 1)
	actor := func() *Actor {
		if prof.WalletHeavy && t.Rng.IntN(3) != 0 {
			return t.Env.A(Wallet)
		}
		return b.randActor()
	}
	party := func() (*Actor, *Actor) {
		r, h := t.Env.A(Renter), t.Env.A(Host)
		if prof.WalletHeavy {
			switch t.Rng.IntN(4) {
			case 0:
				r = t.Env.A(Wallet)
			case 1:
				h = t.Env.A(Wallet)
			case 2:
				// both payouts of one contract go to the wallet
				r, h = t.Env.A(Wallet), t.Env.A(Wallet)
			}
		}
		return r, h
	}
	// rarely: move the Foundation address to another actor (and later back)
	if t.Rng.IntN(25) == 0 {
		to := b.randActor(Miner)
		if b.V1Allowed() && (!b.V2Allowed() || t.Rng.IntN(2) == 0) {
			b.V1FoundationUpdate(to)
		}
	}
	foundationV2 := b.V2Allowed() && t.Rng.IntN(25) == 0
	// v1 phase
	if b.V1Allowed() {
		nv1 := n
		if b.V2Allowed() {
			nv1 = t.Rng.IntN(n + 1)
		}
		for i := 0; i < nv1; i++ {
			k := t.Rng.IntN(12)
			if prof.V1ContractHeavy && k < 4 && t.Rng.IntN(2) == 0 {
				k = 5 + t.Rng.IntN(7)
			}
			switch {
			case k < 4:
				b.V1Spend(actor(), 0.4)
			case k < 5:
				b.V1SiafundSpend(actor())
			case k < 7 && !prof.NoContracts:
				r, h := party()
				id, ok := b.V1Form(r, h, uint64(1+t.Rng.IntN(4)), uint64(1+t.Rng.IntN(3)), t.Rng.IntN(2) == 0)
				if ok && t.Rng.IntN(4) == 0 {
					// formed and revised within one block
					b.V1Revise(v1Cand{id, b.EphFC[id], true}, t.Rng.IntN(2) == 0)
				}
			case k < 9:
				if cs := b.v1Contracts(); len(cs) > 0 {
					b.V1Revise(cs[t.Rng.IntN(len(cs))], t.Rng.IntN(2) == 0)
				}
			default:
				for _, c := range b.v1Contracts() {
					if !c.Eph && c.FC.WindowStart <= b.L.Height() && t.Rng.IntN(2) == 0 {
						b.V1Prove(c)
						break
					}
				}
			}
		}
		n -= nv1
	}
	if b.V2Allowed() {
		if foundationV2 {
			b.V2FoundationUpdate(b.randActor(Miner))
		}
		for i := 0; i < n; i++ {
			switch k := t.Rng.IntN(16); {
			case k < 5:
				b.V2Spend(actor(), 0.4)
			case k < 6:
				b.V2SiafundSpend(actor())
			case k < 8 && !prof.NoContracts:
				r, h := party()
				b.V2Form(r, h, uint64(1+t.Rng.IntN(4)), uint64(1+t.Rng.IntN(3)), t.Rng.IntN(3) != 0)
			case k < 10:
				if cs := b.v2Contracts(); len(cs) > 0 {
					e := cs[t.Rng.IntN(len(cs))]
					// consensus lets one block revise a contract and then renew it
					// (the renewal names the element as it was before the block):
					// the block's single diff for the contract then carries a
					// revision AND a resolution
					if b.V2Revise(e) && t.Rng.IntN(3) == 0 {
						if b.V2Renew(e) {
							b.Kinds = append(b.Kinds, "v2-revised-and-renewed-in-one-block")
						}
					}
				}
			case k < 11:
				if cs := b.v2Contracts(); len(cs) > 0 {
					b.V2Renew(cs[t.Rng.IntN(len(cs))])
				}
			case k < 14:
				for _, c := range b.v2Contracts() {
					if b.V2Prove(c) || b.V2Expire(c) {
						break
					}
				}
			default:
				b.V2Attest(actor())
			}
		}
	}
}

// minerFor picks the miner payout address.
func (t *Tree) minerFor(prof Profile) types.Address {
	if prof.WalletHeavy && t.Rng.IntN(3) == 0 {
		return t.Env.A(Wallet).Addr
	}
	if t.Rng.IntN(5) == 0 {
		return t.Env.Actors[t.Rng.IntN(len(t.Env.Actors))].Addr
	}
	return t.Env.A(Miner).Addr
}

// Extend adds one valid block with a random body on top of parent (which must
// be chain-valid).
func (t *Tree) Extend(parent *Node, prof Profile) *Node {
	if !parent.ChainValid {
		return t.ExtendHeaderOnly(parent)
	}
	bb := parent.L.NewBuilder(t.Rng)
	bb.FarEnds = prof.FarSharedEnds
	passThrough := prof.WalletHeavy && t.Rng.IntN(7) == 0
	if passThrough {
		// a block in which the wallet only passes one output through: it gains
		// and loses it within the block, keeps nothing, and is not the miner
		passThrough = bb.PassThrough(t.Env.A(Wallet))
	}
	if !passThrough {
		t.RandomBody(bb, prof)
	}
	child := parent.Height + 1
	v2 := child >= t.Env.Net.HardforkV2.AllowHeight && (child >= t.Env.Net.HardforkV2.RequireHeight || t.Rng.IntN(3) != 0)
	miner := t.minerFor(prof)
	if passThrough {
		miner = t.Env.A(Miner).Addr
	}
	blk := bb.Seal(t.nextTimestamp(parent, true), miner, v2)
	if blk.V2 == nil && !passThrough && t.Rng.IntN(4) == 0 {
		// v1 blocks may split the miner payout over several outputs
		half := blk.MinerPayouts[0].Value.Div64(2)
		if !half.IsZero() {
			blk.MinerPayouts[0].Value = blk.MinerPayouts[0].Value.Sub(half)
			blk.MinerPayouts = append(blk.MinerPayouts, types.SiacoinOutput{Address: t.minerFor(prof), Value: half})
			MineNonce(parent.L.State, &blk)
			bb.Kinds = append(bb.Kinds, "two-miner-payouts")
		}
	}
	return t.Attach(parent, blk, "", bb.Kinds)
}

// ExtendEmpty adds a block without transactions.
func (t *Tree) ExtendEmpty(parent *Node, ts time.Time) *Node {
	if ts.IsZero() {
		ts = t.nextTimestamp(parent, false)
	}
	child := parent.Height + 1
	blk := t.Env.SealBlock(parent.State(), ts, t.Env.A(Miner).Addr, nil, nil, child >= t.Env.Net.HardforkV2.AllowHeight)
	return t.Attach(parent, blk, "", nil)
}

// GhostLedger returns the ledger obtained by applying the chain up to n without
// validating the blocks that are not chain-valid (nil if that is impossible).
// For chain-valid nodes it is the real ledger.
func (t *Tree) GhostLedger(n *Node) *Ledger {
	if n.L != nil {
		return n.L
	}
	if n.Ghost == nil && n.Parent != nil && n.OrphanValid {
		if pg := t.GhostLedger(n.Parent); pg != nil {
			n.Ghost = pg.ApplyUnchecked(n.Block)
		}
	}
	return n.Ghost
}

// ExtendGhost builds a block with a random body that is fully valid relative
// to the ghost ledger of parent (a chain containing a header-valid but invalid
// block, as a peer serving pre-validated chunks would continue it).
func (t *Tree) ExtendGhost(parent *Node, prof Profile) *Node {
	g := t.GhostLedger(parent)
	if g == nil {
		return nil
	}
	bb := g.NewBuilder(t.Rng)
	t.RandomBody(bb, prof)
	child := parent.Height + 1
	blk := bb.Seal(t.nextTimestamp(parent, true), t.minerFor(prof), child >= t.Env.Net.HardforkV2.AllowHeight)
	if g.Validate(blk) != nil {
		return nil
	}
	return t.Attach(parent, blk, "", append(bb.Kinds, "ghost"))
}

// ExtendHeaderOnly builds an (empty) block on a parent that is not chain-valid.
func (t *Tree) ExtendHeaderOnly(parent *Node) *Node {
	return t.ExtendEmpty(parent, time.Time{})
}

// Grow builds a random tree of about n nodes. Branch points are biased to the
// hardfork heights.
func (t *Tree) Grow(n int, prof Profile) {
	// a main line first so that hardfork heights are crossed
	tip := t.Root
	main := n/2 + 1
	for i := 0; i < main; i++ {
		tip = t.Extend(tip, prof)
	}
	A, R := t.Env.Net.HardforkV2.AllowHeight, t.Env.Net.HardforkV2.RequireHeight
	for len(t.Nodes) < n+1 {
		// choose a fork point
		var base *Node
		if t.Rng.IntN(2) == 0 && A < 1000 {
			want := []uint64{A - 1, A, R - 1, R, R + 1, A - 2}[t.Rng.IntN(6)]
			var cands []*Node
			for _, x := range t.Nodes {
				if x.Height == want && x.ChainValid {
					cands = append(cands, x)
				}
			}
			if len(cands) > 0 {
				base = cands[t.Rng.IntN(len(cands))]
			}
		}
		if base == nil {
			base = t.Nodes[t.Rng.IntN(len(t.Nodes))]
		}
		l := 1 + t.Rng.IntN(6)
		for i := 0; i < l && len(t.Nodes) < n+1; i++ {
			base = t.Extend(base, prof)
		}
	}
}

// Tips returns the leaves of the tree.
func (t *Tree) Tips() []*Node {
	var out []*Node
	for _, n := range t.Nodes {
		if len(n.Children) == 0 {
			out = append(out, n)
		}
	}
	return out
}

// Ancestor returns the ancestor of n at height h.
func (n *Node) Ancestor(h uint64) *Node {
	x := n
	for x != nil && x.Height > h {
		x = x.Parent
	}
	return x
}

// CommonAncestor returns the fork point of a and b.
func CommonAncestor(a, b *Node) *Node {
	for a.Height > b.Height {
		a = a.Parent
	}
	for b.Height > a.Height {
		b = b.Parent
	}
	for a != b {
		a, b = a.Parent, b.Parent
	}
	return a
}
