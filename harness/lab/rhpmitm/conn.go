// Package rhpmitm is the renter-side RHP4 lab: a v2-regime chain node (or two,
// for basis relations), funded host and renter wallets behind recording
// proxies, the honest in-repo rhp.Server, and an in-memory transport that sits
// between the real client functions and the real server as a man-in-the-middle.
//
// The transport parses every message of both directions with core's public
// rhp4.ReadRequest/ReadResponse into the typed message structs of the RPC in
// flight, hands it to a hook (which may mutate it, replace it by an RPCError,
// replace its wire bytes, cut the stream, or go silent) and re-encodes it.
package rhpmitm

import (
	"errors"
	"io"
	"net"
	"os"
	"sync"
	"time"
)

// pipeHalf is one direction of an in-memory stream: an unbounded byte queue.
// Writers never block (the real transports buffer too: a host that answers
// with an error before it consumed the whole request must not dead-lock the
// renter), readers block until data, close or deadline.
type pipeHalf struct {
	mu     sync.Mutex
	cond   *sync.Cond
	buf    []byte
	wclose bool // writer closed: reader drains the buffer, then gets io.EOF
	rclose bool // reader closed: writes fail
}

func newPipeHalf() *pipeHalf {
	h := &pipeHalf{}
	h.cond = sync.NewCond(&h.mu)
	return h
}

type memAddr string

func (a memAddr) Network() string { return "mem" }
func (a memAddr) String() string  { return string(a) }

// memConn is one end of an in-memory duplex stream.
type memConn struct {
	name string
	rd   *pipeHalf // we read from it
	wr   *pipeHalf // we write to it

	mu        sync.Mutex
	closed    bool
	closedCh  chan struct{}
	rdeadline time.Time
	rtimer    *time.Timer
	onClose   func() // called once, on the first Close
	peer      *memConn
	// onDeadline, if set, sees every SetDeadline call and may shorten it
	onDeadline func(t time.Time) time.Time
}

// newMemPipe returns the two ends of an in-memory duplex stream.
func newMemPipe(nameA, nameB string) (*memConn, *memConn) {
	ab, ba := newPipeHalf(), newPipeHalf()
	a := &memConn{name: nameA, rd: ba, wr: ab, closedCh: make(chan struct{})}
	b := &memConn{name: nameB, rd: ab, wr: ba, closedCh: make(chan struct{})}
	a.peer, b.peer = b, a
	return a, b
}

var errClosedConn = net.ErrClosed

func (c *memConn) Read(p []byte) (int, error) {
	if len(p) == 0 {
		return 0, nil
	}
	h := c.rd
	h.mu.Lock()
	defer h.mu.Unlock()
	for {
		if h.rclose {
			return 0, errClosedConn
		}
		if len(h.buf) > 0 {
			n := copy(p, h.buf)
			h.buf = h.buf[n:]
			if len(h.buf) == 0 {
				h.buf = nil
			}
			return n, nil
		}
		if h.wclose {
			return 0, io.EOF
		}
		c.mu.Lock()
		dl := c.rdeadline
		c.mu.Unlock()
		if !dl.IsZero() && !time.Now().Before(dl) {
			return 0, os.ErrDeadlineExceeded
		}
		h.cond.Wait()
	}
}

func (c *memConn) Write(p []byte) (int, error) {
	c.mu.Lock()
	closed := c.closed
	c.mu.Unlock()
	if closed {
		return 0, errClosedConn
	}
	h := c.wr
	h.mu.Lock()
	defer h.mu.Unlock()
	if h.wclose {
		return 0, errClosedConn
	}
	if h.rclose {
		return 0, io.ErrClosedPipe
	}
	h.buf = append(h.buf, p...)
	h.cond.Broadcast()
	return len(p), nil
}

// Close closes both directions of this end. Data already written stays
// readable by the peer, which then sees io.EOF.
func (c *memConn) Close() error {
	c.mu.Lock()
	if c.closed {
		c.mu.Unlock()
		return nil
	}
	c.closed = true
	close(c.closedCh)
	if c.rtimer != nil {
		c.rtimer.Stop()
	}
	fn := c.onClose
	c.mu.Unlock()

	c.wr.mu.Lock()
	c.wr.wclose = true
	c.wr.cond.Broadcast()
	c.wr.mu.Unlock()

	c.rd.mu.Lock()
	c.rd.rclose = true
	c.rd.buf = nil
	c.rd.cond.Broadcast()
	c.rd.mu.Unlock()

	if fn != nil {
		fn()
	}
	return nil
}

// Closed is closed once this end was closed.
func (c *memConn) Closed() <-chan struct{} { return c.closedCh }

// PeerClosed is closed once the other end was closed.
func (c *memConn) PeerClosed() <-chan struct{} { return c.peer.closedCh }

func (c *memConn) LocalAddr() net.Addr  { return memAddr(c.name) }
func (c *memConn) RemoteAddr() net.Addr { return memAddr(c.name + "-peer") }

func (c *memConn) SetDeadline(t time.Time) error {
	if c.onDeadline != nil {
		t = c.onDeadline(t)
	}
	return c.SetReadDeadline(t)
}

func (c *memConn) SetReadDeadline(t time.Time) error {
	c.mu.Lock()
	defer c.mu.Unlock()
	if c.closed {
		return errClosedConn
	}
	c.rdeadline = t
	if c.rtimer != nil {
		c.rtimer.Stop()
		c.rtimer = nil
	}
	if !t.IsZero() {
		d := time.Until(t)
		if d < 0 {
			d = 0
		}
		h := c.rd
		c.rtimer = time.AfterFunc(d, func() {
			h.mu.Lock()
			h.cond.Broadcast()
			h.mu.Unlock()
		})
	}
	return nil
}

// SetWriteDeadline is a no-op: writes never block.
func (c *memConn) SetWriteDeadline(time.Time) error { return nil }

var _ net.Conn = (*memConn)(nil)

var errDialInjected = errors.New("rhpmitm: injected stream-open failure")
