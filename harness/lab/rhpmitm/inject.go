package rhpmitm

import (
	"errors"
	"sort"
	"sync"

	"go.sia.tech/core/consensus"
	"go.sia.tech/core/types"
	"go.sia.tech/coreutils/chain"
	rhp "go.sia.tech/coreutils/rhp/v4"
	"go.sia.tech/coreutils/testutil"
)

// ErrInjected is the error returned by an armed interface call.
var ErrInjected = errors.New("rhpmitm: injected interface failure")

// An Injector counts the calls the RPC code makes on the interfaces it was
// given (chain manager, contractor, wallet, syncer on the host side; pool and
// signer on the renter side) and can make the k-th call of one method fail.
// Method names are "<side>.<interface>.<method>".
type Injector struct {
	mu     sync.Mutex
	active bool
	counts map[string]int
	order  []string
	method string
	occ    int
	fired  bool
}

// NewInjector returns an idle injector.
func NewInjector() *Injector { return &Injector{counts: map[string]int{}} }

// Begin starts counting for one attempt; if method != "" its occ-th call fails.
func (i *Injector) Begin(method string, occ int) {
	i.mu.Lock()
	i.active, i.counts, i.order = true, map[string]int{}, nil
	i.method, i.occ, i.fired = method, occ, false
	i.mu.Unlock()
}

// End stops counting and returns the per-method call counts, the order in
// which methods were first called, and whether the armed failure fired.
func (i *Injector) End() (counts map[string]int, order []string, fired bool) {
	i.mu.Lock()
	defer i.mu.Unlock()
	i.active = false
	return i.counts, i.order, i.fired
}

// Hit is called by a proxy before it forwards a call.
func (i *Injector) Hit(method string) error {
	if i == nil {
		return nil
	}
	i.mu.Lock()
	defer i.mu.Unlock()
	if !i.active {
		return nil
	}
	if i.counts[method] == 0 {
		i.order = append(i.order, method)
	}
	i.counts[method]++
	if method == i.method && i.counts[method] == i.occ {
		i.fired = true
		return ErrInjected
	}
	return nil
}

// SortedMethods returns the keys of a count map in sorted order.
func SortedMethods(counts map[string]int) []string {
	ks := make([]string, 0, len(counts))
	for k := range counts {
		ks = append(ks, k)
	}
	sort.Strings(ks)
	return ks
}

// HostChain is the host's rhp.ChainManager with injectable failures.
type HostChain struct {
	CM  *chain.Manager
	Inj *Injector
}

// Tip implements rhp.ChainManager.
func (h *HostChain) Tip() types.ChainIndex { return h.CM.Tip() }

// TipState implements rhp.ChainManager.
func (h *HostChain) TipState() consensus.State { return h.CM.TipState() }

// RecommendedFee implements rhp.ChainManager.
func (h *HostChain) RecommendedFee() types.Currency { return h.CM.RecommendedFee() }

// V2TransactionSet implements rhp.ChainManager.
func (h *HostChain) V2TransactionSet(basis types.ChainIndex, txn types.V2Transaction) (types.ChainIndex, []types.V2Transaction, error) {
	if err := h.Inj.Hit("host.chain.V2TransactionSet"); err != nil {
		return types.ChainIndex{}, nil, err
	}
	return h.CM.V2TransactionSet(basis, txn)
}

// AddV2PoolTransactions implements rhp.ChainManager.
func (h *HostChain) AddV2PoolTransactions(basis types.ChainIndex, txns []types.V2Transaction) (bool, error) {
	if err := h.Inj.Hit("host.chain.AddV2PoolTransactions"); err != nil {
		return false, err
	}
	return h.CM.AddV2PoolTransactions(basis, txns)
}

// UpdateV2TransactionSet implements rhp.ChainManager.
func (h *HostChain) UpdateV2TransactionSet(txns []types.V2Transaction, from, to types.ChainIndex) ([]types.V2Transaction, error) {
	if err := h.Inj.Hit("host.chain.UpdateV2TransactionSet"); err != nil {
		return nil, err
	}
	// the interface allows an EMPTY result without error ("any transactions
	// that were confirmed are removed from the set")
	if err := h.Inj.Hit("host.chain.UpdateV2TransactionSet!empty-result"); err != nil {
		return []types.V2Transaction{}, nil
	}
	return h.CM.UpdateV2TransactionSet(txns, from, to)
}

var _ rhp.ChainManager = (*HostChain)(nil)

// RenterPool is the renter's rhp.TxPool with injectable failures.
type RenterPool struct {
	CM  *chain.Manager
	Inj *Injector
}

// V2TransactionSet implements rhp.TxPool.
func (p *RenterPool) V2TransactionSet(basis types.ChainIndex, txn types.V2Transaction) (types.ChainIndex, []types.V2Transaction, error) {
	if err := p.Inj.Hit("renter.pool.V2TransactionSet"); err != nil {
		return types.ChainIndex{}, nil, err
	}
	return p.CM.V2TransactionSet(basis, txn)
}

var _ rhp.TxPool = (*RenterPool)(nil)

// failingSyncer is the wallet's syncer with injectable failures.
type failingSyncer struct {
	testutil.MockSyncer
	name string
	inj  **Injector
}

func (s *failingSyncer) BroadcastV2TransactionSet(index types.ChainIndex, txns []types.V2Transaction) error {
	if err := (*s.inj).Hit(s.name + ".syncer.BroadcastV2TransactionSet"); err != nil {
		return err
	}
	return nil
}
