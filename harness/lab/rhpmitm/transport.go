package rhpmitm

import (
	"context"
	"errors"
	"io"
	"net"
	"sync"
	"sync/atomic"
	"time"

	rhp4 "go.sia.tech/core/rhp/v4"
	"go.sia.tech/core/types"
)

// Transport is the in-memory man-in-the-middle transport. Its client side
// implements rhp.TransportClient, Mux() returns the rhp.TransportMux the
// server is served on.
type Transport struct {
	hostKey types.PublicKey

	mu        sync.Mutex
	cond      *sync.Cond
	hook      Hook
	failDial  int // number of upcoming DialStream calls that fail
	nstream   int
	openHost  int // server-side conns handed to the server and not yet closed by it
	openPumps int
	closed    bool
	accept    chan net.Conn
	closeCh   chan struct{}
	dialed    int
	dialFails int
	// deadline observation on the renter's end of the last stream
	deadlineCap   time.Duration
	deadlineArmed bool
	lastRenterEnd *memConn
}

// NewTransport creates a transport for a host with the given key.
func NewTransport(hostKey types.PublicKey) *Transport {
	t := &Transport{
		hostKey: hostKey,
		accept:  make(chan net.Conn, 64),
		closeCh: make(chan struct{}),
	}
	t.cond = sync.NewCond(&t.mu)
	return t
}

// SetHook installs the hook for all streams opened afterwards (nil: transparent).
func (t *Transport) SetHook(h Hook) {
	t.mu.Lock()
	t.hook = h
	t.mu.Unlock()
}

// FailNextDials makes the next n DialStream calls fail.
func (t *Transport) FailNextDials(n int) {
	t.mu.Lock()
	t.failDial = n
	t.mu.Unlock()
}

// Dials returns the number of successful and failed DialStream calls so far.
func (t *Transport) Dials() (ok, failed int) {
	t.mu.Lock()
	defer t.mu.Unlock()
	return t.dialed, t.dialFails
}

// SetDeadlineCap compresses every deadline the renter arms on its stream to at
// most d (0: leave it alone), so that a default stream timeout of minutes can
// be observed in milliseconds.
func (t *Transport) SetDeadlineCap(d time.Duration) {
	t.mu.Lock()
	t.deadlineCap = d
	t.mu.Unlock()
}

// DeadlineArmed reports whether a non-zero deadline was set on the renter's
// end of the most recently dialed stream.
func (t *Transport) DeadlineArmed() bool {
	t.mu.Lock()
	defer t.mu.Unlock()
	return t.deadlineArmed
}

// KillLastStream closes the renter's end of the most recently dialed stream
// (to get a call back that would otherwise block for ever).
func (t *Transport) KillLastStream() {
	t.mu.Lock()
	c := t.lastRenterEnd
	t.mu.Unlock()
	if c != nil {
		c.Close()
	}
}

// ---- rhp.TransportClient ----

// DialStream opens a new stream through the man-in-the-middle.
func (t *Transport) DialStream(ctx context.Context) (net.Conn, error) {
	t.mu.Lock()
	if t.closed {
		t.mu.Unlock()
		return nil, net.ErrClosed
	}
	if t.failDial > 0 {
		t.failDial--
		t.dialFails++
		t.mu.Unlock()
		return nil, errDialInjected
	}
	t.nstream++
	t.dialed++
	id := t.nstream
	hook := t.hook
	t.openHost++
	t.openPumps += 2
	t.mu.Unlock()

	renterEnd, mitmR := newMemPipe("renter", "mitm-r")
	mitmH, hostEnd := newMemPipe("mitm-h", "host")
	renterEnd.onDeadline = func(d time.Time) time.Time {
		t.mu.Lock()
		defer t.mu.Unlock()
		if d.IsZero() {
			return d
		}
		t.deadlineArmed = true
		if t.deadlineCap > 0 && time.Until(d) > t.deadlineCap {
			return time.Now().Add(t.deadlineCap) // compress the armed deadline
		}
		return d
	}
	t.mu.Lock()
	t.deadlineArmed, t.lastRenterEnd = false, renterEnd
	t.mu.Unlock()
	hostEnd.onClose = func() {
		t.mu.Lock()
		t.openHost--
		t.cond.Broadcast()
		t.mu.Unlock()
	}
	st := &stream{t: t, id: id, hook: hook, mr: mitmR, mh: mitmH, rpcKnown: make(chan struct{})}
	go st.pumpRenterToHost()
	go st.pumpHostToRenter()

	select {
	case t.accept <- hostEnd:
	case <-t.closeCh:
		renterEnd.Close()
		hostEnd.Close()
		mitmR.Close()
		mitmH.Close()
		return nil, net.ErrClosed
	}
	return renterEnd, nil
}

// FrameSize implements rhp.TransportClient.
func (t *Transport) FrameSize() int { return 4296 }

// PeerKey implements rhp.TransportClient.
func (t *Transport) PeerKey() types.PublicKey {
	t.mu.Lock()
	defer t.mu.Unlock()
	return t.hostKey
}

// SetPeerKey changes the identity the transport reports for its peer: the
// renter then talks to a peer whose transport key is NOT the host key of the
// contracts it uses (a contract of host A used over a connection to peer B).
func (t *Transport) SetPeerKey(k types.PublicKey) {
	t.mu.Lock()
	t.hostKey = k
	t.mu.Unlock()
}

// Close closes the transport (both sides).
func (t *Transport) Close() error {
	t.mu.Lock()
	if !t.closed {
		t.closed = true
		close(t.closeCh)
	}
	t.mu.Unlock()
	return nil
}

// ---- rhp.TransportMux ----

type muxSide struct{ t *Transport }

// Mux returns the server side of the transport.
func (t *Transport) Mux() interface {
	AcceptStream() (net.Conn, error)
	Close() error
} {
	return muxSide{t}
}

func (m muxSide) AcceptStream() (net.Conn, error) {
	select {
	case c := <-m.t.accept:
		return c, nil
	case <-m.t.closeCh:
		return nil, net.ErrClosed
	}
}

func (m muxSide) Close() error { return m.t.Close() }

// ---- quiescence barrier ----

// WaitQuiescent blocks until the server closed every stream it was handed (the
// server closes a stream only after the handler and its deferred
// unlock/release returned) and every pump goroutine ended. It returns false if
// that did not happen within the timeout.
func (t *Transport) WaitQuiescent(timeout time.Duration) bool {
	deadline := time.Now().Add(timeout)
	timer := time.AfterFunc(timeout, func() {
		t.mu.Lock()
		t.cond.Broadcast()
		t.mu.Unlock()
	})
	defer timer.Stop()
	t.mu.Lock()
	defer t.mu.Unlock()
	for t.openHost > 0 || t.openPumps > 0 {
		if !time.Now().Before(deadline) {
			return false
		}
		t.cond.Wait()
	}
	return true
}

// OpenHostStreams returns the number of server-side streams not yet closed by
// the server.
func (t *Transport) OpenHostStreams() int {
	t.mu.Lock()
	defer t.mu.Unlock()
	return t.openHost
}

// ---- per-stream pumps ----

type stream struct {
	t    *Transport
	id   int
	hook Hook
	mr   *memConn // MITM end facing the renter
	mh   *memConn // MITM end facing the host

	// dead is set before a message is forwarded "then cut": nothing the peer
	// sends in reaction to that message may pass any more, so that the cut is
	// atomic with the delivery
	dead atomic.Bool

	rpcOnce  sync.Once
	rpcKnown chan struct{}
	rpc      types.Specifier
	table    rpcTable
	known    bool
}

func (s *stream) pumpDone() {
	s.t.mu.Lock()
	s.t.openPumps--
	s.t.cond.Broadcast()
	s.t.mu.Unlock()
}

func (s *stream) cut() {
	s.mr.Close()
	s.mh.Close()
}

func (s *stream) setRPC(id types.Specifier, ok bool) {
	s.rpcOnce.Do(func() {
		s.rpc = id
		s.table, s.known = rpcTables[id]
		if !ok {
			s.known = false
		}
		close(s.rpcKnown)
	})
}

// relayRaw copies src to dst until EOF, then closes dst (used for unknown RPCs
// and after the message table is exhausted).
func relayRaw(dst, src *memConn) {
	io.Copy(dst, src)
	dst.Close()
}

func (s *stream) dispatch(m *Msg, dst *memConn) (stop bool, silent bool) {
	if s.dead.Load() {
		s.cut()
		return true, false
	}
	act := Forward
	if s.hook != nil {
		act = s.hook(m)
	}
	if act == ForwardThenCut {
		s.dead.Store(true)
	}
	switch act {
	case Cut:
		s.cut()
		return true, false
	case Silent:
		return false, true
	}
	wire := m.Wire
	if wire == nil {
		buf, err := m.Encode()
		if err != nil {
			// the hook produced something that cannot be encoded: treat as a cut
			s.cut()
			return true, false
		}
		wire = append(buf, m.Raw...)
	}
	dst.Write(wire) // a write error means the peer is gone; the next read ends the pump
	if act == ForwardThenCut {
		s.cut()
		return true, false
	}
	return false, false
}

func (s *stream) pumpRenterToHost() {
	defer s.pumpDone()
	// when the renter side ends, the host side is closed so that the handler's
	// next read fails and the handler returns
	defer s.mh.Close()

	id, err := rhp4.ReadID(s.mr)
	if err != nil {
		s.setRPC(types.Specifier{}, false)
		return
	}
	s.setRPC(id, true)
	if !s.known {
		w := types.NewEncoder(s.mh)
		id.EncodeTo(w)
		w.Flush()
		relayRaw(s.mh, s.mr)
		return
	}
	silent := false
	for i, mk := range s.table.renter {
		m := &Msg{Stream: s.id, RPC: s.rpc, Name: s.table.name, Dir: RenterToHost, Index: i}
		if mk != nil {
			m.Obj = mk()
			var err error
			if i == 0 {
				err = rhp4.ReadRequest(s.mr, m.Obj)
			} else {
				err = rhp4.ReadResponse(s.mr, m.Obj)
			}
			if err != nil {
				var re *rhp4.RPCError
				if i > 0 && errors.As(err, &re) {
					m.Err = re
				} else {
					return
				}
			}
		}
		if i == 0 && s.rpc == rhp4.RPCWriteSectorID {
			req := m.Obj.(*rhp4.RPCWriteSectorRequest)
			n := req.DataLength
			if n > rhp4.SectorSize {
				n = rhp4.SectorSize
			}
			m.Raw = make([]byte, n)
			if _, err := io.ReadFull(s.mr, m.Raw); err != nil {
				return
			}
		}
		if silent {
			continue
		}
		stop, sil := s.dispatch(m, s.mh)
		if stop {
			return
		}
		silent = silent || sil
	}
	// table exhausted: relay whatever else the renter sends until it closes
	if silent {
		io.Copy(io.Discard, s.mr)
		return
	}
	relayRaw(s.mh, s.mr)
}

func (s *stream) pumpHostToRenter() {
	defer s.pumpDone()
	// when the host side ends (the server closed the stream), the renter sees EOF
	// after the data forwarded so far
	defer s.mr.Close()

	select {
	case <-s.rpcKnown:
	case <-s.mh.Closed():
		return
	}
	if !s.known {
		relayRaw(s.mr, s.mh)
		return
	}
	silent := false
	hostGone := false
	for i, mk := range s.table.host {
		m := &Msg{Stream: s.id, RPC: s.rpc, Name: s.table.name, Dir: HostToRenter, Index: i, RenterClosed: s.mr.PeerClosed()}
		m.Obj = mk()
		if hostGone {
			m.Synthetic = true
		} else if err := rhp4.ReadResponse(s.mh, m.Obj); err != nil {
			var re *rhp4.RPCError
			if errors.As(err, &re) {
				m.Err = re
			} else if s.hook == nil || silent {
				return
			} else {
				// the server is gone: offer the remaining messages of the table to
				// the hook as synthetic ones
				hostGone = true
				m.Obj = mk()
				m.Synthetic = true
			}
		}
		if m.Synthetic {
			stop, _ := s.dispatch(m, s.mr)
			if stop {
				return
			}
			continue
		}
		if m.Err == nil && s.rpc == rhp4.RPCReadSectorID {
			resp := m.Obj.(*rhp4.RPCReadSectorResponse)
			n := resp.DataLength
			if n > rhp4.SectorSize {
				n = rhp4.SectorSize
			}
			m.Raw = make([]byte, n)
			if _, err := io.ReadFull(s.mh, m.Raw); err != nil {
				return
			}
		}
		if silent {
			continue
		}
		stop, sil := s.dispatch(m, s.mr)
		if stop {
			return
		}
		silent = silent || sil
	}
	if silent {
		io.Copy(io.Discard, s.mh)
		// stay open towards the renter until it gives up
		<-s.mr.PeerClosed()
		return
	}
	if hostGone {
		// synthetic answers were delivered: the renter may still be writing its
		// part; stay open towards it until it is done
		<-s.mr.PeerClosed()
		return
	}
	relayRaw(s.mr, s.mh)
}
