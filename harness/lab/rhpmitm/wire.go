package rhpmitm

import (
	"bytes"
	"fmt"

	rhp4 "go.sia.tech/core/rhp/v4"
	"go.sia.tech/core/types"
)

// Dir is the direction of a wire message.
type Dir int

// Directions.
const (
	RenterToHost Dir = iota
	HostToRenter
)

func (d Dir) String() string {
	if d == RenterToHost {
		return "R"
	}
	return "H"
}

// rpcTable is the per-RPC message table (DESIGN Appendix A): constructors for
// the typed messages of each direction, in order.
type rpcTable struct {
	name   string
	renter []func() rhp4.Object // renter[0] is the request (nil: id only)
	host   []func() rhp4.Object
}

var rpcTables = map[types.Specifier]rpcTable{
	rhp4.RPCSettingsID: {"settings",
		[]func() rhp4.Object{nil},
		[]func() rhp4.Object{func() rhp4.Object { return new(rhp4.RPCSettingsResponse) }}},
	rhp4.RPCFormContractID: {"form",
		[]func() rhp4.Object{
			func() rhp4.Object { return new(rhp4.RPCFormContractRequest) },
			func() rhp4.Object { return new(rhp4.RPCFormContractSecondResponse) }},
		[]func() rhp4.Object{
			func() rhp4.Object { return new(rhp4.RPCFormContractResponse) },
			func() rhp4.Object { return new(rhp4.RPCFormContractThirdResponse) }}},
	rhp4.RPCRefreshContractID: {"refresh-full",
		[]func() rhp4.Object{
			func() rhp4.Object { return new(rhp4.RPCRefreshContractRequest) },
			func() rhp4.Object { return new(rhp4.RPCRefreshContractSecondResponse) }},
		[]func() rhp4.Object{
			func() rhp4.Object { return new(rhp4.RPCRefreshContractResponse) },
			func() rhp4.Object { return new(rhp4.RPCRefreshContractThirdResponse) }}},
	rhp4.RPCRefreshPartialID: {"refresh-partial",
		[]func() rhp4.Object{
			func() rhp4.Object { return new(rhp4.RPCRefreshContractRequest) },
			func() rhp4.Object { return new(rhp4.RPCRefreshContractSecondResponse) }},
		[]func() rhp4.Object{
			func() rhp4.Object { return new(rhp4.RPCRefreshContractResponse) },
			func() rhp4.Object { return new(rhp4.RPCRefreshContractThirdResponse) }}},
	rhp4.RPCRenewContractID: {"renew",
		[]func() rhp4.Object{
			func() rhp4.Object { return new(rhp4.RPCRenewContractRequest) },
			func() rhp4.Object { return new(rhp4.RPCRenewContractSecondResponse) }},
		[]func() rhp4.Object{
			func() rhp4.Object { return new(rhp4.RPCRenewContractResponse) },
			func() rhp4.Object { return new(rhp4.RPCRenewContractThirdResponse) }}},
	rhp4.RPCFreeSectorsID: {"free",
		[]func() rhp4.Object{
			func() rhp4.Object { return new(rhp4.RPCFreeSectorsRequest) },
			func() rhp4.Object { return new(rhp4.RPCFreeSectorsSecondResponse) }},
		[]func() rhp4.Object{
			func() rhp4.Object { return new(rhp4.RPCFreeSectorsResponse) },
			func() rhp4.Object { return new(rhp4.RPCFreeSectorsThirdResponse) }}},
	rhp4.RPCAppendSectorsID: {"append",
		[]func() rhp4.Object{
			func() rhp4.Object { return new(rhp4.RPCAppendSectorsRequest) },
			func() rhp4.Object { return new(rhp4.RPCAppendSectorsSecondResponse) }},
		[]func() rhp4.Object{
			func() rhp4.Object { return new(rhp4.RPCAppendSectorsResponse) },
			func() rhp4.Object { return new(rhp4.RPCAppendSectorsThirdResponse) }}},
	rhp4.RPCReplenishAccountsID: {"replenish-accounts",
		[]func() rhp4.Object{
			func() rhp4.Object { return new(rhp4.RPCReplenishAccountsRequest) },
			func() rhp4.Object { return new(rhp4.RPCReplenishAccountsSecondResponse) }},
		[]func() rhp4.Object{
			func() rhp4.Object { return new(rhp4.RPCReplenishAccountsResponse) },
			func() rhp4.Object { return new(rhp4.RPCReplenishAccountsThirdResponse) }}},
	rhp4.RPCReplenishPoolsID: {"replenish-pools",
		[]func() rhp4.Object{
			func() rhp4.Object { return new(rhp4.RPCReplenishAccountsRequest) },
			func() rhp4.Object { return new(rhp4.RPCReplenishAccountsSecondResponse) }},
		[]func() rhp4.Object{
			func() rhp4.Object { return new(rhp4.RPCReplenishAccountsResponse) },
			func() rhp4.Object { return new(rhp4.RPCReplenishAccountsThirdResponse) }}},
	rhp4.RPCSectorRootsID: {"roots",
		[]func() rhp4.Object{func() rhp4.Object { return new(rhp4.RPCSectorRootsRequest) }},
		[]func() rhp4.Object{func() rhp4.Object { return new(rhp4.RPCSectorRootsResponse) }}},
	rhp4.RPCLatestRevisionID: {"latest-revision",
		[]func() rhp4.Object{func() rhp4.Object { return new(rhp4.RPCLatestRevisionRequest) }},
		[]func() rhp4.Object{func() rhp4.Object { return new(rhp4.RPCLatestRevisionResponse) }}},
	rhp4.RPCFundAccountsID: {"fund",
		[]func() rhp4.Object{func() rhp4.Object { return new(rhp4.RPCFundAccountsRequest) }},
		[]func() rhp4.Object{func() rhp4.Object { return new(rhp4.RPCFundAccountsResponse) }}},
	rhp4.RPCAccountBalanceID: {"balance",
		[]func() rhp4.Object{func() rhp4.Object { return new(rhp4.RPCAccountBalanceRequest) }},
		[]func() rhp4.Object{func() rhp4.Object { return new(rhp4.RPCAccountBalanceResponse) }}},
	rhp4.RPCReadSectorID: {"read",
		[]func() rhp4.Object{func() rhp4.Object { return new(rhp4.RPCReadSectorRequest) }},
		[]func() rhp4.Object{func() rhp4.Object { return new(rhp4.RPCReadSectorResponse) }}},
	rhp4.RPCWriteSectorID: {"write",
		[]func() rhp4.Object{func() rhp4.Object { return new(rhp4.RPCWriteSectorRequest) }},
		[]func() rhp4.Object{func() rhp4.Object { return new(rhp4.RPCWriteSectorResponse) }}},
	rhp4.RPCVerifySectorID: {"verify",
		[]func() rhp4.Object{func() rhp4.Object { return new(rhp4.RPCVerifySectorRequest) }},
		[]func() rhp4.Object{func() rhp4.Object { return new(rhp4.RPCVerifySectorResponse) }}},
	rhp4.RPCAttachPoolsID: {"attach-pools",
		[]func() rhp4.Object{func() rhp4.Object { return new(rhp4.RPCAttachPoolsRequest) }},
		[]func() rhp4.Object{func() rhp4.Object { return new(rhp4.RPCAttachPoolsResponse) }}},
	rhp4.RPCDetachPoolsID: {"detach-pools",
		[]func() rhp4.Object{func() rhp4.Object { return new(rhp4.RPCDetachPoolsRequest) }},
		[]func() rhp4.Object{func() rhp4.Object { return new(rhp4.RPCDetachPoolsResponse) }}},
}

// RPCName returns the short name of an RPC id ("" if unknown).
func RPCName(id types.Specifier) string { return rpcTables[id].name }

// A Msg is one parsed wire message handed to the hook.
type Msg struct {
	Stream int             // transport-wide stream number
	RPC    types.Specifier // RPC in flight
	Name   string          // short RPC name
	Dir    Dir
	Index  int // index among the messages of this direction in this stream

	// Obj is the typed message (nil for the id-only Settings request). The hook
	// may mutate it in place or replace it. If Err is non-nil the message is an
	// RPCError response (isError = true) and Obj is ignored; the hook may set or
	// clear Err to inject or remove an error.
	Obj rhp4.Object
	Err *rhp4.RPCError
	// Raw is the raw payload that follows the object on the wire (ReadSector
	// response data, WriteSector request data).
	Raw []byte
	// Wire, if set by the hook, is sent instead of the re-encoded message
	// (byte-level truncation / extension).
	Wire []byte
	// Synthetic marks a message the host never sent: the server closed the
	// stream before this message of the table (typically after refusing the
	// request with an RPCError). The hook may fill Obj (a lenient hostile host
	// that answers where the honest one refuses) and return Forward; a hook that
	// does not fill it must return Cut, which is what happened on the wire.
	Synthetic bool
	// RenterClosed is closed once the renter closed its end of the stream (it
	// gave up or finished): a hook waiting for a renter message can stop then.
	RenterClosed <-chan struct{}
}

// An Action tells the transport what to do with a message after the hook ran.
type Action int

// Actions.
const (
	Forward        Action = iota // re-encode and forward
	ForwardThenCut               // forward, then close the whole stream
	Cut                          // do not forward; close the whole stream
	Silent                       // do not forward this or any later message of this direction; keep the stream open
)

// A Hook sees every message of every stream. It is called from two goroutines
// per stream (one per direction) and must be safe for that.
type Hook func(m *Msg) Action

// Encode returns the wire encoding of the message (without Raw).
func (m *Msg) Encode() (buf []byte, err error) {
	defer func() {
		if p := recover(); p != nil {
			err = fmt.Errorf("unencodable message: %v", p)
		}
	}()
	var b bytes.Buffer
	switch {
	case m.Err != nil:
		err = rhp4.WriteResponse(&b, m.Err)
	case m.Dir == RenterToHost && m.Index == 0:
		err = rhp4.WriteRequest(&b, m.RPC, m.Obj)
	default:
		err = rhp4.WriteResponse(&b, m.Obj)
	}
	return b.Bytes(), err
}
