package rhpmitm

import (
	"errors"
	"fmt"
	"os"
	"sort"
	"strconv"
	"sync"
	"time"

	"go.sia.tech/core/consensus"
	rhp4 "go.sia.tech/core/rhp/v4"
	"go.sia.tech/core/types"
	"go.sia.tech/coreutils"
	"go.sia.tech/coreutils/chain"
	rhp "go.sia.tech/coreutils/rhp/v4"
	"go.sia.tech/coreutils/testutil"
	"go.sia.tech/coreutils/wallet"
)

// SyncTimeout bounds how long Sync waits for the contractor's background
// goroutine; exceeding it is a harness problem (INCONCLUSIVE), never a verdict.
const SyncTimeout = 120 * time.Second

// ErrHarness marks failures of the lab itself.
var ErrHarness = errors.New("rhpmitm harness failure")

// A Node is one chain manager with the wallets and contractors that follow it.
type Node struct {
	Name    string
	Network *consensus.Network
	Genesis types.Block
	CM      *chain.Manager

	mu          sync.Mutex
	wallets     []*Wallet
	contractors []*testutil.EphemeralContractor
}

// NewNode creates a node on a fresh in-memory store.
func NewNode(name string, n *consensus.Network, genesis types.Block) (*Node, error) {
	store, tipState, err := chain.NewDBStore(chain.NewMemDB(), n, genesis, nil)
	if err != nil {
		return nil, err
	}
	return &Node{Name: name, Network: n, Genesis: genesis, CM: chain.NewManager(store, tipState)}, nil
}

// MineTo mines count blocks paying addr on this node and returns them; wallets
// and contractors of this node are synced afterwards.
func (n *Node) MineTo(addr types.Address, count int) ([]types.Block, error) {
	var blocks []types.Block
	for i := 0; i < count; i++ {
		b, ok := coreutils.MineBlock(n.CM, addr, 60*time.Second)
		if !ok {
			return blocks, fmt.Errorf("%w: mining timed out", ErrHarness)
		}
		if err := n.CM.AddBlocks([]types.Block{b}); err != nil {
			return blocks, fmt.Errorf("%w: mined block rejected: %v", ErrHarness, err)
		}
		blocks = append(blocks, b)
	}
	return blocks, n.Sync()
}

// AddBlocks feeds foreign blocks to this node and syncs its followers.
func (n *Node) AddBlocks(blocks []types.Block) error {
	if len(blocks) == 0 {
		return nil
	}
	if err := n.CM.AddBlocks(blocks); err != nil {
		return err
	}
	return n.Sync()
}

// Sync drives every wallet of this node with UpdatesSince until it reached the
// tip and waits for the contractors' background subscription to catch up.
func (n *Node) Sync() error {
	n.mu.Lock()
	ws := append([]*Wallet(nil), n.wallets...)
	cs := append([]*testutil.EphemeralContractor(nil), n.contractors...)
	n.mu.Unlock()
	for _, w := range ws {
		if err := w.sync(); err != nil {
			return err
		}
	}
	deadline := time.Now().Add(SyncTimeout)
	for _, c := range cs {
		for {
			tip, _ := c.Tip()
			if tip == n.CM.Tip() {
				break
			}
			if time.Now().After(deadline) {
				return fmt.Errorf("%w: contractor did not reach the tip", ErrHarness)
			}
			time.Sleep(200 * time.Microsecond)
		}
	}
	return nil
}

// ---- wallet proxy ----

// A WalletCall is one recorded call on a wallet proxy.
type WalletCall struct {
	Seq    int                     `json:"seq"`
	Op     string                  `json:"op"`
	Amount string                  `json:"amount,omitempty"`
	Inputs []types.SiacoinOutputID `json:"inputs,omitempty"`
	Err    string                  `json:"err,omitempty"`
}

// Wallet is a recording proxy around a SingleAddressWallet. It implements the
// host-side rhp.Wallet interface directly; RenterSigner adapts it for the
// renter side.
type Wallet struct {
	Name  string
	Key   types.PrivateKey
	W     *wallet.SingleAddressWallet
	Store *testutil.EphemeralWalletStore
	node  *Node
	// Inj, if set, can make FundV2Transaction / BroadcastV2TransactionSet (and
	// the wallet's syncer) fail; side is "host" or "renter"
	Inj  *Injector
	side string

	mu    sync.Mutex
	seq   int
	calls []WalletCall
}

// NewWallet attaches a fresh single-address wallet to the node.
func (n *Node) NewWallet(name string, key types.PrivateKey) (*Wallet, error) {
	store := testutil.NewEphemeralWalletStore()
	pw := &Wallet{Name: name, Key: key, Store: store, node: n, side: name}
	w, err := wallet.NewSingleAddressWallet(key, n.CM, store, &failingSyncer{name: name, inj: &pw.Inj},
		wallet.WithDefragThreshold(1<<30),
		wallet.WithDebounceInterval(24*time.Hour),
		wallet.WithReservationDuration(24*time.Hour))
	if err != nil {
		return nil, err
	}
	pw.W = w
	n.mu.Lock()
	n.wallets = append(n.wallets, pw)
	n.mu.Unlock()
	return pw, pw.sync()
}

// dropBroadcasted forgets the wallet store's broadcast sets. The in-repo
// EphemeralWalletStore compares a new set against every stored one (hashing
// each), which is quadratic over a long run; the sets are only used for
// re-broadcasting, which the lab disables.
func (w *Wallet) dropBroadcasted() {
	sets, _ := w.Store.BroadcastedSets()
	sets = append([]wallet.BroadcastedSet(nil), sets...)
	for i := len(sets) - 1; i >= 0; i-- {
		w.Store.RemoveBroadcastedSet(sets[i])
	}
}

func (w *Wallet) sync() error {
	w.dropBroadcasted()
	for {
		tip, err := w.Store.Tip()
		if err != nil {
			return err
		}
		reverted, applied, err := w.node.CM.UpdatesSince(tip, 1000)
		if err != nil {
			return fmt.Errorf("%w: wallet %s UpdatesSince: %v", ErrHarness, w.Name, err)
		}
		if len(reverted) == 0 && len(applied) == 0 {
			return nil
		}
		err = w.Store.UpdateChainState(func(tx wallet.UpdateTx) error {
			return w.W.UpdateChainState(tx, reverted, applied)
		})
		if err != nil {
			return fmt.Errorf("%w: wallet %s UpdateChainState: %v", ErrHarness, w.Name, err)
		}
	}
}

func (w *Wallet) record(c WalletCall) {
	w.mu.Lock()
	w.seq++
	c.Seq = w.seq
	w.calls = append(w.calls, c)
	w.mu.Unlock()
}

// Calls returns the calls recorded since the last ResetCalls.
func (w *Wallet) Calls() []WalletCall {
	w.mu.Lock()
	defer w.mu.Unlock()
	return append([]WalletCall(nil), w.calls...)
}

// ResetCalls forgets the recorded calls.
func (w *Wallet) ResetCalls() {
	w.mu.Lock()
	w.calls = nil
	w.mu.Unlock()
}

// CountCalls counts recorded calls of one kind.
func (w *Wallet) CountCalls(op string) (n int) {
	w.mu.Lock()
	defer w.mu.Unlock()
	for _, c := range w.calls {
		if c.Op == op {
			n++
		}
	}
	return
}

func inputIDs(txns []types.V2Transaction) (ids []types.SiacoinOutputID) {
	for _, txn := range txns {
		for _, in := range txn.SiacoinInputs {
			ids = append(ids, in.Parent.ID)
		}
	}
	return
}

// Address implements rhp.Wallet.
func (w *Wallet) Address() types.Address { return w.W.Address() }

// FundV2Transaction implements rhp.Wallet.
func (w *Wallet) FundV2Transaction(txn *types.V2Transaction, amount types.Currency, useUnconfirmed bool) (types.ChainIndex, []int, error) {
	before := len(txn.SiacoinInputs)
	if err := w.Inj.Hit(w.side + ".wallet.FundV2Transaction"); err != nil {
		w.record(WalletCall{Op: "FundV2Transaction", Amount: amount.ExactString(), Err: err.Error()})
		return types.ChainIndex{}, nil, err
	}
	basis, toSign, err := w.W.FundV2Transaction(txn, amount, useUnconfirmed)
	c := WalletCall{Op: "FundV2Transaction", Amount: amount.ExactString()}
	if err != nil {
		c.Err = err.Error()
	} else {
		for _, in := range txn.SiacoinInputs[before:] {
			c.Inputs = append(c.Inputs, in.Parent.ID)
		}
	}
	w.record(c)
	return basis, toSign, err
}

// SignV2Inputs implements rhp.Wallet.
func (w *Wallet) SignV2Inputs(txn *types.V2Transaction, toSign []int) {
	w.W.SignV2Inputs(txn, toSign)
	w.record(WalletCall{Op: "SignV2Inputs"})
}

// ReleaseInputs implements rhp.Wallet.
func (w *Wallet) ReleaseInputs(txns []types.Transaction, v2txns []types.V2Transaction) {
	w.W.ReleaseInputs(txns, v2txns)
	w.record(WalletCall{Op: "ReleaseInputs", Inputs: inputIDs(v2txns)})
}

// BroadcastV2TransactionSet implements rhp.Wallet.
func (w *Wallet) BroadcastV2TransactionSet(basis types.ChainIndex, txns []types.V2Transaction) error {
	err := w.Inj.Hit(w.side + ".wallet.BroadcastV2TransactionSet")
	if err == nil {
		err = w.W.BroadcastV2TransactionSet(basis, txns)
	}
	c := WalletCall{Op: "BroadcastV2TransactionSet", Inputs: inputIDs(txns)}
	if err != nil {
		c.Err = err.Error()
	}
	w.record(c)
	return err
}

// A WalletSnap is the observable spendable state of a wallet.
type WalletSnap struct {
	Spendable []types.SiacoinOutputID `json:"spendable"`
	Values    []types.Currency        `json:"-"` // parallel to Spendable
	Balance   wallet.Balance          `json:"balance"`
}

// Snapshot returns SpendableOutputs (ids, sorted) and Balance.
func (w *Wallet) Snapshot() (WalletSnap, error) {
	outs, err := w.W.SpendableOutputs()
	if err != nil {
		return WalletSnap{}, err
	}
	var s WalletSnap
	sort.Slice(outs, func(i, j int) bool {
		return string(outs[i].ID[:]) < string(outs[j].ID[:])
	})
	for _, o := range outs {
		s.Spendable = append(s.Spendable, o.ID)
		s.Values = append(s.Values, o.SiacoinOutput.Value)
	}
	s.Balance, err = w.W.Balance()
	return s, err
}

// Equal reports whether two snapshots are the same.
func (s WalletSnap) Equal(o WalletSnap) bool {
	if len(s.Spendable) != len(o.Spendable) || s.Balance != o.Balance {
		return false
	}
	for i := range s.Spendable {
		if s.Spendable[i] != o.Spendable[i] {
			return false
		}
	}
	return true
}

// Without returns the snapshot expected once the outputs in spent (those
// consumed by transactions that entered the node's pool meanwhile) are gone:
// they are unspendable because of the pool, not because of a reservation.
func (s WalletSnap) Without(spent map[types.SiacoinOutputID]bool) (WalletSnap, int) {
	out := WalletSnap{Balance: s.Balance}
	n := 0
	for i, id := range s.Spendable {
		if spent[id] {
			out.Balance.Spendable = out.Balance.Spendable.Sub(s.Values[i])
			n++
			continue
		}
		out.Spendable = append(out.Spendable, id)
		out.Values = append(out.Values, s.Values[i])
	}
	return out, n
}

// RestrictTo returns the part of s that concerns the outputs of ref (same
// order), with ref's balance: used when the chain grew between the two
// snapshots and newly matured outputs must not count as a difference.
func (s WalletSnap) RestrictTo(ref WalletSnap) WalletSnap {
	in := make(map[types.SiacoinOutputID]bool, len(ref.Spendable))
	for _, id := range ref.Spendable {
		in[id] = true
	}
	out := WalletSnap{Balance: ref.Balance}
	for i, id := range s.Spendable {
		if in[id] {
			out.Spendable = append(out.Spendable, id)
			out.Values = append(out.Values, s.Values[i])
		}
	}
	return out
}

// EqualModuloUnconfirmed is Equal ignoring the unconfirmed balance (which
// counts outputs created by pool transactions).
func (s WalletSnap) EqualModuloUnconfirmed(o WalletSnap) bool {
	s.Balance.Unconfirmed, o.Balance.Unconfirmed = types.ZeroCurrency, types.ZeroCurrency
	return s.Equal(o)
}

// RenterSigner adapts a wallet proxy plus the renter's contract key to
// rhp.FormContractSigner.
type RenterSigner struct {
	W              *Wallet
	Key            types.PrivateKey
	UseUnconfirmed bool
	// FeeOverride, if set, is what RecommendedFee reports (signer behaviour)
	FeeOverride *types.Currency
	// OnSign, if set, runs inside SignV2Inputs before the inputs are signed
	// (the moment between receiving the host's inputs and answering)
	OnSign func()
}

// FundV2Transaction implements rhp.TransactionFunder.
func (s *RenterSigner) FundV2Transaction(txn *types.V2Transaction, amount types.Currency) (types.ChainIndex, []int, error) {
	return s.W.FundV2Transaction(txn, amount, s.UseUnconfirmed)
}

// RecommendedFee implements rhp.TransactionFunder.
func (s *RenterSigner) RecommendedFee() types.Currency {
	if s.FeeOverride != nil {
		return *s.FeeOverride
	}
	return s.W.W.RecommendedFee()
}

// ReleaseInputs implements rhp.TransactionFunder.
func (s *RenterSigner) ReleaseInputs(txns []types.V2Transaction) { s.W.ReleaseInputs(nil, txns) }

// SignV2Inputs implements rhp.TransactionInputSigner.
func (s *RenterSigner) SignV2Inputs(txn *types.V2Transaction, toSign []int) {
	if s.OnSign != nil {
		s.OnSign()
	}
	s.W.SignV2Inputs(txn, toSign)
}

// SignHash implements rhp.ContractSigner.
func (s *RenterSigner) SignHash(h types.Hash256) types.Signature { return s.Key.SignHash(h) }

var _ rhp.FormContractSigner = (*RenterSigner)(nil)
var _ rhp.Wallet = (*Wallet)(nil)

// ---- contractor proxy ----

// A ContractEvent is a recorded AddV2Contract / RenewV2Contract call.
type ContractEvent struct {
	Seq      int
	Op       string // "add" | "renew"
	ID       types.FileContractID
	Contract types.V2FileContract
	Set      rhp.TransactionSet
	Err      error
}

// Contractor is a recording proxy around the in-repo EphemeralContractor.
type Contractor struct {
	*testutil.EphemeralContractor
	Inj *Injector

	mu     sync.Mutex
	seq    int
	events []ContractEvent
	// last revision the host committed (revise / credit), for a peer that
	// re-signs exactly what the host signed
	lastRev   types.V2FileContract
	lastRevID types.FileContractID
	haveLast  bool
}

func (c *Contractor) noteRevision(id types.FileContractID, rev types.V2FileContract, err error) {
	if err != nil {
		return
	}
	c.mu.Lock()
	c.lastRevID, c.lastRev, c.haveLast = id, rev, true
	c.mu.Unlock()
}

// LastRevision returns the revision most recently committed by a handler.
func (c *Contractor) LastRevision() (types.FileContractID, types.V2FileContract, bool) {
	c.mu.Lock()
	defer c.mu.Unlock()
	return c.lastRevID, c.lastRev, c.haveLast
}

// ReviseV2Contract implements rhp.Contractor.
func (c *Contractor) ReviseV2Contract(id types.FileContractID, rev types.V2FileContract, roots []types.Hash256, usage rhp4.Usage) error {
	err := c.EphemeralContractor.ReviseV2Contract(id, rev, roots, usage)
	c.noteRevision(id, rev, err)
	return err
}

// CreditAccountsWithContract implements rhp.Contractor.
func (c *Contractor) CreditAccountsWithContract(d []rhp4.AccountDeposit, id types.FileContractID, rev types.V2FileContract, usage rhp4.Usage) ([]types.Currency, error) {
	b, err := c.EphemeralContractor.CreditAccountsWithContract(d, id, rev, usage)
	c.noteRevision(id, rev, err)
	return b, err
}

// CreditPoolsWithContract implements rhp.Contractor.
func (c *Contractor) CreditPoolsWithContract(d []rhp4.AccountDeposit, id types.FileContractID, rev types.V2FileContract, usage rhp4.Usage) ([]types.Currency, error) {
	b, err := c.EphemeralContractor.CreditPoolsWithContract(d, id, rev, usage)
	c.noteRevision(id, rev, err)
	return b, err
}

// AddV2Contract implements rhp.Contractor.
func (c *Contractor) AddV2Contract(set rhp.TransactionSet, usage rhp4.Usage) error {
	err := c.Inj.Hit("host.contractor.AddV2Contract")
	if err == nil {
		err = c.EphemeralContractor.AddV2Contract(set, usage)
	}
	ev := ContractEvent{Op: "add", Set: set, Err: err}
	if n := len(set.Transactions); n > 0 {
		txn := set.Transactions[n-1]
		if len(txn.FileContracts) == 1 {
			ev.ID = txn.V2FileContractID(txn.ID(), 0)
			ev.Contract = txn.FileContracts[0]
		}
	}
	c.record(ev)
	return err
}

// RenewV2Contract implements rhp.Contractor.
func (c *Contractor) RenewV2Contract(set rhp.TransactionSet, usage rhp4.Usage) error {
	err := c.Inj.Hit("host.contractor.RenewV2Contract")
	if err == nil {
		err = c.EphemeralContractor.RenewV2Contract(set, usage)
	}
	ev := ContractEvent{Op: "renew", Set: set, Err: err}
	if n := len(set.Transactions); n > 0 {
		txn := set.Transactions[n-1]
		if len(txn.FileContractResolutions) == 1 {
			if r, ok := txn.FileContractResolutions[0].Resolution.(*types.V2FileContractRenewal); ok {
				ev.ID = types.FileContractID(txn.FileContractResolutions[0].Parent.ID).V2RenewalID()
				ev.Contract = r.NewContract
			}
		}
	}
	c.record(ev)
	return err
}

func (c *Contractor) record(ev ContractEvent) {
	c.mu.Lock()
	c.seq++
	ev.Seq = c.seq
	c.events = append(c.events, ev)
	c.mu.Unlock()
}

// Events returns the contract events recorded since the last ResetEvents.
func (c *Contractor) Events() []ContractEvent {
	c.mu.Lock()
	defer c.mu.Unlock()
	return append([]ContractEvent(nil), c.events...)
}

// ResetEvents forgets the recorded events.
func (c *Contractor) ResetEvents() {
	c.mu.Lock()
	c.events = nil
	c.mu.Unlock()
}

// LockV2Contract implements rhp.Contractor. The in-repo contractor lends its
// internal roots slice; the proxy hands out a copy so that a handler that
// edits the slice before committing (the free-sectors handler does) cannot
// desynchronise the lab's ground truth when the exchange is aborted. (That
// behaviour is the subject of property C09, not of this lab.)
func (c *Contractor) LockV2Contract(id types.FileContractID) (rhp.RevisionState, func(), error) {
	if err := c.Inj.Hit("host.contractor.LockV2Contract"); err != nil {
		return rhp.RevisionState{}, nil, err
	}
	rs, unlock, err := c.EphemeralContractor.LockV2Contract(id)
	if err == nil {
		rs.Roots = append([]types.Hash256(nil), rs.Roots...)
		if unlockDelay > 0 {
			inner := unlock
			unlock = func() { time.Sleep(unlockDelay); inner() }
		}
	}
	return rs, unlock, err
}

// unlockDelay (VERIF_UNLOCK_DELAY_MS, self-test only) makes every handler hold
// its contract lock that much longer after it has sent its last message: the
// renter's call has long returned by then, so a monitor that reads the host's
// state without waiting at the quiescence barrier first finds the contract
// locked. Off by default; it changes no verdict, it only widens that window.
var unlockDelay = func() time.Duration {
	ms, _ := strconv.Atoi(os.Getenv("VERIF_UNLOCK_DELAY_MS"))
	return time.Duration(ms) * time.Millisecond
}()

// V2FileContractElement implements rhp.Contractor.
func (c *Contractor) V2FileContractElement(id types.FileContractID) (types.ChainIndex, types.V2FileContractElement, error) {
	if err := c.Inj.Hit("host.contractor.V2FileContractElement"); err != nil {
		return types.ChainIndex{}, types.V2FileContractElement{}, err
	}
	return c.EphemeralContractor.V2FileContractElement(id)
}

// Locked reports whether the contract lock is currently held, by trying to
// take it (only for ids known to exist).
func (c *Contractor) Locked(id types.FileContractID) bool {
	_, unlock, err := c.EphemeralContractor.LockV2Contract(id)
	if err != nil {
		return true
	}
	unlock()
	return false
}

// State returns the host's current view of an existing contract (revision and
// a copy of its roots). It must only be called for ids known to exist and
// behind the quiescence barrier (the in-repo contractor leaves a lock behind
// when asked for an unknown id).
func (c *Contractor) State(id types.FileContractID) (rhp.RevisionState, error) {
	rs, unlock, err := c.EphemeralContractor.LockV2Contract(id)
	if err != nil {
		return rhp.RevisionState{}, err
	}
	rs.Roots = append([]types.Hash256(nil), rs.Roots...)
	unlock()
	return rs, nil
}

var _ rhp.Contractor = (*Contractor)(nil)
