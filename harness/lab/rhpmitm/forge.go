package rhpmitm

import (
	rhp4 "go.sia.tech/core/rhp/v4"
	"go.sia.tech/core/types"
)

// SectorRangeProof returns the bytes of sector[offset:offset+length] together
// with a VALID range proof for exactly that range, built with core's proof
// builders the way an honest host does. offset and length must be multiples
// of the leaf size and the range must lie inside the sector. A forging host
// uses it to answer a request for one range with a coherent response for
// another.
func SectorRangeProof(sector *[rhp4.SectorSize]byte, offset, length uint64) ([]byte, []types.Hash256) {
	start, end := offset/rhp4.LeafSize, (offset+length+rhp4.LeafSize-1)/rhp4.LeafSize
	segStart, segEnd := rhp4.SectorSubtreeRange(start, end)
	cache := rhp4.CachedSectorSubtrees(sector)
	proof := rhp4.BuildSectorProof(sector[segStart*rhp4.LeafSize:segEnd*rhp4.LeafSize], start, end, cache)
	return append([]byte(nil), sector[offset:offset+length]...), proof
}

// SectorLeafProof returns leaf i of the sector with a valid proof for it.
func SectorLeafProof(sector *[rhp4.SectorSize]byte, i uint64) ([rhp4.LeafSize]byte, []types.Hash256) {
	data, proof := SectorRangeProof(sector, i*rhp4.LeafSize, rhp4.LeafSize)
	var leaf [rhp4.LeafSize]byte
	copy(leaf[:], data)
	return leaf, proof
}
