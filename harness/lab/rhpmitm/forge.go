package rhpmitm

import (
	"math/bits"

	"go.sia.tech/core/blake2b"
	rhp4 "go.sia.tech/core/rhp/v4"
	"go.sia.tech/core/types"
)

// SectorRangeProof returns the bytes of sector[offset:offset+length] together
// with a VALID range proof for exactly that range, built with core's proof
// builders the way an honest host does. offset and length must be multiples
// of the leaf size and the range must lie inside the sector. A forging host
// uses it to answer a request for one range with a coherent response for
// another.
func SectorRangeProof(sector *[rhp4.SectorSize]byte, offset, length uint64) ([]byte, []types.Hash256) {
	start, end := offset/rhp4.LeafSize, (offset+length+rhp4.LeafSize-1)/rhp4.LeafSize
	segStart, segEnd := rhp4.SectorSubtreeRange(start, end)
	cache := rhp4.CachedSectorSubtrees(sector)
	proof := rhp4.BuildSectorProof(sector[segStart*rhp4.LeafSize:segEnd*rhp4.LeafSize], start, end, cache)
	return append([]byte(nil), sector[offset:offset+length]...), proof
}

// SectorLeafProof returns leaf i of the sector with a valid proof for it.
func SectorLeafProof(sector *[rhp4.SectorSize]byte, i uint64) ([rhp4.LeafSize]byte, []types.Hash256) {
	data, proof := SectorRangeProof(sector, i*rhp4.LeafSize, rhp4.LeafSize)
	var leaf [rhp4.LeafSize]byte
	copy(leaf[:], data)
	return leaf, proof
}

// SpineParts expresses MetaRoot(leaves) as a right-nested chain of exactly m
// nodes P1..Pm with H(P1, H(P2, ... H(Pm-1, Pm))) == MetaRoot(leaves) (for
// m == 1 the root itself). That is what an append-proof verifier rebuilds
// from the subtree roots for an old leaf count with m one-bits - whatever
// that count is. A forging host uses it to answer an append consistently for
// a WRONG old leaf count. ok is false if the real tree has no such chain.
func SpineParts(leaves []types.Hash256, m int) (parts []types.Hash256, ok bool) {
	n := len(leaves)
	if m <= 0 || n == 0 {
		return nil, false
	}
	// the real perfect subtrees, largest first
	type tree struct{ leaves []types.Hash256 }
	var trees []tree
	rest := leaves
	for h := 62; h >= 0; h-- {
		if size := 1 << h; n&size != 0 {
			trees = append(trees, tree{rest[:size]})
			rest = rest[size:]
		}
	}
	fold := func(ts []tree) types.Hash256 {
		var all []types.Hash256
		for _, t := range ts {
			all = append(all, t.leaves...)
		}
		return rhp4.MetaRoot(all)
	}
	p := len(trees)
	if m <= p {
		for _, t := range trees[:m-1] {
			parts = append(parts, rhp4.MetaRoot(t.leaves))
		}
		return append(parts, fold(trees[m-1:])), true
	}
	for _, t := range trees[:p-1] {
		parts = append(parts, rhp4.MetaRoot(t.leaves))
	}
	last := trees[p-1].leaves
	for len(parts) < m-1 {
		if len(last) < 2 {
			return nil, false
		}
		half := len(last) / 2
		parts = append(parts, rhp4.MetaRoot(last[:half]))
		last = last[half:]
	}
	return append(parts, rhp4.MetaRoot(last)), true
}

// AppendAnswerForLeafCount computes the append answer (subtree roots in wire
// order, new root) a verifier that believes the old tree has count leaves
// accepts for appending app to the tree whose real leaves are given.
func AppendAnswerForLeafCount(leaves []types.Hash256, count uint64, app []types.Hash256) (subtree []types.Hash256, newRoot types.Hash256, ok bool) {
	if count == 0 {
		if len(leaves) != 0 {
			return nil, types.Hash256{}, false
		}
		_, r := rhp4.BuildAppendProof(nil, app)
		return nil, r, true
	}
	parts, ok := SpineParts(leaves, bits.OnesCount64(count))
	if !ok {
		return nil, types.Hash256{}, false
	}
	acc := blake2b.Accumulator{NumLeaves: count}
	// the verifier consumes subtree roots from the lowest set bit upwards; the
	// chain's innermost (last) part is the lowest tree
	k := len(parts) - 1
	for i := 0; i < 64; i++ {
		if count&(1<<i) != 0 {
			acc.Trees[i] = parts[k]
			subtree = append(subtree, parts[k])
			k--
		}
	}
	for _, h := range app {
		acc.AddLeaf(h)
	}
	return subtree, acc.Root(), true
}

// HalvedView returns the ceil(n/2)-leaf view of the tree over leaves (adjacent
// pairs merged, an odd last leaf kept): it has the same Merkle root, so a
// verifier that believes in that smaller leaf count accepts proofs built over it.
func HalvedView(leaves []types.Hash256) []types.Hash256 {
	var out []types.Hash256
	for i := 0; i+1 < len(leaves); i += 2 {
		out = append(out, blake2b.SumPair(leaves[i], leaves[i+1]))
	}
	if len(leaves)%2 == 1 {
		out = append(out, leaves[len(leaves)-1])
	}
	return out
}
