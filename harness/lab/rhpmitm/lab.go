package rhpmitm

import (
	"bytes"
	"context"
	"fmt"
	"os"
	"time"

	rhp4 "go.sia.tech/core/rhp/v4"
	"go.sia.tech/core/types"
	rhp "go.sia.tech/coreutils/rhp/v4"
	"go.sia.tech/coreutils/testutil"
	"go.uber.org/zap"
)

// CallTimeout is the context deadline of honest helper calls. It is generous:
// exceeding it in a helper is a harness failure, not a verdict.
const CallTimeout = 120 * time.Second

// Options configure a Lab.
type Options struct {
	// TwoNodes gives the renter its own chain manager (needed for basis
	// relations); otherwise host and renter share one node and one pool.
	TwoNodes bool
	// HostBlocks / RenterBlocks is the number of block rewards each wallet is
	// funded with (one spendable output each).
	HostBlocks, RenterBlocks int
	// Observer adds an independent third chain manager that is fed every block
	// and whose pool nobody else touches: the judge of "accepted by a pool".
	Observer bool
	// Bystander adds a third funded wallet on the host node whose transactions
	// change the accumulator without touching host or renter funds.
	Bystander bool
	// SecondHost adds a second, independent host: its own chain manager and
	// pool (so it cannot see what the first host pooled), wallet, contractor,
	// key, server and transport.
	SecondHost bool
}

// A SecondHost is the second host of a lab.
type SecondHost struct {
	Node       *Node
	Key        types.PrivateKey
	Wallet     *Wallet
	Contractor *Contractor
	Sectors    *testutil.EphemeralSectorStore
	Settings   *testutil.EphemeralSettingsReporter
	Server     *rhp.Server
	T          *Transport
	Prices     rhp4.HostPrices
	Addr       types.Address
}

// A Lab is one host, one renter and the man-in-the-middle between them.
type Lab struct {
	Opt        Options
	HostNode   *Node
	RenterNode *Node

	HostKey    types.PrivateKey
	RenterKey  types.PrivateKey
	HostWallet *Wallet
	RentWallet *Wallet
	Signer     *RenterSigner

	Contractor *Contractor
	Sectors    *testutil.EphemeralSectorStore
	Settings   *testutil.EphemeralSettingsReporter
	Server     *rhp.Server
	T          *Transport

	Prices   rhp4.HostPrices
	HostAddr types.Address

	// Inj is shared by every proxy of the lab; idle unless Begin was called
	Inj       *Injector
	HostChain *HostChain
	RentPool  *RenterPool

	Observer  *Node       // nil unless Options.Observer
	Bystander *Wallet     // nil unless Options.Bystander
	Host2     *SecondHost // nil unless Options.SecondHost
}

// BasePrices are the host prices used by every lab.
func BasePrices() rhp4.HostPrices {
	return rhp4.HostPrices{
		ContractPrice:   types.Siacoins(1).Div64(5),
		StoragePrice:    types.NewCurrency64(100),
		IngressPrice:    types.NewCurrency64(100),
		EgressPrice:     types.NewCurrency64(100),
		FreeSectorPrice: types.NewCurrency64(1000),
		Collateral:      types.NewCurrency64(200),
	}
}

// NewLab stands up the chain, the wallets, the host and the transport.
func NewLab(opt Options) (*Lab, error) {
	if opt.HostBlocks == 0 {
		opt.HostBlocks = 12
	}
	if opt.RenterBlocks == 0 {
		opt.RenterBlocks = 12
	}
	n, genesis := testutil.V2Network()
	l := &Lab{Opt: opt, HostKey: types.GeneratePrivateKey(), RenterKey: types.GeneratePrivateKey()}
	var err error
	if l.HostNode, err = NewNode("host", n, genesis); err != nil {
		return nil, err
	}
	l.RenterNode = l.HostNode
	if opt.TwoNodes {
		if l.RenterNode, err = NewNode("renter", n, genesis); err != nil {
			return nil, err
		}
	}
	if l.HostWallet, err = l.HostNode.NewWallet("host", types.GeneratePrivateKey()); err != nil {
		return nil, err
	}
	if l.RentWallet, err = l.RenterNode.NewWallet("renter", types.GeneratePrivateKey()); err != nil {
		return nil, err
	}
	l.Inj = NewInjector()
	l.HostWallet.Inj, l.RentWallet.Inj = l.Inj, l.Inj
	l.HostChain = &HostChain{CM: l.HostNode.CM, Inj: l.Inj}
	l.RentPool = &RenterPool{CM: l.RenterNode.CM, Inj: l.Inj}
	l.Signer = &RenterSigner{W: l.RentWallet, Key: l.RenterKey, UseUnconfirmed: true}
	l.HostAddr = l.HostWallet.Address()

	if opt.Observer {
		if l.Observer, err = NewNode("observer", n, genesis); err != nil {
			return nil, err
		}
	}
	if opt.Bystander {
		if l.Bystander, err = l.HostNode.NewWallet("bystander", types.GeneratePrivateKey()); err != nil {
			return nil, err
		}
	}
	if opt.SecondHost {
		h2 := &SecondHost{Key: types.GeneratePrivateKey()}
		if h2.Node, err = NewNode("host2", n, genesis); err != nil {
			return nil, err
		}
		if h2.Wallet, err = h2.Node.NewWallet("host2", types.GeneratePrivateKey()); err != nil {
			return nil, err
		}
		h2.Addr = h2.Wallet.Address()
		l.Host2 = h2
		for i := 0; i < 12; i++ {
			if err := l.Mine(h2.Addr, 1); err != nil {
				return nil, err
			}
		}
	}
	// fund both wallets, one block reward per output
	for i := 0; i < opt.HostBlocks || i < opt.RenterBlocks; i++ {
		if opt.Bystander && i < 8 {
			if err := l.Mine(l.Bystander.Address(), 1); err != nil {
				return nil, err
			}
		}
		if i < opt.HostBlocks {
			if err := l.Mine(l.HostWallet.Address(), 1); err != nil {
				return nil, err
			}
		}
		if i < opt.RenterBlocks {
			if err := l.Mine(l.RentWallet.Address(), 1); err != nil {
				return nil, err
			}
		}
	}
	if err := l.Mine(types.VoidAddress, int(n.MaturityDelay)+1); err != nil {
		return nil, err
	}

	l.Settings = testutil.NewEphemeralSettingsReporter()
	l.Settings.Update(rhp4.HostSettings{
		Release:             "verif",
		AcceptingContracts:  true,
		WalletAddress:       l.HostAddr,
		MaxCollateral:       types.Siacoins(10000),
		MaxContractDuration: 5000,
		RemainingStorage:    1000 * rhp4.SectorSize,
		TotalStorage:        1000 * rhp4.SectorSize,
		Prices:              BasePrices(),
	})
	l.Sectors = testutil.NewEphemeralSectorStore()
	ec := testutil.NewEphemeralContractor(l.HostNode.CM)
	l.Contractor = &Contractor{EphemeralContractor: ec, Inj: l.Inj}
	l.HostNode.mu.Lock()
	l.HostNode.contractors = append(l.HostNode.contractors, ec)
	l.HostNode.mu.Unlock()
	// kick the contractor's subscription (it only reacts to reorg events)
	if err := l.Mine(types.VoidAddress, 1); err != nil {
		return nil, err
	}

	l.Server = rhp.NewServer(l.HostKey, l.HostChain, l.Contractor, l.HostWallet, l.Settings, l.Sectors,
		rhp.WithPriceTableValidity(12*time.Hour), rhp.WithRPCTimeout(10*time.Minute))
	l.T = NewTransport(l.HostKey.PublicKey())
	log := zap.NewNop()
	if os.Getenv("VERIF_DEBUG_HOSTLOG") != "" { // development aid: the host's own log
		log, _ = zap.NewDevelopment()
	}
	go l.Server.Serve(l.T.Mux(), log)

	if h2 := l.Host2; h2 != nil {
		h2.Settings = testutil.NewEphemeralSettingsReporter()
		h2.Settings.Update(rhp4.HostSettings{
			Release:             "verif-2",
			AcceptingContracts:  true,
			WalletAddress:       h2.Addr,
			MaxCollateral:       types.Siacoins(10000),
			MaxContractDuration: 5000,
			RemainingStorage:    1000 * rhp4.SectorSize,
			TotalStorage:        1000 * rhp4.SectorSize,
			Prices:              BasePrices(),
		})
		h2.Sectors = testutil.NewEphemeralSectorStore()
		ec2 := testutil.NewEphemeralContractor(h2.Node.CM)
		h2.Contractor = &Contractor{EphemeralContractor: ec2}
		h2.Node.mu.Lock()
		h2.Node.contractors = append(h2.Node.contractors, ec2)
		h2.Node.mu.Unlock()
		if err := l.Mine(types.VoidAddress, 1); err != nil {
			return nil, err
		}
		h2.Server = rhp.NewServer(h2.Key, h2.Node.CM, h2.Contractor, h2.Wallet, h2.Settings, h2.Sectors,
			rhp.WithPriceTableValidity(12*time.Hour), rhp.WithRPCTimeout(10*time.Minute))
		h2.T = NewTransport(h2.Key.PublicKey())
		go h2.Server.Serve(h2.T.Mux(), log)
		ctx, cancel := Ctx()
		st, err := rhp.RPCSettings(ctx, h2.T)
		cancel()
		if err != nil {
			return nil, fmt.Errorf("%w: settings of the second host: %v", ErrHarness, err)
		}
		h2.Prices = st.Prices
	}
	if err := l.RefreshPrices(); err != nil {
		return nil, err
	}
	return l, nil
}

// Close shuts the lab down.
func (l *Lab) Close() {
	l.T.Close()
	l.Server.Close()
	l.Contractor.EphemeralContractor.Close()
	l.HostWallet.W.Close()
	l.RentWallet.W.Close()
	if h2 := l.Host2; h2 != nil {
		h2.T.Close()
		h2.Server.Close()
		h2.Contractor.EphemeralContractor.Close()
		h2.Wallet.W.Close()
	}
}

// Mine mines count blocks on the host node and relays them to the renter node.
func (l *Lab) Mine(addr types.Address, count int) error {
	blocks, err := l.HostNode.MineTo(addr, count)
	if err != nil {
		return err
	}
	return l.Relay(blocks, true)
}

// Relay feeds blocks mined on the host node to the observer and, if
// toRenter, to the renter's node.
func (l *Lab) Relay(blocks []types.Block, toRenter bool) error {
	if toRenter && l.RenterNode != l.HostNode {
		if err := l.RenterNode.AddBlocks(blocks); err != nil {
			return fmt.Errorf("%w: relaying to renter node: %v", ErrHarness, err)
		}
	}
	if l.Observer != nil {
		if err := l.Observer.AddBlocks(blocks); err != nil {
			return fmt.Errorf("%w: relaying to observer node: %v", ErrHarness, err)
		}
	}
	if l.Host2 != nil {
		if err := l.Host2.Node.AddBlocks(blocks); err != nil {
			return fmt.Errorf("%w: relaying to the second host's node: %v", ErrHarness, err)
		}
	}
	return nil
}

// Poke puts a bystander self-payment into the host node's pool: the next
// block then spends and creates outputs next to the wallets' own ones.
func (l *Lab) Poke() error {
	if l.Bystander == nil {
		return nil
	}
	w := l.Bystander.W
	fee := w.RecommendedFee().Mul64(2000)
	txn := types.V2Transaction{MinerFee: fee, SiacoinOutputs: []types.SiacoinOutput{{Address: w.Address(), Value: types.Siacoins(1)}}}
	basis, toSign, err := w.FundV2Transaction(&txn, types.Siacoins(1).Add(fee), true)
	if err != nil {
		return fmt.Errorf("%w: bystander funding: %v", ErrHarness, err)
	}
	w.SignV2Inputs(&txn, toSign)
	if _, err := l.HostNode.CM.AddV2PoolTransactions(basis, []types.V2Transaction{txn}); err != nil {
		w.ReleaseInputs(nil, []types.V2Transaction{txn})
		return fmt.Errorf("%w: bystander transaction rejected: %v", ErrHarness, err)
	}
	return nil
}

// Ctx returns a context with the helper deadline.
func Ctx() (context.Context, context.CancelFunc) {
	return context.WithTimeout(context.Background(), CallTimeout)
}

// RefreshPrices fetches a fresh signed price table through the transport
// (transparent hook must be installed by the caller).
func (l *Lab) RefreshPrices() error {
	ctx, cancel := Ctx()
	defer cancel()
	s, err := rhp.RPCSettings(ctx, l.T)
	if err != nil {
		return fmt.Errorf("%w: settings: %v", ErrHarness, err)
	}
	l.Prices = s.Prices
	return nil
}

// Token returns a fresh account token for the renter key.
func (l *Lab) Token() rhp4.AccountToken {
	return rhp4.NewAccountToken(l.RenterKey, l.HostKey.PublicKey())
}

// Account is the renter's account.
func (l *Lab) Account() rhp4.Account { return rhp4.Account(l.RenterKey.PublicKey()) }

// FormParams returns standard formation parameters.
func (l *Lab) FormParams(allowance, collateral types.Currency, duration uint64) rhp4.RPCFormContractParams {
	return rhp4.RPCFormContractParams{
		RenterPublicKey: l.RenterKey.PublicKey(),
		RenterAddress:   l.RentWallet.Address(),
		Allowance:       allowance,
		Collateral:      collateral,
		ProofHeight:     l.HostNode.CM.Tip().Height + duration,
	}
}

// Form runs an honest formation (the caller's hook, if any, still applies).
func (l *Lab) Form(params rhp4.RPCFormContractParams) (rhp.RPCFormContractResult, error) {
	ctx, cancel := Ctx()
	defer cancel()
	return rhp.RPCFormContract(ctx, l.T, l.RenterNode.CM, l.Signer, l.RenterNode.CM.TipState(), l.Prices,
		l.HostKey.PublicKey(), l.HostAddr, params)
}

// FormConfirmed forms count honest contracts and mines one block confirming
// them all. The transport must be transparent.
func (l *Lab) FormConfirmed(count int, allowance, collateral types.Currency, duration uint64) ([]rhp.ContractRevision, error) {
	var out []rhp.ContractRevision
	for i := 0; i < count; i++ {
		res, err := l.Form(l.FormParams(allowance, collateral, duration))
		if err != nil {
			return nil, fmt.Errorf("%w: honest formation failed: %v", ErrHarness, err)
		}
		if l.RenterNode != l.HostNode {
			// what a real renter does with the returned set: its own pool learns
			// it, so that its wallet sees the unconfirmed change output
			if _, err := l.RenterNode.CM.AddV2PoolTransactions(res.FormationSet.Basis, res.FormationSet.Transactions); err != nil {
				return nil, fmt.Errorf("%w: renter pool rejects honest formation set: %v", ErrHarness, err)
			}
		}
		out = append(out, res.Contract)
	}
	if !l.T.WaitQuiescent(CallTimeout) {
		return nil, fmt.Errorf("%w: host handlers did not finish", ErrHarness)
	}
	if err := l.Mine(types.VoidAddress, 1); err != nil {
		return nil, err
	}
	return out, nil
}

// FundAccount deposits amount into the renter's account from the contract.
func (l *Lab) FundAccount(c *rhp.ContractRevision, account rhp4.Account, amount types.Currency) error {
	ctx, cancel := Ctx()
	defer cancel()
	res, err := rhp.RPCFundAccounts(ctx, l.T, l.HostNode.CM.TipState(), l.Signer, *c, []rhp4.AccountDeposit{{Account: account, Amount: amount}})
	if err != nil {
		return fmt.Errorf("%w: honest fund accounts failed: %v", ErrHarness, err)
	}
	c.Revision = res.Revision
	return nil
}

// WriteSector uploads data (padded by the host to a full sector).
func (l *Lab) WriteSector(data []byte) (types.Hash256, error) {
	ctx, cancel := Ctx()
	defer cancel()
	res, err := rhp.RPCWriteSector(ctx, l.T, l.Prices, l.Token(), bytes.NewReader(data), uint64(len(data)))
	if err != nil {
		return types.Hash256{}, fmt.Errorf("%w: honest write sector failed: %v", ErrHarness, err)
	}
	return res.Root, nil
}

// Append appends roots to the contract.
func (l *Lab) Append(c *rhp.ContractRevision, roots []types.Hash256) error {
	ctx, cancel := Ctx()
	defer cancel()
	res, err := rhp.RPCAppendSectors(ctx, l.T, l.Signer, l.HostNode.CM.TipState(), l.Prices, *c, roots)
	if err != nil {
		return fmt.Errorf("%w: honest append failed: %v", ErrHarness, err)
	}
	c.Revision = res.Revision
	return nil
}

// Barrier waits for handler quiescence.
func (l *Lab) Barrier() error {
	if !l.T.WaitQuiescent(CallTimeout) {
		return fmt.Errorf("%w: host handlers did not finish within %v", ErrHarness, CallTimeout)
	}
	return nil
}
