package rhpmitm

import (
	"fmt"
	"math"
	"reflect"
	"time"

	"go.sia.tech/core/types"
)

// A Leaf is one mutable site of a typed message found by the reflection walk.
type Leaf struct {
	Path string `json:"path"`
	Kind string `json:"kind"` // bytes | currency | uint | bool | string | time | byteslice | slice | ptr | restype
	Len  int    `json:"len,omitempty"`
}

var (
	currencyType = reflect.TypeOf(types.Currency{})
	timeType     = reflect.TypeOf(time.Time{})
	resTypeType  = reflect.TypeOf((*types.V2FileContractResolutionType)(nil)).Elem()
)

// OpsFor lists the operators applicable to a leaf kind. "swap" needs a donor
// message (the same field of another recorded exchange).
func OpsFor(kind string) []string {
	switch kind {
	case "bytes":
		return []string{"flip0", "flipN", "zero", "max", "inc", "dec", "swap"}
	case "currency":
		return []string{"flip0", "flip64", "zero", "max", "inc", "dec", "swap"}
	case "uint":
		return []string{"flip0", "flipN", "zero", "max", "inc", "dec", "swap"}
	case "bool":
		return []string{"flip"}
	case "string":
		return []string{"empty", "extend", "flip0"}
	case "time":
		return []string{"zero", "inc", "dec", "max"}
	case "byteslice":
		return []string{"empty", "extend", "trunc", "flip0"}
	case "slice":
		return []string{"trunc", "empty", "extend", "dup", "swap01", "swap"}
	case "ptr":
		return []string{"nil"}
	case "restype":
		return []string{"retype"}
	}
	return nil
}

type walkFn func(path string, kind string, v reflect.Value)

// walk visits every mutable site under v (which must be addressable).
// For slices it descends into the first and the last element only.
func walk(path string, v reflect.Value, fn walkFn) {
	t := v.Type()
	switch {
	case t == currencyType:
		fn(path, "currency", v)
		return
	case t == timeType:
		fn(path, "time", v)
		return
	}
	switch v.Kind() {
	case reflect.Array:
		if t.Elem().Kind() == reflect.Uint8 {
			fn(path, "bytes", v)
			return
		}
		for i := 0; i < v.Len(); i++ {
			walk(fmt.Sprintf("%s[%d]", path, i), v.Index(i), fn)
		}
	case reflect.Slice:
		if t.Elem().Kind() == reflect.Uint8 {
			fn(path, "byteslice", v)
			return
		}
		fn(path, "slice", v)
		// fn may have changed the slice
		n := v.Len()
		if n > 0 {
			walk(path+"[0]", v.Index(0), fn)
		}
		if n > 1 {
			walk(path+"[$]", v.Index(n-1), fn)
		}
	case reflect.Struct:
		for i := 0; i < v.NumField(); i++ {
			f := t.Field(i)
			if !f.IsExported() {
				continue
			}
			p := f.Name
			if path != "" {
				p = path + "." + f.Name
			}
			walk(p, v.Field(i), fn)
		}
	case reflect.Ptr:
		fn(path, "ptr", v)
		if !v.IsNil() {
			walk(path, v.Elem(), fn)
		}
	case reflect.Interface:
		if t == resTypeType {
			fn(path, "restype", v)
		}
		if v.IsNil() {
			return
		}
		e := v.Elem()
		if e.Kind() == reflect.Ptr {
			if !e.IsNil() {
				walk(path, e.Elem(), fn)
			}
			return
		}
		tmp := reflect.New(e.Type()).Elem()
		tmp.Set(e)
		walk(path, tmp, fn)
		v.Set(tmp)
	case reflect.Uint8, reflect.Uint16, reflect.Uint32, reflect.Uint64, reflect.Uint,
		reflect.Int, reflect.Int8, reflect.Int16, reflect.Int32, reflect.Int64:
		fn(path, "uint", v)
	case reflect.Bool:
		fn(path, "bool", v)
	case reflect.String:
		fn(path, "string", v)
	}
}

func root(obj any) (reflect.Value, bool) {
	v := reflect.ValueOf(obj)
	if v.Kind() != reflect.Ptr || v.IsNil() {
		return reflect.Value{}, false
	}
	return v.Elem(), true
}

// Enumerate lists the mutable sites of a message (obj must be a pointer to a
// message struct).
func Enumerate(obj any) []Leaf {
	v, ok := root(obj)
	if !ok {
		return nil
	}
	var out []Leaf
	walk("", v, func(path, kind string, v reflect.Value) {
		l := Leaf{Path: path, Kind: kind}
		switch kind {
		case "bytes", "byteslice", "slice":
			l.Len = v.Len()
		}
		out = append(out, l)
	})
	return out
}

// find returns a copy of the value at path.
func find(obj any, path, kind string) (reflect.Value, bool) {
	v, ok := root(obj)
	if !ok {
		return reflect.Value{}, false
	}
	var out reflect.Value
	found := false
	walk("", v, func(p, k string, v reflect.Value) {
		if !found && p == path && k == kind {
			out = reflect.New(v.Type()).Elem()
			out.Set(v)
			found = true
		}
	})
	return out, found
}

// Apply applies operator op to the site (path, kind) of obj. donor is the
// corresponding message of another exchange (may be nil; only "swap" needs
// it). It reports whether the site was found and the value actually changed.
func Apply(obj any, path, kind, op string, donor any) (changed bool) {
	v, ok := root(obj)
	if !ok {
		return false
	}
	var dv reflect.Value
	if op == "swap" {
		if donor == nil {
			return false
		}
		var ok bool
		if dv, ok = find(donor, path, kind); !ok {
			return false
		}
	}
	done := false
	walk("", v, func(p, k string, v reflect.Value) {
		if done || p != path || k != kind {
			return
		}
		done = true
		before := reflect.New(v.Type()).Elem()
		before.Set(reflect.ValueOf(deepCopyValue(v)))
		applyOp(v, kind, op, dv)
		changed = !reflect.DeepEqual(before.Interface(), v.Interface())
	})
	return changed
}

func deepCopyValue(v reflect.Value) any {
	// only slices need a real copy for the before/after comparison
	if v.Kind() == reflect.Slice && !v.IsNil() {
		c := reflect.MakeSlice(v.Type(), v.Len(), v.Len())
		reflect.Copy(c, v)
		return c.Interface()
	}
	return v.Interface()
}

func applyOp(v reflect.Value, kind, op string, donor reflect.Value) {
	switch kind {
	case "bytes":
		n := v.Len()
		if n == 0 {
			return
		}
		b := make([]byte, n)
		for i := range b {
			b[i] = byte(v.Index(i).Uint())
		}
		switch op {
		case "flip0":
			b[0] ^= 1
		case "flipN":
			b[n-1] ^= 0x80
		case "zero":
			clear(b)
		case "max":
			for i := range b {
				b[i] = 0xff
			}
		case "inc":
			for i := n - 1; i >= 0; i-- {
				b[i]++
				if b[i] != 0 {
					break
				}
			}
		case "dec":
			for i := n - 1; i >= 0; i-- {
				b[i]--
				if b[i] != 0xff {
					break
				}
			}
		case "swap":
			v.Set(donor)
			return
		}
		for i := range b {
			v.Index(i).SetUint(uint64(b[i]))
		}
	case "currency":
		c := v.Interface().(types.Currency)
		switch op {
		case "flip0":
			c.Lo ^= 1
		case "flip64":
			c.Hi ^= 1
		case "zero":
			c = types.ZeroCurrency
		case "max":
			c = types.MaxCurrency
		case "inc":
			if c == types.MaxCurrency {
				c = types.ZeroCurrency
			} else {
				c = c.Add(types.NewCurrency64(1))
			}
		case "dec":
			if c.IsZero() {
				c = types.MaxCurrency
			} else {
				c = c.Sub(types.NewCurrency64(1))
			}
		case "swap":
			c = donor.Interface().(types.Currency)
		}
		v.Set(reflect.ValueOf(c))
	case "uint":
		if op == "swap" {
			v.Set(donor)
			return
		}
		bits := v.Type().Bits()
		var x uint64
		signed := v.CanInt()
		if signed {
			x = uint64(v.Int())
		} else {
			x = v.Uint()
		}
		mask := uint64(math.MaxUint64)
		if bits < 64 {
			mask = 1<<uint(bits) - 1
		}
		switch op {
		case "flip0":
			x ^= 1
		case "flipN":
			x ^= 1 << uint(bits-1)
		case "zero":
			x = 0
		case "max":
			x = mask
		case "inc":
			x++
		case "dec":
			x--
		}
		x &= mask
		if signed {
			v.SetInt(int64(x))
		} else {
			v.SetUint(x)
		}
	case "bool":
		v.SetBool(!v.Bool())
	case "string":
		s := v.String()
		switch op {
		case "empty":
			s = ""
		case "extend":
			s += "x"
		case "flip0":
			if s == "" {
				s = "\x01"
			} else {
				b := []byte(s)
				b[0] ^= 1
				s = string(b)
			}
		}
		v.SetString(s)
	case "time":
		t := v.Interface().(time.Time)
		switch op {
		case "zero":
			t = time.Time{}
		case "inc":
			t = t.Add(time.Hour)
		case "dec":
			t = t.Add(-time.Hour)
		case "max":
			t = time.Unix(math.MaxInt64/2, 0)
		}
		v.Set(reflect.ValueOf(t))
	case "byteslice":
		b := append([]byte(nil), v.Bytes()...)
		switch op {
		case "empty":
			b = nil
		case "extend":
			b = append(b, 0xAA)
		case "trunc":
			if len(b) > 0 {
				b = b[:len(b)-1]
			}
		case "flip0":
			if len(b) > 0 {
				b[0] ^= 1
			}
		}
		v.SetBytes(b)
	case "slice":
		n := v.Len()
		switch op {
		case "trunc":
			if n > 0 {
				v.Set(v.Slice(0, n-1))
			}
		case "empty":
			v.Set(reflect.MakeSlice(v.Type(), 0, 0))
		case "extend":
			v.Set(reflect.Append(cloneSlice(v), reflect.Zero(v.Type().Elem())))
		case "dup":
			if n > 0 {
				c := cloneSlice(v)
				c = reflect.Append(c, reflect.Zero(v.Type().Elem()))
				reflect.Copy(c.Slice(1, n+1), v)
				c.Index(0).Set(v.Index(0))
				v.Set(c)
			}
		case "swap01":
			if n > 1 {
				c := cloneSlice(v)
				a, b := c.Index(0).Interface(), c.Index(1).Interface()
				c.Index(0).Set(reflect.ValueOf(b))
				c.Index(1).Set(reflect.ValueOf(a))
				v.Set(c)
			}
		case "swap":
			v.Set(donor)
		}
	case "ptr":
		if op == "nil" {
			if v.IsNil() {
				v.Set(reflect.New(v.Type().Elem()))
			} else {
				v.Set(reflect.Zero(v.Type()))
			}
		}
	case "restype":
		if op == "retype" {
			var r types.V2FileContractResolutionType = &types.V2FileContractExpiration{}
			v.Set(reflect.ValueOf(r))
		}
	}
}

func cloneSlice(v reflect.Value) reflect.Value {
	c := reflect.MakeSlice(v.Type(), v.Len(), v.Len()+1)
	reflect.Copy(c, v)
	return c
}
