// Package kvlab drives every chain.DB backend with the same operation
// sequences and compares each observable result with the overlay-map model.
package kvlab

import (
	"fmt"
	"os"
	"path/filepath"
	"sort"

	"go.etcd.io/bbolt"
	"go.sia.tech/coreutils"
	"go.sia.tech/coreutils/chain"
	"verif/harness/ref"
)

// An Op is one operation of a sequence.
type Op struct {
	Kind   string `json:"op"` // create, put, del, flush, cancel
	Bucket string `json:"bucket,omitempty"`
	Key    string `json:"key,omitempty"`
	Val    string `json:"val,omitempty"`
}

func (o Op) String() string {
	switch o.Kind {
	case "put":
		return fmt.Sprintf("put(%s,%s=%s)", o.Bucket, o.Key, o.Val)
	case "del":
		return fmt.Sprintf("del(%s,%s)", o.Bucket, o.Key)
	case "create":
		return fmt.Sprintf("create(%s)", o.Bucket)
	}
	return o.Kind
}

// A Backend is a constructor of a fresh, empty DB plus a way to look at its
// durable image.
type Backend struct {
	Name string
	// New returns a fresh DB; durable() cancels the session and returns what a
	// new session sees (for Bolt: after close and reopen); close releases it.
	New func() (db chain.DB, durable func() chain.DB, close func())
}

var boltSeq int

func boltDir() string {
	d := "/dev/shm"
	if st, err := os.Stat(d); err != nil || !st.IsDir() {
		d = os.TempDir()
	}
	d = filepath.Join(d, fmt.Sprintf("verif-kvlab-%d", os.Getpid()))
	os.MkdirAll(d, 0o755)
	return d
}

// CleanupBolt removes the scratch directory.
func CleanupBolt() { os.RemoveAll(boltDir()) }

func openBolt(path string) *bbolt.DB {
	bdb, err := bbolt.Open(path, 0o600, &bbolt.Options{NoSync: true, NoFreelistSync: true})
	if err != nil {
		panic(err)
	}
	return bdb
}

func newBolt(tag string, wrap func(chain.DB) chain.DB) func() (chain.DB, func() chain.DB, func()) {
	return func() (chain.DB, func() chain.DB, func()) {
		boltSeq++
		path := filepath.Join(boltDir(), fmt.Sprintf("%s-%d.db", tag, boltSeq))
		os.Remove(path)
		bdb := openBolt(path)
		cur := coreutils.NewBoltChainDB(bdb)
		var top chain.DB = cur
		if wrap != nil {
			top = wrap(cur)
		}
		durable := func() chain.DB {
			top.Cancel()
			cur.Cancel()
			bdb.Close()
			bdb = openBolt(path)
			cur = coreutils.NewBoltChainDB(bdb)
			return cur
		}
		closeFn := func() {
			cur.Cancel()
			bdb.Close()
			os.Remove(path)
		}
		return top, durable, closeFn
	}
}

// Backends returns the backend matrix of C17.
func Backends(withBolt bool) []Backend {
	mem := func(wrap func(chain.DB) chain.DB) func() (chain.DB, func() chain.DB, func()) {
		return func() (chain.DB, func() chain.DB, func()) {
			var db chain.DB = chain.NewMemDB()
			if wrap != nil {
				db = wrap(db)
			}
			return db, func() chain.DB { db.Cancel(); return db }, func() {}
		}
	}
	bs := []Backend{
		{Name: "MemDB", New: mem(nil)},
		{Name: "CacheDB(MemDB)", New: mem(chain.NewCacheDB)},
		{Name: "CacheDB(CacheDB(MemDB))", New: mem(func(d chain.DB) chain.DB { return chain.NewCacheDB(chain.NewCacheDB(d)) })},
	}
	if withBolt {
		bs = append(bs,
			Backend{Name: "BoltChainDB", New: newBolt("bolt", nil)},
			Backend{Name: "CacheDB(BoltChainDB)", New: newBolt("cbolt", chain.NewCacheDB)},
		)
	}
	return bs
}

// A Mismatch describes the first observable difference from the model.
type Mismatch struct {
	Backend string `json:"backend"`
	Step    int    `json:"step"`
	Op      string `json:"after_op"`
	What    string `json:"what"` // signature component
	Detail  string `json:"detail"`
}

// readAll reads a bucket through Iter, returning sorted pairs, whether a
// key was yielded twice, and whether a yielded key or value changed after it
// was handed out (a consumer that collects the yielded slices and looks at
// them when the loop is over - with no database operation in between - has to
// find what it was given).
func readAll(b chain.DBBucket) (pairs [][2]string, dup bool, aliased string) {
	seen := map[string]bool{}
	var held [][2][]byte
	for k, v := range b.Iter() {
		if seen[string(k)] {
			dup = true
		}
		seen[string(k)] = true
		pairs = append(pairs, [2]string{string(k), string(v)})
		held = append(held, [2][]byte{k, v})
	}
	for i := range held {
		if string(held[i][0]) != pairs[i][0] || string(held[i][1]) != pairs[i][1] {
			aliased = fmt.Sprintf("entry %d was yielded as %q=%q, the collected slices read %q=%q after the loop", i, pairs[i][0], pairs[i][1], held[i][0], held[i][1])
			break
		}
	}
	sort.Slice(pairs, func(i, j int) bool {
		if pairs[i][0] != pairs[j][0] {
			return pairs[i][0] < pairs[j][0]
		}
		return pairs[i][1] < pairs[j][1]
	})
	return
}

// Compare checks everything observable of db against the model view.
func Compare(db chain.DB, view map[string]map[string]string, buckets, keys []string) (what, detail string) {
	for _, bn := range buckets {
		b := db.Bucket([]byte(bn))
		want, exists := view[bn]
		if (b != nil) != exists {
			return "bucket-visibility", fmt.Sprintf("bucket %q: backend exists=%v, model exists=%v", bn, b != nil, exists)
		}
		if b == nil {
			continue
		}
		for _, k := range keys {
			got := b.Get([]byte(k))
			wv, ok := want[k]
			if ok != (got != nil) || (ok && string(got) != wv) {
				return "get", fmt.Sprintf("bucket %q Get(%q) = %q (present=%v), model %q (present=%v)", bn, k, got, got != nil, wv, ok)
			}
		}
		// bucket handles are re-fetched per operation, as DBStore does
		b = db.Bucket([]byte(bn))
		pairs, dup, aliased := readAll(b)
		wp := ref.Pairs(want)
		// a consumer may leave the loop early (find-first, is-empty, take-N)
		for _, stop := range []int{1, (len(wp) + 1) / 2} {
			if stop < 1 || stop > len(wp) {
				continue
			}
			n, pn := 0, any(nil)
			func() {
				defer func() { pn = recover() }()
				for range b.Iter() {
					n++
					if n == stop {
						break
					}
				}
			}()
			if pn != nil {
				return "iter-early-exit-panic", fmt.Sprintf("bucket %q: leaving the Iter loop after %d of %d entries panicked: %v", bn, stop, len(wp), pn)
			}
			if n != stop {
				return "iter-early-exit", fmt.Sprintf("bucket %q: Iter yielded %d entries before the consumer could stop at %d (model has %d)", bn, n, stop, len(wp))
			}
		}
		if aliased != "" {
			return "iter-yields-shared-memory", fmt.Sprintf("bucket %q: %s", bn, aliased)
		}
		if dup {
			return "iter-duplicate", fmt.Sprintf("bucket %q Iter yielded a key twice: %v", bn, pairs)
		}
		if len(pairs) != len(wp) {
			return "iter", fmt.Sprintf("bucket %q Iter = %v, model %v", bn, pairs, wp)
		}
		for i := range wp {
			if pairs[i] != wp[i] {
				return "iter", fmt.Sprintf("bucket %q Iter = %v, model %v", bn, pairs, wp)
			}
		}
	}
	return "", ""
}

// Apply performs op on db and on the model. It returns a mismatch description
// if the operation's own result (error / bucket visibility) differs.
func Apply(db chain.DB, m *ref.KV, op Op) (what, detail string) {
	switch op.Kind {
	case "create":
		_, err := db.CreateBucket([]byte(op.Bucket))
		ok := m.CreateBucket(op.Bucket)
		if ok != (err == nil) {
			return "create-result", fmt.Sprintf("CreateBucket(%q) err=%v, model created=%v", op.Bucket, err, ok)
		}
	case "put", "del":
		b := db.Bucket([]byte(op.Bucket))
		if (b != nil) != m.HasBucket(op.Bucket) {
			return "bucket-visibility", fmt.Sprintf("bucket %q: backend exists=%v, model exists=%v", op.Bucket, b != nil, m.HasBucket(op.Bucket))
		}
		if b == nil {
			return
		}
		if op.Kind == "put" {
			if err := b.Put([]byte(op.Key), []byte(op.Val)); err != nil {
				return "put-error", err.Error()
			}
			m.Put(op.Bucket, op.Key, op.Val)
		} else {
			if err := b.Delete([]byte(op.Key)); err != nil {
				return "del-error", err.Error()
			}
			m.Delete(op.Bucket, op.Key)
		}
	case "flush":
		if err := db.Flush(); err != nil {
			return "flush-error", err.Error()
		}
		m.Flush()
	case "cancel":
		db.Cancel()
		m.Cancel()
	}
	return
}

// RunSequence executes ops on a fresh instance of the backend, comparing with
// the model after every operation and the durable image at the end.
func RunSequence(be Backend, ops []Op, buckets, keys []string) *Mismatch {
	db, durable, closeFn := be.New()
	defer closeFn()
	m := ref.NewKV()
	var mm *Mismatch
	func() {
		defer func() {
			if p := recover(); p != nil {
				mm = &Mismatch{Backend: be.Name, Step: -1, What: "panic", Detail: fmt.Sprint(p)}
			}
		}()
		for i, op := range ops {
			if w, d := Apply(db, m, op); w != "" {
				mm = &Mismatch{be.Name, i, op.String(), w, d}
				return
			}
			if w, d := Compare(db, m.Live, buckets, keys); w != "" {
				mm = &Mismatch{be.Name, i, op.String(), w, d}
				return
			}
		}
		dd := durable()
		if w, d := Compare(dd, m.Durable, buckets, keys); w != "" {
			mm = &Mismatch{be.Name, len(ops), "durable-image", "durable-" + w, d}
		}
	}()
	return mm
}
