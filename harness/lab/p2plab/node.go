package p2plab

import (
	"bytes"
	"context"
	"errors"
	"fmt"
	"math/rand/v2"
	"net"
	"sync"
	"sync/atomic"
	"time"

	"go.sia.tech/core/gateway"
	"go.sia.tech/core/types"
	"go.sia.tech/coreutils/chain"
	"go.sia.tech/coreutils/syncer"
	"go.uber.org/zap"
	"go.uber.org/zap/zapcore"
	"verif/harness/lab/chainlab"
)

// NodeOpts configures an honest node.
type NodeOpts struct {
	Name string
	IP   string // loopback address the node listens on and dials from
	Tree *chainlab.Tree
	Tip  *chainlab.Node // branch the manager is preloaded with (must be chain-valid)
	// PreTips are branches fed to the manager before Tip: the node has validated
	// and stored them, but Tip (which must be sufficiently heavier) is its best chain
	PreTips []*chainlab.Node
	// Checkpoint, if set, must be a v2 ancestor of Tip above the require
	// height: the store is initialised at it (NewDBStoreAtCheckpoint) and only
	// the blocks above it are preloaded.
	Checkpoint *chainlab.Node

	SyncInterval      time.Duration
	DiscoveryInterval time.Duration
	RPCTimeout        time.Duration // every configurable outgoing RPC timeout
	MaxSendBlocks     uint64        // 0 = default
	MaxInbound        int           // 0 = default
	MaxOutbound       int           // 0 = default
	BanDuration       time.Duration
	// Jitter, if non-zero, delays dials, writes and manager calls by PRNG-chosen
	// durations up to Jitter (schedule perturbation).
	Jitter     time.Duration
	JitterSeed uint64
	// WatchIDs / HandlerDelay: see AuditCM.Watch and AuditCM.HandlerDelay; a
	// non-zero HandlerDelay also delays every mutating manager call.
	WatchIDs     []types.BlockID
	HandlerDelay time.Duration
	// Activity, if set, is told about everything sync-related this node does
	Activity *Activity
	// KeepLog keeps the tail of the syncer's debug log in memory (diagnosis of
	// stalls; not used by any oracle).
	KeepLog bool
	// KnownPeers are put into the peer store before the syncer starts.
	KnownPeers []string
	ExtraOpts  []syncer.Option
}

// A Node is an honest in-process node: chain.Manager on a MemDB, audited, and
// a real syncer.Syncer bound to its own loopback address.
type Node struct {
	Name string
	IP   string
	Addr string
	Opts NodeOpts
	CM   *chain.Manager
	ACM  *AuditCM
	Mon  *Monitor
	PS   *PeerStore
	S    *syncer.Syncer
	UID  gateway.UniqueID

	l          net.Listener
	runDone    chan error
	closed     atomic.Bool
	jmu        sync.Mutex
	jrng       *rand.Rand
	Reconnects atomic.Int64
	runErr     atomic.Value
	log        *logRing
}

// logRing keeps the last lines written to it.
type logRing struct {
	mu    sync.Mutex
	max   int
	lines []string
}

func (l *logRing) Write(p []byte) (int, error) {
	if bytes.Contains(p, []byte("no peers to connect to")) {
		return len(p), nil // periodic noise
	}
	l.mu.Lock()
	if len(l.lines) >= l.max {
		copy(l.lines, l.lines[1:])
		l.lines = l.lines[:len(l.lines)-1]
	}
	line := string(p)
	if len(line) > 400 {
		line = line[:400]
	}
	l.lines = append(l.lines, line)
	l.mu.Unlock()
	return len(p), nil
}

// LogTail returns the kept tail of the syncer's debug log.
func (n *Node) LogTail() []string {
	if n.log == nil {
		return nil
	}
	n.log.mu.Lock()
	defer n.log.mu.Unlock()
	return append([]string(nil), n.log.lines...)
}

func (n *Node) jitter() {
	if n.Opts.Jitter <= 0 {
		return
	}
	n.jmu.Lock()
	d := time.Duration(n.jrng.Int64N(int64(n.Opts.Jitter)))
	skip := n.jrng.IntN(3) != 0
	n.jmu.Unlock()
	if !skip {
		time.Sleep(d)
	}
}

// jitterDialer dials from the node's own loopback address and perturbs the
// schedule.
type jitterDialer struct {
	n *Node
	d net.Dialer
}

func (jd *jitterDialer) DialContext(ctx context.Context, network, address string) (net.Conn, error) {
	jd.n.jitter()
	c, err := jd.d.DialContext(ctx, network, address)
	if err != nil {
		return nil, err
	}
	if jd.n.Opts.Jitter > 0 {
		return &jitterConn{Conn: c, n: jd.n}, nil
	}
	return c, nil
}

type jitterConn struct {
	net.Conn
	n  *Node
	nw atomic.Int64
}

func (c *jitterConn) Write(p []byte) (int, error) {
	if c.nw.Add(1)%7 == 0 {
		c.n.jitter()
	}
	return c.Conn.Write(p)
}

// Preload feeds the branch ending at tip into cm in PRNG-free fixed batches.
func Preload(cm *chain.Manager, from uint64, tip *chainlab.Node) error {
	path := tip.PathFromGenesis()
	var blocks []types.Block
	for _, nd := range path {
		if nd.Height > from {
			blocks = append(blocks, nd.Block)
		}
	}
	for len(blocks) > 0 {
		k := min(len(blocks), 64)
		if err := cm.AddBlocks(blocks[:k]); err != nil {
			return err
		}
		blocks = blocks[k:]
	}
	if cm.Tip().ID != tip.ID {
		return fmt.Errorf("preload: tip is %v, want node %d %v", cm.Tip(), tip.Idx, tip.ID)
	}
	return nil
}

// NewNode builds a node; Start runs its syncer.
func NewNode(o NodeOpts) (*Node, error) {
	env := o.Tree.Env
	if !o.Tip.ChainValid {
		return nil, errors.New("honest nodes hold valid branches only")
	}
	var base uint64
	var err error
	var cm *chain.Manager
	if cp := o.Checkpoint; cp != nil {
		if cp.Block.V2 == nil || cp.Parent == nil || !cp.ChainValid {
			return nil, errors.New("checkpoint must be a valid v2 block")
		}
		store, ts, err := chain.NewDBStoreAtCheckpoint(chain.NewMemDB(), cp.Parent.L.State, cp.Block, nil)
		if err != nil {
			return nil, err
		}
		base = cp.Height
		cm = chain.NewManager(store, ts)
	} else {
		store, ts, err := chain.NewDBStore(chain.NewMemDB(), env.Net, env.Genesis, nil)
		if err != nil {
			return nil, err
		}
		cm = chain.NewManager(store, ts)
	}
	for _, pt := range o.PreTips {
		if err = Preload(cm, base, pt); err != nil {
			return nil, err
		}
	}
	if err = Preload(cm, base, o.Tip); err != nil {
		return nil, err
	}
	n := &Node{Name: o.Name, IP: o.IP, Opts: o, CM: cm, PS: NewPeerStore(), UID: gateway.GenerateUniqueID()}
	n.jrng = rand.New(rand.NewPCG(o.JitterSeed, 0x9e3779b97f4a7c15))
	n.Mon = NewMonitor(o.Name, o.Tree, cm, base)
	n.Mon.Act = o.Activity
	n.ACM = &AuditCM{Manager: cm, Mon: n.Mon}
	if o.Jitter > 0 {
		n.ACM.Perturb = n.jitter
	}
	if len(o.WatchIDs) > 0 || o.HandlerDelay > 0 {
		n.ACM.Watch = map[types.BlockID]bool{}
		for _, id := range o.WatchIDs {
			n.ACM.Watch[id] = true
		}
		n.ACM.HandlerDelay = o.HandlerDelay
		if d := o.HandlerDelay; d > 0 && o.Jitter == 0 {
			n.ACM.Perturb = func() { time.Sleep(d) }
		}
	}
	l, err := net.Listen("tcp", net.JoinHostPort(o.IP, "0"))
	if err != nil {
		return nil, fmt.Errorf("listen on %s: %w", o.IP, err)
	}
	n.l = l
	n.Addr = l.Addr().String()
	for _, p := range o.KnownPeers {
		n.PS.AddPeer(p)
	}
	def := func(d, v time.Duration) time.Duration {
		if d == 0 {
			return v
		}
		return d
	}
	rpcT := def(o.RPCTimeout, 2*time.Second)
	opts := []syncer.Option{
		syncer.WithDialer(&jitterDialer{n: n, d: net.Dialer{LocalAddr: &net.TCPAddr{IP: net.ParseIP(o.IP)}}}),
		syncer.WithSyncInterval(def(o.SyncInterval, 75*time.Millisecond)),
		syncer.WithPeerDiscoveryInterval(def(o.DiscoveryInterval, 75*time.Millisecond)),
		syncer.WithConnectTimeout(5 * time.Second),
		syncer.WithRPCTimeout(10 * time.Second),
		syncer.WithShareNodesTimeout(rpcT),
		syncer.WithSendBlockTimeout(rpcT),
		syncer.WithSendBlocksTimeout(rpcT),
		syncer.WithSendTransactionsTimeout(rpcT),
		syncer.WithRelayHeaderTimeout(rpcT),
		syncer.WithRelayBlockOutlineTimeout(rpcT),
		syncer.WithRelayTransactionSetTimeout(rpcT),
		syncer.WithBanDuration(def(o.BanDuration, time.Hour)),
	}
	if o.MaxSendBlocks > 0 {
		opts = append(opts, syncer.WithMaxSendBlocks(o.MaxSendBlocks))
	}
	if o.MaxInbound > 0 {
		opts = append(opts, syncer.WithMaxInboundPeers(o.MaxInbound))
	}
	if o.MaxOutbound > 0 {
		opts = append(opts, syncer.WithMaxOutboundPeers(o.MaxOutbound))
	}
	if o.KeepLog {
		n.log = &logRing{max: 400}
		enc := zapcore.NewConsoleEncoder(zapcore.EncoderConfig{MessageKey: "m", LevelKey: "l", TimeKey: "t", NameKey: "n",
			EncodeLevel: zapcore.LowercaseLevelEncoder, EncodeTime: zapcore.TimeEncoderOfLayout("05.000"), EncodeDuration: zapcore.StringDurationEncoder})
		opts = append(opts, syncer.WithLogger(zap.New(zapcore.NewCore(enc, zapcore.AddSync(n.log), zap.DebugLevel))))
	}
	opts = append(opts, o.ExtraOpts...)
	n.S = syncer.New(l, n.ACM, n.PS, gateway.Header{GenesisID: env.Genesis.ID(), UniqueID: n.UID, NetAddress: n.Addr}, opts...)
	return n, nil
}

// Start runs the syncer in the background.
func (n *Node) Start() {
	n.runDone = make(chan error, 1)
	go func() {
		err := n.S.Run()
		n.runErr.Store(fmt.Sprintf("Run returned: %v", err))
		n.runDone <- err
	}()
}

// RunExited reports whether Syncer.Run has returned (and with what).
func (n *Node) RunExited() (string, bool) {
	v, _ := n.runErr.Load().(string)
	return v, v != ""
}

// Connect dials addr from this node.
func (n *Node) Connect(addr string) error {
	ctx, cancel := context.WithTimeout(context.Background(), 5*time.Second)
	defer cancel()
	_, err := n.S.Connect(ctx, addr)
	return err
}

// HasPeer reports whether the node is connected to a peer advertising addr.
func (n *Node) HasPeer(addr string) bool {
	for _, p := range n.S.Peers() {
		if p.Addr() == addr {
			return true
		}
	}
	return false
}

// PeerSynced reports the synced flag this node holds for the peer at addr.
func (n *Node) PeerSynced(addr string) (synced, connected bool) {
	for _, p := range n.S.Peers() {
		if p.Addr() == addr {
			return p.Synced(), true
		}
	}
	return false, false
}

// Announce re-announces the node's tip the way the repository's tests do: the
// outline of the tip for v2 blocks, the header otherwise.
func (n *Node) Announce() {
	tip := n.CM.Tip()
	b, ok := n.CM.Block(tip.ID)
	if !ok {
		return
	}
	if b.V2 != nil {
		n.S.BroadcastV2BlockOutline(gateway.OutlineBlock(b, n.CM.PoolTransactions(), n.CM.V2PoolTransactions()))
	} else {
		n.S.BroadcastV2Header(b.Header())
	}
}

// Close stops the syncer; it reports false if Close or Run did not return
// within d (the goroutines are then abandoned).
func (n *Node) Close(d time.Duration) bool {
	if !n.closed.CompareAndSwap(false, true) {
		return true
	}
	done := make(chan struct{})
	go func() {
		n.S.Close()
		if n.runDone != nil {
			<-n.runDone
		}
		close(done)
	}()
	select {
	case <-done:
		return true
	case <-time.After(d):
		n.l.Close()
		return false
	}
}

// ---------------------------------------------------------------------------
// address allocation: every node of every concurrently running case gets its
// own loopback address; honest nodes and Byzantine peers live in different
// /24 (and /16) networks so that subnet strikes never hit an honest node.

var ipCounter atomic.Uint32

// NextSlot returns a fresh case slot.
func NextSlot() uint32 { return ipCounter.Add(1) }

// HonestIP returns the address of honest node i of case slot s.
func HonestIP(slot uint32, i int) string {
	return fmt.Sprintf("127.%d.%d.%d", 10+(slot/250)%100, 1+slot%250, 1+i)
}

// ByzIP returns the address of Byzantine peer i of case slot s.
func ByzIP(slot uint32, i int) string {
	return fmt.Sprintf("127.%d.%d.%d", 130+(slot/250)%100, 1+slot%250, 1+i)
}
