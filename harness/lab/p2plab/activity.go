package p2plab

import (
	"sync/atomic"
	"time"
)

// An Activity records, for one case, when anything sync-related last happened
// (a chain-manager call, a headers/blocks/checkpoint/transactions request
// served by a real node or a lab peer, a tip change) and when the case last
// made progress (a tip change, or a block id a node had not been handed
// before). It lets a liveness verdict distinguish "quiescent and stuck" and
// "repeating the same rounds" from "slow but still moving".
type Activity struct {
	lastAct  atomic.Int64 // unix nanoseconds
	lastProg atomic.Int64
	events   atomic.Int64 // activity events since the last progress
	inflight atomic.Int64 // mutating manager calls in progress
}

// NewActivity starts a tracker; both timestamps are "now".
func NewActivity() *Activity {
	a := &Activity{}
	now := time.Now().UnixNano()
	a.lastAct.Store(now)
	a.lastProg.Store(now)
	return a
}

// Act records an activity event.
func (a *Activity) Act() {
	if a == nil {
		return
	}
	a.lastAct.Store(time.Now().UnixNano())
	a.events.Add(1)
}

// Progress records progress (which is also activity).
func (a *Activity) Progress() {
	if a == nil {
		return
	}
	now := time.Now().UnixNano()
	a.lastAct.Store(now)
	a.lastProg.Store(now)
	a.events.Store(0)
}

// Enter / Leave bracket a mutating manager call.
func (a *Activity) Enter() {
	if a != nil {
		a.inflight.Add(1)
		a.lastAct.Store(time.Now().UnixNano())
	}
}

// Leave ends a bracket opened by Enter.
func (a *Activity) Leave() {
	if a != nil {
		a.inflight.Add(-1)
		a.lastAct.Store(time.Now().UnixNano())
	}
}

// LastActivity / LastProgress return unix nanoseconds.
func (a *Activity) LastActivity() int64 { return a.lastAct.Load() }

// LastProgress returns the time of the last progress event.
func (a *Activity) LastProgress() int64 { return a.lastProg.Load() }

// EventsSinceProgress counts activity events after the last progress.
func (a *Activity) EventsSinceProgress() int64 { return a.events.Load() }

// InFlight returns the number of manager calls in progress.
func (a *Activity) InFlight() int64 { return a.inflight.Load() }
