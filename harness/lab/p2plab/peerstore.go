// Package p2plab runs in-process clusters of real syncer.Syncer nodes on
// loopback addresses, audits every chain-manager call a syncer issues against
// the labels of a chainlab fork tree, and provides a scriptable Byzantine
// gateway peer built on go.sia.tech/core/gateway.
package p2plab

import (
	"net"
	"sort"
	"strings"
	"sync"
	"time"

	"go.sia.tech/coreutils/syncer"
)

// A BanRecord is one PeerStore.Ban call.
type BanRecord struct {
	Addr   string `json:"addr"`
	Reason string `json:"reason"`
	AtMS   int64  `json:"at_ms"`
}

// A PeerStore is a recording syncer.PeerStore whose bans are effective: Banned
// reports true for every address covered by an unexpired Ban (single address or
// CIDR subnet).
type PeerStore struct {
	mu      sync.Mutex
	start   time.Time
	peers   map[string]syncer.PeerInfo
	bans    []ban
	BanLog  []BanRecord
	Added   []string // every AddPeer argument in call order (bounded)
	nBanned int      // Banned() calls that returned true
}

type ban struct {
	net   *net.IPNet
	until time.Time
}

// NewPeerStore returns an empty store.
func NewPeerStore() *PeerStore {
	return &PeerStore{start: time.Now(), peers: make(map[string]syncer.PeerInfo)}
}

// AddPeer implements syncer.PeerStore.
func (ps *PeerStore) AddPeer(addr string) error {
	ps.mu.Lock()
	defer ps.mu.Unlock()
	if len(ps.Added) < 4096 {
		ps.Added = append(ps.Added, addr)
	}
	if _, ok := ps.peers[addr]; ok {
		return nil
	}
	ps.peers[addr] = syncer.PeerInfo{Address: addr, FirstSeen: time.Now()}
	return nil
}

// Peers implements syncer.PeerStore.
func (ps *PeerStore) Peers() ([]syncer.PeerInfo, error) {
	ps.mu.Lock()
	defer ps.mu.Unlock()
	out := make([]syncer.PeerInfo, 0, len(ps.peers))
	for _, p := range ps.peers {
		out = append(out, p)
	}
	sort.Slice(out, func(i, j int) bool { return out[i].Address < out[j].Address })
	return out, nil
}

// PeerInfo implements syncer.PeerStore.
func (ps *PeerStore) PeerInfo(addr string) (syncer.PeerInfo, error) {
	ps.mu.Lock()
	defer ps.mu.Unlock()
	p, ok := ps.peers[addr]
	if !ok {
		return syncer.PeerInfo{}, syncer.ErrPeerNotFound
	}
	return p, nil
}

// UpdatePeerInfo implements syncer.PeerStore.
func (ps *PeerStore) UpdatePeerInfo(addr string, fn func(*syncer.PeerInfo)) error {
	ps.mu.Lock()
	defer ps.mu.Unlock()
	p, ok := ps.peers[addr]
	if !ok {
		return syncer.ErrPeerNotFound
	}
	fn(&p)
	ps.peers[addr] = p
	return nil
}

func parseBanTarget(addr string) *net.IPNet {
	if strings.Contains(addr, "/") {
		if _, n, err := net.ParseCIDR(addr); err == nil {
			return n
		}
		return nil
	}
	host := addr
	if h, _, err := net.SplitHostPort(addr); err == nil {
		host = h
	}
	ip := net.ParseIP(host)
	if ip == nil {
		return nil
	}
	if v4 := ip.To4(); v4 != nil {
		return &net.IPNet{IP: v4, Mask: net.CIDRMask(32, 32)}
	}
	return &net.IPNet{IP: ip, Mask: net.CIDRMask(128, 128)}
}

// Ban implements syncer.PeerStore.
func (ps *PeerStore) Ban(addr string, d time.Duration, reason string) error {
	ps.mu.Lock()
	defer ps.mu.Unlock()
	ps.BanLog = append(ps.BanLog, BanRecord{addr, reason, time.Since(ps.start).Milliseconds()})
	if n := parseBanTarget(addr); n != nil {
		ps.bans = append(ps.bans, ban{n, time.Now().Add(d)})
	}
	return nil
}

// Banned implements syncer.PeerStore.
func (ps *PeerStore) Banned(addr string) (bool, error) {
	host := addr
	if h, _, err := net.SplitHostPort(addr); err == nil {
		host = h
	}
	ip := net.ParseIP(host)
	if ip == nil {
		return false, nil
	}
	ps.mu.Lock()
	defer ps.mu.Unlock()
	now := time.Now()
	for _, b := range ps.bans {
		if now.Before(b.until) && b.net.Contains(ip) {
			ps.nBanned++
			return true, nil
		}
	}
	return false, nil
}

// Bans returns a copy of the ban log.
func (ps *PeerStore) Bans() []BanRecord {
	ps.mu.Lock()
	defer ps.mu.Unlock()
	return append([]BanRecord(nil), ps.BanLog...)
}

// BansFor returns the ban records whose target covers ip.
func (ps *PeerStore) BansFor(ip string) (out []BanRecord) {
	x := net.ParseIP(ip)
	for _, r := range ps.Bans() {
		if n := parseBanTarget(r.Addr); n != nil && x != nil && n.Contains(x) {
			out = append(out, r)
		}
	}
	return
}

// AddedPeers returns every address passed to AddPeer.
func (ps *PeerStore) AddedPeers() []string {
	ps.mu.Lock()
	defer ps.mu.Unlock()
	return append([]string(nil), ps.Added...)
}

var _ syncer.PeerStore = (*PeerStore)(nil)
