package p2plab

import (
	"bytes"
	"encoding/hex"
	"fmt"
	"runtime/debug"
	"strings"
	"sync"
	"time"

	"go.sia.tech/core/consensus"
	"go.sia.tech/core/types"
	"go.sia.tech/coreutils/chain"
	"go.sia.tech/coreutils/syncer"
	"verif/harness/lab/chainlab"
)

// A Finding is a monitor verdict with a stable signature.
type Finding struct {
	Sig    string `json:"signature"`
	What   string `json:"what"`
	Detail any    `json:"detail,omitempty"`
}

// A CallRec is one chain-manager call issued by a syncer.
type CallRec struct {
	Kind  string `json:"kind"`
	N     int    `json:"n"`
	First int    `json:"first"` // tree index of the first block, -1 if not a tree block
	Last  int    `json:"last"`
	Err   string `json:"err,omitempty"`
	Tip   int    `json:"tip_after"`
	AtMS  int64  `json:"at_ms"`
}

// A TipSample is one observed tip.
type TipSample struct {
	AtMS int64  `json:"at_ms"`
	Node int    `json:"node"`
	H    uint64 `json:"height"`
	Src  string `json:"src"`
}

// A Monitor audits one node's chain manager against the labels of the fork
// tree: the tip is always a chain-valid tree node whose pure state is
// byte-equal to TipState, the best index equals the node's path, the best
// chain's blocks are the tree's blocks, and tip work never decreases.
type Monitor struct {
	Name string
	T    *chainlab.Tree
	cm   *chain.Manager
	base uint64 // lowest height the node stores an index for (checkpoint nodes)

	mu       sync.Mutex
	start    time.Time
	last     *chainlab.Node
	traj     []TipSample // tip changes only (bounded)
	calls    []CallRec   // bounded tail
	findings []Finding
	seen     map[string]bool
	NCalls   map[string]int
	NAudits  int
	NSamples int
	NMoves   int
	NReorgs  int // tip changes that left the previous tip's chain
	MaxDepth int
	// Act, if set, is told about manager calls, new block ids and tip changes
	Act        *Activity
	seenBlocks map[types.BlockID]struct{}
	// RecoveredPanics are manager panics raised inside an RPC handler, where the
	// syncer recovers them (recorded, not a verdict)
	RecoveredPanics []string
}

// NewMonitor starts monitoring cm, whose tip must be a chain-valid tree node.
func NewMonitor(name string, t *chainlab.Tree, cm *chain.Manager, base uint64) *Monitor {
	m := &Monitor{Name: name, T: t, cm: cm, base: base, start: time.Now(), seen: map[string]bool{}, NCalls: map[string]int{}}
	m.observe("init", true)
	return m
}

func (m *Monitor) addFinding(f Finding) {
	if m.seen[f.Sig] {
		return
	}
	m.seen[f.Sig] = true
	m.findings = append(m.findings, f)
}

// Report adds an externally detected finding.
func (m *Monitor) Report(f Finding) {
	m.mu.Lock()
	m.addFinding(f)
	m.mu.Unlock()
}

// Findings returns what the monitor has found so far.
func (m *Monitor) Findings() []Finding {
	m.mu.Lock()
	defer m.mu.Unlock()
	return append([]Finding(nil), m.findings...)
}

// Calls returns the tail of the call log.
func (m *Monitor) Calls() []CallRec {
	m.mu.Lock()
	defer m.mu.Unlock()
	return append([]CallRec(nil), m.calls...)
}

// Trajectory returns the recorded tip changes.
func (m *Monitor) Trajectory() []TipSample {
	m.mu.Lock()
	defer m.mu.Unlock()
	return append([]TipSample(nil), m.traj...)
}

// Tip returns the last observed tip node (nil if it was not a tree node).
func (m *Monitor) Tip() *chainlab.Node {
	m.mu.Lock()
	defer m.mu.Unlock()
	return m.last
}

// Recovered returns the manager panics that were raised inside RPC handlers.
func (m *Monitor) Recovered() []string {
	m.mu.Lock()
	defer m.mu.Unlock()
	return append([]string(nil), m.RecoveredPanics...)
}

// Stats returns counters.
func (m *Monitor) Stats() (calls map[string]int, audits, samples, moves, reorgs, maxDepth int) {
	m.mu.Lock()
	defer m.mu.Unlock()
	c := map[string]int{}
	for k, v := range m.NCalls {
		c[k] = v
	}
	return c, m.NAudits, m.NSamples, m.NMoves, m.NReorgs, m.MaxDepth
}

func encodeHex(v types.EncoderTo) string {
	var buf bytes.Buffer
	e := types.NewEncoder(&buf)
	v.EncodeTo(e)
	e.Flush()
	return hex.EncodeToString(buf.Bytes())
}

// Sample takes a light tip sample (used by the 50 ms sampler).
func (m *Monitor) Sample() *chainlab.Node {
	m.mu.Lock()
	defer m.mu.Unlock()
	m.NSamples++
	return m.observe("sample", false)
}

// observe reads the tip under the monitor lock (so that the recorded order is
// the order of the reads) and checks it. deep additionally walks the best
// index; it is only used while no mutating call can run concurrently.
func (m *Monitor) observe(src string, deep bool) *chainlab.Node {
	ts := m.cm.TipState()
	node := m.T.ByID[ts.Index.ID]
	if node == nil {
		m.addFinding(Finding{"tip-unknown-block", fmt.Sprintf("%s: tip %v is not a generated block", m.Name, ts.Index), nil})
		return nil
	}
	if !node.ChainValid {
		m.addFinding(Finding{"invalid-block-on-best-chain", fmt.Sprintf("%s: tip %v (node %d) lies on a chain with an invalid block: %s", m.Name, ts.Index, node.Idx, node.Err), map[string]any{"corruption": node.Corruption}})
		m.last = nil
		return node
	}
	if chainlab.StateBytes(ts) != chainlab.StateBytes(node.L.State) {
		m.addFinding(Finding{"tipstate-differs-from-replay", fmt.Sprintf("%s: TipState at node %d (height %d) differs from the pure replay", m.Name, node.Idx, node.Height), nil})
	}
	prev := m.last
	if prev != nil && prev != node {
		m.Act.Progress()
		m.NMoves++
		if node.L.State.TotalWork.Cmp(prev.L.State.TotalWork) < 0 {
			m.addFinding(Finding{"tip-work-decreased", fmt.Sprintf("%s: tip moved from node %d (height %d) to node %d (height %d) with less total work", m.Name, prev.Idx, prev.Height, node.Idx, node.Height), nil})
		}
		fork := chainlab.CommonAncestor(prev, node)
		if d := int(prev.Height - fork.Height); d > 0 {
			m.NReorgs++
			if d > m.MaxDepth {
				m.MaxDepth = d
			}
		}
	}
	if prev != node {
		if len(m.traj) < 256 {
			m.traj = append(m.traj, TipSample{time.Since(m.start).Milliseconds(), node.Idx, node.Height, src})
		}
	}
	if deep && (prev != node || src == "final") {
		m.deepCheck(node, prev, src == "final")
	}
	m.last = node
	return node
}

// deepCheck compares the best index with the node's path and the blocks of
// the newly adopted part of the chain with the tree's blocks.
func (m *Monitor) deepCheck(node, prev *chainlab.Node, all bool) {
	var stop *chainlab.Node
	if prev != nil && !all {
		stop = chainlab.CommonAncestor(prev, node)
	}
	newPart := true
	for x := node; x != nil && x.Height >= m.base; x = x.Parent {
		if x == stop {
			newPart = false
		}
		idx, ok := m.cm.BestIndex(x.Height)
		if !ok || idx.ID != x.ID || idx.Height != x.Height {
			m.addFinding(Finding{"best-index-wrong", fmt.Sprintf("%s: BestIndex(%d) = %v,%v; want node %d %v", m.Name, x.Height, idx, ok, x.Idx, x.ID), nil})
			return
		}
		if newPart || all {
			b, ok := m.cm.Block(x.ID)
			if !ok {
				m.addFinding(Finding{"best-chain-block-missing", fmt.Sprintf("%s: Block(node %d) missing", m.Name, x.Idx), nil})
				return
			}
			if encodeHex(types.V2Block(b)) != encodeHex(types.V2Block(x.Block)) {
				m.addFinding(Finding{"best-chain-block-differs", fmt.Sprintf("%s: the block stored for node %d (height %d) on the best chain is not the generated block with that id", m.Name, x.Idx, x.Height), nil})
			}
		}
		if x.Height == 0 {
			break
		}
	}
	if idx, ok := m.cm.BestIndex(node.Height + 1); ok {
		m.addFinding(Finding{"best-index-beyond-tip", fmt.Sprintf("%s: BestIndex(%d) = %v beyond the tip", m.Name, node.Height+1, idx), nil})
	}
}

// Final runs the full audit (whole path, every block) and returns all findings.
func (m *Monitor) Final() []Finding {
	m.mu.Lock()
	m.NAudits++
	m.observe("final", true)
	m.mu.Unlock()
	return m.Findings()
}

func (m *Monitor) afterCall(kind string, blocks []types.Block, err error, panicked any, inHandler bool) {
	m.mu.Lock()
	defer m.mu.Unlock()
	m.NCalls[kind]++
	m.NAudits++
	if m.Act != nil {
		if m.seenBlocks == nil {
			m.seenBlocks = map[types.BlockID]struct{}{}
		}
		fresh := false
		for i := range blocks {
			id := blocks[i].ID()
			if _, ok := m.seenBlocks[id]; !ok {
				m.seenBlocks[id] = struct{}{}
				fresh = true
			}
		}
		if fresh {
			m.Act.Progress()
		} else {
			m.Act.Act()
		}
	}
	rec := CallRec{Kind: kind, N: len(blocks), First: -1, Last: -1, Tip: -1, AtMS: time.Since(m.start).Milliseconds()}
	if len(blocks) > 0 {
		if n := m.T.ByID[blocks[0].ID()]; n != nil {
			rec.First = n.Idx
		}
		if n := m.T.ByID[blocks[len(blocks)-1].ID()]; n != nil {
			rec.Last = n.Idx
		}
	}
	if err != nil {
		rec.Err = err.Error()
		if len(rec.Err) > 300 {
			rec.Err = rec.Err[:300]
		}
	}
	if panicked != nil {
		rec.Err = fmt.Sprint("panic: ", panicked)
		if inHandler {
			if len(m.RecoveredPanics) < 16 {
				m.RecoveredPanics = append(m.RecoveredPanics, fmt.Sprintf("%s: %v", kind, panicked))
			}
		} else {
			m.addFinding(Finding{"panic-outside-rpc-handler:" + kind, fmt.Sprintf("%s: %s panicked outside the recovering RPC dispatcher (would crash the process): %v", m.Name, kind, panicked), nil})
		}
	}
	prev := m.last
	node := m.observe(kind, true)
	if node != nil {
		rec.Tip = node.Idx
		if err != nil && prev != nil && node != prev {
			m.addFinding(Finding{"error-but-tip-moved", fmt.Sprintf("%s: %s returned %q but the tip moved from node %d to node %d", m.Name, kind, rec.Err, prev.Idx, node.Idx), nil})
		}
	}
	if len(m.calls) >= 48 {
		copy(m.calls, m.calls[1:])
		m.calls = m.calls[:len(m.calls)-1]
	}
	m.calls = append(m.calls, rec)
}

// An AuditCM is the syncer.ChainManager handed to a syncer: every mutating
// call is recorded and followed by an audit; read-only calls go straight to
// the manager. Mutating calls are serialised (the manager serialises them
// internally anyway) so that the audit sees the state the call left behind.
type AuditCM struct {
	*chain.Manager
	Mon    *Monitor
	callMu sync.Mutex
	// Perturb, if set, is called before every mutating call (schedule noise).
	Perturb func()
	// Watch: reads of these block ids (State, Block) are recorded together with
	// whether they came from an RPC handler; set before the syncer starts.
	Watch map[types.BlockID]bool
	// HandlerDelay delays recorded reads that come from an RPC handler (it widens
	// the window between "message fully read" and "verdict reached").
	HandlerDelay time.Duration
	rmu          sync.Mutex
	reads        []ReadHit
}

// A ReadHit is one recorded read-only manager call.
type ReadHit struct {
	Kind      string
	ID        types.BlockID
	InHandler bool
	At        int64 // unix nanoseconds
}

func (a *AuditCM) noteRead(kind string, id types.BlockID, always bool) {
	if !always && !a.Watch[id] {
		return
	}
	inH := strings.Contains(string(debug.Stack()), "syncer.(*Syncer).handleRPC")
	a.rmu.Lock()
	if len(a.reads) < 4096 {
		a.reads = append(a.reads, ReadHit{kind, id, inH, time.Now().UnixNano()})
	}
	a.rmu.Unlock()
	if inH && a.HandlerDelay > 0 {
		time.Sleep(a.HandlerDelay)
	}
}

// HandlerReads counts recorded reads of the given kind (and id, unless zero)
// issued by an RPC handler at or after since (unix nanoseconds).
func (a *AuditCM) HandlerReads(kind string, id types.BlockID, since int64) int {
	a.rmu.Lock()
	defer a.rmu.Unlock()
	n := 0
	for _, h := range a.reads {
		if h.InHandler && h.Kind == kind && h.At >= since && (id == (types.BlockID{}) || h.ID == id) {
			n++
		}
	}
	return n
}

// Headers implements syncer.ChainManager (served to a syncing peer).
func (a *AuditCM) Headers(index types.ChainIndex, max uint64) ([]types.BlockHeader, uint64, error) {
	a.Mon.Act.Act()
	return a.Manager.Headers(index, max)
}

// BlocksForHistory implements syncer.ChainManager (served to a syncing peer).
func (a *AuditCM) BlocksForHistory(history []types.BlockID, max uint64) ([]types.Block, uint64, error) {
	a.Mon.Act.Act()
	return a.Manager.BlocksForHistory(history, max)
}

// State implements syncer.ChainManager.
func (a *AuditCM) State(id types.BlockID) (consensus.State, bool) {
	if a.Watch != nil {
		a.noteRead("State", id, false)
	}
	return a.Manager.State(id)
}

// Block implements syncer.ChainManager.
func (a *AuditCM) Block(id types.BlockID) (types.Block, bool) {
	if a.Watch != nil {
		a.noteRead("Block", id, false)
	}
	return a.Manager.Block(id)
}

// TransactionsForPartialBlock implements syncer.ChainManager.
func (a *AuditCM) TransactionsForPartialBlock(missing []types.Hash256) ([]types.Transaction, []types.V2Transaction) {
	if a.Watch != nil {
		a.noteRead("TransactionsForPartialBlock", types.BlockID{}, true)
	}
	return a.Manager.TransactionsForPartialBlock(missing)
}

// guard runs fn and reports a panic together with whether it was raised
// underneath the syncer's RPC dispatcher, which recovers handler panics in
// production ("handler panics are recovered"); such a panic is recorded and
// re-raised to keep that behaviour. Any other panic (e.g. in the parallel sync
// goroutines) would kill the process; it becomes a finding and an error.
func guard(fn func()) (p any, inHandler bool) {
	defer func() {
		if v := recover(); v != nil {
			p = v
			inHandler = strings.Contains(string(debug.Stack()), "syncer.(*Syncer).handleRPC")
		}
	}()
	fn()
	return nil, false
}

// AddBlocks implements syncer.ChainManager.
func (a *AuditCM) AddBlocks(blocks []types.Block) error {
	a.Mon.Act.Enter()
	defer a.Mon.Act.Leave()
	if a.Perturb != nil {
		a.Perturb()
	}
	a.callMu.Lock()
	defer a.callMu.Unlock()
	var err error
	p, inH := guard(func() { err = a.Manager.AddBlocks(blocks) })
	a.Mon.afterCall("AddBlocks", blocks, err, p, inH)
	if p != nil {
		if inH {
			panic(p)
		}
		return fmt.Errorf("AddBlocks panicked: %v", p)
	}
	return err
}

// AddValidatedV2Blocks implements syncer.ChainManager.
func (a *AuditCM) AddValidatedV2Blocks(blocks []types.Block, states []consensus.State) error {
	a.Mon.Act.Enter()
	defer a.Mon.Act.Leave()
	if a.Perturb != nil {
		a.Perturb()
	}
	a.callMu.Lock()
	defer a.callMu.Unlock()
	var err error
	p, inH := guard(func() { err = a.Manager.AddValidatedV2Blocks(blocks, states) })
	a.Mon.afterCall("AddValidatedV2Blocks", blocks, err, p, inH)
	if p != nil {
		if inH {
			panic(p)
		}
		return fmt.Errorf("AddValidatedV2Blocks panicked: %v", p)
	}
	return err
}

// AddV2PoolTransactions implements syncer.ChainManager.
func (a *AuditCM) AddV2PoolTransactions(basis types.ChainIndex, txns []types.V2Transaction) (bool, error) {
	a.Mon.Act.Enter()
	defer a.Mon.Act.Leave()
	a.callMu.Lock()
	defer a.callMu.Unlock()
	var known bool
	var err error
	p, inH := guard(func() { known, err = a.Manager.AddV2PoolTransactions(basis, txns) })
	a.Mon.afterCall("AddV2PoolTransactions", nil, err, p, inH)
	if p != nil {
		if inH {
			panic(p)
		}
		return false, fmt.Errorf("AddV2PoolTransactions panicked: %v", p)
	}
	return known, err
}

// AddPoolTransactions implements syncer.ChainManager.
func (a *AuditCM) AddPoolTransactions(txns []types.Transaction) (bool, error) {
	a.Mon.Act.Enter()
	defer a.Mon.Act.Leave()
	a.callMu.Lock()
	defer a.callMu.Unlock()
	var known bool
	var err error
	p, inH := guard(func() { known, err = a.Manager.AddPoolTransactions(txns) })
	a.Mon.afterCall("AddPoolTransactions", nil, err, p, inH)
	if p != nil {
		if inH {
			panic(p)
		}
		return false, fmt.Errorf("AddPoolTransactions panicked: %v", p)
	}
	return known, err
}

var _ syncer.ChainManager = (*AuditCM)(nil)
