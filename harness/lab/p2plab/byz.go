package p2plab

import (
	"errors"
	"fmt"
	"net"
	"sync"
	"sync/atomic"
	"time"

	"go.sia.tech/core/consensus"
	"go.sia.tech/core/gateway"
	"go.sia.tech/core/types"
	"verif/harness/lab/chainlab"
)

// A Reply tells the Byzantine peer what to do with a request it received.
type Reply struct {
	// Obj is the object whose *response* encoding is written to the stream. It
	// may be of another RPC type than the request (type confusion). nil writes
	// nothing.
	Obj gateway.Object
	// Silence keeps the stream open without answering until the victim gives
	// up (or the peer is closed).
	Silence bool
	// Faulted marks the reply as a deliberately corrupted one (for counters).
	Faulted bool
	// HangUp closes the TCP connection as soon as the reply has been flushed to
	// the socket ("hit and run").
	HangUp bool
}

// flushConn counts completed writes to the socket so that a hang-up can wait
// until the multiplexer has flushed what was just written.
type flushConn struct {
	net.Conn
	writes   atomic.Int64
	lastDone atomic.Int64
}

func (c *flushConn) Write(p []byte) (int, error) {
	n, err := c.Conn.Write(p)
	c.lastDone.Store(time.Now().UnixNano())
	c.writes.Add(1)
	return n, err
}

// hangUp waits until at least one socket write completed after mark and the
// socket has been quiet for half a millisecond (the multiplexer flushes as soon
// as it is woken), then closes the TCP connection.
func (b *Byz) hangUp(c *flushConn, mark int64) {
	deadline := time.Now().Add(500 * time.Millisecond)
	for time.Now().Before(deadline) {
		if c.writes.Load() > mark && time.Now().UnixNano()-c.lastDone.Load() > int64(500*time.Microsecond) {
			break
		}
		time.Sleep(100 * time.Microsecond)
	}
	c.Conn.Close()
	b.LastHangUp.Store(time.Now().UnixNano())
	b.Count("hangups", 1)
}

// A Byz is a scriptable gateway peer. Without hooks it answers every RPC
// honestly from View (a path of the tree, which may contain invalid blocks);
// a hook may replace or corrupt the answer.
type Byz struct {
	Name string
	IP   string
	Addr string
	T    *chainlab.Tree
	hdr  gateway.Header

	// View is the chain the peer pretends to hold, indexed by height.
	View []*chainlab.Node

	// hooks (nil = honest). The request fields are decoded; honest answers can
	// be obtained from the Honest* helpers.
	OnSendHeaders      func(b *Byz, r *gateway.RPCSendHeaders) Reply
	OnSendV2Blocks     func(b *Byz, r *gateway.RPCSendV2Blocks) Reply
	OnSendCheckpoint   func(b *Byz, r *gateway.RPCSendCheckpoint) Reply
	OnSendTransactions func(b *Byz, r *gateway.RPCSendTransactions) Reply
	OnShareNodes       func(b *Byz, r *gateway.RPCShareNodes) Reply

	l      net.Listener
	mu     sync.Mutex
	conns  []*gateway.Transport
	raw    []*flushConn
	closed chan struct{}
	once   sync.Once
	wg     sync.WaitGroup

	cmu      sync.Mutex
	counters map[string]int
	Relayed  atomic.Int64 // relays received from the victim
	// Activity, if set, is told about every sync RPC the peer is asked
	Activity *Activity
	// everything the peer was sent by relay RPCs (bounded)
	rmu         sync.Mutex
	relHeaders  []types.BlockHeader
	relOutlines []gateway.V2BlockOutline
	relSets     []RelayedSet
	// LastFault / LastHangUp: unix nanoseconds of the last faulted write / hang-up
	LastFault  atomic.Int64
	LastHangUp atomic.Int64
}

// NewByz creates a Byzantine peer on ip pretending to hold the chain ending
// at tip.
func NewByz(name, ip string, t *chainlab.Tree, tip *chainlab.Node) (*Byz, error) {
	b := &Byz{Name: name, IP: ip, T: t, closed: make(chan struct{}), counters: map[string]int{}}
	b.SetView(tip)
	l, err := net.Listen("tcp", net.JoinHostPort(ip, "0"))
	if err != nil {
		return nil, fmt.Errorf("listen on %s: %w", ip, err)
	}
	b.l = l
	b.Addr = l.Addr().String()
	b.hdr = gateway.Header{GenesisID: t.Env.Genesis.ID(), UniqueID: gateway.GenerateUniqueID(), NetAddress: b.Addr}
	b.wg.Add(1)
	go b.acceptLoop()
	return b, nil
}

// SetView replaces the chain the peer pretends to hold (before it is started
// or between phases; not concurrently with serving).
func (b *Byz) SetView(tip *chainlab.Node) {
	b.mu.Lock()
	b.View = append([]*chainlab.Node{b.T.Root}, tip.PathFromGenesis()...)
	b.mu.Unlock()
}

func (b *Byz) view() []*chainlab.Node {
	b.mu.Lock()
	defer b.mu.Unlock()
	return b.View
}

// Count adds to a named counter.
func (b *Byz) Count(name string, n int) {
	b.cmu.Lock()
	b.counters[name] += n
	b.cmu.Unlock()
}

// Counter reads a counter.
func (b *Byz) Counter(name string) int {
	b.cmu.Lock()
	defer b.cmu.Unlock()
	return b.counters[name]
}

// Counters returns a copy of all counters.
func (b *Byz) Counters() map[string]int {
	b.cmu.Lock()
	defer b.cmu.Unlock()
	out := map[string]int{}
	for k, v := range b.counters {
		out[k] = v
	}
	return out
}

func (b *Byz) acceptLoop() {
	defer b.wg.Done()
	for {
		conn, err := b.l.Accept()
		if err != nil {
			return
		}
		b.wg.Add(1)
		go func() {
			defer b.wg.Done()
			conn.SetDeadline(time.Now().Add(5 * time.Second))
			fc := &flushConn{Conn: conn}
			t, err := gateway.Accept(fc, b.hdr)
			if err != nil {
				conn.Close()
				return
			}
			conn.SetDeadline(time.Time{})
			b.Count("conn:accepted", 1)
			b.serve(t, fc)
		}()
	}
}

// Dial connects to the victim from the peer's own address.
func (b *Byz) Dial(victim string) error {
	d := net.Dialer{LocalAddr: &net.TCPAddr{IP: net.ParseIP(b.IP)}, Timeout: 5 * time.Second}
	conn, err := d.Dial("tcp", victim)
	if err != nil {
		return err
	}
	conn.SetDeadline(time.Now().Add(5 * time.Second))
	fc := &flushConn{Conn: conn}
	t, err := gateway.Dial(fc, b.hdr)
	if err != nil {
		conn.Close()
		return err
	}
	conn.SetDeadline(time.Time{})
	b.Count("conn:dialed", 1)
	b.wg.Add(1)
	go func() {
		defer b.wg.Done()
		b.serve(t, fc)
	}()
	return nil
}

// Connected reports whether at least one transport is alive.
func (b *Byz) Connected() bool {
	b.mu.Lock()
	defer b.mu.Unlock()
	return len(b.conns) > 0
}

func (b *Byz) serve(t *gateway.Transport, conn *flushConn) {
	b.mu.Lock()
	select {
	case <-b.closed:
		b.mu.Unlock()
		t.Close()
		return
	default:
	}
	b.conns = append(b.conns, t)
	b.raw = append(b.raw, conn)
	b.mu.Unlock()
	defer func() {
		t.Close()
		b.mu.Lock()
		for i, c := range b.conns {
			if c == t {
				b.conns = append(b.conns[:i], b.conns[i+1:]...)
				b.raw = append(b.raw[:i], b.raw[i+1:]...)
				break
			}
		}
		b.mu.Unlock()
		b.Count("conn:lost", 1)
	}()
	for {
		s, err := t.AcceptStream()
		if err != nil {
			return
		}
		b.wg.Add(1)
		go func() {
			defer b.wg.Done()
			defer s.Close()
			b.handle(s, conn)
		}()
	}
}

func (b *Byz) reply(kind string, s *gateway.Stream, rep Reply, conn *flushConn) {
	if rep.Faulted {
		b.Count("faulted:"+kind, 1)
		b.LastFault.Store(time.Now().UnixNano())
	}
	if rep.Silence {
		b.Count("silence:"+kind, 1)
		// hold the stream open: block until the victim closes it or we shut down
		done := make(chan struct{})
		go func() {
			s.SetDeadline(time.Now().Add(45 * time.Second))
			var id types.Specifier
			for {
				if _, err := s.ReadID(); err != nil {
					break
				}
				_ = id
			}
			close(done)
		}()
		select {
		case <-done:
		case <-b.closed:
		}
		return
	}
	if rep.Obj == nil {
		b.Count("closed:"+kind, 1)
		return
	}
	mark := conn.writes.Load()
	if err := s.WriteResponse(rep.Obj); err != nil {
		b.Count("writefail:"+kind, 1)
		return
	}
	b.Count("answered:"+kind, 1)
	if rep.HangUp {
		b.hangUp(conn, mark)
	}
}

func (b *Byz) handle(s *gateway.Stream, conn *flushConn) {
	s.SetDeadline(time.Now().Add(20 * time.Second))
	id, err := s.ReadID()
	if err != nil {
		return
	}
	switch r := gateway.ObjectForID(id).(type) {
	case *gateway.RPCShareNodes:
		b.Count("recv:ShareNodes", 1)
		rep := Reply{Obj: r}
		if b.OnShareNodes != nil {
			rep = b.OnShareNodes(b, r)
		}
		b.reply("ShareNodes", s, rep, conn)
	case *gateway.RPCDiscoverIP:
		r.IP = "127.0.0.1"
		s.WriteResponse(r)
	case *gateway.RPCSendHeaders:
		if s.ReadRequest(r) != nil {
			return
		}
		b.Count("recv:SendHeaders", 1)
		b.Activity.Act()
		var rep Reply
		if b.OnSendHeaders != nil {
			rep = b.OnSendHeaders(b, r)
		} else if b.HonestHeaders(r) {
			rep = Reply{Obj: r}
		}
		b.reply("SendHeaders", s, rep, conn)
	case *gateway.RPCSendV2Blocks:
		if s.ReadRequest(r) != nil {
			return
		}
		b.Count("recv:SendV2Blocks", 1)
		b.Activity.Act()
		var rep Reply
		if b.OnSendV2Blocks != nil {
			rep = b.OnSendV2Blocks(b, r)
		} else if b.HonestBlocks(r) {
			rep = Reply{Obj: r}
		}
		b.reply("SendV2Blocks", s, rep, conn)
	case *gateway.RPCSendCheckpoint:
		if s.ReadRequest(r) != nil {
			return
		}
		b.Count("recv:SendCheckpoint", 1)
		b.Activity.Act()
		var rep Reply
		if b.OnSendCheckpoint != nil {
			rep = b.OnSendCheckpoint(b, r)
		} else if b.HonestCheckpoint(r) {
			rep = Reply{Obj: r}
		}
		b.reply("SendCheckpoint", s, rep, conn)
	case *gateway.RPCSendTransactions:
		if s.ReadRequest(r) != nil {
			return
		}
		b.Count("recv:SendTransactions", 1)
		b.Activity.Act()
		var rep Reply
		if b.OnSendTransactions != nil {
			rep = b.OnSendTransactions(b, r)
		} else if b.HonestTransactions(r) {
			rep = Reply{Obj: r}
		}
		b.reply("SendTransactions", s, rep, conn)
	case *gateway.RPCRelayV2Header:
		if s.ReadRequest(r) == nil {
			b.Count("recv:RelayV2Header", 1)
			b.Relayed.Add(1)
			b.rmu.Lock()
			if len(b.relHeaders) < 256 {
				b.relHeaders = append(b.relHeaders, r.Header)
			}
			b.rmu.Unlock()
		}
	case *gateway.RPCRelayV2BlockOutline:
		if s.ReadRequest(r) == nil {
			b.Count("recv:RelayV2BlockOutline", 1)
			b.Relayed.Add(1)
			b.rmu.Lock()
			if len(b.relOutlines) < 256 {
				b.relOutlines = append(b.relOutlines, r.Block)
			}
			b.rmu.Unlock()
		}
	case *gateway.RPCRelayV2TransactionSet:
		if s.ReadRequest(r) == nil {
			b.Count("recv:RelayV2TransactionSet", 1)
			b.Relayed.Add(1)
			b.rmu.Lock()
			if len(b.relSets) < 64 {
				b.relSets = append(b.relSets, RelayedSet{Index: r.Index, Transactions: r.Transactions})
			}
			b.rmu.Unlock()
		}
	default:
		b.Count("recv:unknown", 1)
	}
}

// ---- honest answers from the view --------------------------------------------

func (b *Byz) onView(id types.BlockID) (int, bool) {
	n := b.T.ByID[id]
	v := b.view()
	if n == nil || int(n.Height) >= len(v) || v[n.Height] != n {
		return 0, false
	}
	return int(n.Height), true
}

// HonestHeaders fills r like an honest node holding View would; false means
// the honest node would fail the RPC (index not on its best chain).
func (b *Byz) HonestHeaders(r *gateway.RPCSendHeaders) bool {
	h, ok := b.onView(r.Index.ID)
	if !ok || uint64(h) != r.Index.Height {
		return false
	}
	v := b.view()
	rest := v[h+1:]
	n := min(uint64(len(rest)), r.Max)
	r.Headers = make([]types.BlockHeader, n)
	for i := range r.Headers {
		r.Headers[i] = rest[i].Block.Header()
	}
	r.Remaining = uint64(len(rest)) - n
	return true
}

// HonestBlocks fills r like an honest node holding View would.
func (b *Byz) HonestBlocks(r *gateway.RPCSendV2Blocks) bool {
	attach := 0
	for _, id := range r.History {
		if h, ok := b.onView(id); ok {
			attach = h
			break
		}
	}
	v := b.view()
	rest := v[attach+1:]
	n := min(uint64(len(rest)), r.Max, 100)
	r.Blocks = make([]types.Block, n)
	for i := range r.Blocks {
		r.Blocks[i] = rest[i].Block
	}
	r.Remaining = uint64(len(rest)) - n
	return true
}

// NodeState returns the best state known for a tree node: the pure state for
// chain-valid nodes, the header-derived state otherwise.
func NodeState(n *chainlab.Node) consensus.State { return n.State() }

// HonestCheckpoint fills r with the block and its parent state.
func (b *Byz) HonestCheckpoint(r *gateway.RPCSendCheckpoint) bool {
	n := b.T.ByID[r.Index.ID]
	if n == nil || n.Parent == nil {
		return false
	}
	r.Block = n.Block
	r.State = n.Parent.State()
	return true
}

// HonestTransactions answers from the tree block with the requested id.
func (b *Byz) HonestTransactions(r *gateway.RPCSendTransactions) bool {
	n := b.T.ByID[r.Index.ID]
	if n == nil {
		return true // an honest node answers from its (empty) pool
	}
	want := map[types.Hash256]bool{}
	for _, h := range r.Hashes {
		want[h] = true
	}
	for _, txn := range n.Block.Transactions {
		if want[txn.MerkleLeafHash()] {
			r.Transactions = append(r.Transactions, txn)
		}
	}
	for _, txn := range n.Block.V2Transactions() {
		if want[txn.MerkleLeafHash()] {
			r.V2Transactions = append(r.V2Transactions, txn)
		}
	}
	return true
}

// ---- calls issued by the Byzantine peer --------------------------------------

// A RelayedSet is a transaction set received through RelayV2TransactionSet.
type RelayedSet struct {
	Index        types.ChainIndex
	Transactions []types.V2Transaction
}

// RelayLog returns what the peer received through relay RPCs.
func (b *Byz) RelayLog() ([]types.BlockHeader, []gateway.V2BlockOutline, []RelayedSet) {
	b.rmu.Lock()
	defer b.rmu.Unlock()
	return append([]types.BlockHeader(nil), b.relHeaders...), append([]gateway.V2BlockOutline(nil), b.relOutlines...), append([]RelayedSet(nil), b.relSets...)
}

// ErrNotConnected is returned when the peer has no live transport.
var ErrNotConnected = errors.New("byzantine peer is not connected")

// Call issues an RPC to the victim on the most recent live transport.
func (b *Byz) Call(r gateway.Object, timeout time.Duration) error {
	b.mu.Lock()
	if len(b.conns) == 0 {
		b.mu.Unlock()
		return ErrNotConnected
	}
	t := b.conns[len(b.conns)-1]
	b.mu.Unlock()
	s, err := t.DialStream()
	if err != nil {
		return err
	}
	defer s.Close()
	s.SetDeadline(time.Now().Add(timeout))
	if err := s.WriteID(r); err != nil {
		return err
	} else if err := s.WriteRequest(r); err != nil {
		return err
	}
	return s.ReadResponse(r)
}

// CallHangUp writes the RPC id and request of r on the most recent live
// transport and closes the TCP connection as soon as they are flushed, without
// waiting for an answer.
func (b *Byz) CallHangUp(r gateway.Object) error {
	b.mu.Lock()
	if len(b.conns) == 0 {
		b.mu.Unlock()
		return ErrNotConnected
	}
	t := b.conns[len(b.conns)-1]
	c := b.raw[len(b.raw)-1]
	b.mu.Unlock()
	s, err := t.DialStream()
	if err != nil {
		return err
	}
	s.SetDeadline(time.Now().Add(5 * time.Second))
	mark := c.writes.Load()
	if err := s.WriteID(r); err != nil {
		return err
	} else if err := s.WriteRequest(r); err != nil {
		return err
	}
	b.LastFault.Store(time.Now().UnixNano())
	b.hangUp(c, mark)
	return nil
}

// CallMismatched writes the RPC id of idObj followed by the request encoding of
// reqObj (a malformed request when the types differ).
func (b *Byz) CallMismatched(idObj, reqObj gateway.Object, timeout time.Duration) error {
	b.mu.Lock()
	if len(b.conns) == 0 {
		b.mu.Unlock()
		return ErrNotConnected
	}
	t := b.conns[len(b.conns)-1]
	b.mu.Unlock()
	s, err := t.DialStream()
	if err != nil {
		return err
	}
	defer s.Close()
	s.SetDeadline(time.Now().Add(timeout))
	if err := s.WriteID(idObj); err != nil {
		return err
	} else if err := s.WriteRequest(reqObj); err != nil {
		return err
	}
	// wait for the victim to close the stream
	s.ReadID()
	return nil
}

// DropConnections closes every live transport (the listener stays up).
func (b *Byz) DropConnections() {
	b.mu.Lock()
	cs := append([]*gateway.Transport(nil), b.conns...)
	b.mu.Unlock()
	for _, c := range cs {
		c.Close()
	}
}

// Close shuts the peer down.
func (b *Byz) Close() {
	b.once.Do(func() {
		close(b.closed)
		b.l.Close()
		b.mu.Lock()
		cs := append([]*gateway.Transport(nil), b.conns...)
		rs := append([]*flushConn(nil), b.raw...)
		b.mu.Unlock()
		for _, c := range cs {
			c.Close()
		}
		for _, c := range rs {
			c.Close()
		}
	})
	done := make(chan struct{})
	go func() { b.wg.Wait(); close(done) }()
	select {
	case <-done:
	case <-time.After(5 * time.Second):
	}
}
