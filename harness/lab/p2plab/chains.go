package p2plab

import (
	"math/rand/v2"

	"go.sia.tech/core/consensus"
	"go.sia.tech/core/types"
	"verif/harness/lab/chainlab"
)

// Grow extends from by n valid blocks with random bodies.
func Grow(t *chainlab.Tree, from *chainlab.Node, n int, prof chainlab.Profile) *chainlab.Node {
	x := from
	for i := 0; i < n; i++ {
		x = t.Extend(x, prof)
	}
	return x
}

// GrowEmpty extends from by n blocks without transactions (cheap long chains).
func GrowEmpty(t *chainlab.Tree, from *chainlab.Node, n int) *chainlab.Node {
	x := from
	for i := 0; i < n; i++ {
		x = t.ExtendEmpty(x, x.Block.Timestamp.Add(t.Env.Net.BlockInterval))
	}
	return x
}

// GrowMixed extends by n blocks, every k-th with a random body.
func GrowMixed(t *chainlab.Tree, from *chainlab.Node, n, k int, prof chainlab.Profile) *chainlab.Node {
	x := from
	for i := 0; i < n; i++ {
		if k > 0 && i%k == 0 {
			x = t.Extend(x, prof)
		} else {
			x = t.ExtendEmpty(x, x.Block.Timestamp.Add(t.Env.Net.BlockInterval))
		}
	}
	return x
}

// Heavier extends from (at least minLen blocks) until the branch is
// sufficiently heavier than every node in over.
func Heavier(t *chainlab.Tree, from *chainlab.Node, minLen int, prof chainlab.Profile, over ...*chainlab.Node) *chainlab.Node {
	x := from
	heavier := func() bool {
		for _, o := range over {
			if !x.State().SufficientlyHeavierThan(o.State()) {
				return false
			}
		}
		return true
	}
	for i := 0; i < minLen || !heavier(); i++ {
		if x.ChainValid {
			x = t.Extend(x, prof)
		} else {
			x = t.ExtendHeaderOnly(x)
		}
		if i > 2000 {
			panic("Heavier: cannot outweigh")
		}
	}
	return x
}

// InvalidChild attaches a block to parent whose header is fine (passes
// ValidateOrphan) but whose body is invalid according to the pure oracle.
// Returns nil if no operator produced one.
func InvalidChild(t *chainlab.Tree, parent *chainlab.Node, rng *rand.Rand) *chainlab.Node {
	ops := []string{"double-spend", "output-inflate", "sig-bit", "missing-input", "contract-field", "dup-txn", "payout-value", "proof-leaf", "drop-txn", "extra-payout", "v1-after-require", "payout-address"}
	for try := 0; try < 40; try++ {
		good := t.Extend(parent, chainlab.Profile{MaxTxns: 4})
		op := ops[rng.IntN(len(ops))]
		c := t.Corrupt(good, op, true)
		if c != nil && c.OrphanValid && !c.Valid {
			return c
		}
	}
	return nil
}

// ChildWithTxns attaches a valid v2 child of parent that carries at least one
// v2 transaction (nil if the height does not allow v2 blocks).
func ChildWithTxns(t *chainlab.Tree, parent *chainlab.Node) *chainlab.Node {
	if parent.Height+1 < t.Env.Net.HardforkV2.AllowHeight {
		return nil
	}
	for try := 0; try < 60; try++ {
		c := t.Extend(parent, chainlab.Profile{MaxTxns: 5})
		if c.Block.V2 != nil && len(c.Block.V2.Transactions)+len(c.Block.Transactions) > 0 {
			return c
		}
	}
	return nil
}

// V2Child attaches a valid v2 child of parent (possibly empty).
func V2Child(t *chainlab.Tree, parent *chainlab.Node) *chainlab.Node {
	if parent.Height+1 < t.Env.Net.HardforkV2.AllowHeight {
		return nil
	}
	for try := 0; try < 60; try++ {
		c := t.Extend(parent, chainlab.Profile{MaxTxns: 2})
		if c.Block.V2 != nil {
			return c
		}
	}
	return nil
}

// BadWorkHeader returns bh with a nonce for which the header id does not meet
// the target of the parent state (still divisible by the nonce factor).
func BadWorkHeader(parent consensus.State, bh types.BlockHeader) (types.BlockHeader, bool) {
	f := parent.NonceFactor()
	target := parent.PoWTarget()
	bh.Nonce = 0
	for i := 0; i < 1<<22; i++ {
		if bh.ID().CmpWork(target) < 0 {
			return bh, true
		}
		bh.Nonce += f
	}
	return bh, false
}

// SwapBody returns a block with the same id as n's block but another body:
// only possible for v2 blocks, whose header carries the commitment as a field
// (the miner payout address is not covered by the id). The result passes
// ValidateOrphan and fails ValidateBlock (commitment mismatch).
func SwapBody(t *chainlab.Tree, n *chainlab.Node) (types.Block, bool) {
	if n.Block.V2 == nil {
		return types.Block{}, false
	}
	b := n.Block
	b.MinerPayouts = append([]types.SiacoinOutput(nil), n.Block.MinerPayouts...)
	b.MinerPayouts[0].Address = t.Env.A(chainlab.Bob).Addr
	if b.MinerPayouts[0].Address == n.Block.MinerPayouts[0].Address {
		b.MinerPayouts[0].Address = t.Env.A(chainlab.Alice).Addr
	}
	if b.ID() != n.ID {
		return types.Block{}, false
	}
	return b, true
}

// Path returns genesis plus the path to n, indexed by height.
func Path(t *chainlab.Tree, n *chainlab.Node) []*chainlab.Node {
	return append([]*chainlab.Node{t.Root}, n.PathFromGenesis()...)
}
