package main

import (
	_ "verif/harness/checks/limits"
	"verif/harness/vcli"
)

func main() { vcli.Main() }
