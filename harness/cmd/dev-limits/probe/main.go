package main

import (
	"fmt"
	"os"
	"time"

	"go.sia.tech/coreutils/syncer"
	"verif/harness/lab/limitlab"
)

func main() {
	w := limitlab.NewWorld(7)
	n, _ := w.NewNode(limitlab.NodeConfig{IP: "127.0.18.1", Opts: []syncer.Option{
		syncer.WithSyncInterval(time.Hour), syncer.WithPeerDiscoveryInterval(time.Hour),
		syncer.WithMaxInflightRPCs(1), syncer.WithMaxInflightRPCsPerSubnet(0),
	}})
	n.CM.SetLimits(1, 0)
	n.Start()
	a, err := w.DialAttacker(1, n.Addr, "127.18.1.1", 10001, nil)
	if err != nil {
		panic(err)
	}
	a.Serve()
	n.CM.RegisterPeer(1, limitlab.SubnetKey("127.18.1.1", 32))
	fmt.Println("ping", a.Ping(5*time.Second))
	go a.OrderedBurst(1, 3, 200*time.Second)
	time.Sleep(200 * time.Millisecond)
	fmt.Println("stalled:", limitlab.Keys(limitlab.Inventory(nil)))
	if len(os.Args) > 1 {
		a.Close()
		time.Sleep(100 * time.Millisecond)
	}
	done := make(chan struct{})
	t0 := time.Now()
	go func() { n.S.Close(); close(done) }()
	select {
	case <-done:
		fmt.Println("close returned", time.Since(t0))
	case <-time.After(10 * time.Second):
		fmt.Println("close STUCK")
		for _, s := range limitlab.Stacks(limitlab.Inventory(nil), 10) {
			fmt.Println(s)
		}
	}
}
