package main

import (
	"fmt"
	"time"

	"go.sia.tech/coreutils/syncer"
	"verif/harness/lab/limitlab"
)

func main() {
	w := limitlab.NewWorld(7)
	n, err := w.NewNode(limitlab.NodeConfig{IP: "127.0.18.1", Linger: func() time.Duration { return 200 * time.Millisecond }, Opts: []syncer.Option{
		syncer.WithSyncInterval(time.Hour), syncer.WithPeerDiscoveryInterval(time.Hour), syncer.WithConnectTimeout(5 * time.Second),
	}})
	if err != nil {
		panic(err)
	}
	n.Start()
	time.Sleep(10 * time.Millisecond)
	res := make(chan error, 1)
	var at *limitlab.Attacker
	go func() {
		a, err := w.DialAttacker(1, n.Addr, "127.18.1.1", 10001, func() {
			n.PS.WaitBanned(1, 5*time.Second)
			<-n.L.InnerClosed
			time.Sleep(20 * time.Millisecond)
		})
		at = a
		res <- err
	}()
	n.PS.WaitBanned(1, 5*time.Second)
	closed := make(chan struct{})
	t0 := time.Now()
	go func() { n.S.Close(); close(closed) }()
	fmt.Println("attacker handshake:", <-res)
	time.Sleep(50 * time.Millisecond)
	for _, g := range limitlab.Inventory(nil) {
		fmt.Println(g.ID, g.State, g.Funcs, "<-", g.CreatedBy)
	}
	fmt.Println(n.S.Peers())
	select {
	case <-closed:
		fmt.Println("close returned", time.Since(t0))
	case <-time.After(8 * time.Second):
		fmt.Println("close STUCK after 8s", limitlab.Keys(limitlab.Inventory(nil)))
		at.Close()
		select {
		case <-closed:
			fmt.Println("close returned after attacker left", time.Since(t0))
		case <-time.After(5 * time.Second):
			fmt.Println("still stuck")
		}
	}
}
