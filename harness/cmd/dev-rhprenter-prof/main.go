package main

import (
	"os"
	"runtime/pprof"
	"os/signal"
	"syscall"
	_ "verif/harness/checks/rhprenter"
	"verif/harness/vcli"
)

func main() {
	f, _ := os.Create("/tmp/rhprenter-cpu.prof")
	pprof.StartCPUProfile(f)
	c := make(chan os.Signal, 1)
	signal.Notify(c, syscall.SIGINT)
	go func() { <-c; pprof.StopCPUProfile(); f.Close(); os.Exit(0) }()
	vcli.Main()
}
