package main

import (
	_ "verif/harness/checks/walletfund"
	"verif/harness/vcli"
)

func main() { vcli.Main() }
