// Command dev-rhprenter is the development binary of the renter-side RHP4
// monitors (C10, C16).
package main

import (
	_ "verif/harness/checks/rhprenter"
	"verif/harness/vcli"
)

func main() { vcli.Main() }
