package main

import (
	_ "verif/harness/checks/byz"
	"verif/harness/vcli"
)

func main() { vcli.Main() }
