// Command dev-rhphost is the development binary of the rhphost checks
// (C08, C09, C15); see package vcli.
package main

import (
	_ "verif/harness/checks/rhphost"
	"verif/harness/vcli"
)

func main() { vcli.Main() }
