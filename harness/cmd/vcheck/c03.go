package main

import (
	"fmt"

	"go.sia.tech/core/types"
	"go.sia.tech/coreutils/chain"
	"verif/harness/lab/chainlab"
	"verif/harness/mon"
)

func init() { register("C03", "fault_enumeration", runC03) }

type snapshot struct {
	img      map[string]map[string]string
	tip      types.ChainIndex
	midReorg bool
	call     int
}

type c03Case struct {
	Stream   uint64                `json:"rng_stream"`
	Params   chainlab.Params       `json:"params"`
	Policy   string                `json:"flush_policy"`
	Snapshot int                   `json:"snapshot"`
	AtCall   int                   `json:"taken_during_call"`
	MidReorg bool                  `json:"inside_block_apply_or_revert"`
	Tip      string                `json:"trajectory_tip"`
	Nodes    []nodeDesc            `json:"nodes,omitempty"`
	Calls    []chainlab.CallRecord `json:"calls,omitempty"`
}

func runC03History(r *mon.Run, stream uint64) {
	rng := r.RNG(stream)
	regime := regimes[rng.IntN(3)]
	p := chainlab.RandomParams(regime, rng)
	env := chainlab.NewEnv(p)
	t := chainlab.NewTree(env, rng)
	t.Grow(26+rng.IntN(10), chainlab.Profile{MaxTxns: 4})
	base := append([]*chainlab.Node{}, t.Nodes...)
	for i := 0; i < 2; i++ {
		n := base[1+rng.IntN(len(base)-1)]
		if n.ChainValid {
			if c := t.Corrupt(n, []string{"double-spend", "output-inflate", "sig-bit"}[rng.IntN(3)], true); c != nil && c.OrphanValid {
				x := c
				for j := 0; j < 3+rng.IntN(4); j++ {
					x = t.ExtendHeaderOnly(x)
				}
			}
		}
	}
	// one run in five puts the store on the write-caching wrapper: the commit
	// images are then those of the UNDERLYING database
	var inner *chainlab.ShadowDB
	var backend chain.DB
	// the commits made while the store initialises a fresh database are commit
	// points too (tip = genesis): the hook is installed before the store exists
	var snaps []snapshot
	var rec *chainlab.RecordingStore
	var a *chainlab.Auditor
	genesis := types.ChainIndex{ID: env.Genesis.ID()}
	onFlush := func(durable map[string]map[string]string) {
		if rec == nil || a == nil {
			snaps = append(snaps, snapshot{img: chainlab.CloneImage(durable), tip: genesis})
			return
		}
		snaps = append(snaps, snapshot{img: chainlab.CloneImage(durable), tip: rec.Cur, midReorg: rec.InBlockOp, call: a.Calls})
	}
	if rng.IntN(5) == 0 {
		inner = chainlab.NewShadowDB(chain.NewMemDB())
		inner.OnFlush = onFlush
		backend = chain.NewCacheDB(inner)
	} else {
		outer := chainlab.NewShadowDB(chain.NewMemDB())
		outer.OnFlush = onFlush
		backend = outer
	}
	node, rec0, err := chainlab.NewTestNodeRec(env, backend)
	if err != nil {
		r.Inconclusive(err.Error())
		return
	}
	r.Count("snapshots_during_initialisation", len(snaps))
	policy := []string{"every-block", "every-block", "prng-half", "natural-only"}[rng.IntN(4)]
	switch policy {
	case "every-block":
		chain.VerifSetFlushPolicy(node.Store, func() bool { return true })
	case "prng-half":
		chain.VerifSetFlushPolicy(node.Store, func() bool { return rng.IntN(2) == 0 })
	}
	defer chain.VerifSetFlushPolicy(node.Store, nil)
	a = chainlab.NewAuditor(t, node)
	rec = rec0
	if inner != nil {
		policy += "+cachedb"
		r.Count("histories_on_cachedb", 1)
	}
	cs := c03Case{Stream: stream, Params: p, Policy: policy}
	sched := t.RandomSchedule(rng)
	for _, batch := range sched {
		_, fs := a.Submit(batch)
		if len(fs) > 0 {
			reportFindings(r, chainCase{Kind: "c03", Stream: stream, Params: p}, t, a, fs)
			return
		}
	}
	final := a.Tip
	// is the final tip forced? (sufficiently heavier than every other valid tip)
	forced := true
	for _, tip := range t.Tips() {
		x := tip
		for x != nil && !x.ChainValid {
			x = x.Parent
		}
		if x != nil && x != final && !isAncestor(x, final) && !final.L.State.SufficientlyHeavierThan(x.L.State) {
			forced = false
		}
	}
	finalView := node.ServedView(true)
	r.Count("snapshots:"+policy, len(snaps))
	// which snapshots get the (expensive) catch-up run
	catchup := map[int]bool{}
	var mids []int
	for i, s := range snaps {
		if s.midReorg {
			mids = append(mids, i)
		}
	}
	rng.Shuffle(len(mids), func(i, j int) { mids[i], mids[j] = mids[j], mids[i] })
	for i := 0; i < len(mids) && i < 8; i++ {
		catchup[mids[i]] = true
	}
	for i := 0; i < 4 && len(snaps) > 0; i++ {
		catchup[rng.IntN(len(snaps))] = true
	}
	for i, s := range snaps {
		c := cs
		c.Snapshot, c.AtCall, c.MidReorg, c.Tip = i, s.call, s.midReorg, s.tip.String()
		re, err := chainlab.NewTestNodeOnImage(env, s.img)
		if err != nil {
			c.Nodes, c.Calls = describeTree(t), a.Log
			r.Violation("reopen-failed", "a committed image does not reopen: "+err.Error(), c, nil)
			return
		}
		r.Count("snapshots_reopened", 1)
		if s.midReorg {
			r.Count("snapshots_inside_reorg", 1)
		}
		tipNode := t.ByID[re.CM.Tip().ID]
		if re.CM.Tip() != s.tip || tipNode == nil {
			c.Nodes, c.Calls = describeTree(t), a.Log
			r.Violation("reopened-tip-not-trajectory-tip", fmt.Sprintf("reopened at %v, the store was at %v when it committed", re.CM.Tip(), s.tip), c, nil)
			return
		}
		if !tipNode.ChainValid {
			r.Violation("reopened-on-invalid-chain", "reopened tip is on a chain containing an invalid block", c, nil)
			return
		}
		ra := chainlab.NewAuditor(t, re)
		ra.Deep = true
		ra.Tip = tipNode
		for id := range a.Submitted {
			ra.Submitted[id] = true
		}
		fs := ra.AuditChain()
		fs = append(fs, ra.AuditElements()...)
		// stored supplements of the best chain must be present (reorgs need them)
		for _, nd := range tipNode.PathFromGenesis() {
			if _, bs, ok := re.Store.Block(nd.ID); !ok || bs == nil {
				fs = append(fs, chainlab.Finding{Sig: "reopened-best-chain-block-without-supplement", What: fmt.Sprintf("best-chain node %d has no stored block/supplement after reopening", nd.Idx)})
				break
			}
		}
		if len(fs) > 0 {
			for i := range fs {
				fs[i].Sig = "reopened:" + fs[i].Sig
			}
			c.Nodes, c.Calls = describeTree(t), a.Log
			for _, f := range fs {
				r.Violation(f.Sig, "after reopening a committed image: "+f.What, c, f.Detail)
			}
			return
		}
		r.Distinct(fmt.Sprintf("c03/%d/%d/%v", stream, i, s.midReorg))
		if !catchup[i] {
			continue
		}
		// catch up: the whole schedule again, in its original order
		for _, batch := range sched {
			_, fs := ra.Submit(batch)
			if len(fs) > 0 {
				for i := range fs {
					fs[i].Sig = "catchup:" + fs[i].Sig
				}
				c.Nodes, c.Calls = describeTree(t), ra.Log
				for _, f := range fs {
					r.Violation(f.Sig, "while catching up after reopening a committed image: "+f.What, c, f.Detail)
				}
				return
			}
		}
		r.Count("catchup_runs", 1)
		if forced {
			r.Count("catchup_runs_with_forced_final_tip", 1)
			if ra.Tip != final {
				c.Nodes, c.Calls = describeTree(t), ra.Log
				r.Violation("catchup-different-final-tip", fmt.Sprintf("after catching up the reopened node ends on node %d, the uninterrupted run on node %d", ra.Tip.Idx, final.Idx), c, nil)
				return
			}
			if k, x, y := re.ServedView(true).Diff(finalView); k != "" {
				c.Nodes, c.Calls = describeTree(t), ra.Log
				sig, _, _ := compareViews(re.ServedView(true), finalView)
				r.Violation("catchup:"+sig, "after catching up the reopened node serves a different view than the uninterrupted run", c, map[string]string{"key": k, "reopened": clipS(x), "uninterrupted": clipS(y)})
				return
			}
		}
	}
	r.Eval()
	r.Count("reorgs_observed", a.Reorgs)
	r.Count("rollbacks_observed", a.Rollbacks)
	if stream%43 == 0 {
		r.Sample(map[string]any{"stream": stream, "regime": regime, "policy": policy, "snapshots": len(snaps), "inside_reorg": len(mids), "reorgs": a.Reorgs, "forced_final_tip": forced})
	}
}

func isAncestor(a, b *chainlab.Node) bool {
	for x := b; x != nil; x = x.Parent {
		if x == a {
			return true
		}
	}
	return false
}

func runC03(r *mon.Run, replay string) {
	r.Rule("generated histories (forks, reorgs, rolled-back reorgs) run on a node whose store commits after every individual block apply/revert (hook H1: every-block / PRNG half) or only at its natural commit points; the shadow KV snapshots the durable image at every Flush the backend receives, tagged with the store's tip at that moment; EVERY snapshot is reopened (NewDBStore + NewManager on a fresh backend) and must reopen without error to exactly that tip, pass the C01 chain audit and the element/proof audit against the pure ledger of that tip, and hold supplements for its best chain; for snapshots inside reorgs (up to 8 per history) plus 4 PRNG ones the whole schedule is re-submitted and, where the final tip is forced (sufficiently heavier than every other tip), final tip and complete served view must equal the uninterrupted run's; a snapshot is distinct by (stream, index, inside-reorg)")
	r.Assume("the backend's own commit is atomic (MemDB here; bbolt trusted)")
	if st, ok := replayStream(replay); ok {
		if st >= 39000 {
			runC03Kill(r, st)
			return
		}
		if st >= 38000 {
			runC03Stop(r, st)
			return
		}
		runC03History(r, st)
		return
	}
	parallel(r.Pick(150, 2000), func(i int) { runC03History(r, uint64(30000+i)) })
	// stop before a commit, database kept in memory
	parallel(r.Pick(60, 800), func(i int) { runC03Stop(r, uint64(38000+i)) })
	// real-process variant: SIGKILL of a child running on a Bolt file
	parallel(r.Pick(12, 300), func(i int) { runC03Kill(r, uint64(39000+i)) })
	r.Floor("stops_before_commit", int64(r.Pick(100, 1500)))
	r.Floor("kill_runs_audited", int64(r.Pick(8, 200)))
	r.Floor("snapshots_reopened", 2000)
	r.Floor("snapshots_inside_reorg", 500)
	r.Floor("catchup_runs", 300)
	r.Floor("catchup_runs_with_forced_final_tip", 50)
}
