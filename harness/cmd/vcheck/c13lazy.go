package main

import (
	"fmt"
	"math/rand/v2"

	"go.sia.tech/core/types"
	"verif/harness/lab/chainlab"
	"verif/harness/mon"
)

// c13Lazy: the first pool-related call after a tip change is the assembly of
// a broadcastable set. A dependency chain of parents is pooled, a block
// confirms a prefix of it (or a fork conflicting with one of them is adopted),
// and - without any other pool query in between - V2TransactionSet is asked
// for a child of the chain. The answer must consist of the still unconfirmed
// pooled parents (in dependency order) and the child, be based on the new tip
// and be valid there.
func c13Lazy(r *mon.Run, t *chainlab.Tree, node *chainlab.TestNode, rng *rand.Rand, base c13Case) {
	cm := node.CM
	from := t.ByID[cm.Tip().ID]
	if from == nil || !from.ChainValid || from.Height+1 < t.Env.Net.HardforkV2.AllowHeight {
		return
	}
	pre := snapPool(cm)
	b, _ := from.L.PoolBuilder(rng, pre.v1, pre.v2)
	m1, m2 := len(b.Txns), len(b.V2Txns)
	b.EphFloor = len(b.Eph) // the chain contains its own parents
	for i := 0; i < 6; i++ {
		b.V2Spend(t.Env.Actors[rng.IntN(len(t.Env.Actors))], 0.85)
	}
	_, fresh := b.TakeNew(&m1, &m2)
	if len(fresh) < 2 {
		return
	}
	parents, child := fresh[:len(fresh)-1], fresh[len(fresh)-1]
	if _, err := cm.AddV2PoolTransactions(from.L.State.Index, parents); err != nil {
		r.Count("lazy_parents_rejected", 1)
		return
	}
	// a block confirming a prefix of the parents
	bb := from.L.NewBuilder(rng)
	nconf := 1 + rng.IntN(len(parents))
	confirmed := map[types.TransactionID]bool{}
	for _, x := range parents[:nconf] {
		if bb.TryV2("from-pool", x.DeepCopy()) {
			confirmed[x.ID()] = true
		}
	}
	if len(confirmed) == 0 {
		return
	}
	blk := bb.Seal(from.Block.Timestamp.Add(t.Env.Net.BlockInterval), t.Env.A(chainlab.Miner).Addr, true)
	to := t.Attach(from, blk, "", bb.Kinds)
	if !to.ChainValid {
		r.Inconclusive("generator built an invalid block: " + to.Err)
		return
	}
	cs := base
	cs.From, cs.To, cs.Apply, cs.Mut = from.Idx, to.Idx, 1, fmt.Sprintf("first-pool-call-after-tip-change confirmed=%d/%d", len(confirmed), len(parents))
	if err := cm.AddBlocks([]types.Block{to.Block}); err != nil || cm.Tip().ID != to.ID {
		r.Violation("setup", fmt.Sprintf("node did not adopt a valid extension: %v", err), cs, nil)
		return
	}
	// the caller rebases its child itself (pure ledger), marking the outputs of
	// the still unconfirmed parents as ephemeral
	eph := map[types.Hash256]bool{}
	var wantParents []types.V2Transaction
	for _, x := range parents {
		if !confirmed[x.ID()] {
			wantParents = append(wantParents, x)
			for _, c := range chainlab.V2Creates(x) {
				eph[c] = true
			}
		}
	}
	rb, ok := to.L.RebaseV2(child, eph)
	if !ok {
		return
	}
	cs.Set = describeV2Set(append(append([]types.V2Transaction{}, parents...), child))
	// the caller either rebased its child itself, or hands it over as it was
	// built, with the index it was built for (the pooled parents it depends on
	// are kept current by the pool; only the child needs rebasing)
	askBasis := to.L.State.Index
	if rng.IntN(2) == 0 && len(wantParents) > 0 {
		// only when every non-ephemeral input of the child exists at the old
		// index too (an output of a parent confirmed by the block does not)
		old := true
		for _, in := range child.SiacoinInputs {
			if in.Parent.StateElement.LeafIndex == types.UnassignedLeafIndex && !eph[types.Hash256(in.Parent.ID)] {
				old = false
			}
		}
		if old {
			rb, askBasis = child.DeepCopy(), from.L.State.Index
			cs.Mut += " child-at-old-basis"
			r.Count("txnset_child_given_at_an_older_basis_with_pooled_parents", 1)
		}
	}
	var basis types.ChainIndex
	var set []types.V2Transaction
	var err error
	if pn := mon.Guard(func() { basis, set, err = cm.V2TransactionSet(askBasis, rb) }); pn != nil {
		r.Violation("txnset-panic:after-tip-change", fmt.Sprint("V2TransactionSet panicked: ", pn), cs, nil)
		return
	}
	r.Eval()
	r.Count("txnset_first_call_after_tip_change", 1)
	if err != nil {
		r.Violation("txnset-error:after-tip-change", "V2TransactionSet, as the first pool call after a block confirmed some of the pooled parents, failed for a valid child: "+err.Error(), cs, nil)
		return
	}
	if basis != to.L.State.Index {
		r.Violation("txnset-basis:after-tip-change", fmt.Sprintf("V2TransactionSet returned basis %v, tip is %v", basis, to.L.State.Index), cs, nil)
		return
	}
	if len(set) == 0 || set[len(set)-1].ID() != child.ID() {
		r.Violation("txnset-last:after-tip-change", "V2TransactionSet does not end with the requested transaction", cs, describeV2Set(set))
		return
	}
	for _, x := range set {
		if confirmed[x.ID()] {
			r.Violation("txnset-contains-confirmed", "V2TransactionSet returned a parent that is already confirmed at the tip", cs, describeV2Set(set))
			return
		}
	}
	// every ephemeral input is created earlier in the set, and the whole set is
	// a valid sequence on the pure ledger of the tip
	vb := to.L.NewBuilder(rng)
	for i, x := range set {
		if !vb.TryV2("returned", x.DeepCopy()) {
			r.Violation("txnset-invalid-at-tip", fmt.Sprintf("transaction %d of the returned set is not valid on top of the tip and the transactions before it", i), cs, describeV2Set(set))
			return
		}
	}
	need := map[types.TransactionID]bool{}
	for _, x := range set[:len(set)-1] {
		need[x.ID()] = true
	}
	for _, x := range wantParents {
		dep := false
		for _, c := range chainlab.V2Creates(x) {
			for _, y := range set {
				for _, p := range chainlab.V2Parents(y) {
					dep = dep || p == c
				}
			}
		}
		if dep && !need[x.ID()] {
			r.Violation("txnset-parent-missing", "V2TransactionSet omits an unconfirmed pooled parent of the set", cs, describeV2Set(set))
			return
		}
	}
	if len(set) > 1 {
		r.Count("txnset_after_tip_change_with_parents", 1)
	}
	r.Distinct(fmt.Sprintf("c13lazy/%d/%d/%d/%d", base.Stream, from.Idx, len(confirmed), len(set)))
	if _, err := cm.AddV2PoolTransactions(basis, set); err != nil {
		r.Violation("txnset-not-accepted:after-tip-change", "the set returned by V2TransactionSet is not accepted by the pool: "+err.Error(), cs, describeV2Set(set))
	}
}

// runC13ForkLimit: the 144-block limit applies to the WHOLE path between two
// indices on different branches (reverts plus applies), not to each direction.
func runC13ForkLimit(r *mon.Run, stream uint64) {
	rng := r.RNG(stream)
	p := chainlab.RandomParams("v2only", rng)
	env := chainlab.NewEnv(p)
	t := chainlab.NewTree(env, rng)
	trunk := t.Root
	for i := 0; i < 4; i++ {
		trunk = t.Extend(trunk, chainlab.Profile{MaxTxns: 3})
	}
	la := 70 + rng.IntN(12) // 70..81
	lb := la + 1
	a, b := trunk, trunk
	var pa, pb []*chainlab.Node
	for i := 0; i < la; i++ {
		if i < 4 {
			a = t.Extend(a, chainlab.Profile{MaxTxns: 3})
		} else {
			a = t.ExtendEmpty(a, zeroT)
		}
		pa = append(pa, a)
	}
	for i := 0; i < lb; i++ {
		b = t.ExtendEmpty(b, zeroT)
		pb = append(pb, b)
	}
	if !a.ChainValid || !b.ChainValid {
		r.Inconclusive("generator built an invalid branch")
		return
	}
	node, err := chainlab.NewTestNode(env, nil)
	if err != nil {
		r.Inconclusive(err.Error())
		return
	}
	cm := node.CM
	for _, batch := range [][]*chainlab.Node{trunk.PathFromGenesis(), pa, pb} {
		if err := cm.AddBlocks(chainlab.Blocks(batch)); err != nil {
			r.Violation("setup", err.Error(), nil, nil)
			return
		}
	}
	if cm.Tip().ID != b.ID {
		return // b was not sufficiently heavier: no verdict
	}
	// from points on branch A: its tip (path la+lb > 144) and a node near the fork
	near := pa[min(len(pa)-1, 144-lb-1)-rng.IntN(20)] // reverts + lb applies <= 144
	for _, from := range []*chainlab.Node{a, near} {
		set := buildV2Set(t, from, rng)
		if len(set) == 0 {
			continue
		}
		in := make([]types.V2Transaction, len(set))
		for i := range set {
			in[i] = set[i].DeepCopy()
		}
		// the real fork point: the first blocks of the two branches can coincide
		// (an empty generated block equals the empty block built for the other
		// branch when miner and timestamp agree)
		x, y := from, b
		for x.Height > y.Height {
			x = x.Parent
		}
		for y.Height > x.Height {
			y = y.Parent
		}
		for x != y {
			x, y = x.Parent, y.Parent
		}
		dist := int(from.Height-x.Height) + int(b.Height-x.Height)
		cs := c13Case{Stream: stream, Params: p, From: from.Idx, To: b.Idx, Revert: int(from.Height - x.Height), Apply: int(b.Height - x.Height), Set: describeV2Set(set)}
		var out []types.V2Transaction
		var uerr error
		if pn := mon.Guard(func() { out, uerr = cm.UpdateV2TransactionSet(in, from.L.State.Index, b.L.State.Index) }); pn != nil {
			r.Violation("update-panic:fork-path", fmt.Sprint("UpdateV2TransactionSet panicked on a long fork path: ", pn), cs, nil)
			return
		}
		r.Eval()
		if debugOn {
			fmt.Println("DEBUG forklimit: from", from.L.State.Index, "to", b.L.State.Index, "trunk", trunk.L.State.Index, "la", la, "lb", lb, "dist", dist, "err", uerr, "set", len(set), "out", len(out))
		}
		r.Count(fmt.Sprintf("fork_path:over_limit=%v:ok=%v", dist > 144, uerr == nil), 1)
		if dist > 144 {
			if uerr == nil {
				r.Violation("path-over-limit-accepted", fmt.Sprintf("an update over %d reverted + %d applied blocks (%d > 144) was not refused", cs.Revert, cs.Apply, dist), cs, nil)
			}
			continue
		}
		if uerr != nil {
			// spent-at-target or never-existed elements are legitimate refusals here
			r.Count("fork_path:in_range_refused", 1)
			continue
		}
		for _, x := range out {
			// a contract that exists at the target in another revision (revised on
			// the abandoned branch, or on the target branch) or not at all is a
			// different leaf: the update cannot know, no verdict (same rule as in
			// the tree scenario)
			differs := false
			for _, rev := range x.FileContractRevisions {
				if e, ok := b.L.V2FC[types.FileContractID(rev.Parent.ID)]; !ok || chainlab.EncodeContract(e.V2FileContract) != chainlab.EncodeContract(rev.Parent.V2FileContract) {
					differs = true
				}
			}
			for _, res := range x.FileContractResolutions {
				if e, ok := b.L.V2FC[types.FileContractID(res.Parent.ID)]; !ok || chainlab.EncodeContract(e.V2FileContract) != chainlab.EncodeContract(res.Parent.V2FileContract) {
					differs = true
				}
			}
			if differs {
				r.Count("fork_path:no_verdict_contract_differs_at_target", 1)
				continue
			}
			if err := b.L.State.Elements.ValidateTransactionElements(x); err != nil {
				r.Violation("updated-proof-invalid", "an updated transaction does not verify against the target accumulator: "+err.Error(), cs, nil)
			}
		}
		r.Distinct(fmt.Sprintf("forklimit/%d/%d", stream, dist))
	}
}
