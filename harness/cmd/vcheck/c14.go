package main

import (
	"fmt"
	"math/rand/v2"
	"sort"

	"go.sia.tech/core/types"
	"go.sia.tech/coreutils/chain"
	"verif/harness/lab/chainlab"
	"verif/harness/mon"
)

func init() { register("C14", "exploration", runC14) }

type poolSnap struct {
	v1  []types.Transaction
	v2  []types.V2Transaction
	ids map[types.TransactionID]string // id -> "v1"/"v2"
}

func snapPool(cm *chain.Manager) poolSnap {
	s := poolSnap{v1: cm.PoolTransactions(), v2: cm.V2PoolTransactions(), ids: map[types.TransactionID]string{}}
	for _, t := range s.v1 {
		s.ids[t.ID()] = "v1"
	}
	for _, t := range s.v2 {
		s.ids[t.ID()] = "v2"
	}
	return s
}

func (s poolSnap) key() string {
	ks := make([]string, 0, len(s.ids))
	for id, k := range s.ids {
		ks = append(ks, k+":"+id.String())
	}
	sort.Strings(ks)
	return fmt.Sprint(ks)
}

type c14Case struct {
	Stream uint64          `json:"rng_stream"`
	Params chainlab.Params `json:"params"`
	Height uint64          `json:"tip_height"`
	Step   int             `json:"step"`
	Kind   string          `json:"submission_kind"`
	Set    []string        `json:"set_ids"`
	Pool   []string        `json:"pool_ids_before"`
	Detail string          `json:"detail,omitempty"`
}

// lookups checks PoolTransaction / V2PoolTransaction for every id kind.
func c14Lookups(r *mon.Run, cm *chain.Manager, snap poolSnap, extra []types.TransactionID, cs c14Case) {
	ids := make([]types.TransactionID, 0, len(snap.ids)+len(extra))
	for id := range snap.ids {
		ids = append(ids, id)
	}
	ids = append(ids, extra...)
	for _, id := range ids {
		kind := snap.ids[id] // "" = unknown id
		var t1 types.Transaction
		var ok1 bool
		if p := mon.Guard(func() { t1, ok1 = cm.PoolTransaction(id) }); p != nil {
			r.Violation("lookup-panic:PoolTransaction:"+orUnknown(kind), fmt.Sprintf("PoolTransaction(%s id) panicked: %v", orUnknown(kind), p), cs, id.String())
		} else {
			r.Count("lookups:PoolTransaction:"+orUnknown(kind), 1)
			switch {
			case kind == "v1" && (!ok1 || t1.ID() != id):
				r.Violation("lookup-wrong:PoolTransaction:v1", "PoolTransaction did not return the pooled v1 transaction with that id", cs, id.String())
			case kind != "v1" && ok1:
				r.Violation("lookup-wrong:PoolTransaction:"+orUnknown(kind), fmt.Sprintf("PoolTransaction(%s id) returned a transaction (id %v) although no v1 transaction with that id is pooled", orUnknown(kind), t1.ID()), cs, id.String())
			}
		}
		var t2 types.V2Transaction
		var ok2 bool
		if p := mon.Guard(func() { t2, ok2 = cm.V2PoolTransaction(id) }); p != nil {
			r.Violation("lookup-panic:V2PoolTransaction:"+orUnknown(kind), fmt.Sprintf("V2PoolTransaction(%s id) panicked: %v", orUnknown(kind), p), cs, id.String())
		} else {
			r.Count("lookups:V2PoolTransaction:"+orUnknown(kind), 1)
			switch {
			case kind == "v2" && (!ok2 || t2.ID() != id):
				r.Violation("lookup-wrong:V2PoolTransaction:v2", "V2PoolTransaction did not return the pooled v2 transaction with that id", cs, id.String())
			case kind != "v2" && ok2:
				r.Violation("lookup-wrong:V2PoolTransaction:"+orUnknown(kind), fmt.Sprintf("V2PoolTransaction(%s id) returned a transaction (id %v) although no v2 transaction with that id is pooled", orUnknown(kind), t2.ID()), cs, id.String())
			}
		}
	}
}

// shuffleValidSet returns a PRNG permutation of the set that the pure oracle
// accepts transaction by transaction on top of the tip (dependencies first).
func shuffleValidSet(tip *chainlab.Node, rng *rand.Rand, set1 []types.Transaction, set2 []types.V2Transaction) ([]types.Transaction, []types.V2Transaction, bool) {
	for try := 0; try < 6; try++ {
		vb := tip.L.NewBuilder(rng)
		ok := true
		s1 := append([]types.Transaction{}, set1...)
		s2 := append([]types.V2Transaction{}, set2...)
		rng.Shuffle(len(s1), func(i, j int) { s1[i], s1[j] = s1[j], s1[i] })
		rng.Shuffle(len(s2), func(i, j int) { s2[i], s2[j] = s2[j], s2[i] })
		// repair the dependency order greedily: emit whatever validates next
		var o1 []types.Transaction
		var o2 []types.V2Transaction
		for len(s1) > 0 && ok {
			ok = false
			for i := range s1 {
				if vb.TryV1("shuffled", chainlab.DeepCopyTxn(s1[i])) {
					o1 = append(o1, s1[i])
					s1 = append(s1[:i:i], s1[i+1:]...)
					ok = true
					break
				}
			}
		}
		for len(s2) > 0 && ok {
			ok = false
			for i := range s2 {
				if vb.TryV2("shuffled", s2[i].DeepCopy()) {
					o2 = append(o2, s2[i])
					s2 = append(s2[:i:i], s2[i+1:]...)
					ok = true
					break
				}
			}
		}
		if ok && len(s1) == 0 && len(s2) == 0 {
			return o1, o2, true
		}
	}
	return nil, nil, false
}

func orUnknown(k string) string {
	if k == "" {
		return "unknown"
	}
	return k
}

func idsOf(v1 []types.Transaction, v2 []types.V2Transaction) []string {
	var out []string
	for _, t := range v1 {
		out = append(out, "v1:"+t.ID().String())
	}
	for _, t := range v2 {
		out = append(out, "v2:"+t.ID().String())
	}
	return out
}

func randomPoolTxns(b *chainlab.Builder, t *chainlab.Tree, n int) {
	for i := 0; i < n; i++ {
		t.RandomBody(b, chainlab.Profile{MaxTxns: 2})
	}
}

func runC14History(r *mon.Run, stream uint64) {
	rng := r.RNG(stream)
	regime := []string{"mix", "mix", "v1only", "v2only"}[rng.IntN(4)]
	p := chainlab.RandomParams(regime, rng)
	env := chainlab.NewEnv(p)
	t := chainlab.NewTree(env, rng)
	tip := t.Root
	// for mix: stop where both kinds are allowed in the next block
	target := uint64(3 + rng.IntN(6))
	if regime == "mix" {
		target = p.Allow - 1 + uint64(rng.IntN(int(p.Require-p.Allow)-1))
	}
	for tip.Height < target {
		tip = t.Extend(tip, chainlab.Profile{MaxTxns: 3})
	}
	node, err := chainlab.NewTestNode(env, nil)
	if err != nil {
		r.Inconclusive(err.Error())
		return
	}
	if err := node.CM.AddBlocks(chainlab.Blocks(tip.PathFromGenesis())); err != nil {
		r.Violation("setup", "node rejected a valid chain: "+err.Error(), nil, nil)
		return
	}
	cm := node.CM
	// a twin fed exactly the same submissions and blocks: it may be queried at
	// any time, so that on the node under test a submission can be the FIRST
	// pool operation after a block (the pool is revalidated lazily)
	tw, err := chainlab.NewTestNode(env, nil)
	if err != nil {
		r.Inconclusive(err.Error())
		return
	}
	if err := tw.CM.AddBlocks(chainlab.Blocks(tip.PathFromGenesis())); err != nil {
		r.Inconclusive(err.Error())
		return
	}
	lazy := false
	base := c14Case{Stream: stream, Params: p, Height: tip.Height}
	var everIDs []types.TransactionID
	steps := 14
	for step := 0; step < steps; step++ {
		if step > 0 && step%5 == 0 {
			// a block confirms a PRNG subsequence of the pool: the survivors must
			// stay listed AND retrievable by id
			pool := snapPool(cm)
			bb := tip.L.NewBuilder(rng)
			for _, x := range pool.v1 {
				if rng.IntN(2) == 0 {
					bb.TryV1("from-pool", chainlab.DeepCopyTxn(x))
				}
			}
			if bb.V2Allowed() {
				for _, x := range pool.v2 {
					if rng.IntN(2) == 0 {
						bb.TryV2("from-pool", x.DeepCopy())
					}
				}
			}
			blk := bb.Seal(tip.Block.Timestamp.Add(env.Net.BlockInterval), env.A(chainlab.Miner).Addr, tip.Height+1 >= p.Allow)
			n := t.Attach(tip, blk, "", bb.Kinds)
			if n.ChainValid && n.Height+1 < p.Require || (n.ChainValid && regime != "mix") {
				if err := cm.AddBlocks(chainlab.Blocks([]*chainlab.Node{n})); err == nil && cm.Tip().ID == n.ID {
					tip = n
					base.Height = tip.Height
					tw.CM.AddBlocks(chainlab.Blocks([]*chainlab.Node{n}))
					if rng.IntN(2) == 0 {
						// no query on the node under test: the next submission is its
						// first pool operation after this block
						lazy = true
						goto submit
					}
					post := snapPool(cm)
					r.Count("blocks_confirming_part_of_pool", 1)
					cs := base
					cs.Step, cs.Kind = step, "after-block"
					c14Lookups(r, cm, post, nil, cs)
					if r.Violations() > 0 {
						return
					}
				}
			}
		}
	submit:
		var pre poolSnap
		if lazy {
			pre = snapPool(tw.CM)
			if rng.IntN(2) == 0 {
				// the first pool operation after the block is a lookup by id of
				// what the twin lists (and of what the block confirmed)
				lcs := base
				lcs.Step, lcs.Kind = step, "lookup-first-after-block"
				if rng.IntN(2) == 0 && len(pre.v2) > 0 {
					want := pre.v2[rng.IntN(len(pre.v2))]
					if got, ok := cm.V2PoolTransaction(want.ID()); !ok || got.ID() != want.ID() {
						r.Violation("lookup-wrong:V2PoolTransaction:first-after-block", "V2PoolTransaction, as the first pool operation after a block, did not return a transaction that is pooled", lcs, want.ID().String())
						return
					}
				}
				c14Lookups(r, cm, pre, everIDs[max(0, len(everIDs)-6):], lcs)
				r.Count("lookups_as_first_pool_operation_after_block", 1)
				if r.Violations() > 0 {
					return
				}
			} else {
				r.Count("submissions_as_first_pool_operation_after_block", 1)
			}
		} else {
			pre = snapPool(cm)
		}
		lazy = false
		pb, ok := tip.L.PoolBuilder(rng, pre.v1, pre.v2)
		if !ok {
			r.Count("pool_not_valid_under_oracle", 1)
		}
		m1, m2 := len(pb.Txns), len(pb.V2Txns)
		randomPoolTxns(pb, t, 1+rng.IntN(3))
		fv1, fv2 := pb.TakeNew(&m1, &m2)
		kind := []string{"fresh", "fresh", "partly-known", "all-known", "conflict-at-k", "invalid-at-k", "known-then-conflict"}[rng.IntN(7)]
		useV2 := len(fv2) > 0 && (len(fv1) == 0 || rng.IntN(2) == 0)
		cs := base
		cs.Step, cs.Kind = step, kind
		cs.Pool = idsOf(pre.v1, pre.v2)
		var set1 []types.Transaction
		var set2 []types.V2Transaction
		expectErr := false
		// the valid fresh part of a set that is built to be rejected: offered
		// again alone right after the rejection it has to be accepted
		var retry1 []types.Transaction
		var retry2 []types.V2Transaction
		switch kind {
		case "fresh":
			set1, set2 = fv1, fv2
		case "partly-known":
			if useV2 && len(pre.v2) > 0 {
				set2 = append(append([]types.V2Transaction{}, pre.v2...), fv2...)
			} else if !useV2 && len(pre.v1) > 0 {
				set1 = append(append([]types.Transaction{}, pre.v1...), fv1...)
			} else {
				set1, set2 = fv1, fv2
			}
			// the pooled members need not come first: any order that keeps parents
			// before children is a valid set (checked against the pure oracle)
			if rng.IntN(3) != 0 {
				if s1, s2, ok := shuffleValidSet(tip, rng, set1, set2); ok {
					set1, set2 = s1, s2
					var lastID types.TransactionID
					if len(set2) > 0 {
						lastID = set2[len(set2)-1].ID()
					} else if len(set1) > 0 {
						lastID = set1[len(set1)-1].ID()
					}
					if _, k := pre.ids[lastID]; k {
						r.Count("partly_known_sets_ending_with_known", 1)
					} else {
						r.Count("partly_known_sets_shuffled", 1)
					}
				}
			}
		case "all-known":
			if useV2 {
				set2 = pre.v2
			} else {
				set1 = pre.v1
			}
		case "known-then-conflict":
			// already pooled transactions first, then (fresh ones and) a transaction
			// that conflicts with the pool: rejected as a whole, pool untouched
			fb := tip.L.NewBuilder(rng)
			var c1 []types.Transaction
			var c2 []types.V2Transaction
			for try := 0; try < 8 && len(c1)+len(c2) == 0; try++ {
				fb = tip.L.NewBuilder(rng)
				randomPoolTxns(fb, t, 2)
				for _, x := range fb.Txns {
					if conflictsV1(x, pre) {
						c1 = append(c1, x)
						break
					}
				}
				for _, x := range fb.V2Txns {
					if conflictsV2(x, pre) && len(c1) == 0 {
						c2 = append(c2, x)
						break
					}
				}
			}
			switch {
			case len(c2) > 0 && len(pre.v2) > 0 && independentV2(fv2, c2[0]):
				nk := 1 + rng.IntN(len(pre.v2))
				set2 = append(append(append([]types.V2Transaction{}, pre.v2[:nk]...), fv2...), c2[0])
				expectErr, retry2 = true, fv2
			case len(c1) > 0 && len(pre.v1) > 0:
				nk := 1 + rng.IntN(len(pre.v1))
				set1 = append(append(append([]types.Transaction{}, pre.v1[:nk]...), fv1...), c1[0])
				expectErr, retry1 = true, fv1
			default:
				set1, set2 = fv1, fv2
				cs.Kind = "fresh"
			}
		case "conflict-at-k":
			// a transaction valid against the tip alone that double-spends a pooled one,
			// placed after some fresh valid transactions
			fb := tip.L.NewBuilder(rng)
			var c1 []types.Transaction
			var c2 []types.V2Transaction
			for try := 0; try < 8 && len(c1)+len(c2) == 0; try++ {
				fb = tip.L.NewBuilder(rng)
				randomPoolTxns(fb, t, 2)
				for _, x := range fb.Txns {
					if conflictsV1(x, pre) {
						c1 = append(c1, x)
						break
					}
				}
				for _, x := range fb.V2Txns {
					if conflictsV2(x, pre) && len(c1) == 0 {
						c2 = append(c2, x)
						break
					}
				}
			}
			if len(c1) > 0 && len(fv1) > 0 {
				set1 = append(append([]types.Transaction{}, fv1...), c1...)
				expectErr, retry1 = true, fv1
			} else if len(c2) > 0 && len(fv2) > 0 && independentV2(fv2, c2[0]) {
				set2 = append(append([]types.V2Transaction{}, fv2...), c2...)
				expectErr, retry2 = true, fv2
			} else {
				set1, set2 = fv1, fv2
				cs.Kind = "fresh"
			}
		case "invalid-at-k":
			if useV2 && len(fv2) > 0 {
				set2 = fv2
				k := rng.IntN(len(set2))
				set2[k] = set2[k].DeepCopy()
				if len(set2[k].SiacoinInputs) > 0 && len(set2[k].SiacoinInputs[0].SatisfiedPolicy.Signatures) > 0 {
					set2[k].SiacoinInputs[0].SatisfiedPolicy.Signatures[0][3] ^= 4
					expectErr, retry2 = true, append([]types.V2Transaction{}, set2[:k]...)
				}
			} else if len(fv1) > 0 {
				set1 = fv1
				k := rng.IntN(len(set1))
				if len(set1[k].Signatures) > 0 {
					set1[k] = chainlab.DeepCopyTxn(set1[k])
					set1[k].Signatures[0].Signature[3] ^= 4
					expectErr, retry1 = true, append([]types.Transaction{}, set1[:k]...)
				}
			}
		}
		// one kind per call
		if len(set1) > 0 && len(set2) > 0 {
			if useV2 {
				set1 = nil
			} else {
				set2 = nil
			}
		}
		if len(set1)+len(set2) == 0 {
			continue
		}
		cs.Set = idsOf(set1, set2)
		var known bool
		var cerr error
		var img []string
		for _, x := range set2 {
			img = append(img, chainlab.EncodeV2(x))
		}
		tw1 := make([]types.Transaction, len(set1))
		for i := range set1 {
			tw1[i] = chainlab.DeepCopyTxn(set1[i])
		}
		tw2 := make([]types.V2Transaction, len(set2))
		for i := range set2 {
			tw2[i] = set2[i].DeepCopy()
		}
		if p := mon.Guard(func() {
			if len(set1) > 0 {
				known, cerr = cm.AddPoolTransactions(set1)
			} else {
				known, cerr = cm.AddV2PoolTransactions(tip.L.State.Index, set2)
			}
		}); p != nil {
			r.Violation("submit-panic", fmt.Sprint("pool submission panicked: ", p), cs, nil)
			return
		}
		{
			var tk bool
			var te error
			if len(tw1) > 0 {
				tk, te = tw.CM.AddPoolTransactions(tw1)
			} else {
				tk, te = tw.CM.AddV2PoolTransactions(tip.L.State.Index, tw2)
			}
			if tk != known || (te == nil) != (cerr == nil) {
				r.Violation("outcome-depends-on-query-order", fmt.Sprintf("the same submission gave known=%v err=%v on the node and known=%v err=%v on a twin that differs only in WHEN the pool was queried", known, cerr, tk, te), cs, nil)
				return
			}
		}
		r.Eval()
		r.Count("submissions:"+cs.Kind, 1)
		post := snapPool(cm)
		if twp := snapPool(tw.CM); twp.key() != post.key() {
			r.Violation("pool-depends-on-query-order", "after the same submissions and blocks the pool differs from that of a twin that differs only in WHEN the pool was queried", cs, map[string]any{"pool": idsOf(post.v1, post.v2), "twin_pool": idsOf(twp.v1, twp.v2)})
			return
		}
		// expected
		allKnown := true
		want := map[types.TransactionID]string{}
		for id, k := range pre.ids {
			want[id] = k
		}
		for _, x := range set1 {
			if _, ok := pre.ids[x.ID()]; !ok {
				allKnown = false
			}
			want[x.ID()] = "v1"
		}
		for _, x := range set2 {
			if _, ok := pre.ids[x.ID()]; !ok {
				allKnown = false
			}
			want[x.ID()] = "v2"
		}
		cs.Detail = fmt.Sprintf("known=%v err=%v pool %d -> %d", known, cerr, len(pre.ids), len(post.ids))
		if cerr != nil {
			r.Count("submissions_rejected", 1)
			if post.key() != pre.key() {
				r.Violation("partial-add:"+cs.Kind, "a rejected set left some of its transactions in the pool", cs, map[string]any{"pool_after": idsOf(post.v1, post.v2), "err": cerr.Error()})
			}
			if known {
				r.Violation("known-with-error", "known=true together with an error", cs, nil)
			}
			// "none of them": the rejected set must not linger anywhere - its valid
			// fresh part alone is still an acceptable set
			if len(set1) > 0 {
				retry2 = nil
			} else {
				retry1 = nil
			}
			if expectErr && len(retry1)+len(retry2) > 0 && post.key() == pre.key() {
				vb := tip.L.NewBuilder(rng)
				alone := true
				for _, x := range retry1 {
					alone = alone && vb.TryV1("retry", chainlab.DeepCopyTxn(x))
				}
				var in2 []types.V2Transaction
				for _, x := range retry2 {
					alone = alone && vb.TryV2("retry", x.DeepCopy())
					in2 = append(in2, x.DeepCopy())
				}
				if alone {
					var rerr error
					if len(retry1) > 0 {
						_, rerr = cm.AddPoolTransactions(retry1)
						tw.CM.AddPoolTransactions(retry1)
					} else {
						var twin2 []types.V2Transaction
						for _, x := range in2 {
							twin2 = append(twin2, x.DeepCopy())
						}
						_, rerr = cm.AddV2PoolTransactions(tip.L.State.Index, in2)
						tw.CM.AddV2PoolTransactions(tip.L.State.Index, twin2)
					}
					r.Count("valid_part_of_rejected_set_resubmitted", 1)
					if rerr != nil {
						c := cs
						c.Set = idsOf(retry1, retry2)
						r.Violation("rejected-set-left-trace:"+cs.Kind, "the valid fresh part of a rejected set, submitted alone right afterwards, is refused: "+rerr.Error(), c, nil)
					}
					post = snapPool(cm)
				}
			}
		} else {
			if expectErr {
				r.Violation("invalid-set-accepted:"+cs.Kind, "a set containing an invalid/conflicting transaction was accepted", cs, nil)
			}
			if known != allKnown {
				r.Violation("known-flag", fmt.Sprintf("known=%v but every-transaction-already-pooled=%v", known, allKnown), cs, nil)
			}
			wantSnap := poolSnap{ids: want}
			if post.key() != wantSnap.key() {
				r.Violation("accepted-set-not-fully-added", "after a successful submission the pool is not the old pool plus every new transaction", cs, map[string]any{"pool_after": idsOf(post.v1, post.v2)})
			}
		}
		if allKnown {
			r.Count("submissions_all_known", 1)
		}
		// caller memory (v2): unchanged by the call ...
		for i, x := range set2 {
			if chainlab.EncodeV2(x) != img[i] {
				r.Violation("caller-memory-modified", "AddV2PoolTransactions modified the caller's transaction", cs, nil)
			}
		}
		// ... and not retained: scribble over the caller's copies, the pool must not change
		listing := func() []string {
			var l []string
			for _, x := range cm.V2PoolTransactions() {
				l = append(l, chainlab.EncodeV2(x))
			}
			for _, x := range cm.PoolTransactions() {
				l = append(l, chainlab.EncodeV1(x))
			}
			return l
		}
		before := listing()
		for i := range set2 {
			scribbleV2(&set2[i])
		}
		ret := cm.V2PoolTransactions()
		for i := range ret {
			scribbleV2(&ret[i])
		}
		rev1 := cm.PoolTransactions()
		for i, j := 0, len(rev1)-1; i < j; i, j = i+1, j-1 {
			rev1[i], rev1[j] = rev1[j], rev1[i]
		}
		for i, j := 0, len(ret)-1; i < j; i, j = i+1, j-1 {
			ret[i], ret[j] = ret[j], ret[i]
		}
		for id, k := range post.ids {
			if k == "v2" {
				if x, ok := cm.V2PoolTransaction(id); ok {
					scribbleV2(&x)
				}
			}
		}
		// ... and the broadcast set of a pooled transaction (its pooled parents
		// come out of the pool's own storage)
		if pl := cm.V2PoolTransactions(); len(pl) > 0 {
			last := pl[len(pl)-1]
			if _, set, err := cm.V2TransactionSet(tip.L.State.Index, last.DeepCopy()); err == nil {
				for i := range set {
					scribbleV2(&set[i])
				}
				if len(set) > 1 {
					r.Count("aliasing_probes_txnset_with_parents", 1)
				}
			}
		}
		// ... and the transactions handed out for a partial block: requests
		// that are completely satisfied (every hash pooled, in PRNG subsets ending
		// with a v1 or a v2 match) and requests with an unknown hash
		if pl1, pl2 := cm.PoolTransactions(), cm.V2PoolTransactions(); len(pl1)+len(pl2) > 0 {
			var hashes []types.Hash256
			for _, x := range pl1 {
				if rng.IntN(2) == 0 {
					hashes = append(hashes, x.MerkleLeafHash())
				}
			}
			for _, x := range pl2 {
				if rng.IntN(3) != 0 {
					hashes = append(hashes, x.MerkleLeafHash())
				}
			}
			if rng.IntN(3) == 0 {
				hashes = append(hashes, types.Hash256{0xde, 0xad, byte(step)})
			}
			if len(hashes) > 0 {
				g1, g2 := cm.TransactionsForPartialBlock(hashes)
				for i, j := 0, len(g1)-1; i < j; i, j = i+1, j-1 {
					g1[i], g1[j] = g1[j], g1[i]
				}
				for i := range g2 {
					scribbleV2(&g2[i])
				}
				r.Count("aliasing_probes_partial_block", 1)
				if len(g2) > 0 {
					r.Count("aliasing_probes_partial_block_with_v2", 1)
				}
			}
		}
		after := listing()
		r.Count("aliasing_probes", 1)
		if fmt.Sprint(before) != fmt.Sprint(after) {
			r.Violation("pool-aliases-caller-or-returned-memory", "mutating submitted or returned v2 transactions / reordering returned slices changed the pool", cs, nil)
		}
		// lookups for every id kind
		for id := range post.ids {
			everIDs = append(everIDs, id)
		}
		var rnd types.TransactionID
		for i := range rnd {
			rnd[i] = byte(rng.IntN(256))
		}
		c14Lookups(r, cm, post, []types.TransactionID{rnd}, cs)
		if len(post.v1) > 0 && len(post.v2) > 0 {
			r.Count("steps_with_both_kinds_pooled", 1)
			r.Distinct(fmt.Sprintf("both/%d/%d/%s/%d/%d", stream, step, cs.Kind, len(post.v1), len(post.v2)))
		} else {
			r.Distinct(fmt.Sprintf("one/%d/%d/%s", stream, step, cs.Kind))
		}
		if stream%40 == 0 && step == 3 {
			r.Sample(cs)
		}
		if r.Violations() > 0 {
			return
		}
	}
}

func scribbleV2(t *types.V2Transaction) {
	for i := range t.SiacoinInputs {
		pr := t.SiacoinInputs[i].Parent.StateElement.MerkleProof
		for j := range pr {
			pr[j][0] ^= 0xFF
		}
		for j := range t.SiacoinInputs[i].SatisfiedPolicy.Signatures {
			t.SiacoinInputs[i].SatisfiedPolicy.Signatures[j][0] ^= 0xFF
		}
	}
	for i := range t.SiacoinOutputs {
		t.SiacoinOutputs[i].Value = types.ZeroCurrency
	}
	for i := range t.ArbitraryData {
		t.ArbitraryData[i] ^= 0xFF
	}
	for i := range t.Attestations {
		for j := range t.Attestations[i].Value {
			t.Attestations[i].Value[j] ^= 0xFF
		}
	}
}

func conflictsV1(x types.Transaction, pre poolSnap) bool {
	if _, known := pre.ids[x.ID()]; known {
		return false // already pooled: known, not conflicting
	}
	spent := map[types.SiacoinOutputID]bool{}
	for _, p := range pre.v1 {
		for _, in := range p.SiacoinInputs {
			spent[in.ParentID] = true
		}
	}
	for _, p := range pre.v2 {
		for _, in := range p.SiacoinInputs {
			spent[in.Parent.ID] = true
		}
	}
	for _, in := range x.SiacoinInputs {
		if spent[in.ParentID] {
			return true
		}
	}
	return false
}

func conflictsV2(x types.V2Transaction, pre poolSnap) bool {
	if _, known := pre.ids[x.ID()]; known {
		return false // the generator re-made a transaction that is already pooled: known, not conflicting
	}
	spent := map[types.SiacoinOutputID]bool{}
	for _, p := range pre.v1 {
		for _, in := range p.SiacoinInputs {
			spent[in.ParentID] = true
		}
	}
	for _, p := range pre.v2 {
		for _, in := range p.SiacoinInputs {
			spent[in.Parent.ID] = true
		}
	}
	for _, in := range x.SiacoinInputs {
		if in.Parent.StateElement.LeafIndex == types.UnassignedLeafIndex {
			return false // depends on an ephemeral parent; not self-contained
		}
	}
	for _, in := range x.SiacoinInputs {
		if spent[in.Parent.ID] {
			return true
		}
	}
	return false
}

// independentV2 reports whether c shares no input with any of set (so that the
// set [set..., c] is internally valid against the tip).
func independentV2(set []types.V2Transaction, c types.V2Transaction) bool {
	used := map[types.SiacoinOutputID]bool{}
	for _, x := range set {
		for _, in := range x.SiacoinInputs {
			used[in.Parent.ID] = true
		}
	}
	for _, in := range c.SiacoinInputs {
		if used[in.Parent.ID] {
			return false
		}
	}
	return len(c.FileContractRevisions)+len(c.FileContractResolutions)+len(c.SiafundInputs) == 0
}

func runC14(r *mon.Run, replay string) {
	r.Rule("chains stopped at heights where v1 and v2 transactions may both be pooled (mix regime between allow and require), then PRNG sequences of pool submissions built by the pure generator on top of the current pool: fresh, partly known, all known, valid-against-tip-but-conflicting-with-pool at position k, invalid at position k; after every call the pool listing is compared with the all-or-nothing expectation, the known flag with 'every id was pooled', caller memory with its byte image, the pool with itself after scribbling over submitted/returned values, and both lookup functions are called with every v1 id, v2 id and a random id; distinct = (stream, step, kind, pool composition)")
	if st, ok := replayStream(replay); ok {
		switch {
		case st >= 149000:
			runC14Reorg(r, st)
		case st >= 148000:
			runC14NearLimit(r, st)
		default:
			runC14History(r, st)
		}
		return
	}
	n := r.Pick(250, 4000)
	parallel(n, func(i int) { runC14History(r, uint64(14000+i)) })
	parallel(r.Pick(16, 200), func(i int) { runC14NearLimit(r, uint64(148000+i)) })
	parallel(r.Pick(120, 900), func(i int) { runC14Reorg(r, uint64(149000+i)) })
	r.Floor("rejected_sets_crossing_the_pool_limit", 10)
	r.Floor("family_resubmissions_with_members_dropped_by_the_reorg", 30)
	r.Floor("family_resubmissions_partly_known", 10)
	r.Floor("steps_with_both_kinds_pooled", 50)
	r.Floor("submissions_rejected", 50)
	r.Floor("partly_known_sets_ending_with_known", 20)
	r.Floor("valid_part_of_rejected_set_resubmitted", 20)
	r.Floor("submissions_as_first_pool_operation_after_block", 20)
	r.Floor("lookups_as_first_pool_operation_after_block", 20)
	r.Floor("aliasing_probes_partial_block_with_v2", 50)
	r.Floor("lookups:PoolTransaction:v2", 100)
	r.Floor("lookups:V2PoolTransaction:v1", 100)
	_ = rand.Int
}
