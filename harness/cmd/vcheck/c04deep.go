package main

import (
	"fmt"
	"sync"
	"sync/atomic"

	"go.sia.tech/core/types"
	"verif/harness/lab/chainlab"
	"verif/harness/mon"
)

// runC04Deep: polls that collect well over a hundred updates in one call (a
// subscriber far behind, chunk size 1000) while the submitter keeps reorging
// between two long branches whose fork point is ~90 blocks below their tips.
// Every single response must be a contiguous path from the subscriber's index
// (reverts down to the fork point of ITS branch, applies along ONE chain).
func runC04Deep(r *mon.Run, stream uint64) {
	rng := r.RNG(stream)
	regime := []string{"v2only", "v1only", "mix"}[rng.IntN(3)]
	p := chainlab.RandomParams(regime, rng)
	env := chainlab.NewEnv(p)
	t := chainlab.NewTree(env, rng)
	cs := c04Case{Stream: stream, Params: p}
	prof := chainlab.Profile{MaxTxns: 1, NoContracts: true}
	ext := func(n *chainlab.Node) *chainlab.Node {
		if rng.IntN(12) == 0 {
			return t.Extend(n, prof)
		}
		return t.ExtendEmpty(n, zeroT)
	}
	trunk := t.Root
	for i := 0; i < 8+rng.IntN(10); i++ {
		trunk = ext(trunk)
	}
	heads := [2]*chainlab.Node{trunk, trunk}
	var pending [2][]*chainlab.Node
	for i := 0; i < 80+rng.IntN(20); i++ {
		for b := 0; b < 2; b++ {
			heads[b] = ext(heads[b])
			pending[b] = append(pending[b], heads[b])
		}
	}
	if !heads[0].ChainValid || !heads[1].ChainValid {
		r.Inconclusive("generator built an invalid long branch")
		return
	}
	node, err := chainlab.NewTestNode(env, nil)
	if err != nil {
		r.Inconclusive(err.Error())
		return
	}
	cm := node.CM
	if err := cm.AddBlocks(chainlab.Blocks(trunk.PathFromGenesis())); err != nil {
		r.Inconclusive(err.Error())
		return
	}
	// the whole tree is built before the pollers start (it is read-only then)
	rounds := 10 + rng.IntN(6)
	type step struct{ batch []*chainlab.Node }
	var steps []step
	steps = append(steps, step{pending[0]}, step{pending[1]})
	for i := 0; i < rounds; i++ {
		b := i % 2
		var batch []*chainlab.Node
		for heads[b].Height <= heads[1-b].Height+1 {
			heads[b] = ext(heads[b])
			batch = append(batch, heads[b])
		}
		steps = append(steps, step{batch})
	}
	done := make(chan struct{})
	var wg sync.WaitGroup
	var failed atomic.Bool
	var longPolls, crossPolls atomic.Int64
	for i := 0; i < 4; i++ {
		wg.Add(1)
		go func(id int) {
			defer wg.Done()
			f := chainlab.NewFollower()
			for {
				select {
				case <-done:
					return
				default:
				}
				from := f.Index
				rus, aus, err := cm.UpdatesSince(from, 1000)
				if err != nil {
					r.Violation("updates-since-error:deep", "UpdatesSince failed for an index the subscriber reached earlier: "+err.Error(), cs, nil)
					failed.Store(true)
					return
				}
				if _, problem := chainlab.CheckPoll(t, from, 1000, rus, aus); problem != "" {
					r.Violation("update-path-not-contiguous:deep", problem, cs, map[string]int{"reverts": len(rus), "applies": len(aus)})
					failed.Store(true)
					return
				}
				if err := f.Fold(rus, aus); err != nil {
					r.Violation("fold-failed:deep", err.Error(), cs, nil)
					failed.Store(true)
					return
				}
				if len(rus)+len(aus) > 64 {
					longPolls.Add(1)
				}
				if len(rus) > 64 {
					crossPolls.Add(1)
				}
				// every other time start over from nothing: another long walk
				if len(rus)+len(aus) == 0 && id%2 == 0 {
					f = chainlab.NewFollower()
				}
			}
		}(i)
	}
	for _, st := range steps {
		if failed.Load() || len(st.batch) == 0 {
			continue
		}
		// in pieces, so that reorgs land while long walks are in progress
		for i := 0; i < len(st.batch); {
			n := 1 + rng.IntN(4)
			if i+n > len(st.batch) || len(st.batch) > 20 {
				n = len(st.batch) - i
			}
			cm.AddBlocks(chainlab.Blocks(st.batch[i : i+n]))
			i += n
		}
	}
	close(done)
	wg.Wait()
	if failed.Load() {
		return
	}
	tipNode := t.ByID[cm.Tip().ID]
	if tipNode == nil || (tipNode != heads[0] && tipNode != heads[1]) {
		r.Violation("deep-final-tip", "the node did not end on the heavier of the two long branches", cs, nil)
		return
	}
	r.Eval()
	r.Count("deep_histories", 1)
	r.Count("polls_returning_more_than_64_updates", int(longPolls.Load()))
	r.Count("polls_reverting_more_than_64_blocks", int(crossPolls.Load()))
	r.Distinct(fmt.Sprintf("c04deep/%d/%d", stream, rounds))
	_ = types.ChainIndex{}
}
