package main

import (
	"fmt"
	"strings"
	"sync"

	"verif/harness/lab/chainlab"
	"verif/harness/lab/kvlab"
	"verif/harness/mon"
)

func init() { register("C17", "exploration", runC17) }

type c17Case struct {
	Backend string     `json:"backend"`
	Ops     []kvlab.Op `json:"ops"`
}

func c17Alphabet() []kvlab.Op {
	return []kvlab.Op{
		{Kind: "create", Bucket: "x"},
		{Kind: "put", Bucket: "x", Key: "a", Val: "1"},
		{Kind: "put", Bucket: "x", Key: "a", Val: "2"},
		{Kind: "put", Bucket: "x", Key: "b", Val: "1"},
		{Kind: "put", Bucket: "x", Key: "b", Val: ""}, // a present key with an empty value (the chain store writes those)
		{Kind: "del", Bucket: "x", Key: "a"},
		{Kind: "del", Bucket: "x", Key: "b"},
		{Kind: "flush"},
		{Kind: "cancel"},
	}
}

func opsString(ops []kvlab.Op) string {
	s := make([]string, len(ops))
	for i, o := range ops {
		s[i] = o.String()
	}
	return strings.Join(s, ";")
}

func c17Report(r *mon.Run, be string, ops []kvlab.Op, mm *kvlab.Mismatch) {
	// signature: backend family + kind of divergence (stable across inputs so a
	// *different* violation of the property is still reported separately)
	sig := fmt.Sprintf("%s:%s", be, mm.What)
	r.Violation(sig, "backend diverges from the overlay-map model: "+mm.Detail, c17Case{be, ops}, mm)
}

func runC17(r *mon.Run, replay string) {
	r.Rule("all operation sequences over {create x, put a=1/2, put b=1/empty, del a/b, flush, cancel} up to the tier's length on every backend, then PRNG sequences over 3 buckets x 16 keys; after every operation Get of every key and a full Iter of every bucket are compared with the overlay-map model, and the durable image at the end; a sequence is non-trivial when it contains a put into an existing bucket, distinct by (backend, op string)")
	r.Assume("bbolt's own transaction semantics (trusted)")
	alpha := c17Alphabet()
	buckets := []string{"x"}
	keys := []string{"a", "b"}
	defer kvlab.CleanupBolt()

	type job struct {
		be     kvlab.Backend
		maxLen int
		prefix []int
	}
	memLen := r.Pick(5, 7)
	boltLen := r.Pick(4, 5)
	var jobs []job
	for _, be := range kvlab.Backends(true) {
		ml := memLen
		if strings.Contains(be.Name, "Bolt") {
			ml = boltLen
		}
		for i := range alpha {
			for j := range alpha {
				jobs = append(jobs, job{be, ml, []int{i, j}})
			}
		}
		// length-1 sequences
		for i := range alpha {
			jobs = append(jobs, job{be, 1, []int{i}})
		}
	}
	var wg sync.WaitGroup
	sem := make(chan struct{}, 16)
	boltMu := &c17BoltMu // bolt scratch naming is not concurrency safe
	for _, jb := range jobs {
		wg.Add(1)
		sem <- struct{}{}
		go func(jb job) {
			defer wg.Done()
			defer func() { <-sem }()
			isBolt := strings.Contains(jb.be.Name, "Bolt")
			var rec func(seq []int)
			nseq := 0
			reported := map[string]bool{}
			rec = func(seq []int) {
				ops := make([]kvlab.Op, len(seq))
				nontrivial, created := false, false
				for i, a := range seq {
					ops[i] = alpha[a]
					if alpha[a].Kind == "create" {
						created = true
					}
					if alpha[a].Kind == "put" && created {
						nontrivial = true
					}
				}
				if isBolt {
					boltMu.Lock()
				}
				mm := kvlab.RunSequence(jb.be, ops, buckets, keys)
				if isBolt {
					boltMu.Unlock()
				}
				nseq++
				r.Eval()
				if nontrivial {
					r.Distinct(jb.be.Name + "|" + opsString(ops))
				}
				if mm != nil {
					if !reported[mm.What] {
						reported[mm.What] = true
						c17Report(r, jb.be.Name, ops, mm)
					}
					return // extensions of a diverging sequence diverge too
				}
				if len(seq) >= jb.maxLen {
					return
				}
				for a := range alpha {
					rec(append(seq[:len(seq):len(seq)], a))
				}
			}
			if len(jb.prefix) == 1 || jb.maxLen >= 2 {
				if len(jb.prefix) == 1 {
					old := jb.maxLen
					jb.maxLen = 1
					rec(jb.prefix)
					jb.maxLen = old
				} else {
					rec(jb.prefix)
				}
			}
			r.Count("exhaustive_sequences:"+jb.be.Name, nseq)
		}(jb)
	}
	wg.Wait()
	r.Extra("exhaustive", true)
	r.Extra("exhaustive_scope", fmt.Sprintf("all sequences over the 9-operation alphabet of length 1..%d on in-memory backends and 1..%d on Bolt-backed ones (subtrees below a diverging prefix are pruned)", memLen, boltLen))

	// long random sequences over a wider alphabet
	rbuckets := []string{"p", "q", "r"}
	rkeys := make([]string, 16)
	for i := range rkeys {
		rkeys[i] = fmt.Sprintf("k%02d", i)
	}
	nRand := r.Pick(40, 400)
	rlen := r.Pick(400, 2500)
	for _, be := range kvlab.Backends(true) {
		be := be
		isBolt := strings.Contains(be.Name, "Bolt")
		n := nRand
		if isBolt {
			n = nRand / 4
		}
		for c := 0; c < n; c++ {
			wg.Add(1)
			sem <- struct{}{}
			go func(c int) {
				defer wg.Done()
				defer func() { <-sem }()
				rng := r.RNG(uint64(1700 + c))
				ops := make([]kvlab.Op, 0, rlen)
				for i := 0; i < rlen; i++ {
					b := rbuckets[rng.IntN(3)]
					k := rkeys[rng.IntN(16)]
					switch x := rng.IntN(100); {
					case x < 4 || i < 2:
						ops = append(ops, kvlab.Op{Kind: "create", Bucket: b})
					case x < 55:
						v := fmt.Sprintf("v%d", rng.IntN(1000))
						if rng.IntN(8) == 0 {
							v = "" // present, empty
						}
						ops = append(ops, kvlab.Op{Kind: "put", Bucket: b, Key: k, Val: v})
					case x < 85:
						ops = append(ops, kvlab.Op{Kind: "del", Bucket: b, Key: k})
					case x < 94:
						ops = append(ops, kvlab.Op{Kind: "flush"})
					default:
						ops = append(ops, kvlab.Op{Kind: "cancel"})
					}
				}
				if isBolt {
					boltMu.Lock()
				}
				mm := kvlab.RunSequence(be, ops, rbuckets, rkeys)
				if isBolt {
					boltMu.Unlock()
				}
				r.Eval()
				r.Count("random_sequences:"+be.Name, 1)
				r.Count("random_ops", len(ops))
				r.Distinct(fmt.Sprintf("%s|rand%d", be.Name, c))
				if mm != nil {
					short := ops
					if mm.Step >= 0 && mm.Step < len(ops) {
						short = ops[:mm.Step+1]
					}
					c17Report(r, be.Name, short, mm)
				}
			}(c)
		}
	}
	wg.Wait()
	parallel(r.Pick(24, 300), func(i int) { runC17Chain(r, uint64(170000+i)) })
	r.Floor("chain_bucket_iterations_compared", 100)
	r.Sample(c17Case{"MemDB", []kvlab.Op{alpha[0], alpha[1], alpha[5], alpha[7], alpha[3], alpha[8]}})
	for _, be := range kvlab.Backends(true) {
		r.Floor("exhaustive_sequences:"+be.Name, 500)
	}
}

// runC17Chain replays one generated chain history on every backend: the chain
// store must behave the same whichever backend it is given (equal served
// views), and each backend's own iteration must agree with the shadow model of
// what the store wrote.
func runC17Chain(r *mon.Run, stream uint64) {
	rng := r.RNG(stream)
	regime := regimes[rng.IntN(3)]
	p := chainlab.RandomParams(regime, rng)
	env := chainlab.NewEnv(p)
	t := chainlab.NewTree(env, rng)
	t.Grow(24+rng.IntN(8), chainlab.Profile{MaxTxns: 4})
	sched := t.RandomSchedule(rng)
	var ref chainlab.View
	var refName string
	for _, be := range kvlab.Backends(true) {
		isBolt := strings.Contains(be.Name, "Bolt")
		if isBolt {
			c17BoltMu.Lock()
		}
		func() {
			if isBolt {
				defer c17BoltMu.Unlock()
			}
			db, _, closeFn := be.New()
			defer closeFn()
			node, err := chainlab.NewTestNode(env, db)
			if err != nil {
				r.Violation("chain-on-backend:open:"+be.Name, "NewDBStore failed on backend: "+err.Error(), c17Case{Backend: be.Name}, nil)
				return
			}
			a := chainlab.NewAuditor(t, node)
			for _, batch := range sched {
				if _, fs := a.Submit(batch); len(fs) > 0 {
					for _, f := range fs {
						r.Violation("chain-on-backend:"+be.Name+":"+f.Sig, "chain history on backend "+be.Name+": "+f.What, map[string]any{"rng_stream": stream, "params": p, "backend": be.Name}, f.Detail)
					}
					return
				}
			}
			// the backend's own iteration vs what the store wrote
			for bn, want := range node.Shadow.Model.Live {
				b := db.Bucket([]byte(bn))
				if b == nil {
					r.Violation("chain-on-backend:bucket-missing:"+be.Name, "bucket "+bn+" missing on backend", map[string]any{"rng_stream": stream, "backend": be.Name}, nil)
					return
				}
				got := map[string]string{}
				dup := false
				for k, v := range b.Iter() {
					if _, ok := got[string(k)]; ok {
						dup = true
					}
					got[string(k)] = string(v)
				}
				if dup || len(got) != len(want) {
					r.Violation("chain-on-backend:iter:"+be.Name, fmt.Sprintf("bucket %s: backend iterates %d keys (duplicates: %v), the store wrote %d", bn, len(got), dup, len(want)), map[string]any{"rng_stream": stream, "backend": be.Name}, nil)
					return
				}
				for k, v := range want {
					if got[k] != v {
						r.Violation("chain-on-backend:iter:"+be.Name, "bucket "+bn+": iterated value differs from what the store wrote", map[string]any{"rng_stream": stream, "backend": be.Name}, nil)
						return
					}
				}
				r.Count("chain_bucket_iterations_compared", 1)
			}
			v := node.ServedView(true)
			if ref == nil {
				ref, refName = v, be.Name
			} else if k, x, y := ref.Diff(v); k != "" {
				r.Violation("chain-on-backend:view-differs:"+be.Name, "the chain store serves a different view on "+be.Name+" than on "+refName, map[string]any{"rng_stream": stream, "params": p}, map[string]string{"key": k, refName: clipS(x), be.Name: clipS(y)})
				return
			}
			r.Count("chain_histories:"+be.Name, 1)
		}()
	}
	r.Eval()
	r.Distinct(fmt.Sprintf("chain/%d", stream))
}

var c17BoltMu sync.Mutex
