package main

import "go.sia.tech/core/consensus"

type (
	consensusState  = consensus.State
	consensusApply  = consensus.ApplyUpdate
	consensusRevert = consensus.RevertUpdate
)
