package main

import (
	"fmt"
	"sort"
	"strings"
	"time"

	"verif/harness/lab/chainlab"
	"verif/harness/mon"
)

func init() { register("C01", "exploration", runC01) }

type chainCase struct {
	Kind   string                `json:"kind"`
	Stream uint64                `json:"rng_stream"`
	Params chainlab.Params       `json:"params"`
	Nodes  []nodeDesc            `json:"nodes,omitempty"`
	Calls  []chainlab.CallRecord `json:"calls,omitempty"`
}

type nodeDesc struct {
	Idx        int      `json:"idx"`
	Parent     int      `json:"parent"`
	Height     uint64   `json:"height"`
	Valid      bool     `json:"chain_valid"`
	Orphan     bool     `json:"orphan_valid"`
	Corruption string   `json:"corruption,omitempty"`
	Err        string   `json:"err,omitempty"`
	Kinds      []string `json:"kinds,omitempty"`
}

func describeTree(t *chainlab.Tree) []nodeDesc {
	if t == nil {
		return nil
	}
	out := make([]nodeDesc, 0, len(t.Nodes))
	for _, n := range t.Nodes {
		p := -1
		if n.Parent != nil {
			p = n.Parent.Idx
		}
		out = append(out, nodeDesc{n.Idx, p, n.Height, n.ChainValid, n.OrphanValid, n.Corruption, n.Err, n.Kinds})
	}
	return out
}

// treeStats records which transaction kinds and corruption classes the
// workload actually produced.
func treeStats(r *mon.Run, t *chainlab.Tree) {
	for _, n := range t.Nodes {
		for _, k := range n.Kinds {
			if n.ChainValid && n.Corruption == "" {
				r.Count("txkind:"+k, 1)
			}
		}
		if n.Corruption != "" {
			lab := "invalid"
			if n.ChainValid {
				lab = "still-valid"
			} else if !n.OrphanValid {
				lab = "orphan-invalid"
			}
			r.Count("corruption:"+n.Corruption+":"+lab, 1)
		}
	}
}

func reportFindings(r *mon.Run, cs chainCase, t *chainlab.Tree, a *chainlab.Auditor, fs []chainlab.Finding) {
	for _, f := range fs {
		c := cs
		c.Nodes = describeTree(t)
		if a != nil {
			c.Calls = a.Log
		}
		r.Violation(f.Sig, f.What, c, f.Detail)
	}
}

var regimes = []string{"mix", "v1only", "v2only"}

// runTreeHistory builds a random tree with corruptions and drives a node
// through a random schedule, auditing every call.
func runTreeHistory(r *mon.Run, stream uint64, regime string, size int) {
	rng := r.RNG(stream)
	p := chainlab.RandomParams(regime, rng)
	p.HiDiff = stream%5 == 4 // every fifth tree: non-zero "sufficiently heavier" margin
	env := chainlab.NewEnv(p)
	t := chainlab.NewTree(env, rng)
	cs := chainCase{Kind: "tree", Stream: stream, Params: p}
	t.Grow(size, chainlab.Profile{MaxTxns: 4})
	// corrupt a handful of blocks; continue some invalid forks with header-only blocks
	nc := 2 + rng.IntN(5)
	base := append([]*chainlab.Node{}, t.Nodes...)
	for i := 0; i < nc; i++ {
		n := base[1+rng.IntN(len(base)-1)]
		if !n.ChainValid {
			continue
		}
		op := chainlab.CorruptionOps[rng.IntN(len(chainlab.CorruptionOps))]
		c := t.Corrupt(n, op, rng.IntN(3) != 0)
		if c == nil {
			continue
		}
		if c.OrphanValid && rng.IntN(2) == 0 {
			x := c
			for j := 0; j < 1+rng.IntN(4); j++ {
				x = t.Extend(x, chainlab.Profile{MaxTxns: 2})
			}
		}
	}
	node, err := chainlab.NewTestNode(env, nil)
	if err != nil {
		r.Inconclusive("cannot open node: " + err.Error())
		return
	}
	a := chainlab.NewAuditor(t, node)
	a.Deep = size <= 60
	for _, batch := range t.RandomSchedule(rng) {
		_, fs := a.Submit(batch)
		if a.Tip.Height <= env.Net.HardforkV2.RequireHeight {
			fs = append(fs, a.AuditElements()...)
		}
		r.Count("calls_audited", 1)
		if len(fs) > 0 {
			reportFindings(r, cs, t, a, fs)
			break
		}
	}
	treeStats(r, t)
	r.Eval()
	r.Count("reorgs_observed", a.Reorgs)
	r.Count("rollbacks_observed:"+regime, a.Rollbacks)
	r.Count("rejected_calls", a.Rejected)
	r.Count("blocks_generated", len(t.Nodes))
	r.SetAdd("reorg_depths", fmt.Sprint(a.MaxDepth))
	r.Distinct(fmt.Sprintf("tree/%s/%d/n%d/r%d/rb%d", regime, stream, len(t.Nodes), a.Reorgs, a.Rollbacks))
	if stream%97 == 0 {
		r.Sample(map[string]any{"kind": "tree", "regime": regime, "params": p, "nodes": len(t.Nodes), "calls": a.Calls, "reorgs": a.Reorgs, "rollbacks": a.Rollbacks, "max_reorg_depth": a.MaxDepth, "first_calls": firstN(a.Log, 6)})
	}
}

func firstN(l []chainlab.CallRecord, n int) []chainlab.CallRecord {
	if len(l) > n {
		return l[:n]
	}
	return l
}

// runInvalidForkScenario enumerates "invalid block at depth d of a heavier
// fork of length L whose fork point is k below the tip", then the failed fork
// resubmitted with two more blocks, then a valid fork of the same shape.
func runInvalidForkScenario(r *mon.Run, stream uint64, regime string, d, L, k int) {
	rng := r.RNG(stream)
	p := chainlab.RandomParams(regime, rng)
	env := chainlab.NewEnv(p)
	t := chainlab.NewTree(env, rng)
	cs := chainCase{Kind: fmt.Sprintf("invalid-fork d=%d L=%d k=%d", d, L, k), Stream: stream, Params: p}
	prof := chainlab.Profile{MaxTxns: 3}
	// main chain long enough to cross the regime's interesting heights
	mainLen := k + 2 + rng.IntN(6)
	if regime == "mix" {
		mainLen = int(p.Allow) - 2 + rng.IntN(int(p.Require-p.Allow)+6)
		if mainLen < k+1 {
			mainLen = k + 1
		}
	}
	tip := t.Root
	for i := 0; i < mainLen; i++ {
		tip = t.Extend(tip, prof)
	}
	fork := tip.Ancestor(tip.Height - uint64(k))
	// the fork: d-1 valid blocks, one corrupted, the rest header-only
	x := fork
	var forkNodes []*chainlab.Node
	for i := 1; i < d; i++ {
		x = t.Extend(x, prof)
		forkNodes = append(forkNodes, x)
	}
	var bad *chainlab.Node
	ops := []string{"double-spend", "output-inflate", "sig-bit", "missing-input", "contract-field", "dup-txn", "payout-value", "v2-commitment", "proof-leaf"}
	for try := 0; try < 12 && bad == nil; try++ {
		good := t.Extend(x, chainlab.Profile{MaxTxns: 4})
		c := t.Corrupt(good, ops[rng.IntN(len(ops))], true)
		if c != nil && c.OrphanValid && !c.Valid {
			bad = c
		}
	}
	if bad == nil {
		r.Count("scenario_skipped_no_body_invalid_block", 1)
		return
	}
	forkNodes = append(forkNodes, bad)
	x = bad
	for i := d; i < L; i++ {
		x = t.ExtendHeaderOnly(x)
		forkNodes = append(forkNodes, x)
	}
	node, err := chainlab.NewTestNode(env, nil)
	if err != nil {
		r.Inconclusive("cannot open node: " + err.Error())
		return
	}
	a := chainlab.NewAuditor(t, node)
	a.Deep = true
	step := func(batch []*chainlab.Node) bool {
		_, fs := a.Submit(batch)
		if a.Tip.Height <= env.Net.HardforkV2.RequireHeight {
			fs = append(fs, a.AuditElements()...)
		}
		r.Count("calls_audited", 1)
		if len(fs) > 0 {
			reportFindings(r, cs, t, a, fs)
			return false
		}
		return true
	}
	if !step(tip.PathFromGenesis()) {
		return
	}
	heavier := x.State().SufficientlyHeavierThan(tip.L.State)
	if !step(forkNodes) {
		return
	}
	// the valid prefix of the failed fork alone: its blocks were validated (and
	// stored with their supplements) by the reorg attempt that was rolled back;
	// offered again - all of them "already known" - they still have to be
	// adopted when they are heavier than the tip
	if d > 1 {
		prefix := forkNodes[:d-1]
		if prefix[len(prefix)-1].L.State.SufficientlyHeavierThan(a.Tip.L.State) {
			r.Count("validated_prefix_of_failed_fork_resubmitted:heavier", 1)
		}
		parts := [][]*chainlab.Node{prefix}
		if rng.IntN(2) == 0 {
			// from genesis, as a syncing peer would send it
			parts = [][]*chainlab.Node{prefix[len(prefix)-1].PathFromGenesis()}
		}
		for _, part := range parts {
			if !step(part) {
				return
			}
		}
	}
	// resubmit the failed fork with two more blocks on top
	y := t.ExtendHeaderOnly(t.ExtendHeaderOnly(x))
	if !step(append(append([]*chainlab.Node{}, forkNodes...), y.Parent, y)) {
		return
	}
	// now a valid fork from the same fork point that wins
	v := fork
	var valid []*chainlab.Node
	for i := 0; i < L+3; i++ {
		v = t.Extend(v, prof)
		valid = append(valid, v)
	}
	if !step(valid) {
		return
	}
	treeStats(r, t)
	r.Eval()
	r.Count("reorgs_observed", a.Reorgs)
	r.Count("rollbacks_observed:"+regime, a.Rollbacks)
	if heavier {
		r.Count("invalid_fork_was_heavier", 1)
	}
	r.SetAdd("reorg_depths", fmt.Sprint(a.MaxDepth))
	r.Distinct(fmt.Sprintf("invfork/%s/d%d/L%d/k%d/%s", regime, d, L, k, bad.Corruption))
	if d == 2 && L == 4 && k == 2 {
		r.Sample(map[string]any{"kind": cs.Kind, "regime": regime, "corruption": bad.Corruption, "oracle_says": bad.Err, "calls": a.Log})
	}
}

// runValidatedScenario drives AddValidatedV2Blocks the way the syncer does.
func runValidatedScenario(r *mon.Run, stream uint64) {
	rng := r.RNG(stream)
	regime := []string{"mix", "v2only"}[rng.IntN(2)]
	p := chainlab.RandomParams(regime, rng)
	env := chainlab.NewEnv(p)
	t := chainlab.NewTree(env, rng)
	cs := chainCase{Kind: "prevalidated", Stream: stream, Params: p}
	prof := chainlab.Profile{MaxTxns: 3}
	tip := t.Root
	for tip.Height < p.Require+1 {
		tip = t.Extend(tip, prof)
	}
	node, err := chainlab.NewTestNode(env, nil)
	if err != nil {
		r.Inconclusive(err.Error())
		return
	}
	a := chainlab.NewAuditor(t, node)
	a.Deep = true
	check := func(fs []chainlab.Finding) bool {
		r.Count("calls_audited", 1)
		if len(fs) > 0 {
			reportFindings(r, cs, t, a, fs)
			return false
		}
		return true
	}
	if _, fs := a.Submit(tip.PathFromGenesis()); !check(fs) {
		return
	}
	// two competing v2 branches above the require height
	b1, b2 := tip, tip
	var p1, p2 []*chainlab.Node
	for i := 0; i < 2+rng.IntN(5); i++ {
		b1 = t.Extend(b1, prof)
		p1 = append(p1, b1)
	}
	for i := 0; i < len(p1)+1+rng.IntN(3); i++ {
		b2 = t.Extend(b2, prof)
		p2 = append(p2, b2)
	}
	// unknown parent first (must fail and change nothing)
	if len(p1) > 1 {
		if _, fs := a.SubmitValidated(p1[1:]); !check(fs) {
			return
		}
	}
	for _, part := range [][]*chainlab.Node{p1, p2[:len(p2)/2], p2[len(p2)/2:], p2} {
		if len(part) == 0 {
			continue
		}
		if _, fs := a.SubmitValidated(part); !check(fs) {
			return
		}
	}
	// wrong-length input
	if err := node.CM.AddValidatedV2Blocks(chainlab.Blocks(p2), nil); err == nil {
		r.Violation("prevalidated-length", "AddValidatedV2Blocks accepted blocks without states", cs, nil)
	}
	if fs := a.AuditChain(); !check(fs) {
		return
	}
	r.Eval()
	r.Count("prevalidated_histories", 1)
	r.Count("reorgs_observed", a.Reorgs)
	r.Distinct(fmt.Sprintf("preval/%d/%d/%d", stream, len(p1), len(p2)))
}

func runC01(r *mon.Run, replay string) {
	r.Rule("random fork trees per regime (mix / v1only / v2only) with single-field corruptions, submitted in PRNG schedules (split, reversed, duplicated, orphan-first, branch-mixing batches); plus the enumerated class 'invalid block at depth d of a heavier fork of length L forking k below the tip' for all d<=L<=6,k<=6 per regime, resubmission with two more blocks, pre-validated v2 batches (also on top of a header-checked invalid block), and leap-frogging near-tie forks on networks with a non-zero sufficiently-heavier margin; every call is audited (tip, state bytes vs pure consensus replay, index, blocks, states, element buckets and served proofs, unchanged view on failure); distinct = (scenario shape, regime, stream, reorgs, rollbacks)")
	r.Assume("go.sia.tech/core/consensus is the oracle for block validity and state")
	r.Assume("blocks with timestamps > now+3h are refused as future blocks (not a consensus rule); generated ones are either hours in the past or > now+4h")
	if st, ok := replayStream(replay); ok {
		// (VERIF_SEED, stream) determines a case completely
		switch {
		case st >= 940000:
			runHeavyShortScenario(r, st)
		case st >= 930000:
			runOakBoundaryScenario(r, st)
		case st >= 920000:
			runGhostScenario(r, st)
		case st >= 910000:
			runNearTieScenario(r, st)
		case st >= 900000:
			runValidatedScenario(r, st)
		case st >= 500000:
			for _, reg := range regimes {
				for k := 1; k <= 6; k++ {
					for L := 1; L <= 6; L++ {
						for d := 1; d <= L; d++ {
							for _, m := range []int{4, 6} {
								if k <= m && L <= m && uint64(500000+indexOfScenario(reg, d, L, k, m)) == st {
									runInvalidForkScenario(r, st, reg, d, L, k)
									return
								}
							}
						}
					}
				}
			}
		default:
			i := int(st - 1000)
			sz := 30
			if i%125 == 0 && r.Thorough() {
				sz = 200 + (i%7)*30
			}
			runTreeHistory(r, st, regimes[i%3], sz)
		}
		return
	}
	nTrees := r.Pick(600, 5000)
	size := 30
	parallel(nTrees, func(i int) {
		regime := regimes[i%3]
		sz := size
		if r.Thorough() && i%125 == 0 {
			sz = 200 + (i%7)*30 // a few big trees (audited without the full per-call view)
		}
		runTreeHistory(r, uint64(1000+i), regime, sz)
	})
	// enumerated invalid-fork scenarios
	type sc struct {
		regime  string
		d, L, k int
	}
	var scs []sc
	maxLK := r.Pick(4, 6)
	for _, reg := range regimes {
		for k := 1; k <= maxLK; k++ {
			for L := 1; L <= maxLK; L++ {
				for d := 1; d <= L; d++ {
					scs = append(scs, sc{reg, d, L, k})
				}
			}
		}
	}
	parallel(len(scs), func(i int) {
		s := scs[i]
		runInvalidForkScenario(r, uint64(500000+i), s.regime, s.d, s.L, s.k)
	})
	parallel(r.Pick(40, 600), func(i int) { runValidatedScenario(r, uint64(900000+i)) })
	parallel(r.Pick(150, 2500), func(i int) { runNearTieScenario(r, uint64(910000+i)) })
	parallel(r.Pick(80, 1200), func(i int) { runGhostScenario(r, uint64(920000+i)) })
	parallel(r.Pick(3, 16), func(i int) { runOakBoundaryScenario(r, uint64(930000+i)) })
	r.Floor("oak_boundary_histories", 2)
	parallel(r.Pick(12, 150), func(i int) { runHeavyShortScenario(r, uint64(940000+i)) })
	r.Floor("heaviest_shorter_than_longest_histories", 6)
	r.Extra("invalid_fork_scenarios_enumerated", len(scs))
	for _, reg := range regimes {
		r.Floor("rollbacks_observed:"+reg, 1)
	}
	r.Floor("reorgs_observed", 10)
	r.Floor("near_tie:submitted_heavier_within_margin", 10)
	r.Floor("validated_prefix_of_failed_fork_resubmitted:heavier", 5)
	r.Floor("near_tie:submitted_sufficiently_heavier", 10)
	r.Floor("prevalidated_on_invalid_ancestor:was_heavier", 10)
	r.Floor("calls_audited", 500)
	_ = sort.Strings
	_ = strings.Join
}

// indexOfScenario is the position of (regime,d,L,k) in the enumeration of
// runC01 for the given bound m on L and k.
func indexOfScenario(regime string, d, L, k, m int) int {
	i := 0
	for _, reg := range regimes {
		for kk := 1; kk <= m; kk++ {
			for LL := 1; LL <= m; LL++ {
				for dd := 1; dd <= LL; dd++ {
					if reg == regime && kk == k && LL == L && dd == d {
						return i
					}
					i++
				}
			}
		}
	}
	return -1
}

var zeroT = time.Time{}
