package main

import (
	"fmt"
	"sort"

	"go.sia.tech/core/types"
	"go.sia.tech/coreutils/chain"
	"go.sia.tech/coreutils/testutil"
	"go.sia.tech/coreutils/wallet"
	"verif/harness/lab/chainlab"
	"verif/harness/mon"
)

func init() { register("C06", "exploration", runC06) }

type c06Case struct {
	Stream uint64                `json:"rng_stream"`
	Params chainlab.Params       `json:"params"`
	Chunk  int                   `json:"chunk"`
	AtNode int                   `json:"at_node"`
	Nodes  []nodeDesc            `json:"nodes,omitempty"`
	Calls  []chainlab.CallRecord `json:"calls,omitempty"`
}

// a wallet under test driven by the harness through the update stream
type drivenWallet struct {
	w     *wallet.SingleAddressWallet
	store *testutil.EphemeralWalletStore
	idx   types.ChainIndex // the index the stream left the wallet at
	addr  types.Address

	passThroughReverts int
}

func newDrivenWallet(env *chainlab.Env, cm *chain.Manager) (*drivenWallet, error) {
	store := testutil.NewEphemeralWalletStore()
	w, err := wallet.NewSingleAddressWallet(env.A(chainlab.Wallet).SK, cm, store, &testutil.MockSyncer{})
	if err != nil {
		return nil, err
	}
	return &drivenWallet{w: w, store: store, addr: w.Address()}, nil
}

// step polls once with the given chunk and applies the result; returns the
// number of updates and whether the last one was a revert.
func (d *drivenWallet) step(cm *chain.Manager, chunk int) (n int, endedOnRevert bool, err error) {
	rus, aus, err := cm.UpdatesSince(d.idx, chunk)
	if err != nil {
		return 0, false, err
	}
	if len(rus)+len(aus) == 0 {
		return 0, false, nil
	}
	var perr any
	err = d.store.UpdateChainState(func(tx wallet.UpdateTx) error {
		var e error
		perr = mon.Guard(func() { e = d.w.UpdateChainState(tx, rus, aus) })
		return e
	})
	if perr != nil {
		return 0, false, fmt.Errorf("UpdateChainState panicked: %v", perr)
	}
	if err != nil {
		return 0, false, err
	}
	for _, ru := range rus {
		// a reverted block through which the wallet's address only passed
		// outputs (created and spent within the block) and kept nothing
		lasting, eph := 0, 0
		for _, sed := range ru.SiacoinElementDiffs() {
			if sed.SiacoinElement.SiacoinOutput.Address != d.addr {
				continue
			} else if sed.Created && sed.Spent {
				eph++
			} else {
				lasting++
			}
		}
		if eph > 0 && lasting == 0 {
			d.passThroughReverts++
		}
	}
	if len(aus) > 0 {
		d.idx = aus[len(aus)-1].State.Index
	} else {
		d.idx = rus[len(rus)-1].State.Index
	}
	return len(rus) + len(aus), len(aus) == 0, nil
}

type evKey struct {
	ID       types.Hash256
	Type     string
	Index    types.ChainIndex
	Maturity uint64
	In, Out  string
}

func eventKeys(evs []wallet.Event) []string {
	out := make([]string, 0, len(evs))
	for i := range evs {
		e := &evs[i]
		out = append(out, fmt.Sprintf("%v|%s|%v|m%d|in%s|out%s", e.ID, e.Type, e.Index, e.MaturityHeight, e.SiacoinInflow().ExactString(), e.SiacoinOutflow().ExactString()))
	}
	sort.Strings(out)
	return out
}

func (d *drivenWallet) allEvents() ([]wallet.Event, error) {
	n, err := d.store.WalletEventCount()
	if err != nil {
		return nil, err
	}
	return d.store.WalletEvents(0, int(n)+10)
}

// audit runs oracles U, E1, E3, B for a wallet that is at tip.
func (d *drivenWallet) audit(r *mon.Run, t *chainlab.Tree, cm *chain.Manager, tip *chainlab.Node, cs c06Case) bool {
	cs.AtNode = tip.Idx
	_, utxos, err := d.store.UnspentSiacoinElements()
	if err != nil {
		r.Inconclusive(err.Error())
		return false
	}
	want := map[types.SiacoinOutputID]types.SiacoinElement{}
	for id, e := range tip.L.SC {
		if e.SiacoinOutput.Address == d.addr {
			want[id] = e
		}
	}
	r.Count("wallet_audits", 1)
	r.Count("utxos_checked", len(utxos))
	var sum types.Currency
	seen := map[types.SiacoinOutputID]bool{}
	for _, u := range utxos {
		sum = sum.Add(u.SiacoinOutput.Value)
		w, ok := want[u.ID]
		if !ok {
			r.Violation("utxo-not-in-ledger", fmt.Sprintf("stored output %v (value %v) is not an unspent output paying the wallet on the best chain", u.ID, u.SiacoinOutput.Value), cs, nil)
			return false
		}
		if seen[u.ID] {
			r.Violation("utxo-duplicate", "an output is stored twice", cs, nil)
			return false
		}
		seen[u.ID] = true
		if u.SiacoinOutput != w.SiacoinOutput || u.MaturityHeight != w.MaturityHeight {
			r.Violation("utxo-content-differs", fmt.Sprintf("output %v: stored value/maturity %v/%d, ledger %v/%d", u.ID, u.SiacoinOutput.Value, u.MaturityHeight, w.SiacoinOutput.Value, w.MaturityHeight), cs, nil)
			return false
		}
		if !stateElemEq(u.StateElement, w.StateElement) {
			r.Violation("utxo-proof-differs", fmt.Sprintf("output %v: stored leaf index %d / proof differs from the ledger's (leaf %d): it does not verify at the tip", u.ID, u.StateElement.LeafIndex, w.StateElement.LeafIndex), cs, nil)
			return false
		}
	}
	if len(utxos) != len(want) {
		for id, w := range want {
			if !seen[id] {
				r.Violation("utxo-missing", fmt.Sprintf("unspent output %v (value %v, maturity %d) paying the wallet is not stored", id, w.SiacoinOutput.Value, w.MaturityHeight), cs, nil)
				return false
			}
		}
	}
	// proofs verify against the accumulator
	var probe types.V2Transaction
	for _, u := range utxos {
		probe.SiacoinInputs = append(probe.SiacoinInputs, types.V2SiacoinInput{Parent: u.Copy()})
	}
	if err := tip.L.State.Elements.ValidateTransactionElements(probe); err != nil {
		r.Violation("utxo-proof-invalid", "a stored proof does not verify against the tip accumulator: "+err.Error(), cs, nil)
		return false
	}
	evs, err := d.allEvents()
	if err != nil {
		r.Inconclusive(err.Error())
		return false
	}
	r.Count("events_checked", len(evs))
	var in, out types.Currency
	for i := range evs {
		e := &evs[i]
		n := t.ByID[e.Index.ID]
		if n == nil || n.Height != e.Index.Height || tip.Ancestor(n.Height) != n {
			r.Violation("event-from-reverted-block", fmt.Sprintf("event %v (%s) carries index %v which is not on the best chain", e.ID, e.Type, e.Index), cs, nil)
			return false
		}
		r.Count("event:"+e.Type, 1)
		in = in.Add(e.SiacoinInflow())
		out = out.Add(e.SiacoinOutflow())
	}
	if out.Cmp(in) > 0 || !in.Sub(out).Equals(sum) {
		cs.Nodes = describeTree(t)
		r.Violation("event-flows-differ-from-utxo-sum", fmt.Sprintf("sum of event inflows (%v) minus outflows (%v) differs from the sum of stored outputs (%v)", in, out, sum), cs, nil)
		return false
	}
	bal, err := d.w.Balance()
	if err != nil {
		r.Violation("balance-error", err.Error(), cs, nil)
		return false
	}
	if !bal.Confirmed.Add(bal.Immature).Equals(sum) {
		r.Violation("balance-differs-from-utxo-sum", fmt.Sprintf("Balance confirmed %v + immature %v != sum of outputs %v", bal.Confirmed, bal.Immature, sum), cs, nil)
		return false
	}
	return true
}

func runC06History(r *mon.Run, stream uint64) {
	rng := r.RNG(stream)
	regime := regimes[rng.IntN(3)]
	p := chainlab.RandomParams(regime, rng)
	env := chainlab.NewEnv(p)
	t := chainlab.NewTree(env, rng)
	t.Grow(30+rng.IntN(10), chainlab.Profile{MaxTxns: 5, WalletHeavy: true})
	node, err := chainlab.NewTestNode(env, nil)
	if err != nil {
		r.Inconclusive(err.Error())
		return
	}
	cm := node.CM
	a := chainlab.NewAuditor(t, node)
	chunk := []int{1, 2, 3, 5, 1000, 1 + rng.IntN(9)}[rng.IntN(6)]
	cs := c06Case{Stream: stream, Params: p, Chunk: chunk}
	d, err := newDrivenWallet(env, cm)
	if err != nil {
		r.Inconclusive(err.Error())
		return
	}
	defer d.w.Close()
	for _, batch := range t.RandomSchedule(rng) {
		_, fs := a.Submit(batch)
		if len(fs) > 0 {
			reportFindings(r, chainCase{Kind: "c06", Stream: stream, Params: p}, t, a, fs)
			return
		}
		// the wallet polls 0..3 times: it may lag, and chunks may end on a revert
		for i := 0; i < rng.IntN(4); i++ {
			_, onRevert, err := d.step(cm, chunk)
			if err != nil {
				c := cs
				c.Nodes, c.Calls = describeTree(t), a.Log
				r.Violation("wallet-update-failed", "applying the update stream to the wallet failed: "+err.Error(), c, nil)
				return
			}
			r.Count("wallet_polls", 1)
			if onRevert {
				r.Count("chunks_ending_on_revert", 1)
			}
		}
		if d.idx == a.Tip.L.State.Index {
			if !d.audit(r, t, cm, a.Tip, cs) {
				return
			}
		}
	}
	for i := 0; d.idx != a.Tip.L.State.Index; i++ {
		if i > 5000 {
			r.Violation("wallet-no-progress", "wallet did not reach the tip", cs, nil)
			return
		}
		if _, onRevert, err := d.step(cm, chunk); err != nil {
			c := cs
			c.Nodes, c.Calls = describeTree(t), a.Log
			r.Violation("wallet-update-failed", "applying the update stream to the wallet failed: "+err.Error(), c, nil)
			return
		} else if onRevert {
			r.Count("chunks_ending_on_revert", 1)
		}
	}
	if !d.audit(r, t, cm, a.Tip, cs) {
		return
	}
	// E2: a second wallet that follows the final best chain linearly, chunk 1
	lin, err := newDrivenWallet(env, cm)
	if err != nil {
		r.Inconclusive(err.Error())
		return
	}
	defer lin.w.Close()
	for lin.idx != a.Tip.L.State.Index {
		if _, _, err := lin.step(cm, 1); err != nil {
			r.Violation("wallet-update-failed:linear", err.Error(), cs, nil)
			return
		}
	}
	e1, _ := d.allEvents()
	e2, _ := lin.allEvents()
	k1, k2 := eventKeys(e1), eventKeys(e2)
	same := len(k1) == len(k2)
	for i := 0; same && i < len(k1); i++ {
		same = k1[i] == k2[i]
	}
	if !same {
		c := cs
		c.Nodes, c.Calls = describeTree(t), a.Log
		r.Violation("events-differ-from-linear-wallet", fmt.Sprintf("the wallet holds %d events, a wallet that followed the best chain linearly holds %d (or they differ)", len(k1), len(k2)), c, map[string]any{"reorged": firstDiff(k1, k2), "linear": firstDiff(k2, k1)})
		return
	}
	r.Count("linear_wallet_comparisons", 1)
	for x := a.Tip; x != nil; x = x.Parent {
		for _, k := range x.Kinds {
			if k == "v2-revised-and-renewed-in-one-block" {
				r.Count("best_chain_blocks_revising_and_renewing_one_contract", 1)
			}
		}
	}
	r.Count("reverts_of_blocks_the_address_only_passed_through", d.passThroughReverts)
	r.Eval()
	r.Count("reorgs_observed", a.Reorgs)
	if a.Reorgs > 0 {
		r.Distinct(fmt.Sprintf("c06/%s/%d/chunk%d/r%d", regime, stream, chunk, a.Reorgs))
	}
	if stream%47 == 0 {
		r.Sample(map[string]any{"stream": stream, "regime": regime, "chunk": chunk, "events": len(k1), "reorgs": a.Reorgs, "first_events": firstStr(k1, 4)})
	}
}

func firstDiff(a, b []string) []string {
	in := map[string]int{}
	for _, x := range b {
		in[x]++
	}
	var out []string
	for _, x := range a {
		if in[x] > 0 {
			in[x]--
			continue
		}
		out = append(out, x)
		if len(out) >= 4 {
			break
		}
	}
	return out
}

func firstStr(a []string, n int) []string {
	if len(a) > n {
		return a[:n]
	}
	return a
}

func runC06(r *mon.Run, replay string) {
	r.Rule("wallet-heavy generated histories (the wallet address is miner, payee, spender, v1/v2 contract party, siafund owner/claimant and Foundation address) driven through reorgs; a SingleAddressWallet over the in-repo reference store is fed the update stream in chunks (1,2,3,5,1000,PRNG; polling 0-3 times per submission so it lags and chunks end on reverts), the harness tracking the index the stream left it at; whenever it is at the tip: stored outputs == pure ledger's outputs paying the address (value, maturity, leaf index, proof verifying at the tip), no event from a reverted block, sum(inflow)-sum(outflow) == sum(outputs), Balance confirmed+immature == sum(outputs); at the end its event multiset must equal that of a wallet that followed the best chain linearly; distinct = (regime, stream, chunk, reorgs)")
	r.Assume("only the in-repo reference store (testutil.EphemeralWalletStore) is exercised")
	if st, ok := replayStream(replay); ok {
		runC06History(r, st)
		return
	}
	parallel(r.Pick(300, 5000), func(i int) { runC06History(r, uint64(60000+i)) })
	r.Floor("wallet_audits", 1000)
	r.Floor("chunks_ending_on_revert", 50)
	r.Floor("reverts_of_blocks_the_address_only_passed_through", 15)
	r.Floor("best_chain_blocks_revising_and_renewing_one_contract", 15)
	r.Floor("linear_wallet_comparisons", 100)
	for _, k := range []string{wallet.EventTypeMinerPayout, wallet.EventTypeV1Transaction, wallet.EventTypeV2Transaction, wallet.EventTypeV1ContractResolution, wallet.EventTypeV2ContractResolution, wallet.EventTypeSiafundClaim, wallet.EventTypeFoundationSubsidy} {
		r.Floor("event:"+k, 10)
	}
}
