package main

import (
	"fmt"

	"go.sia.tech/core/types"
	"go.sia.tech/coreutils/chain"
	"verif/harness/lab/chainlab"
	"verif/harness/mon"
)

// runC03Stop: the process stops right before a commit (the k-th Flush panics
// before anything reaches the backend), the database keeps living in the same
// memory (MemDB, or CacheDB over MemDB) and only loses its pending writes
// (Cancel). What it then serves must be byte for byte what was committed
// before - committed data must never change without a commit - and the store
// reopened on that same database must be consistent at the tip of the last
// commit and catch up.
func runC03Stop(r *mon.Run, stream uint64) {
	rng := r.RNG(stream)
	regime := regimes[rng.IntN(3)]
	p := chainlab.RandomParams(regime, rng)
	env := chainlab.NewEnv(p)
	t := chainlab.NewTree(env, rng)
	prof := chainlab.Profile{MaxTxns: 4}
	if rng.IntN(2) == 0 {
		// shared window ends: expiration lists with several entries
		prof.FarSharedEnds, prof.V1ContractHeavy = true, true
	}
	t.Grow(24+rng.IntN(10), prof)
	sched := t.RandomSchedule(rng)
	useCache := rng.IntN(3) == 0
	policy := []string{"every-block", "prng-half", "natural-only"}[rng.IntN(3)]
	// first pass: count the commits of the uninterrupted run
	open := func() (*chainlab.TestNode, *chainlab.RecordingStore, *chainlab.ShadowDB, chain.DB, error) {
		sh := chainlab.NewShadowDB(chain.NewMemDB())
		var backend chain.DB = sh
		if useCache {
			backend = chain.NewCacheDB(sh)
		}
		node, rec, err := chainlab.NewTestNodeRec(env, backend)
		return node, rec, sh, backend, err
	}
	setPolicy := func(node *chainlab.TestNode, prng func() bool) {
		switch policy {
		case "every-block":
			chain.VerifSetFlushPolicy(node.Store, func() bool { return true })
		case "prng-half":
			chain.VerifSetFlushPolicy(node.Store, prng)
		}
	}
	cs := c03Case{Stream: stream, Params: p, Policy: policy + "+stop-before-commit"}
	if useCache {
		cs.Policy += "+cachedb"
	}
	// the PRNG flush policy must repeat identically in every pass
	coin := func(seed uint64) func() bool {
		x := r.RNG(stream ^ 0x5eed<<20 ^ seed)
		return func() bool { return x.IntN(2) == 0 }
	}
	node, _, sh, _, err := open()
	if err != nil {
		r.Inconclusive(err.Error())
		return
	}
	setPolicy(node, coin(0))
	a := chainlab.NewAuditor(t, node)
	for _, batch := range sched {
		if _, fs := a.Submit(batch); len(fs) > 0 {
			reportFindings(r, chainCase{Kind: "c03-stop", Stream: stream, Params: p}, t, a, fs)
			chain.VerifSetFlushPolicy(node.Store, nil)
			return
		}
	}
	chain.VerifSetFlushPolicy(node.Store, nil)
	total := sh.Flushes
	if total < 3 {
		return
	}
	nStops := 5
	for i := 0; i < nStops; i++ {
		k := 2 + rng.IntN(total-1)
		node, rec, sh, backend, err := open()
		if err != nil {
			r.Inconclusive(err.Error())
			return
		}
		setPolicy(node, coin(0))
		lastTip := rec.Cur
		sh.OnFlush = func(map[string]map[string]string) { lastTip = rec.Cur }
		sh.StopAtFlush = k
		stopped := false
		submitted := map[types.BlockID]bool{}
		for _, batch := range sched {
			for _, n := range batch {
				submitted[n.ID] = true
			}
			pn := mon.Guard(func() { node.CM.AddBlocks(chainlab.Blocks(batch)) })
			if pn == chainlab.ErrInjectedStop {
				stopped = true
				break
			} else if pn != nil {
				r.Violation("panic:AddBlocks", fmt.Sprint("AddBlocks panicked: ", pn), cs, nil)
				chain.VerifSetFlushPolicy(node.Store, nil)
				return
			}
		}
		chain.VerifSetFlushPolicy(node.Store, nil)
		if !stopped {
			continue
		}
		sh.StopAtFlush = 0
		c := cs
		c.Snapshot, c.Tip = k, lastTip.String()
		r.Eval()
		r.Count("stops_before_commit", 1)
		// the wrapper's own pending writes go first, then the backend's
		if useCache {
			backend.Cancel()
		}
		if d := sh.DiffDurable(); d != "" {
			c.Nodes = describeTree(t)
			r.Violation("committed-data-changed-without-commit", "after a stop before commit "+fmt.Sprint(k)+" the database no longer serves what was committed: "+d, c, nil)
			return
		}
		// reopen on the very same database
		var rdb chain.DB = sh
		if useCache {
			outer := chainlab.NewShadowDB(chain.NewCacheDB(sh))
			outer.Model.Durable = chainlab.CloneImage(sh.Model.Durable)
			outer.Model.Live = chainlab.CloneImage(sh.Model.Durable)
			rdb = outer
		}
		re, err := chainlab.NewTestNode(env, rdb)
		if err != nil {
			r.Violation("reopen-failed:same-database", "the database does not reopen after a stop before a commit: "+err.Error(), c, nil)
			return
		}
		tipNode := t.ByID[re.CM.Tip().ID]
		if re.CM.Tip() != lastTip || tipNode == nil || !tipNode.ChainValid {
			r.Violation("reopened-tip-not-last-committed-tip", fmt.Sprintf("reopened at %v, the last commit was made at %v", re.CM.Tip(), lastTip), c, nil)
			return
		}
		ra := chainlab.NewAuditor(t, re)
		ra.Deep = true
		ra.Tip = tipNode
		for id := range submitted {
			ra.Submitted[id] = true
		}
		fs := ra.AuditChain()
		fs = append(fs, ra.AuditElements()...)
		if len(fs) == 0 && i%2 == 0 {
			for _, batch := range sched {
				if _, f2 := ra.Submit(batch); len(f2) > 0 {
					for j := range f2 {
						f2[j].Sig = "catchup:" + f2[j].Sig
					}
					fs = f2
					break
				}
			}
			r.Count("stop_catchup_runs", 1)
		}
		if len(fs) > 0 {
			c.Nodes = describeTree(t)
			for _, f := range fs {
				r.Violation("stop-reopen:"+f.Sig, "after a stop before a commit and reopening the same database: "+f.What, c, f.Detail)
			}
			return
		}
		r.Distinct(fmt.Sprintf("c03stop/%d/%d", stream, k))
	}
}
