package main

import (
	"bufio"
	"fmt"
	"os"
	"os/exec"
	"path/filepath"
	"strconv"
	"strings"
	"syscall"
	"time"

	"go.etcd.io/bbolt"
	"go.sia.tech/core/types"
	"go.sia.tech/coreutils"
	"go.sia.tech/coreutils/chain"
	"verif/harness/lab/chainlab"
	"verif/harness/mon"
	"verif/harness/vcli"
)

func init() { vcli.RegisterCommand("c03child", c03Child) }

// c03World rebuilds the deterministic tree and schedule of a kill run.
func c03World(seed int64, stream uint64) (*chainlab.Env, *chainlab.Tree, [][]*chainlab.Node, chainlab.Params) {
	os.Setenv("VERIF_SEED", strconv.FormatInt(seed, 10))
	r := mon.Start("C03", "thorough", "fault_enumeration")
	rng := r.RNG(stream)
	regime := regimes[rng.IntN(3)]
	p := chainlab.RandomParams(regime, rng)
	env := chainlab.NewEnv(p)
	t := chainlab.NewTree(env, rng)
	t.Grow(30+rng.IntN(10), chainlab.Profile{MaxTxns: 4})
	return env, t, t.RandomSchedule(rng), p
}

// c03Child runs the schedule on a Bolt file until it is killed:
// vcheck c03child <dbpath> <trajectory-log> <seed> <stream>
func c03Child(args []string) int {
	if len(args) < 4 {
		return 2
	}
	seed, _ := strconv.ParseInt(args[2], 10, 64)
	stream, _ := strconv.ParseUint(args[3], 10, 64)
	env, t, sched, _ := c03World(seed, stream)
	_ = t
	bdb, err := coreutils.OpenBoltChainDB(args[0])
	if err != nil {
		fmt.Println("open:", err)
		return 3
	}
	logf, err := os.OpenFile(args[1], os.O_CREATE|os.O_WRONLY|os.O_APPEND, 0o644)
	if err != nil {
		return 3
	}
	store, tip, err := chain.NewDBStore(bdb, env.Net, env.Genesis, nil)
	if err != nil {
		fmt.Println("store:", err)
		return 3
	}
	rec := &trajStore{RecordingStore: chainlab.RecordingStore{Inner: store, Cur: tip.Index}, log: logf}
	fmt.Fprintf(logf, "%s\n", tip.Index.ID)
	k := 0
	chain.VerifSetFlushPolicy(store, func() bool { k++; return k%2 == 0 })
	cm := chain.NewManager(rec, tip)
	fmt.Println("READY")
	for round := 0; round < 3; round++ {
		for _, batch := range sched {
			cm.AddBlocks(chainlab.Blocks(batch))
		}
	}
	bdb.Close()
	fmt.Println("DONE")
	return 0
}

// trajStore logs every index the store moves to BEFORE the store commits it.
type trajStore struct {
	chainlab.RecordingStore
	log *os.File
}

func (s *trajStore) ApplyBlock(cs consensusState, cau consensusApply) {
	fmt.Fprintf(s.log, "%s\n", cs.Index.ID)
	s.RecordingStore.ApplyBlock(cs, cau)
}
func (s *trajStore) RevertBlock(cs consensusState, cru consensusRevert) {
	fmt.Fprintf(s.log, "%s\n", cs.Index.ID)
	s.RecordingStore.RevertBlock(cs, cru)
}

// runC03Kill: a child process runs a schedule on a BoltChainDB file and is
// SIGKILLed at a PRNG-chosen delay; the parent reopens the file and audits it.
func runC03Kill(r *mon.Run, stream uint64) {
	rng := r.RNG(stream ^ 0xfeed)
	dir := "/dev/shm"
	if st, err := os.Stat(dir); err != nil || !st.IsDir() {
		dir = os.TempDir()
	}
	dir = filepath.Join(dir, fmt.Sprintf("verif-c03kill-%d-%d", os.Getpid(), stream))
	os.MkdirAll(dir, 0o755)
	defer os.RemoveAll(dir)
	dbPath, logPath := filepath.Join(dir, "chain.db"), filepath.Join(dir, "traj.log")
	self, err := os.Executable()
	if err != nil {
		r.Inconclusive(err.Error())
		return
	}
	cmd := exec.Command(self, "c03child", dbPath, logPath, strconv.FormatInt(r.Seed, 10), strconv.FormatUint(stream, 10))
	cmd.Env = append(os.Environ(), "GORACE=halt_on_error=0")
	out, _ := cmd.StdoutPipe()
	if err := cmd.Start(); err != nil {
		r.Inconclusive(err.Error())
		return
	}
	// wait for READY, then kill after a PRNG delay (the oracle does not depend on when)
	ready := make(chan bool, 1)
	done := make(chan bool, 1)
	go func() {
		sc := bufio.NewScanner(out)
		for sc.Scan() {
			switch strings.TrimSpace(sc.Text()) {
			case "READY":
				ready <- true
			case "DONE":
				done <- true
			}
		}
	}()
	select {
	case <-ready:
	case <-time.After(60 * time.Second):
		cmd.Process.Kill()
		cmd.Wait()
		r.Count("kill_runs_child_not_ready", 1)
		return
	}
	delay := time.Duration(rng.IntN(400)) * time.Millisecond
	finished := false
	select {
	case <-done:
		finished = true
	case <-time.After(delay):
	}
	cmd.Process.Signal(syscall.SIGKILL)
	cmd.Wait()
	if finished {
		r.Count("kill_runs_child_finished_first", 1)
	} else {
		r.Count("kill_runs_killed_mid_run", 1)
	}
	env, t, sched, p := c03World(r.Seed, stream)
	cs := c03Case{Stream: stream, Params: p, Policy: fmt.Sprintf("bolt-sigkill after %v", delay)}
	traj := map[types.BlockID]bool{}
	if buf, err := os.ReadFile(logPath); err == nil {
		for _, l := range strings.Fields(string(buf)) {
			var id types.BlockID
			if id.UnmarshalText([]byte(l)) == nil {
				traj[id] = true
			}
		}
	}
	bb, err := bbolt.Open(dbPath, 0o600, &bbolt.Options{Timeout: 5 * time.Second})
	if err != nil {
		r.Violation("kill:bolt-open", "bolt file does not open after SIGKILL: "+err.Error(), cs, nil)
		return
	}
	bdb := coreutils.NewBoltChainDB(bb)
	defer bdb.Close()
	sh := chainlab.NewShadowDB(bdb)
	sh.PrimeShadow(chainlab.StoreBuckets)
	re, err := chainlab.NewTestNode(env, sh)
	if err != nil {
		r.Violation("kill:reopen-failed", "store does not reopen after SIGKILL: "+err.Error(), cs, nil)
		return
	}
	if len(sh.Model.Live["Version"]) == 0 {
		// killed before the very first commit: NewDBStore initialised a fresh store
		sh.PrimeShadow(chainlab.StoreBuckets)
	}
	tipNode := t.ByID[re.CM.Tip().ID]
	cs.Tip = re.CM.Tip().String()
	if tipNode == nil || !tipNode.ChainValid {
		r.Violation("kill:reopened-on-unknown-or-invalid-tip", "after SIGKILL the store reopens on a tip that is not a valid generated block", cs, nil)
		return
	}
	if !traj[tipNode.ID] {
		r.Violation("kill:reopened-tip-never-held", "after SIGKILL the store reopens on a tip the node never had", cs, nil)
		return
	}
	ra := chainlab.NewAuditor(t, re)
	ra.Deep = true
	ra.Tip = tipNode
	for _, n := range t.Nodes {
		ra.Submitted[n.ID] = true
	}
	fs := ra.AuditChain()
	fs = append(fs, ra.AuditElements()...)
	for _, batch := range sched {
		if len(fs) > 0 {
			break
		}
		_, f2 := ra.Submit(batch)
		fs = append(fs, f2...)
	}
	if len(fs) > 0 {
		cs.Nodes = describeTree(t)
		for _, f := range fs {
			r.Violation("kill:"+f.Sig, "after SIGKILL and reopen: "+f.What, cs, f.Detail)
		}
		return
	}
	r.Count("kill_runs_audited", 1)
	r.SetAdd("kill_recovered_heights", fmt.Sprint(tipNode.Height))
	r.Distinct(fmt.Sprintf("kill/%d/%d", stream, tipNode.Idx))
	r.Eval()
}
