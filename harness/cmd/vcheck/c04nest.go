package main

import (
	"math/rand/v2"
	"runtime"
	"strings"

	"fmt"
	"go.sia.tech/core/consensus"
	"sort"
	"sync"
	"time"

	"go.sia.tech/core/types"
	"verif/harness/lab/chainlab"
	"verif/harness/mon"
)

type c04NestCase struct {
	Stream   uint64              `json:"rng_stream"`
	Params   chainlab.Params     `json:"params"`
	Mode     string              `json:"mode"`
	Blocks   int                 `json:"blocks"`
	Received map[string][]string `json:"notifications_received"`
}

// runC04Nested: tip changes that happen WHILE a notification round is in
// progress. (a) a listener submits the next block from inside its callback
// (a relaying component does exactly that); (b) a listener is still busy with
// one notification while another goroutine's submission moves the tip again.
// Every listener has to be told about every tip change exactly once, with the
// tip it changed to.
func runC04Nested(r *mon.Run, stream uint64) {
	rng := r.RNG(stream)
	regime := regimes[rng.IntN(3)]
	p := chainlab.RandomParams(regime, rng)
	env := chainlab.NewEnv(p)
	t := chainlab.NewTree(env, rng)
	n := 3 + rng.IntN(5)
	var chain []*chainlab.Node
	tip := t.Root
	for i := 0; i < n; i++ {
		tip = t.Extend(tip, chainlab.Profile{MaxTxns: 2})
		chain = append(chain, tip)
	}
	if !tip.ChainValid {
		return
	}
	node, err := chainlab.NewTestNode(env, nil)
	if err != nil {
		r.Inconclusive(err.Error())
		return
	}
	cm := node.CM
	mode := []string{"listener-submits-next-block", "second-submitter-during-slow-listener", "listener-calls-back-into-the-manager"}[rng.IntN(3)]
	if mode == "listener-calls-back-into-the-manager" {
		runC04Callback(r, stream, rng)
		return
	}
	cs := c04NestCase{Stream: stream, Params: p, Mode: mode, Blocks: n, Received: map[string][]string{}}
	byHeight := map[uint64]*chainlab.Node{}
	want := map[types.ChainIndex]bool{}
	for _, nd := range chain {
		byHeight[nd.Height] = nd
		want[nd.L.State.Index] = true
	}
	var mu sync.Mutex
	got := map[string][]types.ChainIndex{}
	rec := func(name string, ci types.ChainIndex) {
		mu.Lock()
		got[name] = append(got[name], ci)
		mu.Unlock()
	}
	nPlain := 1 + rng.IntN(3)
	var cancels []func()
	plains := 0
	addPlain := func(k int) {
		for i := 0; i < k; i++ {
			name := fmt.Sprintf("plain-%d", plains)
			plains++
			cancels = append(cancels, cm.OnReorg(func(ci types.ChainIndex) { rec(name, ci) }))
		}
	}
	// plain listeners are registered partly before and partly after the special
	// one (the order in which listeners are called is up to the manager)
	before := rng.IntN(nPlain + 1)
	addPlain(before)
	var panicked any
	switch mode {
	case "listener-submits-next-block":
		cancels = append(cancels, cm.OnReorg(func(ci types.ChainIndex) {
			rec("relay", ci)
			if next := byHeight[ci.Height+1]; next != nil {
				if pn := mon.Guard(func() { cm.AddBlocks(chainlab.Blocks([]*chainlab.Node{next})) }); pn != nil {
					mu.Lock()
					panicked = pn
					mu.Unlock()
				}
			}
		}))
		addPlain(nPlain - before)
		doneCh := make(chan error, 1)
		go func() { doneCh <- cm.AddBlocks(chainlab.Blocks(chain[:1])) }()
		select {
		case err := <-doneCh:
			if err != nil {
				r.Violation("nested-submission-failed", "AddBlocks failed: "+err.Error(), cs, nil)
				return
			}
		case <-time.After(60 * time.Second):
			r.Undecided("C04 nested: a submission from inside a reorg listener did not return within 60s (deadlock or starved machine)")
			return
		}
	default:
		gate := make(chan struct{})
		inCallback := make(chan struct{}, 1)
		first := true
		cancels = append(cancels, cm.OnReorg(func(ci types.ChainIndex) {
			rec("slow", ci)
			mu.Lock()
			block := first
			first = false
			mu.Unlock()
			if block {
				inCallback <- struct{}{}
				select {
				case <-gate:
				case <-time.After(60 * time.Second):
				}
			}
		}))
		addPlain(nPlain - before)
		doneCh := make(chan error, 1)
		go func() { doneCh <- cm.AddBlocks(chainlab.Blocks(chain[:1])) }()
		select {
		case <-inCallback:
		case <-time.After(60 * time.Second):
			r.Undecided("C04 nested: the slow listener was not called within 60s")
			return
		}
		// the slow listener is inside its callback for block 1: the rest of the
		// chain arrives from this goroutine, one block per call
		second := make(chan error, 1)
		go func() {
			var err error
			for _, nd := range chain[1:] {
				if e := cm.AddBlocks(chainlab.Blocks([]*chainlab.Node{nd})); e != nil {
					err = e
				}
			}
			second <- err
		}()
		select {
		case err := <-second:
			close(gate)
			if err != nil {
				r.Violation("nested-submission-failed", "AddBlocks failed while a listener was busy: "+err.Error(), cs, nil)
				return
			}
		case <-time.After(60 * time.Second):
			close(gate)
			r.Undecided("C04 nested: a submission did not return within 60s while a listener was busy (listeners called under the lock, or starved machine)")
			return
		}
		select {
		case <-doneCh:
		case <-time.After(60 * time.Second):
			r.Undecided("C04 nested: the first submission did not return within 60s")
			return
		}
	}
	for _, c := range cancels {
		c()
	}
	mu.Lock()
	defer mu.Unlock()
	if panicked != nil {
		r.Violation("nested-submission-panic", fmt.Sprint("AddBlocks panicked when called from a reorg listener: ", panicked), cs, nil)
		return
	}
	if cm.Tip() != tip.L.State.Index {
		r.Violation("nested-submission-tip", fmt.Sprintf("tip is %v, want %v", cm.Tip(), tip.L.State.Index), cs, nil)
		return
	}
	for name, calls := range got {
		var ss []string
		for _, ci := range calls {
			ss = append(ss, ci.String())
		}
		cs.Received[name] = ss
	}
	names := make([]string, 0, len(cancels))
	for i := 0; i < nPlain; i++ {
		names = append(names, fmt.Sprintf("plain-%d", i))
	}
	if mode == "listener-submits-next-block" {
		names = append(names, "relay")
	} else {
		names = append(names, "slow")
	}
	sort.Strings(names)
	for _, name := range names {
		calls := got[name]
		seen := map[types.ChainIndex]int{}
		for _, ci := range calls {
			seen[ci]++
		}
		for ci := range want {
			if seen[ci] != 1 {
				r.Violation("reorg-notification-count:during-notification", fmt.Sprintf("mode %s: the tip changed %d times (one block each) but listener %s was told about %v %d times (it received %d notifications in all)", mode, n, name, ci, seen[ci], len(calls)), cs, nil)
				return
			}
		}
		if len(calls) != n {
			r.Violation("reorg-notification-spurious:during-notification", fmt.Sprintf("mode %s: %d tip changes but listener %s received %d notifications", mode, n, name, len(calls)), cs, nil)
			return
		}
	}
	r.Count("tip_changes_during_a_notification_round:"+mode, n-1)
	r.Eval()
	r.Distinct(fmt.Sprintf("c04nest/%s/%d/%d/%d", mode, stream, n, nPlain))
}

// runC04Callback: a listener that calls back into the manager from its
// callback (Tip, UpdatesSince, its own poll loop - what a synchronous
// subscriber does). Tips are moved through AddBlocks and, above the require
// height, through AddValidatedV2Blocks. The submission has to return and the
// listener has to see every tip. If it does not return, the goroutine dump
// decides: a goroutine that is inside the submission call, inside the listener
// AND waiting for a mutex inside a Manager method has locked itself out (the
// listener was called with the manager's lock held) - that is a violation;
// anything else is left undecided.
func runC04Callback(r *mon.Run, stream uint64, rng *rand.Rand) {
	p := chainlab.RandomParams("v2only", rng)
	env := chainlab.NewEnv(p)
	t := chainlab.NewTree(env, rng)
	n := 3 + rng.IntN(5)
	var chain []*chainlab.Node
	tip := t.Root
	for i := 0; i < n; i++ {
		tip = t.Extend(tip, chainlab.Profile{MaxTxns: 2})
		chain = append(chain, tip)
	}
	if !tip.ChainValid {
		return
	}
	node, err := chainlab.NewTestNode(env, nil)
	if err != nil {
		r.Inconclusive(err.Error())
		return
	}
	cm := node.CM
	validated := rng.IntN(2) == 0
	mode := "listener-calls-back-into-the-manager:AddBlocks"
	if validated {
		mode = "listener-calls-back-into-the-manager:AddValidatedV2Blocks"
	}
	cs := c04NestCase{Stream: stream, Params: p, Mode: mode, Blocks: n, Received: map[string][]string{}}
	var mu sync.Mutex
	var got []types.ChainIndex
	var pollErr error
	f := chainlab.NewFollower()
	cancel := cm.OnReorg(func(ci types.ChainIndex) {
		tipNow := cm.Tip()
		rus, aus, err := cm.UpdatesSince(f.Index, 1000)
		mu.Lock()
		defer mu.Unlock()
		got = append(got, ci)
		if err != nil {
			pollErr = err
			return
		}
		if e := f.Fold(rus, aus); e != nil {
			pollErr = e
		} else if f.Index != tipNow && f.Index != ci {
			pollErr = fmt.Errorf("polled to %v, tip was %v", f.Index, tipNow)
		}
	})
	defer cancel()
	done := make(chan error, 1)
	go func() {
		var err error
		for _, nd := range chain {
			one := []*chainlab.Node{nd}
			if validated {
				err = cm.AddValidatedV2Blocks(chainlab.Blocks(one), []consensus.State{nd.L.State})
			} else {
				err = cm.AddBlocks(chainlab.Blocks(one))
			}
			if err != nil {
				break
			}
		}
		done <- err
	}()
	select {
	case err := <-done:
		if err != nil {
			r.Violation("nested-submission-failed", mode+": submission failed: "+err.Error(), cs, nil)
			return
		}
	case <-time.After(20 * time.Second):
		buf := make([]byte, 4<<20)
		buf = buf[:runtime.Stack(buf, true)]
		for _, g := range strings.Split(string(buf), "\n\n") {
			inSubmit := strings.Contains(g, "chain.(*Manager).AddValidatedV2Blocks") || strings.Contains(g, "chain.(*Manager).AddBlocks")
			inListener := strings.Contains(g, "main.runC04Callback.func")
			waiting := strings.Contains(g, "sync.(*Mutex).Lock") || strings.Contains(g, "sync.(*RWMutex).Lock") || strings.Contains(g, "sync.(*RWMutex).RLock")
			if inSubmit && inListener && waiting {
				r.Violation("listener-called-under-the-manager-lock", mode+": the submission does not return: its goroutine is inside the reorg listener and waits for a mutex in a Manager method the listener called (Tip / UpdatesSince) - the listener was invoked with the manager's lock held", cs, firstLines(g, 24))
				return
			}
		}
		r.Undecided("C04 callback: a submission whose listener polls the manager did not return within 20s, and no self-deadlocked goroutine was found")
		return
	}
	mu.Lock()
	defer mu.Unlock()
	if pollErr != nil {
		r.Violation("poll-from-listener-failed", mode+": polling from the reorg listener failed: "+pollErr.Error(), cs, nil)
		return
	}
	if len(got) != n || got[len(got)-1] != tip.L.State.Index || f.Index != tip.L.State.Index {
		r.Violation("reorg-notification-count:polling-listener", fmt.Sprintf("%s: %d tip changes, the listener received %d notifications and polled to %v (tip %v)", mode, n, len(got), f.Index, tip.L.State.Index), cs, nil)
		return
	}
	r.Count("tip_changes_polled_from_inside_the_listener:"+map[bool]string{true: "AddValidatedV2Blocks", false: "AddBlocks"}[validated], n)
	r.Eval()
	r.Distinct(fmt.Sprintf("c04cb/%s/%d/%d", mode, stream, n))
}

func firstLines(s string, n int) string {
	ls := strings.Split(s, "\n")
	if len(ls) > n {
		ls = ls[:n]
	}
	return strings.Join(ls, "\n")
}
