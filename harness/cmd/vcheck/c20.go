package main

import (
	"bytes"
	"crypto/ed25519"
	"crypto/sha256"
	"encoding/hex"
	"fmt"
	"math/big"
	"runtime"
	"sort"
	"strings"
	"sync"
	"sync/atomic"

	"go.sia.tech/core/types"
	"go.sia.tech/coreutils/wallet"
	"golang.org/x/crypto/blake2b"
	"verif/harness/mon"
)

func init() { register("C20", "exploration", runC20) }

// refEncode is an independent BIP-39 encoder for 128-bit entropy written from
// the specification text: entropy || first 4 bits of SHA-256(entropy), cut into
// twelve 11-bit big-endian groups.
func refEncode(words []string, ent [16]byte) []string {
	h := sha256.Sum256(ent[:])
	n := new(big.Int).SetBytes(ent[:])
	n.Lsh(n, 4)
	n.Or(n, big.NewInt(int64(h[0]>>4)))
	out := make([]string, 12)
	mask := big.NewInt(0x7FF)
	for i := 11; i >= 0; i-- {
		idx := new(big.Int).And(n, mask).Int64()
		out[i] = words[idx]
		n.Rsh(n, 11)
	}
	return out
}

// refDecode returns the entropy and whether the checksum holds.
func refDecode(index map[string]int, ws []string) (ent [16]byte, ok bool) {
	if len(ws) != 12 {
		return ent, false
	}
	n := new(big.Int)
	for _, w := range ws {
		i, found := index[w]
		if !found {
			return ent, false
		}
		n.Lsh(n, 11)
		n.Or(n, big.NewInt(int64(i)))
	}
	cs := new(big.Int).And(n, big.NewInt(0xF)).Int64()
	n.Rsh(n, 4)
	b := n.Bytes()
	copy(ent[16-len(b):], b)
	h := sha256.Sum256(ent[:])
	return ent, int64(h[0]>>4) == cs
}

func refKey(seed [32]byte, index uint64) ed25519.PrivateKey {
	buf := make([]byte, 40)
	copy(buf, seed[:])
	for i := 0; i < 8; i++ {
		buf[32+i] = byte(index >> (8 * i))
	}
	h := blake2b.Sum256(buf)
	return ed25519.NewKeyFromSeed(h[:])
}

type c20Case struct {
	Kind    string `json:"kind"`
	Entropy string `json:"entropy,omitempty"`
	Phrase  string `json:"phrase,omitempty"`
	Index   uint64 `json:"index,omitempty"`
}

var firstUseDone bool

func runC20(r *mon.Run, replay string) {
	r.Rule("random 128-bit entropies (PCG from VERIF_SEED) plus structural enumerations: all 2048 last words for fixed 11-word prefixes, every position x all 2048 words around base phrases, single-bit and complement patterns, whitespace/malformed variants, key indices; a case is non-trivial/distinct by its (kind, entropy-or-phrase) signature, and the oracle is an independent big-integer BIP-39 reference anchored on the four published 128-bit vectors")
	r.Assume("crypto/sha256, x/crypto/blake2b and crypto/ed25519 are correct")
	words := wallet.VerifWordList()
	index := make(map[string]int, len(words))
	for i, w := range words {
		index[w] = i
	}
	// word-list sanity, anchored on the specification's structural properties
	if len(words) != 2048 || len(index) != 2048 || !sort.StringsAreSorted(words) {
		r.Violation("wordlist", "word list is not 2048 distinct sorted words", nil, map[string]any{"len": len(words), "distinct": len(index)})
		return
	}
	pref := map[string]bool{}
	for _, w := range words {
		p := w
		if len(p) > 4 {
			p = p[:4]
		}
		if pref[p] || w != strings.ToLower(w) || strings.ContainsAny(w, " \t\n") {
			r.Violation("wordlist", "word list violates BIP-39 structure (unique 4-letter prefixes, lower case)", nil, w)
		}
		pref[p] = true
	}
	vectors := []struct{ ent, phrase string }{
		{"00000000000000000000000000000000", "abandon abandon abandon abandon abandon abandon abandon abandon abandon abandon abandon about"},
		{"7f7f7f7f7f7f7f7f7f7f7f7f7f7f7f7f", "legal winner thank year wave sausage worth useful legal winner thank yellow"},
		{"80808080808080808080808080808080", "letter advice cage absurd amount doctor acoustic avoid letter advice cage above"},
		{"ffffffffffffffffffffffffffffffff", "zoo zoo zoo zoo zoo zoo zoo zoo zoo zoo zoo wrong"},
	}

	decode := func(phrase string) (seed [32]byte, err error, pan any) {
		pan = mon.Guard(func() { err = wallet.SeedFromPhrase(&seed, phrase) })
		return
	}
	seedOf := func(ent [16]byte) [32]byte { return blake2b.Sum256(ent[:]) }

	// the very first use of the phrase functions in this process comes from
	// several goroutines at once (anything built lazily is built under
	// contention); every call has to decode its vector
	if !firstUseDone {
		firstUseDone = true
		var wg sync.WaitGroup
		start := make(chan struct{})
		type res struct {
			i    int
			seed [32]byte
			err  error
			pan  any
		}
		out := make(chan res, 16)
		for g := 0; g < 16; g++ {
			wg.Add(1)
			go func(g int) {
				defer wg.Done()
				<-start
				if g%2 == 1 {
					runtime.Gosched()
				}
				var rs res
				rs.i = g % len(vectors)
				rs.seed, rs.err, rs.pan = decode(vectors[rs.i].phrase)
				out <- rs
			}(g)
		}
		close(start)
		wg.Wait()
		close(out)
		for rs := range out {
			r.Eval()
			var ent [16]byte
			hex.Decode(ent[:], []byte(vectors[rs.i].ent))
			if rs.pan != nil || rs.err != nil || rs.seed != seedOf(ent) {
				r.Violation("first-use-concurrent", fmt.Sprintf("one of 16 concurrent first calls of SeedFromPhrase in a fresh process did not decode a published test vector: panic %v, error %v", rs.pan, rs.err), c20Case{Kind: "first-use", Phrase: vectors[rs.i].phrase}, nil)
			}
			r.Count("concurrent_first_use_decodes", 1)
		}
	}

	checkEntropy := func(kind string, ent [16]byte) {
		r.Eval()
		cs := c20Case{Kind: kind, Entropy: hex.EncodeToString(ent[:])}
		r.Distinct(kind + ":" + cs.Entropy)
		entCopy := ent
		var got string
		if p := mon.Guard(func() { got = wallet.VerifEncodePhrase(&entCopy) }); p != nil {
			r.Violation("encode-panic", "encoder panicked", cs, fmt.Sprint(p))
			return
		}
		want := strings.Join(refEncode(words, ent), " ")
		cs.Phrase = got
		if got != want {
			r.Violation("encode-mismatch", "encoded phrase differs from BIP-39 reference", cs, map[string]string{"want": want})
			return
		}
		seed, err, pan := decode(got)
		if pan != nil || err != nil {
			r.Violation("roundtrip-error", "own phrase does not decode", cs, fmt.Sprint(err, pan))
			return
		}
		if seed != seedOf(ent) {
			r.Violation("roundtrip-mismatch", "decode(encode(e)) does not give blake2b(e)", cs, hex.EncodeToString(seed[:]))
		}
		r.Sample(cs)
	}

	for _, v := range vectors {
		var ent [16]byte
		b, _ := hex.DecodeString(v.ent)
		copy(ent[:], b)
		if got := wallet.VerifEncodePhrase(&ent); got != v.phrase {
			r.Violation("vector", "published BIP-39 vector not reproduced", c20Case{Kind: "vector", Entropy: v.ent, Phrase: got}, v.phrase)
		}
		if strings.Join(refEncode(words, ent), " ") != v.phrase {
			r.Inconclusive("harness reference encoder disagrees with a published BIP-39 vector")
			return
		}
		checkEntropy("vector", ent)
		r.Count("published_vectors", 1)
	}

	// single-bit, complement-of-single-bit, byte patterns
	for bit := 0; bit < 128; bit++ {
		var e, c [16]byte
		e[bit/8] = 1 << (7 - bit%8)
		for i := range c {
			c[i] = ^e[i]
		}
		checkEntropy("onebit", e)
		checkEntropy("onebit-compl", c)
		r.Count("bit_patterns", 2)
	}
	for v := 0; v < 256; v++ {
		var e [16]byte
		for i := range e {
			e[i] = byte(v)
		}
		checkEntropy("bytefill", e)
		var f [16]byte
		for i := range f {
			f[i] = byte(v + i*17)
		}
		checkEntropy("byteramp", f)
	}

	// random entropies
	rng := r.RNG(20)
	nRandom := r.Pick(200_000, 5_000_000)
	for i := 0; i < nRandom; i++ {
		var e [16]byte
		a, b := rng.Uint64(), rng.Uint64()
		for j := 0; j < 8; j++ {
			e[j] = byte(a >> (8 * j))
			e[8+j] = byte(b >> (8 * j))
		}
		checkEntropy("random", e)
	}
	r.Count("random_entropies", nRandom)

	// extreme phrase lengths: 11 words from the k shortest / longest list words,
	// and among the 128 possible last words the shortest / longest one
	byLen := append([]string(nil), words...)
	sort.SliceStable(byLen, func(i, j int) bool { return len(byLen[i]) < len(byLen[j]) })
	minLen, maxLen := 1<<30, 0
	for _, kind := range []string{"short-words", "long-words"} {
		for i := 0; i < r.Pick(300, 5000); i++ {
			pool := byLen[:100]
			if kind == "long-words" {
				pool = byLen[len(byLen)-100:]
			}
			// 121 bits from 11 words, then the 7 remaining entropy bits
			bits := new(big.Int)
			for j := 0; j < 11; j++ {
				bits.Lsh(bits, 11)
				bits.Or(bits, big.NewInt(int64(index[pool[rng.IntN(len(pool))]])))
			}
			var best [16]byte
			bestLen := -1
			for tail := 0; tail < 128; tail++ {
				e := new(big.Int).Lsh(bits, 7)
				e.Or(e, big.NewInt(int64(tail)))
				var ent [16]byte
				e.FillBytes(ent[:])
				l := len(strings.Join(refEncode(words, ent), " "))
				if bestLen < 0 || (kind == "short-words" && l < bestLen) || (kind == "long-words" && l > bestLen) {
					best, bestLen = ent, l
				}
			}
			minLen, maxLen = min(minLen, bestLen), max(maxLen, bestLen)
			checkEntropy(kind, best)
			r.Count("extreme_length_phrases", 1)
		}
	}
	r.Extra("phrase_length_range_covered", fmt.Sprintf("%d..%d characters", minLen, maxLen))

	// NewSeedPhrase: always decodable, 12 list words
	for i := 0; i < r.Pick(2000, 50000); i++ {
		r.Eval()
		p := wallet.NewSeedPhrase()
		ws := strings.Split(p, " ")
		ent, ok := refDecode(index, ws)
		if !ok {
			r.Violation("newphrase-invalid", "NewSeedPhrase produced a phrase the reference rejects", c20Case{Kind: "new", Phrase: p}, nil)
			continue
		}
		seed, err, pan := decode(p)
		if err != nil || pan != nil || seed != seedOf(ent) {
			r.Violation("newphrase-decode", "NewSeedPhrase output does not decode to its entropy", c20Case{Kind: "new", Phrase: p}, fmt.Sprint(err, pan))
		}
		r.Count("new_seed_phrases", 1)
	}

	// checksum iff: arbitrary word sequences
	checkPhraseWords := func(kind string, ws []string) {
		r.Eval()
		phrase := strings.Join(ws, " ")
		ent, ok := refDecode(index, ws)
		seed, err, pan := decode(phrase)
		if pan != nil {
			r.Violation("decode-panic", "decoder panicked", c20Case{Kind: kind, Phrase: phrase}, fmt.Sprint(pan))
			return
		}
		if ok != (err == nil) {
			r.Violation("checksum-iff", "decoder accepts/rejects differently from the reference checksum rule", c20Case{Kind: kind, Phrase: phrase}, map[string]any{"reference_ok": ok, "err": fmt.Sprint(err)})
			return
		}
		if ok {
			r.Count("phrases_accepted", 1)
			if seed != seedOf(ent) {
				r.Violation("decode-mismatch", "accepted phrase decodes to the wrong entropy", c20Case{Kind: kind, Phrase: phrase}, nil)
				return
			}
			e2 := ent
			if re := wallet.VerifEncodePhrase(&e2); re != phrase {
				r.Violation("reencode", "accepted phrase does not re-encode to itself", c20Case{Kind: kind, Phrase: phrase}, re)
			}
			r.Distinct(kind + ":" + phrase)
		} else {
			r.Count("phrases_rejected", 1)
		}
	}
	nBase := r.Pick(50, 400)
	for bi := 0; bi < nBase; bi++ {
		base := make([]string, 12)
		for i := range base {
			base[i] = words[rng.IntN(2048)]
		}
		// all 2048 last words: exactly 128 accepted
		acc := 0
		for w := 0; w < 2048; w++ {
			ws := append(append([]string{}, base[:11]...), words[w])
			if _, ok := refDecode(index, ws); ok {
				acc++
			}
			checkPhraseWords("lastword", ws)
		}
		if acc != 128 {
			r.Inconclusive(fmt.Sprintf("reference accepts %d last words, expected 128", acc))
		}
		r.Count("lastword_sweeps", 1)
		// every position x all words, starting from a valid phrase
		var e [16]byte
		for j := range e {
			e[j] = byte(rng.Uint32())
		}
		valid := refEncode(words, e)
		positions := 12
		if !r.Thorough() && bi >= 10 {
			positions = 2 // keep the quick tier short: two PRNG-chosen positions
		}
		for k := 0; k < positions; k++ {
			pos := k
			if positions != 12 {
				pos = rng.IntN(12)
			}
			for w := 0; w < 2048; w++ {
				ws := append([]string{}, valid...)
				ws[pos] = words[w]
				checkPhraseWords("position", ws)
			}
			r.Count("position_sweeps", 1)
		}
	}

	// whitespace variants and malformed phrases
	wsVariants := func(ws []string, rngSeed int) []string {
		seps := []string{" ", "  ", "\t", "\n", " \t ", "\r\n", "\n\n"}
		var out []string
		for v := 0; v < 6; v++ {
			var b bytes.Buffer
			if v%2 == 1 {
				b.WriteString(seps[(v+rngSeed)%len(seps)])
			}
			for i, w := range ws {
				if i > 0 {
					b.WriteString(seps[(i*v+rngSeed+v)%len(seps)])
				}
				b.WriteString(w)
			}
			if v%3 == 2 {
				b.WriteString(seps[(v*3+rngSeed)%len(seps)])
			}
			out = append(out, b.String())
		}
		return out
	}
	for i := 0; i < r.Pick(300, 5000); i++ {
		var e [16]byte
		for j := range e {
			e[j] = byte(rng.Uint32())
		}
		ws := refEncode(words, e)
		want := seedOf(e)
		for _, p := range wsVariants(ws, i) {
			r.Eval()
			seed, err, pan := decode(p)
			if pan != nil || err != nil || seed != want {
				r.Violation("whitespace", "whitespace variant changes the result", c20Case{Kind: "ws", Phrase: p}, fmt.Sprint(err, pan))
			}
			r.Count("whitespace_variants", 1)
		}
		bad := []string{
			strings.Join(ws[:11], " "),
			strings.Join(append(append([]string{}, ws...), ws[0]), " "),
			"",
			"   ",
			strings.ToUpper(strings.Join(ws, " ")),
			strings.Join(append(append([]string{}, ws[:5]...), append([]string{"notaword"}, ws[6:]...)...), " "),
			strings.Join(append(append([]string{}, ws[:5]...), append([]string{strings.Title(ws[5])}, ws[6:]...)...), " "),
			strings.Join(ws, ","),
			strings.Join(ws, " ") + " \x00",
			strings.Repeat(ws[0]+" ", 24),
		}
		for _, p := range bad {
			r.Eval()
			_, err, pan := decode(p)
			if pan != nil {
				r.Violation("malformed-panic", "malformed phrase panics", c20Case{Kind: "malformed", Phrase: p}, fmt.Sprint(pan))
			} else if err == nil {
				// an upper-cased or comma-joined phrase must not decode; 24 copies of one word is 24 words
				r.Violation("malformed-accepted", "malformed phrase accepted", c20Case{Kind: "malformed", Phrase: p}, nil)
			}
			r.Count("malformed_rejected", 1)
		}
	}

	// unknown tokens at every position, on phrases that WOULD be valid if the
	// unknown token were read as word 0 ("abandon"): a lookup that silently
	// yields index 0 for a missing word is exactly the plausible bug here
	unknown := []string{"notaword", "abandonx", "Abandon", "ABANDON", "abando", "zoo1", "\u00e1bandon", "abandon\x00"}
	for i := 0; i < r.Pick(400, 4000); i++ {
		pos := i % 12
		ws := make([]string, 12)
		for j := range ws {
			ws[j] = words[rng.IntN(2048)]
		}
		ws[pos] = words[0]
		ok := false
		if pos < 11 {
			for w := 0; w < 2048 && !ok; w++ {
				ws[11] = words[w]
				_, ok = refDecode(index, ws)
			}
		} else {
			for try := 0; try < 400 && !ok; try++ {
				for j := 0; j < 11; j++ {
					ws[j] = words[rng.IntN(2048)]
				}
				_, ok = refDecode(index, ws)
			}
		}
		if !ok {
			continue
		}
		for _, u := range unknown {
			bad := append([]string{}, ws...)
			bad[pos] = u
			p := strings.Join(bad, " ")
			r.Eval()
			_, err, pan := decode(p)
			if pan != nil {
				r.Violation("malformed-panic", "phrase with an unknown word panics", c20Case{Kind: "unknown-word", Phrase: p}, fmt.Sprint(pan))
			} else if err == nil {
				r.Violation("unknown-word-accepted", fmt.Sprintf("a phrase whose word %d is not in the word list was accepted", pos+1), c20Case{Kind: "unknown-word", Phrase: p}, nil)
			}
			r.Count("unknown_word_probes", 1)
			r.SetAdd("unknown_word_positions", fmt.Sprint(pos))
		}
	}

	// keys: determinism, reference derivation, index separation
	idxs := []uint64{0, 1, 2, 255, 256, 1<<32 - 1, 1 << 32, 1<<63 - 1, 1 << 63, 1<<64 - 1}
	for i := 0; i < r.Pick(2000, 40000); i++ {
		var e [16]byte
		for j := range e {
			e[j] = byte(rng.Uint32())
		}
		phrase := strings.Join(refEncode(words, e), " ")
		var s1, s2 [32]byte
		if err := wallet.SeedFromPhrase(&s1, phrase); err != nil {
			r.Violation("key-seed", "valid phrase rejected", c20Case{Kind: "key", Phrase: phrase}, err.Error())
			continue
		}
		wallet.SeedFromPhrase(&s2, "  "+strings.ReplaceAll(phrase, " ", "\n")+"\t")
		seen := map[string]uint64{}
		for _, ix := range append(idxs, rng.Uint64(), rng.Uint64()) {
			r.Eval()
			k1 := wallet.KeyFromSeed(&s1, ix)
			k2 := wallet.KeyFromSeed(&s2, ix)
			ref := refKey(seedOf(e), ix)
			if !bytes.Equal(k1, k2) || !bytes.Equal(k1, ref) {
				r.Violation("key-derivation", "key differs between calls or from the reference derivation", c20Case{Kind: "key", Phrase: phrase, Index: ix}, nil)
			}
			a1 := types.StandardUnlockHash(k1.PublicKey())
			a2 := types.StandardUnlockHash(k2.PublicKey())
			if a1 != a2 {
				r.Violation("key-address", "address differs for the same phrase and index", c20Case{Kind: "key", Phrase: phrase, Index: ix}, nil)
			}
			if prev, dup := seen[string(k1)]; dup && prev != ix {
				r.Violation("key-collision", "two indices derive the same key", c20Case{Kind: "key", Phrase: phrase, Index: ix}, prev)
			}
			seen[string(k1)] = ix
			r.Count("keys_derived", 1)
			// a holder wiping (or scribbling over) the key it was handed must not
			// change what the next derivation returns, nor a key held by someone else
			held := string(k2)
			for j := range k1 {
				k1[j] = 0
			}
			if rng.IntN(2) == 0 {
				for j := range k1 {
					k1[j] = byte(rng.Uint32())
				}
			}
			if string(k2) != held {
				r.Violation("key-derivation:shared-memory", "a key held by one caller changed when another caller wiped the key it had been handed for the same phrase and index", c20Case{Kind: "key-wipe", Phrase: phrase, Index: ix}, nil)
			}
			if k3 := wallet.KeyFromSeed(&s1, ix); !bytes.Equal(k3, ref) {
				r.Violation("key-derivation:after-wipe", "after a caller wiped the key it had been handed, deriving the same phrase and index again does not return the key", c20Case{Kind: "key-wipe", Phrase: phrase, Index: ix}, nil)
			}
			r.Count("keys_derived_again_after_the_caller_wiped_its_copy", 1)
		}
		// the same seed variable re-used for another phrase: keys follow the
		// contents of the seed, not the variable
		{
			var e2 [16]byte
			for j := range e2 {
				e2[j] = byte(rng.Uint32())
			}
			if err := wallet.SeedFromPhrase(&s1, strings.Join(refEncode(words, e2), " ")); err == nil {
				for _, ix := range idxs[:min(3, len(idxs))] {
					if !bytes.Equal(wallet.KeyFromSeed(&s1, ix), refKey(seedOf(e2), ix)) {
						r.Violation("key-derivation:seed-variable-reused", "after decoding another phrase into the same seed variable the derived key is not that of the new phrase", c20Case{Kind: "key-reuse", Phrase: phrase, Index: ix}, nil)
					}
					r.Count("keys_derived_from_reused_seed_variable", 1)
				}
			}
		}
		if i < 2 {
			r.Sample(c20Case{Kind: "key", Phrase: phrase, Index: idxs[i]})
		}
	}
	// the same phrase and index derive the same key whoever else is deriving
	// keys at the same time (8 goroutines against a sequential reference)
	{
		type job struct {
			seed [32]byte
			ent  [16]byte
		}
		var jobs []job
		for i := 0; i < 4; i++ {
			var e [16]byte
			for j := range e {
				e[j] = byte(rng.Uint32())
			}
			var sd [32]byte
			if wallet.SeedFromPhrase(&sd, strings.Join(refEncode(words, e), " ")) != nil {
				continue
			}
			jobs = append(jobs, job{sd, e})
		}
		rounds := r.Pick(150, 2000)
		var wg sync.WaitGroup
		var bad, panics atomic.Int64
		var firstBad atomic.Value
		for g := 0; g < 8; g++ {
			wg.Add(1)
			go func(g int) {
				defer wg.Done()
				for round := 0; round < rounds; round++ {
					for ji := range jobs {
						jb := jobs[(ji+g)%len(jobs)]
						for ix := uint64(0); ix < 32; ix++ {
							sd := jb.seed
							var k []byte
							if pn := mon.Guard(func() { k = wallet.KeyFromSeed(&sd, ix+uint64(g%2)*1000) }); pn != nil {
								if panics.Add(1) == 1 {
									firstBad.Store(c20Case{Kind: "key-concurrent-panic: " + fmt.Sprint(pn), Entropy: hex.EncodeToString(jb.ent[:]), Index: ix + uint64(g%2)*1000})
								}
								continue
							}
							if !bytes.Equal(k, refKey(seedOf(jb.ent), ix+uint64(g%2)*1000)) {
								if bad.Add(1) == 1 {
									firstBad.Store(c20Case{Kind: "key-concurrent", Entropy: hex.EncodeToString(jb.ent[:]), Index: ix + uint64(g%2)*1000})
								}
							}
						}
						if round%16 == 0 {
							// phrase decoding and generation run alongside
							var s2 [32]byte
							ph := strings.Join(refEncode(words, jb.ent), " ")
							if err := wallet.SeedFromPhrase(&s2, ph); err != nil || s2 != jb.seed {
								bad.Add(1)
							}
							var s3 [32]byte
							if wallet.SeedFromPhrase(&s3, wallet.NewSeedPhrase()) != nil {
								bad.Add(1)
							}
						}
					}
				}
			}(g)
		}
		wg.Wait()
		r.Eval()
		r.Count("concurrent_key_derivations", 8*rounds*len(jobs)*32)
		if n := panics.Load(); n > 0 {
			r.Violation("key-derivation-panic:concurrent", fmt.Sprintf("%d key derivations panicked while other goroutines were deriving keys", n), firstBad.Load(), nil)
		} else if n := bad.Load(); n > 0 {
			r.Violation("key-derivation:concurrent", fmt.Sprintf("%d derivations made while other goroutines were deriving keys differ from the reference", n), firstBad.Load(), nil)
		}
	}
	r.Floor("extreme_length_phrases", 500)
	r.Floor("concurrent_key_derivations", 100000)
	r.Floor("phrases_accepted", 1000)
	r.Floor("phrases_rejected", 1000)
	r.Floor("keys_derived", 1000)
	r.Floor("unknown_word_probes", 1000)
}
