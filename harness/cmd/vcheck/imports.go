package main

// monitors living in their own packages (built by sub-agents, reviewed and
// integrated by the coordinator)
import (
	_ "verif/harness/checks/byz"
	_ "verif/harness/checks/limits"
	_ "verif/harness/checks/rhphost"
	_ "verif/harness/checks/rhprenter"
	_ "verif/harness/checks/walletfund"
)
