package main

// monitors living in their own packages
import (
	_ "verif/harness/checks/walletfund"
)
