package main

import (
	"bytes"
	"encoding/hex"
	"fmt"
	"sort"
	"strings"

	"go.sia.tech/core/types"
	"go.sia.tech/coreutils/chain"
	"verif/harness/lab/chainlab"
	"verif/harness/mon"
)

func init() { register("C02", "exploration", runC02) }

// linearTwin feeds the path to tip one block at a time into a fresh node.
func linearTwin(env *chainlab.Env, tip *chainlab.Node) (*chainlab.TestNode, error) {
	n, err := chainlab.NewTestNode(env, nil)
	if err != nil {
		return nil, err
	}
	for _, nd := range tip.PathFromGenesis() {
		if err := n.CM.AddBlocks(chainlab.Blocks([]*chainlab.Node{nd})); err != nil {
			return nil, fmt.Errorf("linear twin rejected node %d: %w", nd.Idx, err)
		}
	}
	if n.CM.Tip().ID != tip.ID {
		return nil, fmt.Errorf("linear twin did not reach node %d", tip.Idx)
	}
	return n, nil
}

// isPermutation reports whether two hex-encoded id lists hold the same ids in
// a different order.
func isPermutation(a, b string) bool {
	if len(a) != len(b) || a == b || len(a)%64 != 0 {
		return false
	}
	split := func(s string) []string {
		var out []string
		for i := 0; i < len(s); i += 64 {
			out = append(out, s[i:i+64])
		}
		sort.Strings(out)
		return out
	}
	x, y := split(a), split(b)
	for i := range x {
		if x[i] != y[i] {
			return false
		}
	}
	return true
}

// compareViews classifies the first divergence between a reorged node and its
// linear twin.
func compareViews(a, b chainlab.View) (sig, what string, detail map[string]string) {
	k, x, y := a.Diff(b)
	if k == "" {
		return "", "", nil
	}
	detail = map[string]string{"key": k, "reorged_node": clipS(x), "linear_twin": clipS(y)}
	if strings.HasPrefix(k, "kv/FileContracts/") && len(k) == len("kv/FileContracts/")+16 && isPermutation(x, y) {
		return "expiry-list-order", "expiration list holds the same contracts in a different order than on the linear twin", detail
	}
	cls := k
	if i := strings.Index(k, "/"); i > 0 {
		cls = k[:i]
		if cls == "kv" || cls == "served" {
			if j := strings.Index(k[i+1:], "/"); j > 0 {
				cls = k[:i+1+j]
			}
		}
	}
	return "view-differs-from-linear-twin:" + cls, "served view differs from a node that saw the best chain linearly", detail
}

func clipS(s string) string {
	if len(s) > 400 {
		return s[:400] + "..."
	}
	return s
}

func runC02Tree(r *mon.Run, stream uint64, regime string, size int) {
	rng := r.RNG(stream)
	p := chainlab.RandomParams(regime, rng)
	env := chainlab.NewEnv(p)
	t := chainlab.NewTree(env, rng)
	cs := chainCase{Kind: "twin", Stream: stream, Params: p}
	t.Grow(size, chainlab.Profile{MaxTxns: 5})
	// a few body-invalid forks so that failed reorgs (revert, apply, roll back) are part of the history
	base := append([]*chainlab.Node{}, t.Nodes...)
	for i := 0; i < 3; i++ {
		n := base[1+rng.IntN(len(base)-1)]
		if !n.ChainValid {
			continue
		}
		if c := t.Corrupt(n, []string{"double-spend", "output-inflate", "sig-bit", "dup-txn"}[rng.IntN(4)], true); c != nil && c.OrphanValid {
			x := c
			for j := 0; j < 2+rng.IntN(5); j++ {
				x = t.ExtendHeaderOnly(x)
			}
		}
	}
	node, err := chainlab.NewTestNode(env, nil)
	if err != nil {
		r.Inconclusive(err.Error())
		return
	}
	a := chainlab.NewAuditor(t, node)
	sched := t.RandomSchedule(rng)
	checkAt := map[int]bool{len(sched) - 1: true}
	for i := 0; i < 3; i++ {
		checkAt[rng.IntN(len(sched))] = true
	}
	twinViews := map[int]chainlab.View{}
	for i, batch := range sched {
		_, fs := a.Submit(batch)
		r.Count("calls_audited", 1)
		if len(fs) > 0 {
			// C01's business, but a broken chain makes the comparison meaningless
			reportFindings(r, cs, t, a, fs)
			return
		}
		if !checkAt[i] || a.Tip == t.Root {
			continue
		}
		tv, ok := twinViews[a.Tip.Idx]
		if !ok {
			twin, err := linearTwin(env, a.Tip)
			if err != nil {
				r.Violation("linear-twin-rejected-best-chain", err.Error(), cs, nil)
				return
			}
			tv = twin.ServedView(true)
			twinViews[a.Tip.Idx] = tv
			// the twin itself must agree with the pure ledger (catches symmetric apply/revert bugs)
			if fs := chainlab.AuditElementsAgainst(twin, a.Tip.L); len(fs) > 0 {
				reportFindings(r, cs, t, a, fs)
				return
			}
		}
		av := node.ServedView(true)
		r.Count("twin_comparisons", 1)
		r.Count("view_keys_compared", len(av))
		if sig, what, detail := compareViews(av, tv); sig != "" {
			c := cs
			c.Nodes = describeTree(t)
			c.Calls = a.Log
			r.Violation(sig, what, c, detail)
			return
		}
		if fs := a.AuditElements(); len(fs) > 0 {
			reportFindings(r, cs, t, a, fs)
			return
		}
	}
	treeStats(r, t)
	// kinds that were inside reverted blocks
	r.Eval()
	r.Count("reorgs_observed", a.Reorgs)
	r.Count("rollbacks_observed", a.Rollbacks)
	r.SetAdd("reorg_depths", fmt.Sprint(a.MaxDepth))
	if a.Reorgs > 0 {
		r.Distinct(fmt.Sprintf("twin/%s/%d/r%d/rb%d/d%d", regime, stream, a.Reorgs, a.Rollbacks, a.MaxDepth))
	}
	if stream%53 == 0 {
		r.Sample(map[string]any{"kind": "twin", "regime": regime, "params": p, "nodes": len(t.Nodes), "reorgs": a.Reorgs, "rollbacks": a.Rollbacks, "max_depth": a.MaxDepth, "first_calls": firstN(a.Log, 5)})
	}
}

// runC02Checkpoint: stores initialised from a v2 checkpoint above the require
// height, one driven through forks, its twin linearly.
func runC02Checkpoint(r *mon.Run, stream uint64) {
	rng := r.RNG(stream)
	regime := []string{"mix", "v2only"}[rng.IntN(2)]
	p := chainlab.RandomParams(regime, rng)
	env := chainlab.NewEnv(p)
	t := chainlab.NewTree(env, rng)
	cs := chainCase{Kind: "checkpoint", Stream: stream, Params: p}
	prof := chainlab.Profile{MaxTxns: 4}
	tip := t.Root
	for tip.Height < p.Require+uint64(2+rng.IntN(4)) {
		tip = t.Extend(tip, prof)
	}
	cp := tip // checkpoint block (v2, above require)
	open := func() (*chainlab.TestNode, error) {
		sh := chainlab.NewShadowDB(chain.NewMemDB())
		store, st, err := chain.NewDBStoreAtCheckpoint(sh, cp.Parent.L.State, cp.Block, nil)
		if err != nil {
			return nil, err
		}
		return &chainlab.TestNode{Env: env, Shadow: sh, Store: store, CM: chain.NewManager(store, st)}, nil
	}
	A, err := open()
	if err != nil {
		r.Violation("checkpoint-open", "NewDBStoreAtCheckpoint failed: "+err.Error(), cs, nil)
		return
	}
	if chainlab.StateBytes(A.CM.TipState()) != chainlab.StateBytes(cp.L.State) {
		r.Violation("checkpoint-state", "checkpoint store tip state differs from pure replay", cs, nil)
		return
	}
	// branches above the checkpoint
	b1, b2 := cp, cp
	var p1, p2 []*chainlab.Node
	for i := 0; i < 2+rng.IntN(4); i++ {
		b1 = t.Extend(b1, prof)
		p1 = append(p1, b1)
	}
	for i := 0; i < len(p1)+1+rng.IntN(3); i++ {
		b2 = t.Extend(b2, prof)
		p2 = append(p2, b2)
	}
	// the checkpoint block itself may be delivered again at any time (alone or
	// leading a batch): it is a known, applied block and nothing may change
	redeliver := func(when string, follow []*chainlab.Node) bool {
		batch := append([]types.Block{cp.Block}, chainlab.Blocks(follow)...)
		var err error
		if pn := mon.Guard(func() { err = A.CM.AddBlocks(batch) }); pn != nil {
			r.Violation("checkpoint-redelivery-panic", fmt.Sprint("AddBlocks panicked when the checkpoint block was delivered again: ", pn), cs, nil)
			return false
		}
		if err != nil {
			r.Violation("checkpoint-redelivery-rejected", "the checkpoint block delivered again ("+when+") was rejected: "+err.Error(), cs, nil)
			return false
		}
		st, ok := A.CM.State(cp.ID)
		if !ok || chainlab.StateBytes(st) != chainlab.StateBytes(cp.L.State) {
			r.Violation("checkpoint-state-changed-by-redelivery", "after the checkpoint block was delivered again ("+when+") the stored state of the checkpoint differs from the pure replay", cs, nil)
			return false
		}
		r.Count("checkpoint_block_redelivered:"+when, 1)
		return true
	}
	mode := rng.IntN(4)
	for i, part := range [][]*chainlab.Node{p1, p2} {
		switch {
		case mode == 1 && i == 0:
			if !redeliver("before-first-branch", nil) {
				return
			}
		case mode == 2 && i == 1:
			if !redeliver("between-branches", nil) {
				return
			}
		case mode == 3 && i == 1:
			// leading the batch that causes the reorg down to the checkpoint
			if !redeliver("leading-the-reorg-batch", part) {
				return
			}
			continue
		}
		if err := A.CM.AddBlocks(chainlab.Blocks(part)); err != nil {
			r.Violation("checkpoint-addblocks", "checkpoint node rejected valid blocks: "+err.Error(), cs, nil)
			return
		}
	}
	B, err := open()
	if err != nil {
		r.Inconclusive(err.Error())
		return
	}
	for _, nd := range p2 {
		if err := B.CM.AddBlocks(chainlab.Blocks([]*chainlab.Node{nd})); err != nil {
			r.Violation("checkpoint-addblocks", "linear checkpoint twin rejected valid blocks: "+err.Error(), cs, nil)
			return
		}
	}
	if A.CM.Tip().ID != b2.ID || chainlab.StateBytes(A.CM.TipState()) != chainlab.StateBytes(b2.L.State) {
		r.Violation("checkpoint-tip", "checkpoint node did not reach the heavier branch with the pure state", cs, nil)
		return
	}
	r.Count("twin_comparisons", 1)
	if sig, what, detail := compareViews(A.ServedView(true), B.ServedView(true)); sig != "" {
		r.Violation("checkpoint:"+sig, what, cs, detail)
		return
	}
	r.Eval()
	r.Count("checkpoint_histories", 1)
	r.Distinct(fmt.Sprintf("checkpoint/%d/%d/%d", stream, len(p1), len(p2)))
}

// runC02Order is the dedicated scenario for the documented history dependence
// of expiration-list order (KF-C02-1): >= 3 v1 contracts share a window end, one
// that is not last in the list is removed (resolved or moved to another
// window) in a block that is later reverted.
func runC02Order(r *mon.Run, stream uint64) {
	rng := r.RNG(stream)
	p := chainlab.RandomParams("v1only", rng)
	env := chainlab.NewEnv(p)
	t := chainlab.NewTree(env, rng)
	cs := chainCase{Kind: "expiry-order", Stream: stream, Params: p}
	tip := t.ExtendEmpty(t.Root, zeroT)
	tip = t.ExtendEmpty(tip, zeroT)
	// three contracts with the same window end, formed in one block
	bb := tip.L.NewBuilder(rng)
	bb.SharedEnds = true
	const endDelta = 12
	var ids []string
	for i := 0; i < 3+rng.IntN(2); i++ {
		id, ok := bb.V1Form(env.A(chainlab.Renter), env.A(chainlab.Host), 4, endDelta-4, false)
		if ok {
			ids = append(ids, id.String())
		}
	}
	if len(ids) < 3 {
		r.Count("order_scenario_skipped", 1)
		return
	}
	tip = t.Attach(tip, bb.Seal(tip.Block.Timestamp.Add(env.Net.BlockInterval), env.A(chainlab.Miner).Addr, false), "", bb.Kinds)
	if !tip.ChainValid {
		r.Inconclusive("order scenario: formation block invalid: " + tip.Err)
		return
	}
	for i := 0; i < 4; i++ {
		tip = t.ExtendEmpty(tip, zeroT)
	}
	// fork X: a block that resolves the FIRST listed contract (storage proof), making the removal non-last
	node, err := chainlab.NewTestNode(env, nil)
	if err != nil {
		r.Inconclusive(err.Error())
		return
	}
	if err := node.CM.AddBlocks(chainlab.Blocks(tip.PathFromGenesis())); err != nil {
		r.Violation("order-setup", "node rejected the setup chain: "+err.Error(), cs, nil)
		return
	}
	listed := node.Store.ExpiringFileContractIDs(tip.Height - 4 + endDelta - 0)
	// find the height whose list has our contracts
	var listHeight uint64
	for h := tip.Height; h < tip.Height+40; h++ {
		if l := node.Store.ExpiringFileContractIDs(h); len(l) >= 3 {
			listed, listHeight = l, h
			break
		}
	}
	if len(listed) < 3 {
		r.Inconclusive("order scenario: shared expiration list not found")
		return
	}
	pick := rng.IntN(len(listed) - 1) // never the last one
	xb := tip.L.NewBuilder(rng)
	proved := false
	for _, c := range xb.V1ContractsForTest() {
		if c.ID == listed[pick] {
			proved = xb.V1Prove(c)
		}
	}
	if !proved {
		r.Inconclusive("order scenario: could not build the resolving block")
		return
	}
	x := t.Attach(tip, xb.Seal(tip.Block.Timestamp.Add(env.Net.BlockInterval), env.A(chainlab.Miner).Addr, false), "", xb.Kinds)
	if err := node.CM.AddBlocks(chainlab.Blocks([]*chainlab.Node{x})); err != nil || node.CM.Tip().ID != x.ID {
		r.Violation("order-setup", fmt.Sprintf("node did not adopt the resolving block: %v", err), cs, nil)
		return
	}
	// heavier fork Y from tip that does not contain the resolution: X is reverted
	y := tip
	var yp []*chainlab.Node
	for i := 0; i < 3; i++ {
		y = t.ExtendEmpty(y, zeroT)
		yp = append(yp, y)
	}
	if err := node.CM.AddBlocks(chainlab.Blocks(yp)); err != nil || node.CM.Tip().ID != y.ID {
		r.Violation("order-setup", fmt.Sprintf("node did not reorg to the heavier fork: %v", err), cs, nil)
		return
	}
	twin, err := linearTwin(env, y)
	if err != nil {
		r.Violation("linear-twin-rejected-best-chain", err.Error(), cs, nil)
		return
	}
	r.Eval()
	r.Count("order_scenarios", 1)
	r.Count("twin_comparisons", 1)
	r.Distinct(fmt.Sprintf("order/%d/n%d/pick%d", stream, len(listed), pick))
	a_view, b_view := node.ServedView(true), twin.ServedView(true)
	sig, what, detail := compareViews(a_view, b_view)
	if sig == "" {
		r.Count("order_scenarios_equal_views", 1)
		return
	}
	if sig == "expiry-list-order" {
		// structural precondition of KF-C02-1 holds by construction: the history
		// contains a reverted block whose apply removed an id that was not last
		// in a list of >= 3, and the first divergence is order-only in that list
		// ... and the two orders are exactly what the documented algorithm
		// (append on apply, swap-remove on removal, prepend on revert) yields:
		// linear = L, reorged = [L[i]] + swapRemove(L, i). Any other order is a
		// different violation and is reported.
		want := "kv/FileContracts/" + hex.EncodeToString(heightKey(listHeight))
		var lin, reo string
		for _, id := range listed {
			lin += hex.EncodeToString(id[:])
		}
		sw := append([]types.FileContractID(nil), listed...)
		sw[pick] = sw[len(sw)-1]
		sw = sw[:len(sw)-1]
		reo = hex.EncodeToString(listed[pick][:])
		for _, id := range sw {
			reo += hex.EncodeToString(id[:])
		}
		if detail["key"] == want && a_view[want] == reo && b_view[want] == lin {
			sig = "expiry-order-after-reverted-nonlast-removal"
		}
	}
	c := cs
	c.Nodes = describeTree(t)
	r.Violation(sig, what, c, detail)
}

func heightKey(h uint64) []byte {
	var b bytes.Buffer
	for i := 7; i >= 0; i-- {
		b.WriteByte(byte(h >> (8 * i)))
	}
	return b.Bytes()
}

func runC02(r *mon.Run, replay string) {
	r.Rule("random fork trees with every element-changing transaction kind and body-invalid forks, driven through PRNG schedules on node A; at PRNG-chosen points and at the end a fresh node B is fed A's best chain one block at a time and the complete served views (tip state, index, stored blocks with supplements, element buckets incl. expiration lists, served elements with Merkle proofs, storage-proof window ids, next block's expiring contracts) are compared byte for byte; B is also compared with the pure ledger; plus checkpoint-initialised stores and the dedicated expiration-order scenario; a history is non-trivial when it contains at least one reorg, distinct by (regime, stream, reorgs, rollbacks, depth)")
	r.Assume("Tree-bucket nodes beyond the current leaf count are never read (the served proofs are compared instead)")
	if st, ok := replayStream(replay); ok {
		switch {
		case st >= 810000:
			runC02SharedEnds(r, st)
		case st >= 800000:
			runC02Order(r, st)
		case st >= 700000:
			runC02Checkpoint(r, st)
		default:
			i := int(st - 2000)
			sz := 30
			if r.Thorough() && i%25 == 0 {
				sz = 150
			}
			runC02Tree(r, st, regimes[i%3], sz)
		}
		return
	}
	n := r.Pick(150, 2500)
	parallel(n, func(i int) {
		sz := 30
		if r.Thorough() && i%25 == 0 {
			sz = 150
		}
		runC02Tree(r, uint64(2000+i), regimes[i%3], sz)
	})
	parallel(r.Pick(60, 400), func(i int) { runC02Checkpoint(r, uint64(700000+i)) })
	r.Floor("checkpoint_block_redelivered:between-branches", 5)
	r.Floor("checkpoint_block_redelivered:leading-the-reorg-batch", 5)
	parallel(r.Pick(12, 100), func(i int) { runC02Order(r, uint64(800000+i)) })
	parallel(r.Pick(120, 1500), func(i int) { runC02SharedEnds(r, uint64(810000+i)) })
	r.Floor("shared_end_histories", 50)
	r.Floor("list_operations_modelled", 500)
	r.Floor("twin_comparisons", 100)
	r.Floor("reorgs_observed", 50)
	r.Floor("order_scenarios", 5)
}
