package main

import (
	"fmt"
	"sync"
	"sync/atomic"
	"time"

	"github.com/anishathalye/porcupine"
	"go.sia.tech/core/types"
	"go.sia.tech/coreutils/chain"
	"verif/harness/lab/chainlab"
	"verif/harness/mon"
)

func init() { register("C04", "exploration", runC04) }

type c04Case struct {
	Stream uint64                `json:"rng_stream"`
	Params chainlab.Params       `json:"params"`
	Sub    int                   `json:"subscriber"`
	Chunk  int                   `json:"chunk"`
	From   string                `json:"poll_from"`
	Nodes  []nodeDesc            `json:"nodes,omitempty"`
	Calls  []chainlab.CallRecord `json:"calls,omitempty"`
}

type subscriber struct {
	id    int
	chunk int
	lazy  int // polls only every lazy-th opportunity
	f     *chainlab.Follower
	polls int
}

// poll performs one UpdatesSince call, checks its shape and folds it.
func (s *subscriber) poll(r *mon.Run, t *chainlab.Tree, cm *chain.Manager, cs c04Case) (n int, ok bool) {
	from := s.f.Index
	var rus []chain.RevertUpdate
	var aus []chain.ApplyUpdate
	var err error
	cs.Sub, cs.Chunk, cs.From = s.id, s.chunk, from.String()
	if p := mon.Guard(func() { rus, aus, err = cm.UpdatesSince(from, s.chunk) }); p != nil {
		r.Violation("updates-since-panic", fmt.Sprint("UpdatesSince panicked: ", p), cs, nil)
		return 0, false
	}
	s.polls++
	r.Count("polls", 1)
	if err != nil {
		r.Violation("updates-since-error", "UpdatesSince failed for an index the subscriber reached earlier: "+err.Error(), cs, nil)
		return 0, false
	}
	end, problem := chainlab.CheckPoll(t, from, s.chunk, rus, aus)
	if problem != "" {
		cs.Nodes = describeTree(t)
		r.Violation("update-path-not-contiguous", problem, cs, nil)
		return 0, false
	}
	if len(rus) > 0 {
		r.Count("polls_with_reverts", 1)
		r.Count("revert_updates", len(rus))
		if len(aus) == 0 {
			r.Count("polls_ending_on_revert", 1)
		}
	}
	r.Count("apply_updates", len(aus))
	if err := s.f.Fold(rus, aus); err != nil {
		cs.Nodes = describeTree(t)
		r.Violation("fold-failed", "applying the delivered diffs and proof updates failed: "+err.Error(), cs, nil)
		return 0, false
	}
	if s.f.Index != end {
		r.Violation("fold-index", "subscriber index after folding differs from the path end", cs, nil)
		return 0, false
	}
	return len(rus) + len(aus), true
}

func runC04History(r *mon.Run, stream uint64) {
	rng := r.RNG(stream)
	regime := regimes[rng.IntN(3)]
	p := chainlab.RandomParams(regime, rng)
	env := chainlab.NewEnv(p)
	t := chainlab.NewTree(env, rng)
	t.Grow(30+rng.IntN(10), chainlab.Profile{MaxTxns: 4})
	// a body-invalid fork so that rolled-back reorgs are part of the history
	base := append([]*chainlab.Node{}, t.Nodes...)
	for i := 0; i < 2; i++ {
		n := base[1+rng.IntN(len(base)-1)]
		if n.ChainValid {
			if c := t.Corrupt(n, []string{"double-spend", "output-inflate", "sig-bit"}[rng.IntN(3)], true); c != nil && c.OrphanValid {
				x := c
				for j := 0; j < 3+rng.IntN(4); j++ {
					x = t.ExtendHeaderOnly(x)
				}
			}
		}
	}
	node, err := chainlab.NewTestNode(env, nil)
	if err != nil {
		r.Inconclusive(err.Error())
		return
	}
	cm := node.CM
	a := chainlab.NewAuditor(t, node)
	cs := c04Case{Stream: stream, Params: p}
	chunks := []int{1, 2, 3, 7, 1000, 1 + rng.IntN(12)}
	var subs []*subscriber
	for i, c := range chunks {
		subs = append(subs, &subscriber{id: i, chunk: c, lazy: 1 + rng.IntN(4), f: chainlab.NewFollower()})
	}
	// reorg listeners with churn
	type listener struct {
		calls  []types.ChainIndex
		cancel func()
	}
	var lmu sync.Mutex
	listeners := map[int]*listener{}
	nextL := 0
	addListener := func() {
		l := &listener{}
		id := nextL
		nextL++
		l.cancel = cm.OnReorg(func(ci types.ChainIndex) {
			lmu.Lock()
			l.calls = append(l.calls, ci)
			lmu.Unlock()
		})
		listeners[id] = l
	}
	addListener()
	addListener()
	for step, batch := range t.RandomSchedule(rng) {
		// listener churn
		if rng.IntN(4) == 0 {
			addListener()
		}
		if rng.IntN(5) == 0 && len(listeners) > 1 {
			for id, l := range listeners {
				l.cancel()
				delete(listeners, id)
				break
			}
		}
		for _, l := range listeners {
			l.calls = nil
		}
		old := a.Tip
		_, fs := a.Submit(batch)
		if len(fs) > 0 {
			reportFindings(r, chainCase{Kind: "c04", Stream: stream, Params: p}, t, a, fs)
			return
		}
		moved := a.Tip != old
		for id, l := range listeners {
			lmu.Lock()
			calls := append([]types.ChainIndex(nil), l.calls...)
			lmu.Unlock()
			r.Count("listener_observations", 1)
			switch {
			case moved && len(calls) != 1:
				r.Violation("reorg-notification-count", fmt.Sprintf("tip changed but listener %d was invoked %d times", id, len(calls)), cs, nil)
				return
			case moved && calls[0] != a.Tip.L.State.Index:
				r.Violation("reorg-notification-argument", fmt.Sprintf("listener got %v, new tip is %v", calls[0], a.Tip.L.State.Index), cs, nil)
				return
			case !moved && len(calls) != 0:
				r.Violation("reorg-notification-spurious", fmt.Sprintf("tip did not change (failed or no-op submission) but listener %d was invoked %d times", id, len(calls)), cs, nil)
				return
			}
			if moved {
				r.Count("reorg_notifications_checked", 1)
			}
		}
		// some subscribers poll (once) after this call
		for _, s := range subs {
			if (step+s.id)%s.lazy != 0 {
				continue
			}
			if _, ok := s.poll(r, t, cm, cs); !ok {
				return
			}
			if s.f.Index == a.Tip.L.State.Index {
				r.Count("ledger_comparisons", 1)
				if d := s.f.CompareLedger(a.Tip.L); d != "" {
					c := cs
					c.Sub, c.Chunk = s.id, s.chunk
					c.Nodes = describeTree(t)
					c.Calls = a.Log
					r.Violation("shadow-ledger-differs", "ledger folded from the update stream differs from the pure ledger of the tip: "+d, c, nil)
					return
				}
			}
		}
	}
	// the pre-validated path notifies too: extend the tip with v2 blocks through
	// AddValidatedV2Blocks (only above the require height, where it is used)
	if a.Tip.Height >= p.Require && len(listeners) > 0 {
		x := a.Tip
		var ext []*chainlab.Node
		for i := 0; i < 1+rng.IntN(3); i++ {
			x = t.Extend(x, chainlab.Profile{MaxTxns: 3})
			ext = append(ext, x)
		}
		if ext[0].Block.V2 != nil {
			for _, l := range listeners {
				l.calls = nil
			}
			old := a.Tip
			_, fs := a.SubmitValidated(ext)
			if len(fs) > 0 {
				reportFindings(r, chainCase{Kind: "c04-validated", Stream: stream, Params: p}, t, a, fs)
				return
			}
			for id, l := range listeners {
				lmu.Lock()
				calls := append([]types.ChainIndex(nil), l.calls...)
				lmu.Unlock()
				if a.Tip != old && (len(calls) != 1 || calls[0] != a.Tip.L.State.Index) {
					r.Violation("reorg-notification-count:validated", fmt.Sprintf("AddValidatedV2Blocks moved the tip but listener %d was invoked %d times (or with the wrong index)", id, len(calls)), cs, nil)
					return
				}
				if a.Tip != old {
					r.Count("reorg_notifications_checked_validated_path", 1)
				}
			}
		}
	}
	// blocks the node already applied are delivered once more through the
	// pre-validated path (overlapping sync batches): nothing may change, and
	// subscribers that still have to cross those blocks - a fresh one starting
	// from nothing among them - must still be able to
	if a.Tip.Height > p.Require+1 {
		path := a.Tip.PathFromGenesis()
		var known []*chainlab.Node
		for _, n := range path {
			if n.Height > p.Require && n.Block.V2 != nil {
				known = append(known, n)
			}
		}
		if len(known) > 0 {
			k := 1 + rng.IntN(min(6, len(known)))
			start := rng.IntN(len(known) - k + 1)
			if err, fs := a.SubmitValidated(known[start : start+k]); err != chainlab.ErrNoState {
				if len(fs) > 0 {
					reportFindings(r, chainCase{Kind: "c04-validated-redelivery", Stream: stream, Params: p}, t, a, fs)
					return
				}
				r.Count("applied_blocks_redelivered_prevalidated", 1)
				subs = append(subs, &subscriber{id: len(subs), chunk: []int{1, 3, 1000}[rng.IntN(3)], f: chainlab.NewFollower()})
			}
		}
	}
	// quiescence: everyone polls to completion within the progress bound
	for _, s := range subs {
		// distance = reverts to the fork point + applies to the tip
		var dist int
		if s.f.Index == (types.ChainIndex{}) {
			dist = int(a.Tip.Height) + 1
		} else {
			at := t.ByID[s.f.Index.ID]
			fork := chainlab.CommonAncestor(at, a.Tip)
			dist = int(at.Height-fork.Height) + int(a.Tip.Height-fork.Height)
		}
		need := (dist + s.chunk - 1) / s.chunk
		for i := 0; i < need; i++ {
			if _, ok := s.poll(r, t, cm, cs); !ok {
				return
			}
		}
		if s.f.Index != a.Tip.L.State.Index {
			c := cs
			c.Sub, c.Chunk = s.id, s.chunk
			r.Violation("no-progress", fmt.Sprintf("subscriber did not reach the tip within ceil(%d/%d) polls", dist, s.chunk), c, nil)
			return
		}
		// one more poll must deliver nothing
		if n, ok := s.poll(r, t, cm, cs); !ok {
			return
		} else if n != 0 {
			r.Violation("updates-at-tip", "a subscriber at the tip received more updates", cs, nil)
			return
		}
		r.Count("ledger_comparisons", 1)
		if d := s.f.CompareLedger(a.Tip.L); d != "" {
			c := cs
			c.Sub, c.Chunk = s.id, s.chunk
			c.Nodes = describeTree(t)
			c.Calls = a.Log
			r.Violation("shadow-ledger-differs", "ledger folded from the update stream differs from the pure ledger of the tip: "+d, c, nil)
			return
		}
		r.Count("subscribers_completed", 1)
	}
	r.Eval()
	r.Count("reorgs_observed", a.Reorgs)
	r.Count("rollbacks_observed", a.Rollbacks)
	r.Distinct(fmt.Sprintf("c04/%s/%d/r%d", regime, stream, a.Reorgs))
	if stream%41 == 0 {
		r.Sample(map[string]any{"stream": stream, "regime": regime, "reorgs": a.Reorgs, "subscribers": len(subs), "chunks": chunks, "polls": subs[0].polls})
	}
}

// ---- concurrent mode ---------------------------------------------------------

type c04Op struct {
	Write bool
	Tip   types.BlockID // write: new tip; read: the index the poll ended on with fewer than max updates
}

var c04Model = porcupine.Model{
	Init: func() any { return types.BlockID{} },
	Step: func(state, input, output any) (bool, any) {
		op := input.(c04Op)
		if op.Write {
			return true, op.Tip
		}
		return state.(types.BlockID) == op.Tip, state
	},
	DescribeOperation: func(input, output any) string {
		op := input.(c04Op)
		if op.Write {
			return "tip<-" + op.Tip.String()[:8]
		}
		return "poll reached " + op.Tip.String()[:8]
	},
}

func runC04Concurrent(r *mon.Run, stream uint64) {
	rng := r.RNG(stream)
	regime := regimes[rng.IntN(3)]
	p := chainlab.RandomParams(regime, rng)
	env := chainlab.NewEnv(p)
	t := chainlab.NewTree(env, rng)
	t.Grow(36, chainlab.Profile{MaxTxns: 3})
	node, err := chainlab.NewTestNode(env, nil)
	if err != nil {
		r.Inconclusive(err.Error())
		return
	}
	cm := node.CM
	sched := t.RandomSchedule(rng)
	cs := c04Case{Stream: stream, Params: p}
	var clock atomic.Int64
	var hmu sync.Mutex
	var history []porcupine.Operation
	record := func(client int, in c04Op, call, ret int64) {
		hmu.Lock()
		history = append(history, porcupine.Operation{ClientId: client, Input: in, Call: call, Output: nil, Return: ret})
		hmu.Unlock()
	}
	genesisTip := t.Root.ID
	record(0, c04Op{Write: true, Tip: genesisTip}, clock.Add(1), clock.Add(1))
	nSubs := 4 + rng.IntN(9)
	chunks := []int{1, 2, 3, 7, 1000}
	done := make(chan struct{})
	var wg sync.WaitGroup
	var failed atomic.Bool
	subs := make([]*subscriber, nSubs)
	var notified atomic.Int64
	cancel := cm.OnReorg(func(types.ChainIndex) { notified.Add(1) })
	for i := range subs {
		subs[i] = &subscriber{id: i, chunk: chunks[rng.IntN(len(chunks))], f: chainlab.NewFollower()}
		wg.Add(1)
		go func(s *subscriber) {
			defer wg.Done()
			for {
				select {
				case <-done:
					return
				default:
				}
				from := s.f.Index
				call := clock.Add(1)
				rus, aus, err := cm.UpdatesSince(from, s.chunk)
				ret := clock.Add(1)
				r.Count("concurrent_polls", 1)
				if err != nil {
					r.Violation("updates-since-error:concurrent", "UpdatesSince failed for an index the subscriber reached earlier: "+err.Error(), cs, nil)
					failed.Store(true)
					return
				}
				// the tree is read-only while the pollers run
				end, problem := chainlab.CheckPoll(t, from, s.chunk, rus, aus)
				if problem != "" {
					r.Violation("update-path-not-contiguous:concurrent", problem, cs, nil)
					failed.Store(true)
					return
				}
				if err := s.f.Fold(rus, aus); err != nil {
					r.Violation("fold-failed:concurrent", err.Error(), cs, nil)
					failed.Store(true)
					return
				}
				if len(rus)+len(aus) < s.chunk && end != (types.ChainIndex{}) {
					// the call saw index == tip
					record(1+s.id, c04Op{Tip: end.ID}, call, ret)
				}
				if len(rus) > 0 {
					r.Count("concurrent_polls_with_reverts", 1)
				}
			}
		}(subs[i])
	}
	tip := genesisTip
	tipChanges := 0
	for _, batch := range sched {
		if failed.Load() {
			break
		}
		call := clock.Add(1)
		cm.AddBlocks(chainlab.Blocks(batch))
		ret := clock.Add(1)
		if nt := cm.Tip().ID; nt != tip {
			tip = nt
			tipChanges++
			record(0, c04Op{Write: true, Tip: nt}, call, ret)
		}
		if rng.IntN(3) == 0 {
			time.Sleep(time.Duration(rng.IntN(300)) * time.Microsecond)
		}
	}
	close(done)
	wg.Wait()
	cancel()
	if failed.Load() {
		return
	}
	if int(notified.Load()) != tipChanges {
		r.Violation("reorg-notification-count:concurrent", fmt.Sprintf("%d tip changes but %d notifications", tipChanges, notified.Load()), cs, nil)
	}
	tipNode := t.ByID[tip]
	for _, s := range subs {
		for i := 0; i < 5000 && s.f.Index != tipNode.L.State.Index; i++ {
			if _, ok := s.poll(r, t, cm, cs); !ok {
				return
			}
		}
		r.Count("ledger_comparisons", 1)
		if d := s.f.CompareLedger(tipNode.L); d != "" {
			c := cs
			c.Sub, c.Chunk = s.id, s.chunk
			r.Violation("shadow-ledger-differs:concurrent", "ledger folded from the update stream differs from the pure ledger of the tip: "+d, c, nil)
			return
		}
	}
	hmu.Lock()
	h := append([]porcupine.Operation(nil), history...)
	hmu.Unlock()
	res, _ := porcupine.CheckOperationsVerbose(c04Model, h, 60*time.Second)
	r.Count("porcupine_operations", len(h))
	switch res {
	case porcupine.Illegal:
		r.Count("porcupine_histories", 1)
		r.Violation("poll-not-linearizable", "a poll reported reaching an index as the tip that was not the tip at any moment during the call", cs, fmt.Sprintf("%d operations", len(h)))
	case porcupine.Unknown:
		// the checker ran out of time (loaded machine, long history): no verdict
		// for this history; the floor on decided histories guards the run
		r.Count("porcupine_histories_undecided_timeout", 1)
		r.Undecided(fmt.Sprintf("porcupine timed out on C04 history %d (%d operations)", stream, len(h)))
	default:
		r.Count("porcupine_histories", 1)
	}
	r.Eval()
	r.SetAdd("concurrent_interleavings", fmt.Sprintf("%d/%d/%d", stream, len(h), tipChanges))
	r.Distinct(fmt.Sprintf("c04c/%d/%d", stream, tipChanges))
}

func runC04(r *mon.Run, replay string) {
	r.Rule("generated fork-tree histories (incl. rolled-back reorgs) with a population of subscribers (start from nothing; chunk sizes 1,2,3,7,1000,PRNG; some polling rarely so that they sit on abandoned branches); every UpdatesSince result is checked for length <= max, reverts-first parent-by-parent contiguity, applies climbing one height, pure states; diffs and proof updates are folded into a shadow ledger compared with the pure ledger whenever the subscriber is at the tip; ceil(path/max) polls must reach the tip; OnReorg listeners (with churn) must be invoked exactly when the tip changed, with the new tip, also for tip changes that happen while a notification round is in progress (a listener submitting the next block from its callback; another goroutine submitting while a listener is busy); concurrent mode: pollers against a submitter under -race, reached-tip polls checked by porcupine against a register model of the tip")
	if st, ok := replayStream(replay); ok {
		if st >= 49800 {
			runC04Nested(r, st)
		} else if st >= 49500 {
			runC04Deep(r, st)
		} else if st >= 49000 {
			runC04Concurrent(r, st)
		} else {
			runC04History(r, st)
		}
		return
	}
	parallel(r.Pick(200, 3000), func(i int) { runC04History(r, uint64(40000+i)) })
	// concurrent histories run a few at a time so that pollers really overlap the submitter
	n := r.Pick(24, 300)
	var wg sync.WaitGroup
	sem := make(chan struct{}, 3)
	for i := 0; i < n; i++ {
		wg.Add(1)
		sem <- struct{}{}
		go func(i int) {
			defer wg.Done()
			defer func() { <-sem }()
			runC04Concurrent(r, uint64(49000+i))
		}(i)
	}
	wg.Wait()
	// long walks against deep reorgs, two histories at a time
	nd := r.Pick(6, 60)
	semD := make(chan struct{}, 2)
	for i := 0; i < nd; i++ {
		wg.Add(1)
		semD <- struct{}{}
		go func(i int) {
			defer wg.Done()
			defer func() { <-semD }()
			runC04Deep(r, uint64(49500+i))
		}(i)
	}
	wg.Wait()
	parallel(r.Pick(120, 1000), func(i int) { runC04Nested(r, uint64(49800+i)) })
	r.Floor("tip_changes_polled_from_inside_the_listener:AddValidatedV2Blocks", 30)
	r.Floor("tip_changes_polled_from_inside_the_listener:AddBlocks", 30)
	r.Floor("tip_changes_during_a_notification_round:listener-submits-next-block", 50)
	r.Floor("tip_changes_during_a_notification_round:second-submitter-during-slow-listener", 50)
	r.Floor("polls_returning_more_than_64_updates", 50)
	r.Floor("applied_blocks_redelivered_prevalidated", 20)
	r.Floor("polls_reverting_more_than_64_blocks", 5)
	r.Floor("polls_with_reverts", 100)
	r.Floor("ledger_comparisons", 500)
	r.Floor("reorg_notifications_checked", 200)
	r.Floor("concurrent_polls", 1000)
	r.Floor("porcupine_histories", 10)
}
