package main

import (
	"fmt"

	"verif/harness/lab/chainlab"
	"verif/harness/mon"
)

// runNearTieScenario: networks whose per-block difficulty is large enough for
// the "sufficiently heavier" margin (a fifth of the tip's difficulty) to be
// non-zero. Two forks grow in lock-step from the same fork point with
// different timestamps, so that after each submission the other fork is ahead
// by less than the margin, by nothing, or by a whole block. The auditor's
// prediction uses consensus.State.SufficientlyHeavierThan alone.
func runNearTieScenario(r *mon.Run, stream uint64) {
	rng := r.RNG(stream)
	regime := []string{"v2only", "v2only", "mix"}[rng.IntN(3)]
	p := chainlab.RandomParams(regime, rng)
	p.HiDiff = true
	env := chainlab.NewEnv(p)
	t := chainlab.NewTree(env, rng)
	cs := chainCase{Kind: "near-tie", Stream: stream, Params: p}
	prof := chainlab.Profile{MaxTxns: 2}
	tip := t.Root
	pre := 3 + rng.IntN(8)
	if regime == "mix" {
		pre = int(p.FinalCut) + 1 + rng.IntN(4)
	}
	for i := 0; i < pre; i++ {
		tip = t.Extend(tip, prof)
	}
	node, err := chainlab.NewTestNode(env, nil)
	if err != nil {
		r.Inconclusive(err.Error())
		return
	}
	a := chainlab.NewAuditor(t, node)
	a.Deep = true
	step := func(batch []*chainlab.Node, validated bool) bool {
		last := batch[len(batch)-1]
		if last.ChainValid && a.Tip != last {
			switch c := last.L.State.TotalWork.Cmp(a.Tip.L.State.TotalWork); {
			case last.L.State.SufficientlyHeavierThan(a.Tip.L.State):
				r.Count("near_tie:submitted_sufficiently_heavier", 1)
			case c > 0:
				r.Count("near_tie:submitted_heavier_within_margin", 1)
			case c == 0:
				r.Count("near_tie:submitted_equal_work", 1)
			default:
				r.Count("near_tie:submitted_lighter", 1)
			}
		}
		var fs []chainlab.Finding
		if validated {
			var err error
			if err, fs = a.SubmitValidated(batch); err == chainlab.ErrNoState {
				return true
			}
		} else {
			_, fs = a.Submit(batch)
		}
		r.Count("calls_audited", 1)
		if len(fs) > 0 {
			reportFindings(r, cs, t, a, fs)
			return false
		}
		return true
	}
	if !step(tip.PathFromGenesis(), false) {
		return
	}
	above := tip.Height >= p.Require // every fork block is a v2 block
	// two (sometimes three) forks leap-frogging each other
	nf := 2 + rng.IntN(2)
	heads := make([]*chainlab.Node, nf)
	pending := make([][]*chainlab.Node, nf)
	for i := range heads {
		heads[i] = tip
	}
	rounds := 3 + rng.IntN(4)
	for round := 0; round < rounds; round++ {
		for i := range heads {
			grow := 1
			if rng.IntN(5) == 0 {
				grow = 2
			}
			for g := 0; g < grow; g++ {
				heads[i] = t.Extend(heads[i], prof)
				pending[i] = append(pending[i], heads[i])
			}
			// sometimes hold blocks back and deliver them with the next round
			if rng.IntN(4) == 0 && round < rounds-1 {
				continue
			}
			if !step(pending[i], above && rng.IntN(2) == 0) {
				return
			}
			pending[i] = nil
		}
	}
	if fs := a.AuditChain(); len(fs) > 0 {
		reportFindings(r, cs, t, a, fs)
		return
	}
	r.Eval()
	r.Count("near_tie_histories", 1)
	r.Count("reorgs_observed", a.Reorgs)
	r.Distinct(fmt.Sprintf("neartie/%s/%d/f%d/r%d/re%d", regime, stream, nf, rounds, a.Reorgs))
}

// runGhostScenario: a fork whose lower part was only header-checked (submitted
// with AddBlocks while it was not heavy enough to be validated) and contains a
// block that is invalid although its header is fine; the upper part arrives as
// a pre-validated batch (valid relative to the states a checkpoint-synced peer
// derived for it) and makes the fork the heaviest chain. The reorg has to fail
// at the stored invalid block and leave everything as it was.
func runGhostScenario(r *mon.Run, stream uint64) {
	rng := r.RNG(stream)
	regime := []string{"mix", "v2only"}[rng.IntN(2)]
	p := chainlab.RandomParams(regime, rng)
	p.HiDiff = rng.IntN(3) == 0
	env := chainlab.NewEnv(p)
	t := chainlab.NewTree(env, rng)
	cs := chainCase{Kind: "prevalidated-on-invalid-ancestor", Stream: stream, Params: p}
	prof := chainlab.Profile{MaxTxns: 3}
	k := 1 + rng.IntN(4)
	tip := t.Root
	for tip.Height < p.Require+uint64(k)+uint64(rng.IntN(3)) {
		tip = t.Extend(tip, prof)
	}
	node, err := chainlab.NewTestNode(env, nil)
	if err != nil {
		r.Inconclusive(err.Error())
		return
	}
	a := chainlab.NewAuditor(t, node)
	a.Deep = true
	check := func(fs []chainlab.Finding) bool {
		r.Count("calls_audited", 1)
		if len(fs) > 0 {
			reportFindings(r, cs, t, a, fs)
			return false
		}
		return true
	}
	if _, fs := a.Submit(tip.PathFromGenesis()); !check(fs) {
		return
	}
	fork := tip.Ancestor(tip.Height - uint64(k))
	// lower part: d-1 valid blocks and one invalid block with a valid header
	x := fork
	var lower []*chainlab.Node
	for i := 0; i < rng.IntN(2) && i < k-1; i++ {
		x = t.Extend(x, prof)
		lower = append(lower, x)
	}
	var bad *chainlab.Node
	ops := []string{"v2-commitment", "v2-commitment", "double-spend", "output-inflate", "sig-bit", "missing-input", "dup-txn", "proof-leaf"}
	for try := 0; try < 12 && bad == nil; try++ {
		good := t.Extend(x, chainlab.Profile{MaxTxns: 4})
		c := t.Corrupt(good, ops[rng.IntN(len(ops))], true)
		if c != nil && c.OrphanValid && !c.Valid && t.GhostLedger(c) != nil {
			bad = c
		}
	}
	if bad == nil {
		r.Count("scenario_skipped_no_body_invalid_block", 1)
		return
	}
	lower = append(lower, bad)
	// upper part: valid relative to the unvalidated chain below it
	var upper []*chainlab.Node
	y := bad
	for i := 0; i < k+1+rng.IntN(3); i++ {
		n := t.ExtendGhost(y, prof)
		if n == nil {
			break
		}
		y = n
		upper = append(upper, n)
	}
	if len(upper) == 0 {
		r.Count("scenario_skipped_no_ghost_continuation", 1)
		return
	}
	heavier := y.State().SufficientlyHeavierThan(tip.L.State)
	// the lower part through AddBlocks (stored, not validated unless it is already heavier)
	if _, fs := a.Submit(lower); !check(fs) {
		return
	}
	// the upper part pre-validated, in one or two pieces, then once more
	cut := rng.IntN(len(upper) + 1)
	for _, part := range [][]*chainlab.Node{upper[:cut], upper[cut:], upper} {
		if len(part) == 0 {
			continue
		}
		err, fs := a.SubmitValidated(part)
		if err == chainlab.ErrNoState {
			return
		}
		if !check(fs) {
			return
		}
	}
	if heavier {
		r.Count("prevalidated_on_invalid_ancestor:was_heavier", 1)
	}
	// a valid fork from the same fork point wins afterwards
	v := fork
	var valid []*chainlab.Node
	for i := 0; i < len(lower)+len(upper)+2; i++ {
		v = t.Extend(v, prof)
		valid = append(valid, v)
	}
	if rng.IntN(2) == 0 {
		if _, fs := a.Submit(valid); !check(fs) {
			return
		}
	} else if err, fs := a.SubmitValidated(valid); err != chainlab.ErrNoState && !check(fs) {
		return
	}
	if fs := a.AuditChain(); !check(fs) {
		return
	}
	r.Eval()
	r.Count("prevalidated_on_invalid_ancestor", 1)
	r.Count("reorgs_observed", a.Reorgs)
	r.Count("rollbacks_observed:prevalidated", a.Rollbacks)
	r.SetAdd("ghost_corruptions", bad.Corruption)
	r.Distinct(fmt.Sprintf("ghost/%s/%d/k%d/l%d/u%d/%s", regime, stream, k, len(lower), len(upper), bad.Corruption))
}

// runOakBoundaryScenario: a network whose Oak hardfork is at height 500 (the
// pre-Oak algorithm adjusts the target every 500 blocks against the timestamp
// of an ancestor, the Oak algorithm does not use one). The chain, and forks
// reorged across that height, are audited state by state against the pure
// replay, so a wrong ancestor timestamp at the boundary shows as a differing
// tip state.
func runOakBoundaryScenario(r *mon.Run, stream uint64) {
	rng := r.RNG(stream)
	p := chainlab.RandomParams("v1only", rng)
	p.HiDiff = true
	p.OakHeight = 500
	env := chainlab.NewEnv(p)
	t := chainlab.NewTree(env, rng)
	cs := chainCase{Kind: "oak-boundary", Stream: stream, Params: p}
	prof := chainlab.Profile{MaxTxns: 1, NoContracts: true}
	tip := t.Root
	var fork *chainlab.Node
	forkAt := uint64(494 + rng.IntN(6))
	for tip.Height < 506 {
		if tip.Height%25 == 0 || tip.Height > 480 {
			tip = t.Extend(tip, prof)
		} else {
			tip = t.ExtendEmpty(tip, zeroT)
		}
		if !tip.ChainValid {
			r.Inconclusive("generator built an invalid block near the Oak boundary: " + tip.Err)
			return
		}
		if tip.Height == forkAt {
			fork = tip
		}
	}
	node, err := chainlab.NewTestNode(env, nil)
	if err != nil {
		r.Inconclusive(err.Error())
		return
	}
	a := chainlab.NewAuditor(t, node)
	step := func(batch []*chainlab.Node) bool {
		_, fs := a.Submit(batch)
		r.Count("calls_audited", 1)
		if len(fs) > 0 {
			reportFindings(r, cs, nil, a, fs)
			return false
		}
		return true
	}
	path := tip.PathFromGenesis()
	// in a few batches up to 490, then block by block across the boundary
	for i := 0; i < 490; i += 70 {
		if !step(path[i:min(i+70, 490)]) {
			return
		}
	}
	for i := 490; i < len(path); i++ {
		if !step(path[i : i+1]) {
			return
		}
	}
	// a heavier fork that crosses the boundary with other timestamps
	x := fork
	var fk []*chainlab.Node
	for x.Height < tip.Height+2 {
		x = t.Extend(x, prof)
		fk = append(fk, x)
	}
	if !step(fk) {
		return
	}
	if fs := a.AuditChain(); len(fs) > 0 {
		reportFindings(r, cs, nil, a, fs)
		return
	}
	r.Eval()
	r.Count("oak_boundary_histories", 1)
	r.Count("reorgs_observed", a.Reorgs)
	r.Distinct(fmt.Sprintf("oak/%d/%d", stream, forkAt))
}

// runHeavyShortScenario: on a network with a real difficulty the heaviest chain
// need not be the longest. Branch A is mined fast (its difficulty climbs 0.4 %
// per block), branch B slowly (its difficulty falls), so that a shorter A
// outweighs a longer B. The node must follow work, not height - in both
// directions of submission and through both submission paths.
func runHeavyShortScenario(r *mon.Run, stream uint64) {
	rng := r.RNG(stream)
	p := chainlab.RandomParams("v2only", rng)
	p.HiDiff = true
	env := chainlab.NewEnv(p)
	t := chainlab.NewTree(env, rng)
	cs := chainCase{Kind: "heaviest-is-not-longest", Stream: stream, Params: p}
	trunk := t.Root
	for i := 0; i < 4+rng.IntN(5); i++ {
		trunk = t.Extend(trunk, chainlab.Profile{MaxTxns: 2})
	}
	la := 30 + rng.IntN(12)
	lb := la + 1 + rng.IntN(3)
	a, b := trunk, trunk
	var pa, pb []*chainlab.Node
	iv := env.Net.BlockInterval
	for i := 0; i < la; i++ {
		a = t.ExtendEmpty(a, a.Block.Timestamp.Add(iv/3))
		pa = append(pa, a)
	}
	for i := 0; i < lb; i++ {
		b = t.ExtendEmpty(b, b.Block.Timestamp.Add(iv*3))
		pb = append(pb, b)
	}
	if !a.ChainValid || !b.ChainValid {
		r.Inconclusive("generator built an invalid long branch: " + a.Err + b.Err)
		return
	}
	if !(a.Height < b.Height && a.L.State.SufficientlyHeavierThan(b.L.State)) {
		r.Count("heavy_short:shape_not_reached", 1)
		return
	}
	node, err := chainlab.NewTestNode(env, nil)
	if err != nil {
		r.Inconclusive(err.Error())
		return
	}
	au := chainlab.NewAuditor(t, node)
	step := func(batch []*chainlab.Node, validated bool) bool {
		var fs []chainlab.Finding
		if validated {
			_, fs = au.SubmitValidated(batch)
		} else {
			_, fs = au.Submit(batch)
		}
		r.Count("calls_audited", 1)
		if len(fs) > 0 {
			reportFindings(r, cs, nil, au, fs)
			return false
		}
		return true
	}
	if !step(trunk.PathFromGenesis(), false) {
		return
	}
	first, second := pb, pa // the longer, lighter branch first
	if rng.IntN(3) == 0 {
		first, second = pa, pb // or the heavy one first: the longer one must then be ignored
	}
	if !step(first, rng.IntN(2) == 0) {
		return
	}
	// the second branch in two pieces
	cut := 1 + rng.IntN(len(second)-1)
	if !step(second[:cut], false) || !step(second[cut:], rng.IntN(2) == 0) {
		return
	}
	if au.Tip != a {
		r.Violation("heaviest-not-adopted", fmt.Sprintf("the node is on node %d (height %d), the heaviest valid chain ends at node %d (height %d)", au.Tip.Idx, au.Tip.Height, a.Idx, a.Height), cs, nil)
		return
	}
	r.Eval()
	r.Count("heaviest_shorter_than_longest_histories", 1)
	r.Distinct(fmt.Sprintf("heavyshort/%d/%d/%d", stream, la, lb))
}
