package main

import (
	"fmt"
	"math/rand/v2"
	"sort"

	"go.sia.tech/core/types"
	"go.sia.tech/coreutils/chain"
	"verif/harness/lab/chainlab"
	"verif/harness/mon"
)

func init() { register("C13", "exploration", runC13) }

type c13Case struct {
	Stream uint64          `json:"rng_stream"`
	Params chainlab.Params `json:"params"`
	From   int             `json:"from_node"`
	To     int             `json:"to_node"`
	Revert int             `json:"revert_len"`
	Apply  int             `json:"apply_len"`
	Set    []string        `json:"set"`
	Mut    string          `json:"mutation,omitempty"`
	Nodes  []nodeDesc      `json:"nodes,omitempty"`
}

// createdOnChain returns the set of element ids ever created on the chain
// ending at n (memoised per node).
func createdOnChain(memo map[*chainlab.Node]map[types.Hash256]bool, n *chainlab.Node) map[types.Hash256]bool {
	if m, ok := memo[n]; ok {
		return m
	}
	m := map[types.Hash256]bool{}
	if n.Parent != nil {
		for k := range createdOnChain(memo, n.Parent) {
			m[k] = true
		}
	}
	for k := range chainlab.NodeTouched(n).Created {
		m[k] = true
	}
	if n.Parent == nil && n.L != nil {
		for id := range n.L.SC {
			m[types.Hash256(id)] = true
		}
		for id := range n.L.SF {
			m[types.Hash256(id)] = true
		}
	}
	memo[n] = m
	return m
}

func describeV2Set(set []types.V2Transaction) []string {
	var out []string
	for _, t := range set {
		s := t.ID().String()[:12]
		for _, in := range t.SiacoinInputs {
			if in.Parent.StateElement.LeafIndex == types.UnassignedLeafIndex {
				s += " eph"
			} else {
				s += fmt.Sprintf(" l%d", in.Parent.StateElement.LeafIndex)
			}
		}
		s += fmt.Sprintf(" rev%d res%d sf%d", len(t.FileContractRevisions), len(t.FileContractResolutions), len(t.SiafundInputs))
		out = append(out, s)
	}
	return out
}

func stateElemEq(a, b types.StateElement) bool {
	if a.LeafIndex != b.LeafIndex || len(a.MerkleProof) != len(b.MerkleProof) {
		return false
	}
	for i := range a.MerkleProof {
		if a.MerkleProof[i] != b.MerkleProof[i] {
			return false
		}
	}
	return true
}

// buildV2Set creates a set valid at node from: spends (with ephemeral
// chains), siafund spends, contract formation/revision/resolution.
func buildV2Set(t *chainlab.Tree, from *chainlab.Node, rng *rand.Rand) []types.V2Transaction {
	b := from.L.NewBuilder(rng)
	if !b.V2Allowed() {
		return nil
	}
	n := 1 + rng.IntN(4)
	for i := 0; i < n; i++ {
		prof := chainlab.Profile{MaxTxns: 2}
		// reuse the tree's body generator but keep only v2 transactions
		save := t.Rng
		t.Rng = rng
		t.RandomBody(b, prof)
		t.Rng = save
	}
	if len(b.Txns) > 0 {
		// v2 transactions may depend on v1 ones built before them; rebuild without v1
		b2 := from.L.NewBuilder(rng)
		for _, x := range b.V2Txns {
			b2.TryV2("copy", x.DeepCopy())
		}
		return b2.V2Txns
	}
	return b.V2Txns
}

func runC13Tree(r *mon.Run, stream uint64) {
	rng := r.RNG(stream)
	regime := []string{"mix", "v2only", "v2only"}[rng.IntN(3)]
	p := chainlab.RandomParams(regime, rng)
	env := chainlab.NewEnv(p)
	t := chainlab.NewTree(env, rng)
	t.Grow(24+rng.IntN(12), chainlab.Profile{MaxTxns: 4})
	node, err := chainlab.NewTestNode(env, nil)
	if err != nil {
		r.Inconclusive(err.Error())
		return
	}
	// branches are submitted lightest first, so that most of them become the
	// best chain for a while: only indices that were applied at some point carry
	// full states and supplements (the API's notion of a usable basis)
	tips := t.Tips()
	sort.Slice(tips, func(i, j int) bool { return tips[i].State().TotalWork.Cmp(tips[j].State().TotalWork) < 0 })
	applied := map[*chainlab.Node]bool{}
	for _, tip := range tips {
		if err := node.CM.AddBlocks(chainlab.Blocks(tip.PathFromGenesis())); err != nil {
			r.Violation("setup", "node rejected a valid chain: "+err.Error(), nil, nil)
			return
		}
		for n := t.ByID[node.CM.Tip().ID]; n != nil; n = n.Parent {
			applied[n] = true
		}
	}
	cm := node.CM
	memo := map[*chainlab.Node]map[types.Hash256]bool{}
	var cands []*chainlab.Node
	for _, n := range t.Nodes {
		if n.ChainValid && applied[n] && n.Height+1 >= p.Allow {
			cands = append(cands, n)
		}
	}
	if len(cands) < 2 {
		return
	}
	// a stored-but-never-applied side branch (lighter than the tip): the node
	// holds its blocks without supplements and only header-derived states. A
	// rebase onto (or from) it may be refused, but a success must be correct.
	var unapplied []*chainlab.Node
	if ft := t.ByID[cm.Tip().ID]; ft != nil && ft.Height > p.Allow+5 {
		x := ft.Ancestor(ft.Height - 4)
		var side []*chainlab.Node
		for i := 0; i < 3; i++ {
			x = t.Extend(x, chainlab.Profile{MaxTxns: 4})
			side = append(side, x)
		}
		if x.ChainValid && !x.L.State.SufficientlyHeavierThan(ft.L.State) {
			if err := cm.AddBlocks(chainlab.Blocks(side)); err == nil && cm.Tip().ID == ft.ID {
				unapplied = side[1:]
			}
		}
	}
	base := c13Case{Stream: stream, Params: p}
	nPairs := 14
	for pi := 0; pi < nPairs; pi++ {
		from := cands[rng.IntN(len(cands))]
		to := cands[rng.IntN(len(cands))]
		if pi%5 == 0 {
			to = from
		}
		toUnapplied := false
		if pi%7 == 3 && len(unapplied) > 0 {
			to = unapplied[rng.IntN(len(unapplied))]
			toUnapplied = true
		}
		set := buildV2Set(t, from, rng)
		if len(set) == 0 {
			continue
		}
		fork := chainlab.CommonAncestor(from, to)
		var revert, apply []*chainlab.Node
		for n := from; n != fork; n = n.Parent {
			revert = append(revert, n)
		}
		for n := to; n != fork; n = n.Parent {
			apply = append(apply, n)
		}
		cs := base
		cs.From, cs.To, cs.Revert, cs.Apply, cs.Set = from.Idx, to.Idx, len(revert), len(apply), describeV2Set(set)
		// optional corruption of a proof / leaf index / basis
		mut := ""
		in := make([]types.V2Transaction, len(set))
		for i := range set {
			in[i] = set[i].DeepCopy()
		}
		fromIdx, toIdx := from.L.State.Index, to.L.State.Index
		if rng.IntN(4) == 0 {
			switch rng.IntN(4) {
			case 0:
				for i := range in {
					for j := range in[i].SiacoinInputs {
						se := &in[i].SiacoinInputs[j].Parent.StateElement
						if len(se.MerkleProof) > 0 && mut == "" {
							se.MerkleProof[rng.IntN(len(se.MerkleProof))][rng.IntN(32)] ^= 1 << rng.IntN(8)
							mut = "proof-bit"
						}
					}
				}
			case 1:
				for i := range in {
					for j := range in[i].SiacoinInputs {
						se := &in[i].SiacoinInputs[j].Parent.StateElement
						if se.LeafIndex != types.UnassignedLeafIndex && mut == "" {
							se.LeafIndex += uint64(1 + rng.IntN(1000))
							mut = "leaf-index"
						}
					}
				}
			case 2:
				fromIdx.ID[rng.IntN(32)] ^= 1 << rng.IntN(8)
				mut = "unknown-basis"
			default:
				fromIdx.Height += uint64(1 + rng.IntN(5))
				mut = "basis-height"
			}
		}
		cs.Mut = mut
		imgs := make([]string, len(in))
		for i := range in {
			imgs[i] = chainlab.EncodeV2(in[i])
		}
		var out []types.V2Transaction
		var uerr error
		if pn := mon.Guard(func() { out, uerr = cm.UpdateV2TransactionSet(in, fromIdx, toIdx) }); pn != nil {
			c := cs
			c.Nodes = describeTree(t)
			r.Violation("update-panic:"+orNone(mut), fmt.Sprint("UpdateV2TransactionSet panicked: ", pn), c, nil)
			return
		}
		r.Eval()
		r.Count("updates:"+orNone(mut), 1)
		if toUnapplied {
			if uerr != nil {
				r.Count("updates_onto_unapplied_branch:refused", 1)
				continue
			}
			// a success is judged like any other update (below)
			r.Count("updates_onto_unapplied_branch:succeeded", 1)
		}
		if from == to && mut == "" {
			for i := range in {
				if chainlab.EncodeV2(in[i]) != imgs[i] {
					r.Violation("caller-memory-modified:update-same-index", "UpdateV2TransactionSet(from == to) modified the caller's transactions", cs, nil)
				}
			}
		}
		switch mut {
		case "proof-bit", "leaf-index", "unknown-basis":
			if uerr == nil {
				r.Violation("corrupt-input-accepted:"+mut, "UpdateV2TransactionSet succeeded on a set whose "+mut+" was corrupted", cs, nil)
			}
			continue
		case "basis-height":
			if uerr != nil {
				continue // no verdict on whether a wrong height must be refused; a success must still be correct
			}
		}
		// expectation from the pure ledgers
		confirmed := map[types.TransactionID]bool{}
		for _, n := range apply {
			for _, x := range n.Block.V2Transactions() {
				confirmed[x.ID()] = true
			}
		}
		ever := createdOnChain(memo, to)
		// ids created by reverted blocks: such an element instance is gone even if
		// an element with the same id (contract payout, same transaction mined on
		// both forks) exists at the target; refusing it is acceptable, accepting it
		// must still be correct
		revCreated := map[types.Hash256]bool{}
		for _, n := range revert {
			for id := range chainlab.NodeTouched(n).Created {
				revCreated[id] = true
			}
		}
		errAllowed := false
		var want []types.V2Transaction
		created := map[types.Hash256]bool{} // by transactions of the remaining set
		expectErr, noVerdict := false, false
		for _, x := range set {
			if confirmed[x.ID()] {
				continue
			}
			want = append(want, x)
		}
		for _, x := range want {
			for _, pid := range chainlab.V2Parents(x) {
				inLedger := false
				if _, ok := to.L.SC[types.SiacoinOutputID(pid)]; ok {
					inLedger = true
				} else if _, ok := to.L.SF[types.SiafundOutputID(pid)]; ok {
					inLedger = true
				} else if e, ok := to.L.V2FC[types.FileContractID(pid)]; ok {
					inLedger = true
					// a contract revised along the way is a different leaf: no verdict
					for _, rev := range x.FileContractRevisions {
						if rev.Parent.ID == e.ID && chainlab.EncodeContract(rev.Parent.V2FileContract) != chainlab.EncodeContract(e.V2FileContract) {
							noVerdict = true
						}
					}
					for _, res := range x.FileContractResolutions {
						if res.Parent.ID == e.ID && chainlab.EncodeContract(res.Parent.V2FileContract) != chainlab.EncodeContract(e.V2FileContract) {
							noVerdict = true
						}
					}
				}
				switch {
				case inLedger && revCreated[pid]:
					errAllowed = true
				case inLedger:
				case created[pid]: // still-ephemeral parent inside the set
				case !ever[pid]:
					expectErr = true // never existed on the chain of `to`
				default:
					noVerdict = true // existed there but was spent by something else
				}
			}
			for _, c := range chainlab.V2Creates(x) {
				created[c] = true
			}
			for _, res := range x.FileContractResolutions {
				if sp, ok := res.Resolution.(*types.V2StorageProof); ok {
					h := sp.ProofIndex.ChainIndex.Height
					if h >= uint64(len(to.L.CI)) || to.L.CI[h].ID != sp.ProofIndex.ID {
						expectErr = true // the proof index block is not on the chain of `to`
					}
				}
			}
		}
		if len(revert)+len(apply) > 144 {
			continue
		}
		if noVerdict {
			r.Count("updates_no_verdict_conflict", 1)
			continue
		}
		if expectErr {
			r.Count("updates_expect_error", 1)
			if uerr == nil {
				c := cs
				c.Nodes = describeTree(t)
				r.Violation("missing-element-accepted", "UpdateV2TransactionSet succeeded although an input's element was never created on the chain of the target index", c, describeV2Set(out))
			}
			continue
		}
		if uerr != nil && errAllowed {
			r.Count("updates_error_allowed_recreated_element", 1)
			continue
		}
		if uerr != nil {
			c := cs
			c.Nodes = describeTree(t)
			r.Violation("valid-set-rejected", "UpdateV2TransactionSet failed on a set whose elements all exist at the target: "+uerr.Error(), c, nil)
			continue
		}
		if len(revert)+len(apply) > 0 {
			r.Count("updates_checked_across_blocks", 1)
			r.Distinct(fmt.Sprintf("c13/%d/%d/r%d/a%d/n%d", stream, pi, len(revert), len(apply), len(want)))
			if len(revert) > 0 && len(apply) > 0 {
				r.Count("updates_across_forks", 1)
			}
		}
		if len(out) != len(want) {
			c := cs
			c.Nodes = describeTree(t)
			r.Violation("result-set-differs", fmt.Sprintf("result has %d transactions, expected %d (input minus confirmed)", len(out), len(want)), c, describeV2Set(out))
			continue
		}
		for i := range want {
			if out[i].ID() != want[i].ID() {
				r.Violation("result-order-differs", "result is not the input minus confirmed transactions in the same order", cs, describeV2Set(out))
				break
			}
			// every parent element must carry the ledger's leaf index and proof at `to`
			bad := ""
			for j, sci := range out[i].SiacoinInputs {
				if e, ok := to.L.SC[sci.Parent.ID]; ok {
					if !stateElemEq(sci.Parent.StateElement, e.StateElement) {
						bad = fmt.Sprintf("siacoin input %d: leaf %d proof-len %d, ledger leaf %d proof-len %d", j, sci.Parent.StateElement.LeafIndex, len(sci.Parent.StateElement.MerkleProof), e.StateElement.LeafIndex, len(e.StateElement.MerkleProof))
					}
					if want[i].SiacoinInputs[j].Parent.StateElement.LeafIndex == types.UnassignedLeafIndex {
						r.Count("ephemeral_inputs_became_confirmed", 1)
					}
				} else if sci.Parent.StateElement.LeafIndex != types.UnassignedLeafIndex {
					bad = fmt.Sprintf("siacoin input %d should still be ephemeral", j)
				} else {
					r.Count("ephemeral_inputs_still_ephemeral", 1)
				}
			}
			for j, sfi := range out[i].SiafundInputs {
				if e, ok := to.L.SF[sfi.Parent.ID]; ok && !stateElemEq(sfi.Parent.StateElement, e.StateElement) {
					bad = fmt.Sprintf("siafund input %d proof differs from the ledger", j)
				}
			}
			for j, rev := range out[i].FileContractRevisions {
				if e, ok := to.L.V2FC[rev.Parent.ID]; ok && !stateElemEq(rev.Parent.StateElement, e.StateElement) {
					bad = fmt.Sprintf("revision %d parent proof differs from the ledger", j)
				}
			}
			for j, res := range out[i].FileContractResolutions {
				if e, ok := to.L.V2FC[res.Parent.ID]; ok && !stateElemEq(res.Parent.StateElement, e.StateElement) {
					bad = fmt.Sprintf("resolution %d parent proof differs from the ledger", j)
				}
				if sp, ok := res.Resolution.(*types.V2StorageProof); ok {
					h := sp.ProofIndex.ChainIndex.Height
					if h < uint64(len(to.L.CI)) && !stateElemEq(sp.ProofIndex.StateElement, to.L.CI[h].StateElement) {
						bad = fmt.Sprintf("resolution %d storage-proof chain index element differs from the ledger", j)
					}
					r.Count("storage_proof_indices_checked", 1)
				}
			}
			if bad != "" {
				c := cs
				c.Nodes = describeTree(t)
				r.Violation("proof-differs-from-ledger", "an updated input does not carry the ledger's leaf index and Merkle proof at the target: "+bad, c, nil)
				break
			}
		}
		// and the accumulator agrees
		for _, x := range out {
			if err := to.L.State.Elements.ValidateTransactionElements(x); err != nil {
				r.Violation("updated-proof-invalid", "an updated transaction does not verify against the target accumulator: "+err.Error(), cs, nil)
				break
			}
		}
		if stream%31 == 0 && pi == 1 {
			r.Sample(cs)
		}
	}
	// "minus those confirmed along the way": part of a set gets mined on top of the tip
	for i := 0; i < 3; i++ {
		c13Confirm(r, t, node, rng, base)
	}
	// V2TransactionSet / AddV2PoolTransactions at the tip
	c13Broadcast(r, t, cm, rng, base)
	// ... and as the first pool call after a tip change
	for i := 0; i < 2; i++ {
		c13Lazy(r, t, node, rng, base)
	}
}

func orNone(s string) string {
	if s == "" {
		return "none"
	}
	return s
}

func c13Broadcast(r *mon.Run, t *chainlab.Tree, cm *chain.Manager, rng *rand.Rand, base c13Case) {
	tipN := t.ByID[cm.Tip().ID]
	if tipN == nil || !tipN.ChainValid || tipN.Height+1 < t.Env.Net.HardforkV2.AllowHeight {
		return
	}
	// a dependency chain: submit parents to the pool, then ask for the set of the last child
	// the pool may already hold transactions re-offered from reverted blocks
	pre := snapPool(cm)
	b, _ := tipN.L.PoolBuilder(rng, pre.v1, pre.v2)
	m1, m2 := len(b.Txns), len(b.V2Txns)
	b.EphFloor = len(b.Eph) // the submitted set must contain its own parents
	for i := 0; i < 6; i++ {
		b.V2Spend(t.Env.Actors[rng.IntN(len(t.Env.Actors))], 0.8)
	}
	_, fresh := b.TakeNew(&m1, &m2)
	if len(fresh) < 2 {
		return
	}
	parents, child := fresh[:len(fresh)-1], fresh[len(fresh)-1]
	imgs := make([]string, len(parents))
	for i := range parents {
		imgs[i] = chainlab.EncodeV2(parents[i])
	}
	if _, err := cm.AddV2PoolTransactions(tipN.L.State.Index, parents); err != nil {
		r.Count("broadcast_parents_rejected", 1)
		return
	}
	for i := range parents {
		if chainlab.EncodeV2(parents[i]) != imgs[i] {
			r.Violation("caller-memory-modified:add", "AddV2PoolTransactions modified the caller's transactions", base, nil)
		}
	}
	cimg := chainlab.EncodeV2(child)
	var basis types.ChainIndex
	var set []types.V2Transaction
	var err error
	if pn := mon.Guard(func() { basis, set, err = cm.V2TransactionSet(tipN.L.State.Index, child) }); pn != nil {
		r.Violation("txnset-panic", fmt.Sprint("V2TransactionSet panicked: ", pn), base, nil)
		return
	}
	r.Count("broadcast_sets", 1)
	if chainlab.EncodeV2(child) != cimg {
		r.Violation("caller-memory-modified:txnset", "V2TransactionSet modified the caller's transaction", base, nil)
	}
	if err != nil {
		r.Violation("txnset-error", "V2TransactionSet failed for a valid child of pooled parents: "+err.Error(), base, nil)
		return
	}
	if basis != tipN.L.State.Index {
		r.Violation("txnset-basis", fmt.Sprintf("V2TransactionSet returned basis %v, tip is %v", basis, tipN.L.State.Index), base, nil)
	}
	if len(set) == 0 || set[len(set)-1].ID() != child.ID() {
		r.Violation("txnset-last", "V2TransactionSet does not end with the requested transaction", base, describeV2Set(set))
		return
	}
	// parents before children, every pooled ancestor present
	made := map[types.Hash256]bool{}
	for _, x := range set {
		for _, in := range x.SiacoinInputs {
			if in.Parent.StateElement.LeafIndex == types.UnassignedLeafIndex && !made[types.Hash256(in.Parent.ID)] {
				r.Violation("txnset-order", "V2TransactionSet lists a child before the pooled parent that creates its ephemeral input (or omits the parent)", base, describeV2Set(set))
				return
			}
		}
		for _, c := range chainlab.V2Creates(x) {
			made[c] = true
		}
	}
	if len(set) > 1 {
		r.Count("broadcast_sets_with_parents", 1)
		r.Distinct(fmt.Sprintf("bcast/%d/%d", base.Stream, len(set)))
	}
	if _, err := cm.AddV2PoolTransactions(basis, set); err != nil {
		r.Violation("txnset-not-accepted", "the set returned by V2TransactionSet is not accepted by the pool: "+err.Error(), base, describeV2Set(set))
	}
	// invalid proofs are refused here too, also with the tip itself as basis
	bad := child.DeepCopy()
	mut := ""
	for j := range bad.SiacoinInputs {
		se := &bad.SiacoinInputs[j].Parent.StateElement
		if se.LeafIndex == types.UnassignedLeafIndex || mut != "" {
			continue
		}
		if len(se.MerkleProof) > 0 && rng.IntN(2) == 0 {
			se.MerkleProof[rng.IntN(len(se.MerkleProof))][rng.IntN(32)] ^= 1 << rng.IntN(8)
			mut = "proof-bit"
		} else {
			se.LeafIndex += uint64(1 + rng.IntN(1000))
			mut = "leaf-index"
		}
	}
	if mut != "" {
		var berr error
		if pn := mon.Guard(func() { _, _, berr = cm.V2TransactionSet(tipN.L.State.Index, bad) }); pn != nil {
			r.Violation("txnset-panic:"+mut, fmt.Sprint("V2TransactionSet panicked on a corrupted input: ", pn), base, nil)
			return
		}
		r.Count("txnset_corrupt_inputs:"+mut, 1)
		if berr == nil {
			r.Violation("corrupt-input-accepted:txnset:"+mut, "V2TransactionSet (basis = tip) succeeded on a transaction whose "+mut+" was corrupted", base, nil)
		}
	}
}

// runC13Long: distance limit with chains of 150+ blocks.
func runC13Long(r *mon.Run, stream uint64) {
	rng := r.RNG(stream)
	p := chainlab.RandomParams("v2only", rng)
	env := chainlab.NewEnv(p)
	t := chainlab.NewTree(env, rng)
	tip := t.Root
	for i := 0; i < 4; i++ {
		tip = t.Extend(tip, chainlab.Profile{MaxTxns: 3})
	}
	from := tip
	set := buildV2Set(t, from, rng)
	if len(set) == 0 {
		return
	}
	marks := map[int]*chainlab.Node{}
	for i := 1; i <= 160; i++ {
		tip = t.ExtendEmpty(tip, zeroT)
		marks[i] = tip
	}
	node, err := chainlab.NewTestNode(env, nil)
	if err != nil {
		r.Inconclusive(err.Error())
		return
	}
	if err := node.CM.AddBlocks(chainlab.Blocks(tip.PathFromGenesis())); err != nil {
		r.Violation("setup", err.Error(), nil, nil)
		return
	}
	for _, d := range []int{1, 100, 143, 144, 145, 146, 160} {
		to := marks[d]
		in := make([]types.V2Transaction, len(set))
		for i := range set {
			in[i] = set[i].DeepCopy()
		}
		var out []types.V2Transaction
		var uerr error
		cs := c13Case{Stream: stream, Params: p, From: from.Idx, To: to.Idx, Apply: d, Set: describeV2Set(set)}
		if pn := mon.Guard(func() { out, uerr = node.CM.UpdateV2TransactionSet(in, from.L.State.Index, to.L.State.Index) }); pn != nil {
			r.Violation("update-panic:long-path", fmt.Sprint("UpdateV2TransactionSet panicked on a long path: ", pn), cs, nil)
			return
		}
		r.Eval()
		r.Count(fmt.Sprintf("long_path:%d:%v", d, uerr == nil), 1)
		if uerr != nil {
			if d <= 143 {
				r.Violation("valid-set-rejected:long-path", fmt.Sprintf("update across %d blocks failed: %v", d, uerr), cs, nil)
			}
			continue
		}
		for _, x := range out {
			if err := to.L.State.Elements.ValidateTransactionElements(x); err != nil {
				r.Violation("updated-proof-invalid", "an updated transaction does not verify against the target accumulator: "+err.Error(), cs, nil)
			}
			for _, sci := range x.SiacoinInputs {
				if e, ok := to.L.SC[sci.Parent.ID]; ok && !stateElemEq(sci.Parent.StateElement, e.StateElement) {
					r.Violation("proof-differs-from-ledger", "updated proof differs from the ledger's on a long path", cs, nil)
				}
			}
		}
		r.Distinct(fmt.Sprintf("long/%d/%d", stream, d))
	}
}

func runC13(r *mon.Run, replay string) {
	r.Rule("fork trees (mix / v2only) fully submitted to a node; PRNG pairs (from, to) of known indices on the same or different forks and v2 transaction sets valid at 'from' (spends with ephemeral chains, siafund spends, contract formation / revision / renewal / storage proof / expiration), optionally with a corrupted proof, leaf index or basis; the result of UpdateV2TransactionSet is compared with the expectation computed from the pure ledgers along path(from->to): input minus confirmed in order, each parent element equal to the ledger's leaf index and proof at 'to', still-ephemeral inputs untouched, error when an element never existed on the chain of 'to', no panic; plus V2TransactionSet/AddV2PoolTransactions (parents before children, basis = tip, accepted, caller memory) and paths of 1..160 blocks; distinct = (stream, pair, path shape, set size)")
	if st, ok := replayStream(replay); ok {
		switch {
		case st >= 139500:
			runC13ForkLimit(r, st)
		case st >= 139000:
			runC13Long(r, st)
		default:
			runC13Tree(r, st)
		}
		return
	}
	parallel(r.Pick(250, 4000), func(i int) { runC13Tree(r, uint64(130000+i)) })
	parallel(r.Pick(6, 40), func(i int) { runC13Long(r, uint64(139000+i)) })
	parallel(r.Pick(14, 80), func(i int) { runC13ForkLimit(r, uint64(139500+i)) })
	r.Floor("fork_path:over_limit=true:ok=false", 3)
	r.Floor("updates_checked_across_blocks", 300)
	r.Floor("updates_across_forks", 50)
	r.Floor("broadcast_sets_with_parents", 20)
	r.Floor("ephemeral_inputs_became_confirmed", 1)
	r.Floor("updates:set-members-confirmed-in-different-blocks", 20)
	r.Floor("txnset_after_tip_change_with_parents", 20)
	r.Floor("updates_onto_unapplied_branch:refused", 20)
}

// c13Confirm builds a set on the tip, mines a PRNG-chosen subsequence of it
// (dependencies respected) into the next block(s), and checks the update from
// the old tip to the new one.
func c13Confirm(r *mon.Run, t *chainlab.Tree, node *chainlab.TestNode, rng *rand.Rand, base c13Case) {
	cm := node.CM
	from := t.ByID[cm.Tip().ID]
	if from == nil || !from.ChainValid || from.Height+1 < t.Env.Net.HardforkV2.AllowHeight {
		return
	}
	sb := from.L.NewBuilder(rng)
	for i := 0; i < 5; i++ {
		sb.V2Spend(t.Env.Actors[rng.IntN(len(t.Env.Actors))], 0.7)
	}
	set := sb.V2Txns
	if len(set) < 2 {
		return
	}
	// one to three blocks, each confirming a PRNG-chosen subsequence of what is
	// left of the set (the oracle refuses children whose parent is neither
	// confirmed nor in the same block), with empty blocks in between
	confirmed := map[types.TransactionID]bool{}
	ephAll := map[types.Hash256]bool{}
	for _, x := range set {
		for _, c := range chainlab.V2Creates(x) {
			ephAll[c] = true
		}
	}
	to := from
	var path []*chainlab.Node
	nb, blocksWith := 1+rng.IntN(3), 0
	for j := 0; j < nb; j++ {
		bb := to.L.NewBuilder(rng)
		took := 0
		for _, x := range set {
			if confirmed[x.ID()] || rng.IntN(2) != 0 {
				continue
			}
			if rb, ok := to.L.RebaseV2(x, ephAll); ok && bb.TryV2("from-set", rb) {
				confirmed[x.ID()] = true
				took++
			}
		}
		if took > 0 {
			blocksWith++
		}
		blk := bb.Seal(to.Block.Timestamp.Add(t.Env.Net.BlockInterval), t.Env.A(chainlab.Miner).Addr, true)
		to = t.Attach(to, blk, "", bb.Kinds)
		if !to.ChainValid {
			r.Inconclusive("generator built an invalid block: " + to.Err)
			return
		}
		path = append(path, to)
		for i := 0; i < rng.IntN(3); i++ {
			to = t.ExtendEmpty(to, zeroT)
			path = append(path, to)
		}
	}
	if blocksWith > 1 {
		r.Count("updates:set-members-confirmed-in-different-blocks", 1)
	}
	if err := cm.AddBlocks(chainlab.Blocks(path)); err != nil || cm.Tip().ID != to.ID {
		r.Violation("setup", fmt.Sprintf("node did not adopt a valid extension: %v", err), base, nil)
		return
	}
	// variant: the caller only holds the unconfirmed part of the set (its
	// parents travelled separately and got confirmed along the way)
	outside := rng.IntN(3) == 0
	if outside {
		var rest []types.V2Transaction
		for _, x := range set {
			if !confirmed[x.ID()] {
				rest = append(rest, x)
			}
		}
		if len(rest) == 0 {
			return
		}
		set = rest
		r.Count("updates:confirmed-parents-outside-set", 1)
	}
	in := make([]types.V2Transaction, len(set))
	for i := range set {
		in[i] = set[i].DeepCopy()
	}
	cs := base
	cs.From, cs.To, cs.Apply, cs.Set, cs.Mut = from.Idx, to.Idx, len(path), describeV2Set(set), "part-of-set-confirmed"
	if outside {
		cs.Mut = "confirmed-parents-outside-set"
	}
	var out []types.V2Transaction
	var uerr error
	if pn := mon.Guard(func() { out, uerr = cm.UpdateV2TransactionSet(in, from.L.State.Index, to.L.State.Index) }); pn != nil {
		r.Violation("update-panic:confirmed", fmt.Sprint("UpdateV2TransactionSet panicked: ", pn), cs, nil)
		return
	}
	r.Eval()
	r.Count("updates:part-of-set-confirmed", 1)
	if uerr != nil {
		r.Violation("valid-set-rejected:confirmed", "UpdateV2TransactionSet failed after part of the set was confirmed: "+uerr.Error(), cs, nil)
		return
	}
	var want []types.V2Transaction
	for _, x := range set {
		if !confirmed[x.ID()] {
			want = append(want, x)
		}
	}
	if len(out) != len(want) {
		r.Violation("result-set-differs:confirmed", fmt.Sprintf("result has %d transactions, expected %d (input minus confirmed)", len(out), len(want)), cs, describeV2Set(out))
		return
	}
	r.Count("confirmed_removed", len(set)-len(want))
	for i := range want {
		if out[i].ID() != want[i].ID() {
			r.Violation("result-order-differs:confirmed", "result is not the input minus confirmed transactions in the same order", cs, describeV2Set(out))
			return
		}
		for j, sci := range out[i].SiacoinInputs {
			e, ok := to.L.SC[sci.Parent.ID]
			wasEph := want[i].SiacoinInputs[j].Parent.StateElement.LeafIndex == types.UnassignedLeafIndex
			switch {
			case ok && !stateElemEq(sci.Parent.StateElement, e.StateElement):
				what := "an updated input does not carry the ledger's leaf index and proof"
				if wasEph {
					what = "an ephemeral input whose parent got confirmed does not carry the confirmed element"
				}
				r.Violation("proof-differs-from-ledger:confirmed", what, cs, fmt.Sprintf("txn %d input %d: leaf %d, ledger leaf %d", i, j, sci.Parent.StateElement.LeafIndex, e.StateElement.LeafIndex))
				return
			case ok && wasEph:
				r.Count("ephemeral_inputs_became_confirmed", 1)
			case !ok && sci.Parent.StateElement.LeafIndex != types.UnassignedLeafIndex:
				r.Violation("ephemeral-input-assigned", "an input whose parent is still unconfirmed lost its ephemeral marker", cs, nil)
				return
			}
		}
		if err := to.L.State.Elements.ValidateTransactionElements(out[i]); err != nil {
			r.Violation("updated-proof-invalid", "an updated transaction does not verify against the target accumulator: "+err.Error(), cs, nil)
			return
		}
	}
	r.Distinct(fmt.Sprintf("c13confirm/%d/%d/%d", base.Stream, from.Idx, len(want)))
	// what remains must be accepted by the pool at the new tip
	if len(out) > 0 {
		if _, err := cm.AddV2PoolTransactions(to.L.State.Index, out); err != nil {
			// a re-offered transaction from a reverted block may conflict; only a proof complaint is a verdict here
			r.Count("updated_sets_rejected_by_pool", 1)
		} else {
			r.Count("updated_sets_accepted_by_pool", 1)
		}
	}
}
