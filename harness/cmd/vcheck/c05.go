package main

import (
	"bytes"
	"fmt"
	"sort"
	"sync"
	"time"

	"go.sia.tech/core/types"
	"go.sia.tech/coreutils"
	"verif/harness/lab/chainlab"
	"verif/harness/mon"
)

func init() { register("C05", "exploration", runC05) }

type accepted struct {
	v1      *types.Transaction
	v2      *types.V2Transaction
	parents map[types.Hash256]bool // own (direct) parents
	step    int
}

type c05Case struct {
	Stream uint64          `json:"rng_stream"`
	Params chainlab.Params `json:"params"`
	Steps  []string        `json:"steps"`
	Txn    string          `json:"txn,omitempty"`
}

type c05Hist struct {
	r     *mon.Run
	cs    c05Case
	t     *chainlab.Tree
	a     *chainlab.Auditor
	acc   map[types.TransactionID]*accepted
	all   map[types.TransactionID]*accepted     // every set member ever accepted (ancestor lookup)
	maker map[types.Hash256]types.TransactionID // element id -> accepted txn creating it
	conf  map[*chainlab.Node]map[types.TransactionID]bool
	step  int
	bad   bool
	// validated: the next batch goes through AddValidatedV2Blocks
	validated bool
	// abandoned: tips the node left behind in earlier reorgs (their blocks are
	// stored with supplements)
	abandoned []*chainlab.Node
}

func (h *c05Hist) log(s string) { h.cs.Steps = append(h.cs.Steps, fmt.Sprintf("%d:%s", h.step, s)) }

func (h *c05Hist) confirmedOn(tip *chainlab.Node, id types.TransactionID) bool {
	for n := tip; n != nil && n.Parent != nil; n = n.Parent {
		m := h.conf[n]
		if m == nil {
			m = map[types.TransactionID]bool{}
			for _, t := range n.Block.Transactions {
				m[t.ID()] = true
			}
			for _, t := range n.Block.V2Transactions() {
				m[t.ID()] = true
			}
			h.conf[n] = m
		}
		if m[id] {
			return true
		}
	}
	return false
}

func (h *c05Hist) recordAccepted(v1 []types.Transaction, v2 []types.V2Transaction) {
	add := func(id types.TransactionID, a *accepted, parents, creates []types.Hash256) {
		if _, ok := h.acc[id]; ok {
			return
		}
		a.parents = map[types.Hash256]bool{}
		for _, p := range parents {
			a.parents[p] = true
		}
		for _, c := range creates {
			h.maker[c] = id
		}
		a.step = h.step
		h.acc[id] = a
		h.all[id] = a
	}
	for i := range v1 {
		t := chainlab.DeepCopyTxn(v1[i])
		add(t.ID(), &accepted{v1: &t}, chainlab.V1Parents(t), chainlab.V1Creates(t))
	}
	for i := range v2 {
		t := v2[i].DeepCopy()
		add(t.ID(), &accepted{v2: &t}, append(chainlab.V2Parents(t), chainlab.V2ProofIndexes(t)...), chainlab.V2Creates(t))
	}
}

// justified reports whether an input of the transaction, or of an unconfirmed
// pooled ancestor it depends on, was spent or reverted on the chain during the
// step. An ancestor that is confirmed on the tip no longer counts: its outputs
// are chain elements, and only their own spending or reverting is a reason.
func (h *c05Hist) justified(a *accepted, touched map[types.Hash256]bool, tip *chainlab.Node, depth int) bool {
	for p := range a.parents {
		if touched[p] {
			return true
		}
		if mk, ok := h.maker[p]; ok && depth < 64 && !h.confirmedOn(tip, mk) {
			if anc := h.all[mk]; anc != nil && h.justified(anc, touched, tip, depth+1) {
				return true
			}
		}
	}
	return false
}

// check runs the pool oracles after a step. touched are the ids spent by
// applied blocks / created or spent by reverted blocks during the step.
func (h *c05Hist) check(touched map[types.Hash256]bool) {
	r, cm, tip := h.r, h.a.N.CM, h.a.Tip
	var pool poolSnap
	// the first pool call after the step (possibly a tip change) varies: every
	// accessor has to bring the pool up to date by itself
	type probe struct {
		id    types.TransactionID
		v2    bool
		found bool
		got   types.TransactionID
	}
	var probes []probe
	var firstV2 []types.TransactionID
	first := h.t.Rng.IntN(6)
	if p := mon.Guard(func() {
		switch first {
		case 1:
			for _, x := range cm.V2PoolTransactions() {
				firstV2 = append(firstV2, x.ID())
			}
		case 2, 3:
			ids := make([]types.TransactionID, 0, len(h.all))
			for id := range h.all {
				ids = append(ids, id)
			}
			sort.Slice(ids, func(i, j int) bool { return bytes.Compare(ids[i][:], ids[j][:]) < 0 })
			for n := 0; n < 6 && len(ids) > 0; n++ {
				id := ids[h.t.Rng.IntN(len(ids))]
				a := h.all[id]
				if a.v2 != nil {
					x, ok := cm.V2PoolTransaction(id)
					probes = append(probes, probe{id, true, ok, x.ID()})
				} else {
					x, ok := cm.PoolTransaction(id)
					probes = append(probes, probe{id, false, ok, x.ID()})
				}
			}
		case 4:
			cm.RecommendedFee()
		}
	}); p != nil {
		r.Violation("pool-query-panic", fmt.Sprint("pool query panicked: ", p), h.cs, nil)
		h.bad = true
		return
	}
	r.Count(fmt.Sprintf("first_pool_call_after_step:%d", first), 1)
	if p := mon.Guard(func() { pool = snapPool(cm) }); p != nil {
		r.Violation("pool-query-panic", fmt.Sprint("pool query panicked: ", p), h.cs, nil)
		h.bad = true
		return
	}
	r.Count("pool_audits", 1)
	for _, pr := range probes {
		kind, in := pool.ids[pr.id]
		want := in && (kind == "v2") == pr.v2
		if pr.found != want || (pr.found && pr.got != pr.id) {
			r.Violation("first-lookup-disagrees-with-listing", fmt.Sprintf("a lookup by id made as the first pool call after a step returned found=%v (id %v) but the pool listing taken right afterwards says pooled=%v", pr.found, pr.got, want), h.cs, pr.id.String())
			h.bad = true
			return
		}
		r.Count("first_lookups_checked", 1)
	}
	if first == 1 {
		same := len(firstV2) == len(pool.v2)
		for i := 0; same && i < len(firstV2); i++ {
			same = firstV2[i] == pool.v2[i].ID()
		}
		if !same {
			r.Violation("first-listing-disagrees", "V2PoolTransactions as the first pool call after a step differs from the listing taken right afterwards", h.cs, nil)
			h.bad = true
			return
		}
	}
	r.Count("pool_txns_validated", len(pool.v1)+len(pool.v2))
	pb, ok := tip.L.PoolBuilder(h.t.Rng, pool.v1, pool.v2)
	if !ok {
		r.Violation("pool-not-valid-continuation", "the reported pool sequence is not valid transaction by transaction against the pure tip state", h.cs, map[string]any{"pool": idsOf(pool.v1, pool.v2), "tip_height": tip.Height})
		h.bad = true
		return
	}
	eph := map[types.Hash256]bool{}
	for _, t := range pool.v1 {
		for _, c := range chainlab.V1Creates(t) {
			eph[c] = true
		}
	}
	for _, t := range pool.v2 {
		for _, c := range chainlab.V2Creates(t) {
			eph[c] = true
		}
	}
	for id, a := range h.acc {
		if _, in := pool.ids[id]; in {
			continue
		}
		if h.confirmedOn(tip, id) {
			r.Count("retention:confirmed", 1)
			delete(h.acc, id)
			continue
		}
		if h.justified(a, touched, tip, 0) {
			r.Count("retention:justified-input-spent-or-reverted", 1)
			delete(h.acc, id)
			continue
		}
		// is it still a valid continuation of tip+pool under the oracle?
		still := false
		if a.v1 != nil {
			still = pb.TryV1("probe", chainlab.DeepCopyTxn(*a.v1))
		} else {
			if rb, ok := tip.L.RebaseV2(*a.v2, eph); ok {
				still = pb.TryV2("probe", rb)
			}
		}
		if !still {
			r.Count("retention:justified-invalid-at-new-tip", 1)
			delete(h.acc, id)
			continue
		}
		c := h.cs
		c.Txn = id.String()
		kind := "v1"
		if a.v2 != nil {
			kind = "v2"
		}
		det := map[string]any{}
		if debugOn && a.v2 != nil {
			for _, in := range a.v2.SiacoinInputs {
				e, ok := tip.L.SC[in.Parent.ID]
				fmt.Printf("DEBUG evicted %v input %v inLedger=%v ledgerLeaf=%d maturity=%d tipHeight=%d touched=%v\n", id, in.Parent.ID, ok, e.StateElement.LeafIndex, e.MaturityHeight, tip.Height, touched[types.Hash256(in.Parent.ID)])
			}
		}
		if a.v2 != nil {
			var ins []string
			for _, in := range a.v2.SiacoinInputs {
				ins = append(ins, fmt.Sprintf("%v leaf=%d", in.Parent.ID, in.Parent.StateElement.LeafIndex))
			}
			det["inputs"] = ins
			det["revisions"] = len(a.v2.FileContractRevisions)
			det["resolutions"] = len(a.v2.FileContractResolutions)
			det["siafund_inputs"] = len(a.v2.SiafundInputs)
		}
		r.Violation("unjustified-pool-eviction:"+kind, fmt.Sprintf("%s transaction accepted at step %d is no longer retrievable although it is unconfirmed, none of its inputs was spent or reverted, and it is still valid on top of the tip and pool", kind, a.step), c, det)
		h.bad = true
		delete(h.acc, id)
	}
	// id lookups agree with the listing
	for id, k := range pool.ids {
		if k == "v1" {
			if _, ok := cm.PoolTransaction(id); !ok {
				r.Violation("listed-but-not-retrievable", "a listed v1 pool transaction cannot be looked up by id", h.cs, id.String())
			}
		} else if _, ok := cm.V2PoolTransaction(id); !ok {
			r.Violation("listed-but-not-retrievable", "a listed v2 pool transaction cannot be looked up by id", h.cs, id.String())
		}
	}
}

// submitBlocks submits a batch through the auditor and returns the touched set.
func (h *c05Hist) submitBlocks(batch []*chainlab.Node) map[types.Hash256]bool {
	old := h.a.Tip
	var fs []chainlab.Finding
	if h.validated {
		h.validated = false
		var err error
		if err, fs = h.a.SubmitValidated(batch); err == chainlab.ErrNoState {
			_, fs = h.a.Submit(batch)
		}
	} else {
		_, fs = h.a.Submit(batch)
	}
	if len(fs) > 0 {
		reportFindings(h.r, chainCase{Kind: "c05", Stream: h.cs.Stream, Params: h.cs.Params}, h.t, h.a, fs)
		h.bad = true
		return nil
	}
	touched := map[types.Hash256]bool{}
	mark := func(n *chainlab.Node, reverted bool) {
		bt := chainlab.NodeTouched(n)
		for id := range bt.Spent {
			touched[id] = true
		}
		if reverted {
			for id := range bt.Created {
				touched[id] = true
			}
		}
	}
	target := h.a.Tip
	if target == old {
		// possibly a rolled-back reorg attempt: everything on both paths was touched transiently
		target = batch[len(batch)-1]
	}
	fork := chainlab.CommonAncestor(old, target)
	for n := old; n != fork; n = n.Parent {
		mark(n, true)
	}
	for n := target; n != fork; n = n.Parent {
		mark(n, h.a.Tip == old)
	}
	if h.a.Tip != old && fork != old {
		h.r.Count("reorgs_under_pool", 1)
	}
	return touched
}

func runC05History(r *mon.Run, stream uint64) {
	rng := r.RNG(stream)
	regime := []string{"mix", "v2only", "v1only", "mix"}[rng.IntN(4)]
	p := chainlab.RandomParams(regime, rng)
	env := chainlab.NewEnv(p)
	t := chainlab.NewTree(env, rng)
	node, err := chainlab.NewTestNode(env, nil)
	if err != nil {
		r.Inconclusive(err.Error())
		return
	}
	h := &c05Hist{r: r, cs: c05Case{Stream: stream, Params: p}, t: t, a: chainlab.NewAuditor(t, node),
		acc: map[types.TransactionID]*accepted{}, all: map[types.TransactionID]*accepted{}, maker: map[types.Hash256]types.TransactionID{}, conf: map[*chainlab.Node]map[types.TransactionID]bool{}}
	cm := node.CM
	prof := chainlab.Profile{MaxTxns: 3}
	tip := t.Root
	start := 3 + rng.IntN(4)
	if regime == "mix" {
		start = int(p.Allow) - 3 + rng.IntN(3)
	}
	for i := 0; i < start; i++ {
		tip = t.Extend(tip, prof)
	}
	h.submitBlocks(tip.PathFromGenesis())
	if h.bad {
		return
	}
	nSteps := 26
	for h.step = 1; h.step <= nSteps && !h.bad; h.step++ {
		tip = h.a.Tip
		pool := snapPool(cm)
		touched := map[types.Hash256]bool{}
		switch k := rng.IntN(25); {
		case k < 7: // fresh valid set on top of the pool
			pb, _ := tip.L.PoolBuilder(rng, pool.v1, pool.v2)
			m1, m2 := len(pb.Txns), len(pb.V2Txns)
			randomPoolTxns(pb, t, 1+rng.IntN(3))
			v1, v2 := pb.TakeNew(&m1, &m2)
			if len(v1) > 0 {
				if _, err := cm.AddPoolTransactions(v1); err == nil {
					h.recordAccepted(v1, nil)
					r.Count("sets_accepted:v1", 1)
				} else {
					r.Count("sets_rejected:v1", 1)
				}
				h.log(fmt.Sprintf("submit-v1 %d txns", len(v1)))
			}
			if len(v2) > 0 {
				// v2 transactions built on top of freshly submitted v1 ones stay valid only if those were accepted
				if _, err := cm.AddV2PoolTransactions(tip.L.State.Index, v2); err == nil {
					h.recordAccepted(nil, v2)
					r.Count("sets_accepted:v2", 1)
					for _, x := range v2 {
						for _, in := range x.SiacoinInputs {
							if in.Parent.StateElement.LeafIndex == types.UnassignedLeafIndex {
								r.Count("accepted_with_ephemeral_parent", 1)
							}
						}
					}
				} else {
					r.Count("sets_rejected:v2", 1)
				}
				h.log(fmt.Sprintf("submit-v2 %d txns", len(v2)))
			}
		case k < 10: // stale basis: built on an ancestor (or a sibling fork) ledger
			back := 1 + rng.IntN(3)
			anc := tip.Ancestor(tip.Height - min(uint64(back), tip.Height))
			if rng.IntN(3) == 0 && len(anc.Children) > 1 {
				anc = anc.Children[rng.IntN(len(anc.Children))]
			}
			if !anc.ChainValid || !h.a.Submitted[anc.ID] {
				break
			}
			sb := anc.L.NewBuilder(rng)
			for i := 0; i < 3; i++ {
				sb.V2Spend(env.Actors[rng.IntN(len(env.Actors))], 0.3)
			}
			if len(sb.V2Txns) == 0 {
				break
			}
			_, err := cm.AddV2PoolTransactions(anc.L.State.Index, sb.V2Txns)
			h.log(fmt.Sprintf("submit-v2-stale-basis back=%d err=%v", tip.Height-anc.Height, err != nil))
			if err == nil {
				h.recordAccepted(nil, sb.V2Txns)
				r.Count("sets_accepted:v2-stale-basis", 1)
			} else {
				r.Count("sets_rejected:v2-stale-basis", 1)
			}
		case k < 12: // conflicting set: must be rejected and leave the pool alone
			fb := tip.L.NewBuilder(rng)
			randomPoolTxns(fb, t, 2)
			var c1 []types.Transaction
			var c2 []types.V2Transaction
			for _, x := range fb.Txns {
				if conflictsV1(x, pool) {
					c1 = append(c1, x)
				}
			}
			for _, x := range fb.V2Txns {
				if conflictsV2(x, pool) {
					c2 = append(c2, x)
				}
			}
			if len(c1) > 0 {
				if _, err := cm.AddPoolTransactions(c1[:1]); err == nil {
					r.Violation("conflicting-set-accepted", "a v1 transaction double-spending a pooled transaction was accepted", h.cs, nil)
				}
				r.Count("conflicting_sets", 1)
			}
			if len(c2) > 0 {
				if _, err := cm.AddV2PoolTransactions(tip.L.State.Index, c2[:1]); err == nil {
					r.Violation("conflicting-set-accepted", "a v2 transaction double-spending a pooled transaction was accepted", h.cs, nil)
				}
				r.Count("conflicting_sets", 1)
			}
			h.log("submit-conflicting")
		case k < 15: // a block confirming part of the pool and conflicting with / ignoring the rest
			bb := tip.L.NewBuilder(rng)
			take := rng.IntN(len(pool.v1) + 1)
			for _, x := range pool.v1[:take] {
				bb.TryV1("from-pool", chainlab.DeepCopyTxn(x))
			}
			if rng.IntN(2) == 0 {
				t.RandomBody(bb, prof) // may spend what pooled transactions spend
			}
			if bb.V2Allowed() {
				take2 := rng.IntN(len(pool.v2) + 1)
				for _, x := range pool.v2[:take2] {
					bb.TryV2("from-pool", x.DeepCopy())
				}
				if rng.IntN(2) == 0 {
					nb := len(bb.V2Txns)
					t.RandomBody(bb, chainlab.Profile{MaxTxns: 2})
					_ = nb
				}
			}
			child := tip.Height + 1
			blk := bb.Seal(tip.Block.Timestamp.Add(env.Net.BlockInterval), env.A(chainlab.Miner).Addr, child >= p.Allow)
			n := t.Attach(tip, blk, "", bb.Kinds)
			if !n.ChainValid {
				r.Inconclusive("generator built an invalid block: " + n.Err)
				return
			}
			h.log(fmt.Sprintf("block confirming %d+%d pool txns", take, len(bb.V2Txns)))
			touched = h.submitBlocks([]*chainlab.Node{n})
		case k < 18: // reorg to a longer fork from a few blocks back
			back := 1 + rng.IntN(3)
			if uint64(back) > tip.Height {
				break
			}
			x := tip.Ancestor(tip.Height - uint64(back))
			var fork []*chainlab.Node
			for i := 0; i < back+1+rng.IntN(2); i++ {
				x = t.Extend(x, prof)
				fork = append(fork, x)
			}
			h.log(fmt.Sprintf("fork depth=%d len=%d", back, len(fork)))
			h.validated = tip.Height-uint64(back) >= p.Require && rng.IntN(3) == 0
			touched = h.submitBlocks(fork)
			if !h.bad && h.a.Tip != tip {
				h.abandoned = append(h.abandoned, tip)
			}
		case k < 21: // back onto a branch the node validated and left earlier: its blocks are re-applied from the store
			if len(h.abandoned) == 0 {
				break
			}
			x := h.abandoned[rng.IntN(len(h.abandoned))]
			if !x.ChainValid || chainlab.CommonAncestor(x, tip) == x {
				break
			}
			var ext []*chainlab.Node
			for !x.L.State.SufficientlyHeavierThan(tip.L.State) && len(ext) < 8 {
				x = t.Extend(x, prof)
				ext = append(ext, x)
			}
			if len(ext) == 0 || !x.ChainValid {
				break
			}
			h.log(fmt.Sprintf("reorg back onto an abandoned branch, %d new blocks", len(ext)))
			r.Count("reorgs_back_onto_validated_branch", 1)
			h.validated = ext[0].Height > p.Require && rng.IntN(3) == 0
			touched = h.submitBlocks(ext)
			if !h.bad && h.a.Tip != tip {
				h.abandoned = append(h.abandoned, tip)
			}
		case k < 23: // plain extension through the pre-validated path
			if tip.Height < p.Require {
				break
			}
			var ext []*chainlab.Node
			x := tip
			for i := 0; i < 1+rng.IntN(2); i++ {
				x = t.Extend(x, prof)
				ext = append(ext, x)
			}
			h.log(fmt.Sprintf("pre-validated extension, %d blocks", len(ext)))
			r.Count("prevalidated_extensions_under_pool", 1)
			h.validated = true
			touched = h.submitBlocks(ext)
		case k < 24: // a heavier fork with an invalid block: the reorg is rolled back
			back := 1 + rng.IntN(2)
			if uint64(back) > tip.Height {
				break
			}
			x := tip.Ancestor(tip.Height - uint64(back))
			var fork []*chainlab.Node
			for i := 0; i < back; i++ {
				x = t.Extend(x, prof)
				fork = append(fork, x)
			}
			good := t.Extend(x, chainlab.Profile{MaxTxns: 4})
			bad := t.Corrupt(good, []string{"double-spend", "output-inflate", "sig-bit", "v2-commitment"}[rng.IntN(4)], true)
			if bad == nil || !bad.OrphanValid || bad.Valid {
				break
			}
			fork = append(fork, bad, t.ExtendHeaderOnly(bad))
			h.log(fmt.Sprintf("heavier invalid fork depth=%d", back))
			r.Count("rolled_back_reorgs_under_pool", 1)
			touched = h.submitBlocks(fork)
		default: // mine a block from the pool with coreutils.MineBlock
			var blk types.Block
			if pn := mon.Guard(func() { blk, _ = coreutils.MineBlock(cm, env.A(chainlab.Miner).Addr, 2*time.Second) }); pn != nil {
				r.Violation("mineblock-panic", fmt.Sprint("MineBlock panicked: ", pn), h.cs, nil)
				return
			}
			blk.Timestamp = tip.Block.Timestamp.Add(env.Net.BlockInterval)
			chainlab.MineNonce(tip.L.State, &blk)
			n := t.Attach(tip, blk, "", []string{"mined-from-pool"})
			h.log(fmt.Sprintf("mine-from-pool v1=%d v2=%d", len(blk.Transactions), len(blk.V2Transactions())))
			r.Count("blocks_mined_from_pool", 1)
			r.Count("pool_txns_mined", len(blk.Transactions)+len(blk.V2Transactions()))
			if !n.ChainValid {
				r.Violation("mined-block-invalid", "a block assembled by MineBlock from the reported pool is invalid under the pure oracle: "+n.Err, h.cs, nil)
				return
			}
			touched = h.submitBlocks([]*chainlab.Node{n})
			if !h.bad && h.a.Tip != n {
				r.Violation("mined-block-not-adopted", "a block mined from the pool on top of the tip was not adopted", h.cs, nil)
				return
			}
		}
		if h.bad {
			return
		}
		h.check(touched)
	}
	r.Eval()
	r.Count("reorgs_observed", h.a.Reorgs)
	r.Distinct(fmt.Sprintf("c05/%s/%d/%d", regime, stream, h.a.Reorgs))
	if stream%61 == 0 {
		r.Sample(h.cs)
	}
}

// runC05Concurrent: MineBlock racing with pool submissions and tip changes;
// every block it returns must be valid on top of its parent.
func runC05Concurrent(r *mon.Run, stream uint64) {
	rng := r.RNG(stream)
	p := chainlab.RandomParams("v2only", rng)
	env := chainlab.NewEnv(p)
	t := chainlab.NewTree(env, rng)
	node, err := chainlab.NewTestNode(env, nil)
	if err != nil {
		r.Inconclusive(err.Error())
		return
	}
	cm := node.CM
	tip := t.Root
	for i := 0; i < 4; i++ {
		tip = t.Extend(tip, chainlab.Profile{MaxTxns: 2})
	}
	if err := cm.AddBlocks(chainlab.Blocks(tip.PathFromGenesis())); err != nil {
		r.Inconclusive(err.Error())
		return
	}
	// pre-generate a line of blocks and pool sets (the generator is not thread safe)
	type stepT struct {
		set []types.V2Transaction
		idx types.ChainIndex
		blk *chainlab.Node
	}
	var steps []stepT
	for i := 0; i < 12; i++ {
		pb := tip.L.NewBuilder(rng)
		for j := 0; j < 3; j++ {
			pb.V2Spend(env.Actors[rng.IntN(len(env.Actors))], 0.3)
		}
		s := stepT{set: pb.V2Txns, idx: tip.L.State.Index}
		tip = t.Extend(tip, chainlab.Profile{MaxTxns: 2})
		s.blk = tip
		steps = append(steps, s)
	}
	var mu sync.Mutex
	var mined []types.Block
	done := make(chan struct{})
	var wg sync.WaitGroup
	for w := 0; w < 3; w++ {
		wg.Add(1)
		go func() {
			defer wg.Done()
			for {
				select {
				case <-done:
					return
				default:
				}
				b, ok := coreutils.MineBlock(cm, env.A(chainlab.Miner).Addr, time.Second)
				if ok {
					mu.Lock()
					mined = append(mined, b)
					mu.Unlock()
				}
			}
		}()
	}
	for _, s := range steps {
		if len(s.set) > 0 {
			cm.AddV2PoolTransactions(s.idx, s.set)
		}
		cm.PoolTransactions()
		if err := cm.AddBlocks(chainlab.Blocks([]*chainlab.Node{s.blk})); err != nil {
			r.Violation("concurrent-addblocks", "valid block rejected while MineBlock was running: "+err.Error(), nil, nil)
		}
	}
	close(done)
	wg.Wait()
	bad := 0
	for _, b := range mined {
		parent := t.ByID[b.ParentID]
		if parent == nil || !parent.ChainValid {
			bad++
			continue
		}
		// MineBlock stamps the current time; validity of the body is what is checked here
		b.Timestamp = parent.Block.Timestamp.Add(env.Net.BlockInterval)
		chainlab.MineNonce(parent.L.State, &b)
		n := t.Attach(parent, b, "", []string{"mined-concurrently"})
		r.Count("concurrent_mined_blocks_checked", 1)
		if !n.ChainValid {
			r.Violation("mined-block-invalid:concurrent", "MineBlock racing with submissions returned a block that is invalid on its parent: "+n.Err, c05Case{Stream: stream, Params: p}, nil)
			return
		}
	}
	if bad > 0 {
		r.Violation("mined-block-unknown-parent", "MineBlock returned a block whose parent was never a tip", c05Case{Stream: stream, Params: p}, bad)
	}
	r.Eval()
	r.Distinct(fmt.Sprintf("c05c/%d/%d", stream, len(mined)))
}

func runC05(r *mon.Run, replay string) {
	r.Rule("histories interleaving pool submissions (fresh, dependent/ephemeral, stale-basis on ancestors or sibling forks, conflicting) with blocks that confirm, ignore or double-spend pooled transactions, reorgs to longer forks, and blocks mined by coreutils.MineBlock from the pool; after every step the reported v1-then-v2 pool sequence is validated transaction by transaction by core/consensus against the pure tip ledger, mined blocks are labelled by the pure oracle and must be adopted, and every accepted id that disappeared must be confirmed, have an input (or pooled ancestor's input) spent/reverted by a block applied or reverted in that step, or be invalid on the new tip+pool under the oracle; plus MineBlock racing with submissions, and by-id lookups from 8 goroutines as the first pool operations after an invalidation (each must agree with the quiet answer), under the race detector")
	r.Assume("pool-full eviction is exercised only in the dedicated scenario (independent ~0.9 MB transactions with distinct fee rates)")
	if st, ok := replayStream(replay); ok {
		if st >= 59500 {
			runC05ConcurrentLookups(r, st)
		} else if st >= 59000 {
			runC05Concurrent(r, st)
		} else if st >= 58800 {
			runC05MixedMine(r, st)
		} else if st >= 58500 {
			runC05Resubmit(r, st)
		} else if st >= 58000 {
			runC05PoolFull(r, st)
		} else {
			runC05History(r, st)
		}
		return
	}
	parallel(r.Pick(300, 5000), func(i int) { runC05History(r, uint64(50000+i)) })
	parallel(r.Pick(24, 300), func(i int) { runC05Concurrent(r, uint64(59000+i)) })
	parallel(r.Pick(24, 300), func(i int) { runC05ConcurrentLookups(r, uint64(59500+i)) })
	r.Floor("concurrent_lookup_rounds_after_invalidation", 80)
	parallel(r.Pick(2, 24), func(i int) { runC05PoolFull(r, uint64(58000+i)) })
	parallel(r.Pick(3, 30), func(i int) { runC05Resubmit(r, uint64(58500+i)) })
	parallel(r.Pick(12, 120), func(i int) { runC05MixedMine(r, uint64(58800+i)) })
	r.Floor("blocks_mined_from_mixed_heavy_pool", 10)
	r.Floor("resubmit_histories_past_the_limit_if_recharged", 1)
	r.Floor("reorgs_back_onto_validated_branch", 20)
	r.Floor("prevalidated_extensions_under_pool", 20)
	r.Floor("poolfull_evictions_observed", 1)
	r.Floor("blocks_mined_from_overfull_pool", 6)
	r.Floor("poolfull_children_of_pooled_transactions", 6)
	r.Floor("pool_audits", 1000)
	r.Floor("blocks_mined_from_pool", 50)
	r.Floor("reorgs_under_pool", 50)
	r.Floor("retention:confirmed", 50)
	r.Floor("concurrent_mined_blocks_checked", 20)
}

// runC05PoolFull fills the pool beyond ten block weights with independent,
// differently priced transactions: what remains must still be a valid
// continuation, stay below the limit, and only cheaper transactions may have
// been evicted.
// runC05Resubmit: a large pooled transaction is submitted again and again as
// part of sets that also contain a new small transaction. The pool stays far
// below its limit, so nothing may ever be evicted.
func runC05Resubmit(r *mon.Run, stream uint64) {
	rng := r.RNG(stream)
	p := chainlab.RandomParams("v2only", rng)
	env := chainlab.NewEnv(p)
	t := chainlab.NewTree(env, rng)
	tip := t.Root
	for i := 0; i < 6; i++ {
		tip = t.ExtendEmpty(tip, zeroT)
	}
	node, err := chainlab.NewTestNode(env, nil)
	if err != nil {
		r.Inconclusive(err.Error())
		return
	}
	cm := node.CM
	if err := cm.AddBlocks(chainlab.Blocks(tip.PathFromGenesis())); err != nil {
		r.Inconclusive(err.Error())
		return
	}
	cs := c05Case{Stream: stream, Params: p}
	maxW := tip.L.State.MaxBlockWeight() * 10
	b := tip.L.NewBuilder(rng)
	b.EphFloor = 1 << 30
	if !b.V2Spend(env.A(chainlab.Alice), 0) || len(b.V2Txns) == 0 {
		return
	}
	big := b.V2Txns[len(b.V2Txns)-1].DeepCopy()
	big.ArbitraryData = make([]byte, 1_200_000+rng.IntN(600_000))
	big.ArbitraryData[0] = byte(stream)
	b.ResignV2(&big)
	bigW := tip.L.State.V2TransactionWeight(big)
	if _, err := cm.AddV2PoolTransactions(tip.L.State.Index, []types.V2Transaction{big}); err != nil {
		r.Count("resubmit_setup_rejected", 1)
		return
	}
	accepted := map[types.TransactionID]bool{big.ID(): true}
	charged := bigW
	rounds := int(2*maxW/bigW) + 4
	for i := 0; i < rounds; i++ {
		pool := snapPool(cm)
		pb, ok := tip.L.PoolBuilder(rng, pool.v1, pool.v2)
		if !ok {
			r.Violation("pool-not-valid-continuation:resubmit", "the pool is not a valid continuation of the tip", cs, nil)
			return
		}
		m1, m2 := len(pb.Txns), len(pb.V2Txns)
		// a set has to contain its own unconfirmed parents: the newcomer spends
		// confirmed outputs (or outputs of the big transaction, which is in the set)
		pb.EphFloor = 1 << 30
		for _, a := range env.Actors {
			if pb.V2Spend(a, 0) {
				break
			}
		}
		_, fresh := pb.TakeNew(&m1, &m2)
		if len(fresh) == 0 {
			continue
		}
		set := append([]types.V2Transaction{big.DeepCopy()}, fresh...)
		dep := false
		made := map[types.Hash256]bool{}
		for _, c := range chainlab.V2Creates(big) {
			made[c] = true
		}
		for _, x := range fresh {
			for _, q := range chainlab.V2Parents(x) {
				dep = dep || made[q]
			}
		}
		if !dep && rng.IntN(2) == 0 {
			set = append(fresh, big.DeepCopy()) // independent of each other: either order is valid
		}
		if _, err := cm.AddV2PoolTransactions(tip.L.State.Index, set); err != nil {
			r.Count("resubmit_sets_rejected", 1)
			if debugOn {
				fmt.Println("DEBUG resubmit reject:", err)
			}
			continue
		}
		charged += bigW
		for _, x := range fresh {
			accepted[x.ID()] = true
		}
		r.Count("resubmissions_of_pooled_transaction", 1)
		after := snapPool(cm)
		var total uint64
		for _, x := range after.v2 {
			total += tip.L.State.V2TransactionWeight(x)
		}
		for id := range accepted {
			if _, in := after.ids[id]; !in {
				c := cs
				c.Txn = id.String()
				r.Violation("eviction-without-full-pool:resubmission", fmt.Sprintf("an accepted transaction disappeared after %d resubmissions of a pooled %d-weight transaction although the pool weighs %d of %d", i+1, bigW, total, maxW), c, nil)
				return
			}
		}
	}
	if charged >= maxW {
		r.Count("resubmit_histories_past_the_limit_if_recharged", 1)
	}
	r.Eval()
	r.Distinct(fmt.Sprintf("resubmit/%d/%d", stream, rounds))
}

// runC05MixedMine: in the window where v1 and v2 transactions may share a
// block, the pool holds heavy transactions of both kinds - each kind fits a
// block alone, together they do not. Blocks assembled by MineBlock must stay
// within the weight limit (valid under the pure oracle) and be adopted.
func runC05MixedMine(r *mon.Run, stream uint64) {
	rng := r.RNG(stream)
	p := chainlab.RandomParams("mix", rng)
	env := chainlab.NewEnv(p)
	t := chainlab.NewTree(env, rng)
	tip := t.Root
	for tip.Height+1 < p.Allow {
		tip = t.ExtendEmpty(tip, zeroT)
	}
	if tip.Height+3 >= p.Require {
		return
	}
	node, err := chainlab.NewTestNode(env, nil)
	if err != nil {
		r.Inconclusive(err.Error())
		return
	}
	cm := node.CM
	if err := cm.AddBlocks(chainlab.Blocks(tip.PathFromGenesis())); err != nil {
		r.Inconclusive(err.Error())
		return
	}
	cs := c05Case{Stream: stream, Params: p}
	b := tip.L.NewBuilder(rng)
	b.EphFloor = 1 << 30
	n1, n2 := 0, 0
	if debugOn {
		fmt.Println("DEBUG mixed: actors", len(env.Actors), "tip", tip.Height, "allow", p.Allow, "require", p.Require, "sc", len(tip.L.SC))
	}
	// the builder orders a block's v1 transactions before its v2 ones, so all
	// v1 spends are made first
	for i := 0; i < 3; i++ {
		for _, a := range env.Actors {
			before := len(b.Txns)
			if b.V1Spend(a, 0) && len(b.Txns) > before {
				txn := chainlab.DeepCopyTxn(b.Txns[len(b.Txns)-1])
				txn.ArbitraryData = [][]byte{append([]byte("NonSia"), make([]byte, 450_000+rng.IntN(200_000))...)}
				b.ResignV1(&txn)
				if _, err := cm.AddPoolTransactions([]types.Transaction{txn}); err == nil {
					n1++
				} else if debugOn {
					fmt.Println("DEBUG mixed v1 rejected:", err)
				}
				break
			}
		}
	}
	for i := 0; i < 3; i++ {
		for _, a := range env.Actors {
			before := len(b.V2Txns)
			if b.V2Spend(a, 0) && len(b.V2Txns) > before {
				txn := b.V2Txns[len(b.V2Txns)-1].DeepCopy()
				txn.ArbitraryData = make([]byte, 450_000+rng.IntN(200_000))
				b.ResignV2(&txn)
				if _, err := cm.AddV2PoolTransactions(tip.L.State.Index, []types.V2Transaction{txn}); err == nil {
					n2++
				} else if debugOn {
					fmt.Println("DEBUG mixed v2 rejected:", err)
				}
				break
			}
		}
	}
	if n1 < 2 || n2 < 2 {
		r.Count("mixed_mine_setup_too_light", 1)
		return
	}
	cur := tip
	for round := 0; round < 6 && cur.Height+2 < p.Require; round++ {
		pool := snapPool(cm)
		if len(pool.v1)+len(pool.v2) == 0 {
			break
		}
		var blk types.Block
		if pn := mon.Guard(func() { blk, _ = coreutils.MineBlock(cm, env.A(chainlab.Miner).Addr, 2*time.Second) }); pn != nil {
			r.Violation("mineblock-panic", fmt.Sprint("MineBlock panicked: ", pn), cs, nil)
			return
		}
		blk.Timestamp = cur.Block.Timestamp.Add(env.Net.BlockInterval)
		chainlab.MineNonce(cur.L.State, &blk)
		n := t.Attach(cur, blk, "", []string{"mined-from-mixed-heavy-pool"})
		r.Count("blocks_mined_from_mixed_heavy_pool", 1)
		if len(blk.Transactions) > 0 && len(blk.V2Transactions()) > 0 {
			r.Count("mined_blocks_holding_both_kinds", 1)
		}
		if !n.ChainValid {
			r.Violation("mined-block-invalid:mixed-pool", fmt.Sprintf("a block assembled by MineBlock from a pool of %d v1 and %d v2 heavy transactions (%d + %d in the block) is invalid under the pure oracle: %s", len(pool.v1), len(pool.v2), len(blk.Transactions), len(blk.V2Transactions()), n.Err), cs, nil)
			return
		}
		if err := cm.AddBlocks([]types.Block{blk}); err != nil || cm.Tip().ID != n.ID {
			r.Violation("mined-block-not-adopted:mixed-pool", fmt.Sprintf("a block mined from the pool on top of the tip was not adopted: %v", err), cs, nil)
			return
		}
		cur = n
	}
	r.Eval()
	r.Distinct(fmt.Sprintf("mixedmine/%d/%d/%d", stream, n1, n2))
}

func runC05PoolFull(r *mon.Run, stream uint64) {
	rng := r.RNG(stream)
	p := chainlab.RandomParams("v2only", rng)
	env := chainlab.NewEnv(p)
	t := chainlab.NewTree(env, rng)
	tip := t.Root
	for i := 0; i < 8; i++ {
		tip = t.ExtendEmpty(tip, zeroT)
	}
	node, err := chainlab.NewTestNode(env, nil)
	if err != nil {
		r.Inconclusive(err.Error())
		return
	}
	cm := node.CM
	if err := cm.AddBlocks(chainlab.Blocks(tip.PathFromGenesis())); err != nil {
		r.Inconclusive(err.Error())
		return
	}
	cs := c05Case{Stream: stream, Params: p}
	type sub struct {
		id   types.TransactionID
		rate types.Currency // fee per weight unit
	}
	var subs []sub
	prev := map[types.TransactionID]bool{}
	parentOf := map[types.TransactionID]types.TransactionID{}
	var prevWeight uint64
	b := tip.L.NewBuilder(rng)
	b.EphFloor = 1 << 30 // confirmed inputs only: the transactions must be independent
	maxW := tip.L.State.MaxBlockWeight() * 10
	data := make([]byte, 1_800_000)
	for i := 0; i < 44; i++ {
		// one (mostly big) independent transaction per confirmed output
		var txn types.V2Transaction
		ok := false
		for _, a := range env.Actors {
			before := len(b.V2Txns)
			if b.V2Spend(a, 0) && len(b.V2Txns) > before {
				txn = b.V2Txns[len(b.V2Txns)-1].DeepCopy()
				ok = true
				break
			}
		}
		if !ok {
			break
		}
		// re-price and bloat it: fee taken from the first output
		fee := types.Siacoins(uint32(1 + rng.IntN(900)))
		if len(txn.SiacoinOutputs) == 0 || txn.SiacoinOutputs[0].Value.Cmp(fee.Add(types.Siacoins(1))) <= 0 {
			continue
		}
		txn.SiacoinOutputs[0].Value = txn.SiacoinOutputs[0].Value.Sub(fee)
		txn.MinerFee = txn.MinerFee.Add(fee)
		data[0], data[1] = byte(i), byte(stream)
		// different weights: ranking by fee per weight unit and by absolute fee
		// (or by fee times weight) then disagree
		size := len(data)
		switch rng.IntN(5) {
		case 0:
			size = 100 + rng.IntN(2000)
		case 1, 2:
			size = 900_000 + rng.IntN(600_000)
		}
		txn.ArbitraryData = append([]byte(nil), data[:size]...)
		b.ResignV2(&txn)
		w := tip.L.State.V2TransactionWeight(txn)
		if _, err := cm.AddV2PoolTransactions(tip.L.State.Index, []types.V2Transaction{txn}); err != nil {
			r.Count("poolfull_submissions_rejected", 1)
			if debugOn {
				fmt.Println("DEBUG poolfull reject:", err)
			}
			continue
		}
		subs = append(subs, sub{txn.ID(), txn.MinerFee.Div64(w)})
		// one audit per eviction event: the pool is queried (which is when it
		// evicts) after the newcomer, and again after the newcomer's child
		audit := func(newcomers map[types.TransactionID]bool, newW uint64) bool {
			pool := snapPool(cm)
			var total uint64
			for _, x := range pool.v2 {
				total += tip.L.State.V2TransactionWeight(x)
			}
			r.Count("poolfull_audits", 1)
			if total >= maxW {
				r.Violation("pool-over-limit", fmt.Sprintf("reported pool weighs %d >= %d (ten block weights)", total, maxW), cs, nil)
				return false
			}
			if _, ok := tip.L.PoolBuilder(rng, pool.v1, pool.v2); !ok {
				r.Violation("pool-not-valid-continuation:full", "the pool is not a valid continuation of the tip after eviction", cs, nil)
				return false
			}
			// eviction order, per eviction event: among the transactions that were
			// pooled before this step (plus the newcomer), nothing that survived may
			// be cheaper than something that was evicted in this step
			var minKept, maxGone *types.Currency
			gone := 0
			for i := range subs {
				s := subs[i]
				if !prev[s.id] && !newcomers[s.id] {
					continue // evicted in an earlier step
				}
				if par, isChild := parentOf[s.id]; isChild {
					if _, in := pool.ids[par]; !in {
						continue // its parent is gone (evicted): the child goes with it
					}
				}
				if _, in := pool.ids[s.id]; in {
					if minKept == nil || s.rate.Cmp(*minKept) < 0 {
						minKept = &subs[i].rate
					}
				} else {
					gone++
					if maxGone == nil || s.rate.Cmp(*maxGone) > 0 {
						maxGone = &subs[i].rate
					}
				}
			}
			prev = map[types.TransactionID]bool{}
			for id := range pool.ids {
				prev[id] = true
			}
			if gone > 0 && prevWeight+newW < maxW {
				r.Violation("eviction-without-full-pool", fmt.Sprintf("%d transactions were evicted although the pool (%d) plus the newcomer (%d) weigh less than ten block weights (%d)", gone, prevWeight, newW, maxW), cs, nil)
				return false
			}
			prevWeight = total
			if gone > 0 {
				r.Count("poolfull_evictions_observed", 1)
				r.Count("poolfull_transactions_evicted", gone)
				if minKept != nil && maxGone != nil && maxGone.Cmp(*minKept) > 0 {
					r.Violation("eviction-not-by-fee", fmt.Sprintf("a transaction paying %v per weight unit was evicted while one paying %v was kept in the same eviction", *maxGone, *minKept), cs, nil)
					return false
				}
			}
			return true
		}
		if !audit(map[types.TransactionID]bool{txn.ID(): true}, w) {
			return
		}
		// sometimes a small child of the newcomer follows, paying a little less
		// per weight unit than its parent: dependent sets must survive evictions
		// in pool order (parents before children)
		if _, survived := prev[txn.ID()]; survived && rng.IntN(3) == 0 && len(txn.SiacoinOutputs) > 0 {
			eo := txn.EphemeralSiacoinOutput(0)
			child := types.V2Transaction{
				SiacoinInputs:  []types.V2SiacoinInput{{Parent: eo}},
				SiacoinOutputs: []types.SiacoinOutput{{Address: eo.SiacoinOutput.Address, Value: eo.SiacoinOutput.Value}},
			}
			b.ResignV2(&child)
			cw := tip.L.State.V2TransactionWeight(child)
			cfee := txn.MinerFee.Div64(w).Mul64(cw).Mul64(3).Div64(4)
			if !cfee.IsZero() && eo.SiacoinOutput.Value.Cmp(cfee) > 0 {
				child.MinerFee = cfee
				child.SiacoinOutputs[0].Value = eo.SiacoinOutput.Value.Sub(cfee)
				b.ResignV2(&child)
				if _, err := cm.AddV2PoolTransactions(tip.L.State.Index, []types.V2Transaction{txn.DeepCopy(), child}); err == nil {
					subs = append(subs, sub{child.ID(), child.MinerFee.Div64(tip.L.State.V2TransactionWeight(child))})
					parentOf[child.ID()] = txn.ID()
					r.Count("poolfull_children_paying_less_than_their_parent", 1)
					if !audit(map[types.TransactionID]bool{child.ID(): true}, tip.L.State.V2TransactionWeight(child)) {
						return
					}
				}
			}
		}
	}
	// blocks assembled from a pool that is heavier than one block: small
	// children of big pooled transactions are added, then blocks are mined from
	// the pool until it is empty; every one of them must be valid and adopted
	// (a block is a prefix of the pool, never a child without its parent)
	{
		pool := snapPool(cm)
		pb, _ := tip.L.PoolBuilder(rng, pool.v1, pool.v2)
		m1, m2 := len(pb.Txns), len(pb.V2Txns)
		for i := 0; i < 40; i++ {
			pb.V2Spend(env.Actors[rng.IntN(len(env.Actors))], 1.0)
		}
		_, kids := pb.TakeNew(&m1, &m2)
		maker := map[types.Hash256]types.V2Transaction{}
		for _, x := range pool.v2 {
			for _, c := range chainlab.V2Creates(x) {
				maker[c] = x
			}
		}
		for _, k := range kids {
			// a set has to contain its own unconfirmed parents: [pooled parent, child]
			var set []types.V2Transaction
			seen := map[types.TransactionID]bool{}
			for _, q := range chainlab.V2Parents(k) {
				if mk, ok := maker[q]; ok && !seen[mk.ID()] {
					seen[mk.ID()] = true
					set = append(set, mk.DeepCopy())
				}
			}
			set = append(set, k)
			if _, err := cm.AddV2PoolTransactions(tip.L.State.Index, set); err == nil {
				r.Count("poolfull_children_of_pooled_transactions", 1)
				for _, c := range chainlab.V2Creates(k) {
					maker[c] = k
				}
			} else if debugOn {
				fmt.Println("DEBUG child rejected:", err)
			}
		}
		cur := tip
		for round := 0; round < 14; round++ {
			pool = snapPool(cm)
			if len(pool.v2)+len(pool.v1) == 0 {
				break
			}
			var blk types.Block
			if pn := mon.Guard(func() { blk, _ = coreutils.MineBlock(cm, env.A(chainlab.Miner).Addr, 2*time.Second) }); pn != nil {
				r.Violation("mineblock-panic", fmt.Sprint("MineBlock panicked: ", pn), cs, nil)
				return
			}
			blk.Timestamp = cur.Block.Timestamp.Add(env.Net.BlockInterval)
			chainlab.MineNonce(cur.L.State, &blk)
			n := t.Attach(cur, blk, "", []string{"mined-from-overfull-pool"})
			r.Count("blocks_mined_from_overfull_pool", 1)
			if !n.ChainValid {
				r.Violation("mined-block-invalid:overfull-pool", fmt.Sprintf("a block assembled by MineBlock from a pool heavier than one block (%d pooled transactions, %d in the block) is invalid under the pure oracle: %s", len(pool.v2), len(blk.V2Transactions()), n.Err), cs, nil)
				return
			}
			if err := cm.AddBlocks([]types.Block{blk}); err != nil || cm.Tip().ID != n.ID {
				r.Violation("mined-block-not-adopted:overfull-pool", fmt.Sprintf("a block mined from the pool on top of the tip was not adopted: %v", err), cs, nil)
				return
			}
			cur = n
		}
	}
	r.Eval()
	r.Distinct(fmt.Sprintf("poolfull/%d/%d", stream, len(subs)))
}

// runC05ConcurrentLookups: by-id lookups from several goroutines as the first
// pool operations after the pool was invalidated (a block, or a rejected
// conflicting set). Every lookup has to agree with the answer the same lookup
// gives once things are quiet - a pooled transaction stays retrievable
// whoever else is asking - and the race detector watches the manager.
func runC05ConcurrentLookups(r *mon.Run, stream uint64) {
	rng := r.RNG(stream)
	p := chainlab.RandomParams("v2only", rng)
	env := chainlab.NewEnv(p)
	t := chainlab.NewTree(env, rng)
	node, err := chainlab.NewTestNode(env, nil)
	if err != nil {
		r.Inconclusive(err.Error())
		return
	}
	cm := node.CM
	tip := t.Root
	for i := 0; i < 4; i++ {
		tip = t.Extend(tip, chainlab.Profile{MaxTxns: 2})
	}
	if err := cm.AddBlocks(chainlab.Blocks(tip.PathFromGenesis())); err != nil {
		r.Inconclusive(err.Error())
		return
	}
	cs := c05Case{Stream: stream, Params: p}
	for round := 0; round < 6; round++ {
		cur := snapPool(cm)
		pb, _ := tip.L.PoolBuilder(rng, cur.v1, cur.v2)
		m1, m2 := len(pb.Txns), len(pb.V2Txns)
		pb.EphFloor = 1 << 30 // confirmed inputs only: no set has to carry pooled parents
		for j := 0; j < 12+rng.IntN(20); j++ {
			pb.V2Spend(env.Actors[rng.IntN(len(env.Actors))], 0)
		}
		_, fresh := pb.TakeNew(&m1, &m2)
		if len(fresh) > 0 {
			if _, err := cm.AddV2PoolTransactions(tip.L.State.Index, fresh); err != nil {
				r.Count("conclookup_skip:submission-refused", 1)
				continue
			}
		}
		set := cm.V2PoolTransactions()
		if len(set) < 3 {
			r.Count("conclookup_skip:pool-too-small", 1)
			continue
		}
		// invalidate the pool: a block confirming a prefix of the set, or a
		// rejected set that conflicts with the pool
		if rng.IntN(2) == 0 {
			bb := tip.L.NewBuilder(rng)
			for _, x := range set[:1+rng.IntN(len(set)/2)] {
				bb.TryV2("from-pool", x.DeepCopy())
			}
			blk := bb.Seal(tip.Block.Timestamp.Add(env.Net.BlockInterval), env.A(chainlab.Miner).Addr, true)
			n := t.Attach(tip, blk, "", bb.Kinds)
			if !n.ChainValid {
				r.Count("conclookup_skip:block-invalid", 1)
				continue
			}
			if err := cm.AddBlocks(chainlab.Blocks([]*chainlab.Node{n})); err != nil || cm.Tip().ID != n.ID {
				r.Violation("concurrent-addblocks", fmt.Sprintf("valid block rejected: %v", err), cs, nil)
				return
			}
			tip = n
		} else {
			c := set[rng.IntN(len(set))].DeepCopy()
			c.ArbitraryData = []byte{9, 9, byte(round)}
			pb.ResignV2(&c)
			cm.AddV2PoolTransactions(tip.L.State.Index, []types.V2Transaction{c})
		}
		ids := make([]types.TransactionID, len(set))
		for i := range set {
			ids[i] = set[i].ID()
		}
		const workers = 8
		found := make([][]bool, workers)
		wrong := make([]string, workers)
		start := make(chan struct{})
		var wg sync.WaitGroup
		for w := 0; w < workers; w++ {
			wg.Add(1)
			go func(w int) {
				defer wg.Done()
				found[w] = make([]bool, len(ids))
				<-start
				for k := range ids {
					i := (k + w*5) % len(ids)
					var got types.V2Transaction
					var ok bool
					if pn := mon.Guard(func() { got, ok = cm.V2PoolTransaction(ids[i]) }); pn != nil {
						wrong[w] = fmt.Sprint("V2PoolTransaction panicked: ", pn)
						return
					}
					if ok && got.ID() != ids[i] {
						wrong[w] = fmt.Sprintf("V2PoolTransaction(%v) returned %v", ids[i], got.ID())
						return
					}
					found[w][i] = ok
				}
			}(w)
		}
		close(start)
		wg.Wait()
		for w := range wrong {
			if wrong[w] != "" {
				r.Violation("lookup-wrong:concurrent", wrong[w], cs, nil)
				return
			}
		}
		for i, id := range ids {
			_, quiet := cm.V2PoolTransaction(id)
			for w := 0; w < workers; w++ {
				if found[w][i] != quiet {
					r.Violation("lookup-differs-under-concurrency", fmt.Sprintf("one of %d concurrent lookups of %v right after the pool was invalidated reported present=%v, the same lookup once quiet reports present=%v", workers, id, found[w][i], quiet), cs, nil)
					return
				}
			}
		}
		r.Count("concurrent_lookup_rounds_after_invalidation", 1)
		r.Count("concurrent_lookups_compared", workers*len(ids))
	}
	r.Eval()
	r.Distinct(fmt.Sprintf("conclookup/%d", stream))
}
