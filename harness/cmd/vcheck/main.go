// Command vcheck holds every registered property monitor; see package vcli.
package main

import "verif/harness/vcli"

func register(id, level string, fn vcli.CheckFn) { vcli.Register(id, level, fn) }

func parallel(n int, fn func(i int)) { vcli.Parallel(n, fn) }

func main() { vcli.Main() }
