// Command vcheck runs one property monitor per invocation:
//
//	vcheck <ID> <quick|thorough> [--replay file]
//	vcheck racepost <ID> <race-log-prefix> <child-exit-code>
//	vcheck crashpost <ID> <tier> <child-output>
package main

import (
	"fmt"
	"os"
	"sort"

	"verif/harness/mon"
)

type checkFn func(r *mon.Run, replay string)

type checkDef struct {
	level string
	fn    checkFn
}

var registry = map[string]checkDef{}

func register(id, level string, fn checkFn) { registry[id] = checkDef{level, fn} }

func main() {
	if len(os.Args) < 2 {
		usage()
	}
	switch os.Args[1] {
	case "racepost":
		if len(os.Args) < 5 {
			usage()
		}
		os.Exit(racePost(os.Args[2], os.Args[3], os.Args[4]))
	case "crashpost":
		if len(os.Args) < 5 {
			usage()
		}
		os.Exit(crashPost(os.Args[2], os.Args[3], os.Args[4]))
	case "list":
		ids := make([]string, 0, len(registry))
		for id := range registry {
			ids = append(ids, id)
		}
		sort.Strings(ids)
		for _, id := range ids {
			fmt.Println(id, registry[id].level)
		}
		return
	}
	id := os.Args[1]
	def, ok := registry[id]
	if !ok {
		fmt.Printf("INCONCLUSIVE no monitor registered for %s\n", id)
		os.Exit(mon.ExitInconclusive)
	}
	tier := "quick"
	if len(os.Args) > 2 {
		tier = os.Args[2]
	}
	replay := ""
	for i := 3; i+1 < len(os.Args); i++ {
		if os.Args[i] == "--replay" {
			replay = os.Args[i+1]
		}
	}
	r := mon.Start(id, tier, def.level)
	def.fn(r, replay)
	r.Finish()
}

func usage() {
	fmt.Fprintln(os.Stderr, "usage: vcheck <ID> <quick|thorough> [--replay file] | racepost <ID> <prefix> <rc> | crashpost <ID> <tier> <log>")
	os.Exit(2)
}
