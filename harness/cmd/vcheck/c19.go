package main

import (
	"fmt"
	"go.sia.tech/core/consensus"
	"go.sia.tech/coreutils/chain"

	"go.sia.tech/core/types"
	"verif/harness/lab/chainlab"
	"verif/harness/mon"
)

func init() { register("C19", "exploration", runC19) }

type c19Case struct {
	Stream uint64          `json:"rng_stream"`
	Params chainlab.Params `json:"params"`
	Steps  []string        `json:"steps"`
}

type c19Hist struct {
	r      *mon.Run
	cs     c19Case
	t      *chainlab.Tree
	P, U   *chainlab.TestNode
	aU     *chainlab.Auditor
	pTip   *chainlab.Node
	pruned map[types.BlockID]bool // bodies expected absent on P
	stored map[types.BlockID]bool // bodies handed to P so far
	split  bool                   // P refused something U adopted
	bad    bool
}

func (h *c19Hist) log(f string, a ...any) { h.cs.Steps = append(h.cs.Steps, fmt.Sprintf(f, a...)) }

func (h *c19Hist) viol(sig, what string, detail any) {
	h.r.Violation(sig, what, h.cs, detail)
	h.bad = true
}

// auditP: P's chain is the pure chain of pTip (C01 audit without block bodies).
func (h *c19Hist) auditP() {
	cm := h.P.CM
	if cm.Tip() != h.pTip.L.State.Index {
		h.viol("pruned-node-tip", fmt.Sprintf("pruned node tip %v, expected node %d", cm.Tip(), h.pTip.Idx), nil)
		return
	}
	if chainlab.StateBytes(cm.TipState()) != chainlab.StateBytes(h.pTip.L.State) {
		h.viol("pruned-node-tipstate", "pruned node's tip state differs from the pure replay", nil)
		return
	}
	path := append([]*chainlab.Node{h.t.Root}, h.pTip.PathFromGenesis()...)
	for ht, nd := range path {
		idx, ok := cm.BestIndex(uint64(ht))
		if !ok || idx.ID != nd.ID {
			h.viol("pruned-node-index", fmt.Sprintf("BestIndex(%d) wrong on the pruned node", ht), nil)
			return
		}
		cs, ok := cm.State(nd.ID)
		if !ok || chainlab.StateBytes(cs) != chainlab.StateBytes(nd.L.State) {
			h.viol("pruned-node-state-missing", fmt.Sprintf("State of best-chain node %d missing or wrong on the pruned node", nd.Idx), nil)
			return
		}
	}
	// bodies: exactly the expected ones are absent
	for id := range h.stored {
		nd := h.t.ByID[id]
		var ok bool
		if p := mon.Guard(func() { _, ok = cm.Block(id) }); p != nil {
			h.viol("block-query-panic", fmt.Sprint("Block() panicked on the pruned node: ", p), nil)
			return
		}
		switch {
		case h.pruned[id] && ok:
			h.viol("body-not-pruned", fmt.Sprintf("body of best-chain node %d (height %d) should have been pruned but is present", nd.Idx, nd.Height), nil)
			return
		case !h.pruned[id] && !ok:
			h.viol("body-lost", fmt.Sprintf("body of node %d (height %d) is gone although it is not a best-chain block below a pruned height", nd.Idx, nd.Height), nil)
			return
		}
	}
	h.r.Count("pruned_node_audits", 1)
}

// compareServing: history, header serving, min reorg index relation.
func (h *c19Hist) compareServing() {
	if h.split {
		return
	}
	pc, uc := h.P.CM, h.U.CM
	hp, err1 := pc.History()
	hu, err2 := uc.History()
	if err1 != nil || err2 != nil || hp != hu {
		h.viol("history-differs", "History() differs between the pruned node and its unpruned twin", nil)
		return
	}
	g := h.t.Root.L.State.Index
	p1, rem1, e1 := pc.Headers(g, 1000)
	u1, rem2, e2 := uc.Headers(g, 1000)
	if (e1 != nil) != (e2 != nil) || rem1 != rem2 || len(p1) != len(u1) {
		h.viol("headers-differ", fmt.Sprintf("Headers() differs: pruned (%d,%d,%v) unpruned (%d,%d,%v)", len(p1), rem1, e1, len(u1), rem2, e2), nil)
		return
	}
	for i := range p1 {
		if p1[i].ID() != u1[i].ID() {
			h.viol("headers-differ", "Headers() serves different headers on the pruned node", nil)
			return
		}
	}
	h.r.Count("serving_comparisons", 1)
}

// probes that need pruned bodies: must fail with an error, never panic.
func (h *c19Hist) probePruned() {
	cm := h.P.CM
	if len(h.pruned) == 0 {
		return
	}
	// a subscriber below the pruned range
	var e1 error
	if p := mon.Guard(func() { _, _, e1 = cm.UpdatesSince(types.ChainIndex{}, 5) }); p != nil {
		h.viol("updates-since-panic-pruned", fmt.Sprint("UpdatesSince panicked on a pruned store: ", p), nil)
		return
	}
	if h.pruned[h.t.Root.ID] && e1 == nil {
		h.viol("updates-since-pruned-no-error", "UpdatesSince from nothing succeeded although the genesis body is pruned", nil)
		return
	}
	var e2 error
	if p := mon.Guard(func() { _, _, e2 = cm.BlocksForHistory([]types.BlockID{h.t.Root.ID}, 3) }); p != nil {
		h.viol("blocks-for-history-panic-pruned", fmt.Sprint("BlocksForHistory panicked on a pruned store: ", p), nil)
		return
	}
	if h.pTip.Height >= 1 {
		first := h.pTip.Ancestor(1)
		if h.pruned[first.ID] && e2 == nil {
			h.viol("blocks-for-history-pruned-no-error", "BlocksForHistory served blocks whose bodies are pruned", nil)
			return
		}
	}
	h.r.Count("pruned_body_probes", 2)
	// a subscriber sitting ON the highest pruned block of the best chain needs
	// no pruned body to go on: its own block's header and state are kept, and
	// every body above it is present - it has to reach the tip
	var start *chainlab.Node
	for x := h.pTip; x != nil; x = x.Parent {
		if h.pruned[x.ID] {
			start = x
			break
		}
	}
	if start == nil {
		return
	}
	idx := start.L.State.Index
	if start == h.pTip {
		var err error
		var n int
		if p := mon.Guard(func() {
			rus, aus, e := cm.UpdatesSince(idx, 3)
			n, err = len(rus)+len(aus), e
		}); p != nil || err != nil || n != 0 {
			h.viol("subscriber-on-pruned-block-stranded", fmt.Sprintf("a subscriber at the (pruned) tip %v asked for updates: panic %v, error %v, %d updates", idx, p, err, n), nil)
			return
		}
	}
	for i := 0; idx != h.pTip.L.State.Index; i++ {
		var rus []chain.RevertUpdate
		var aus []chain.ApplyUpdate
		var err error
		if p := mon.Guard(func() { rus, aus, err = cm.UpdatesSince(idx, 3) }); p != nil {
			h.viol("updates-since-panic:from-pruned-block", fmt.Sprint("UpdatesSince panicked: ", p), nil)
			return
		}
		if err != nil {
			h.viol("subscriber-on-pruned-block-stranded", fmt.Sprintf("a subscriber at %v (the highest pruned block of the best chain; every body above it is stored) cannot go on: %v", idx, err), nil)
			return
		}
		if len(rus) != 0 || len(aus) == 0 || len(aus) > 3 || i > 10000 {
			h.viol("subscriber-on-pruned-block-wrong-updates", fmt.Sprintf("from %v on the best chain: %d reverts, %d applies", idx, len(rus), len(aus)), nil)
			return
		}
		for _, au := range aus {
			n := h.pTip.Ancestor(idx.Height + 1)
			if n == nil || au.State.Index != n.L.State.Index {
				h.viol("subscriber-on-pruned-block-wrong-updates", fmt.Sprintf("update after %v leads to %v, not to the next block of the best chain", idx, au.State.Index), nil)
				return
			}
			idx = au.State.Index
		}
	}
	h.r.Count("subscribers_resumed_on_a_pruned_block", 1)
	if start == h.pTip {
		h.r.Count("subscribers_resumed_on_a_pruned_tip", 1)
	}
}

func (h *c19Hist) prune(height uint64) {
	tipH := h.pTip.Height
	if p := mon.Guard(func() { h.P.CM.PruneBlocks(height) }); p != nil {
		h.viol("prune-panic", fmt.Sprint("PruneBlocks panicked: ", p), nil)
		return
	}
	for x := h.pTip; x != nil; x = x.Parent {
		if x.Height < height {
			h.pruned[x.ID] = true
		}
	}
	rel := "below-tip"
	switch {
	case height == 0:
		rel = "zero"
	case height == tipH:
		rel = "tip"
	case height == tipH+1:
		rel = "tip+1"
	case height > tipH+1:
		rel = "beyond-tip+1"
	}
	h.r.Count("prunes:"+rel, 1)
	h.log("prune(%d) tip=%d", height, tipH)
	// "pruning never breaks the node": the manager's other services that read
	// stored blocks keep answering (queried only here, right after a prune, so
	// that whatever they cache is as old as the history allows)
	if p := mon.Guard(func() {
		h.P.CM.RecommendedFee()
		h.P.CM.PoolTransactions()
		h.P.CM.V2PoolTransactions()
		h.P.CM.History()
	}); p != nil {
		h.viol("service-panic-after-prune:"+rel, fmt.Sprint("RecommendedFee / pool listing / History panicked after PruneBlocks: ", p), nil)
		return
	}
	h.r.Count("services_probed_after_prune", 1)
	h.auditP()
	if h.bad {
		return
	}
	// min reorg index: the lowest best-chain block whose body and all above are present
	var min types.ChainIndex
	if p := mon.Guard(func() { min = h.P.CM.MinReorgIndex() }); p != nil {
		h.viol("minreorg-panic", fmt.Sprint("MinReorgIndex panicked: ", p), nil)
		return
	}
	want := h.pTip
	for want.Parent != nil && !h.pruned[want.Parent.ID] {
		want = want.Parent
	}
	if min != want.L.State.Index {
		h.viol("minreorg-wrong", fmt.Sprintf("MinReorgIndex = %v, the lowest block with all bodies above present is node %d (%v)", min, want.Idx, want.L.State.Index), nil)
	}
}

// submit hands a batch to both nodes and compares outcomes. forkPoint is the
// height of the fork point of the batch's chain with P's best chain.
func (h *c19Hist) submit(batch []*chainlab.Node, what string) {
	last := batch[len(batch)-1]
	min := h.P.CM.MinReorgIndex()
	fork := chainlab.CommonAncestor(last, h.pTip)
	before := h.P.ServedView(false)
	var perr error
	// fully valid v2 batches above the require height sometimes arrive through
	// the pre-validated path, as the syncer delivers them
	validated := h.t.Rng.IntN(3) == 0
	var states []consensus.State
	for _, n := range batch {
		// (only blocks the node has not been given before: re-delivering a pruned
		// block this way stores its body again, which the property does not rule
		// out or demand)
		if !n.ChainValid || n.Block.V2 == nil || n.Height <= h.cs.Params.Require || h.stored[n.ID] {
			validated = false
			break
		}
		states = append(states, n.L.State)
	}
	if validated {
		what += " (pre-validated)"
		h.r.Count("prevalidated_batches_on_pruned_node", 1)
	}
	if p := mon.Guard(func() {
		if validated {
			perr = h.P.CM.AddValidatedV2Blocks(chainlab.Blocks(batch), states)
		} else {
			perr = h.P.CM.AddBlocks(chainlab.Blocks(batch))
		}
	}); p != nil {
		h.viol("addblocks-panic-pruned", fmt.Sprintf("AddBlocks panicked on the pruned node (%s, fork point height %d, min reorg height %d): %v", what, fork.Height, min.Height, p), nil)
		return
	}
	for _, n := range batch {
		h.stored[n.ID] = true
	}
	var uerr error
	var ufs []chainlab.Finding
	if !h.split {
		uerr, ufs = h.aU.Submit(batch)
		if len(ufs) > 0 {
			reportFindings(h.r, chainCase{Kind: "c19-unpruned", Stream: h.cs.Stream, Params: h.cs.Params}, h.t, h.aU, ufs)
			h.bad = true
			return
		}
	}
	heavier := last.ChainValid && last.L.State.SufficientlyHeavierThan(h.pTip.L.State)
	got := h.t.ByID[h.P.CM.Tip().ID]
	h.log("%s batch=%v fork=%d min=%d perr=%v uerr=%v", what, idxsOf(batch), fork.Height, min.Height, perr != nil, uerr != nil)
	switch {
	case heavier && perr == nil:
		if got != last {
			h.viol("pruned-node-tip", "pruned node accepted a sufficiently heavier valid chain without adopting it", nil)
			return
		}
		if fork != h.pTip {
			h.r.Count("reorgs_on_pruned_node", 1)
		}
		h.pTip = last
	case heavier && perr != nil:
		if fork.Height >= min.Height {
			h.viol("reorg-above-minreorg-refused", fmt.Sprintf("a valid heavier fork with fork point height %d >= MinReorgIndex height %d was refused: %v", fork.Height, min.Height, perr), nil)
			return
		}
		h.r.Count("forks_below_minreorg_refused", 1)
		if got != h.pTip {
			h.viol("pruned-node-tip", "pruned node returned an error but its tip moved", nil)
			return
		}
		if k, x, y := before.Diff(h.P.ServedView(false)); k != "" {
			h.viol("view-changed-after-refused-fork", "the pruned node's served view changed although it refused the fork", map[string]string{"key": k, "before": clipS(x), "after": clipS(y)})
			return
		}
		if !h.split && uerr == nil {
			h.split = true
			h.r.Count("twins_split", 1)
		}
	default:
		if got != h.pTip {
			h.viol("pruned-node-tip", "pruned node's tip moved without a sufficiently heavier valid chain", nil)
			return
		}
	}
	h.auditP()
	if !h.split && !h.bad {
		if h.U.CM.Tip() != h.P.CM.Tip() || chainlab.StateBytes(h.U.CM.TipState()) != chainlab.StateBytes(h.P.CM.TipState()) {
			h.viol("twins-differ", "pruned node and unpruned twin ended on different tips/states", nil)
		}
	}
}

func idxsOf(ns []*chainlab.Node) []int {
	out := make([]int, len(ns))
	for i, n := range ns {
		out[i] = n.Idx
	}
	return out
}

func runC19History(r *mon.Run, stream uint64) {
	rng := r.RNG(stream)
	regime := regimes[rng.IntN(3)]
	p := chainlab.RandomParams(regime, rng)
	env := chainlab.NewEnv(p)
	t := chainlab.NewTree(env, rng)
	P, err := chainlab.NewTestNode(env, nil)
	if err != nil {
		r.Inconclusive(err.Error())
		return
	}
	U, _ := chainlab.NewTestNode(env, nil)
	h := &c19Hist{r: r, cs: c19Case{Stream: stream, Params: p}, t: t, P: P, U: U, aU: chainlab.NewAuditor(t, U), pTip: t.Root,
		pruned: map[types.BlockID]bool{}, stored: map[types.BlockID]bool{t.Root.ID: true}}
	prof := chainlab.Profile{MaxTxns: 3}
	tip := t.Root
	n0 := 8 + rng.IntN(14)
	var main []*chainlab.Node
	for i := 0; i < n0; i++ {
		tip = t.Extend(tip, prof)
		main = append(main, tip)
	}
	h.submit(main, "main")
	for step := 0; step < 10 && !h.bad; step++ {
		tipH := h.pTip.Height
		switch k := rng.IntN(10); {
		case k < 4: // prune
			hs := []uint64{0, 1, tipH / 2, tipH, tipH + 1, tipH + 2, tipH + 5, uint64(rng.IntN(int(tipH) + 1))}
			h.prune(hs[rng.IntN(len(hs))])
			if !h.bad {
				h.compareServing()
				h.probePruned()
			}
		case k < 6: // extend the tip
			x := h.pTip
			var ext []*chainlab.Node
			for i := 0; i < 1+rng.IntN(3); i++ {
				x = t.Extend(x, prof)
				ext = append(ext, x)
			}
			h.submit(ext, "extend")
		default: // a heavier fork around the boundary
			min := h.P.CM.MinReorgIndex()
			var forkH uint64
			switch rng.IntN(4) {
			case 0:
				forkH = min.Height
			case 1:
				forkH = min.Height + uint64(rng.IntN(int(tipH-min.Height)+1))
			case 2:
				if min.Height > 0 {
					forkH = min.Height - 1
				}
			default:
				if min.Height > 1 {
					forkH = uint64(rng.IntN(int(min.Height)))
				}
			}
			if forkH > tipH {
				forkH = tipH
			}
			x := h.pTip.Ancestor(forkH)
			var fork []*chainlab.Node
			for i := uint64(0); i < tipH-forkH+1+uint64(rng.IntN(2)); i++ {
				x = t.Extend(x, prof)
				fork = append(fork, x)
			}
			rel := "above"
			if forkH == min.Height {
				rel = "at"
			} else if forkH < min.Height {
				rel = "below"
			}
			r.Count("forks:"+rel+"-minreorg", 1)
			h.submit(fork, "fork-"+rel)
		}
	}
	if h.bad {
		return
	}
	// reopen the pruned store from its durable image: must come back consistent
	P.Store.Flush()
	re, err := chainlab.NewTestNodeOnImage(env, P.Shadow.Model.Durable)
	if err != nil {
		h.viol("pruned-store-reopen", "reopening a pruned store failed: "+err.Error(), nil)
		return
	}
	if re.CM.Tip() != h.pTip.L.State.Index || chainlab.StateBytes(re.CM.TipState()) != chainlab.StateBytes(h.pTip.L.State) {
		h.viol("pruned-store-reopen", "a reopened pruned store does not come back at its tip", nil)
		return
	}
	r.Count("pruned_store_reopens", 1)
	// a prune on the restarted node that the process does not survive: whatever
	// part of the walk had become durable, the next start has to be able to
	// complete it ("repeated prunes")
	if tipH := h.pTip.Height; tipH >= 2 {
		hp := 1 + uint64(rng.IntN(int(tipH)+1))
		if pn := mon.Guard(func() { re.CM.PruneBlocks(hp) }); pn != nil {
			h.viol("prune-panic:after-reopen", fmt.Sprint("PruneBlocks panicked on a reopened store: ", pn), nil)
			return
		}
		re2, err := chainlab.NewTestNodeOnImage(env, re.Shadow.Model.Durable)
		if err != nil {
			h.viol("pruned-store-reopen:after-interrupted-prune", "reopening after an interrupted prune failed: "+err.Error(), nil)
			return
		}
		if re2.CM.Tip() != h.pTip.L.State.Index {
			h.viol("pruned-store-reopen:after-interrupted-prune", "a store reopened after an interrupted prune does not come back at its tip", nil)
			return
		}
		if pn := mon.Guard(func() { re2.CM.PruneBlocks(hp) }); pn != nil {
			h.viol("prune-panic:after-reopen", fmt.Sprint("PruneBlocks panicked on a reopened store: ", pn), nil)
			return
		}
		for x := h.pTip; x != nil; x = x.Parent {
			_, has := re2.CM.Block(x.ID)
			if x.Height < hp && has {
				h.viol("body-kept-below-prune-height:after-interrupted-prune", fmt.Sprintf("PruneBlocks(%d) was interrupted by a stop (only what was durable survived) and repeated after the restart: the body of best-chain block %d is still stored", hp, x.Height), nil)
				return
			} else if x.Height >= hp && !has && !h.pruned[x.ID] {
				h.viol("body-missing-above-prune-height:after-interrupted-prune", fmt.Sprintf("after PruneBlocks(%d), a restart and PruneBlocks(%d) again the body of best-chain block %d is gone", hp, hp, x.Height), nil)
				return
			}
		}
		r.Count("prunes_repeated_after_a_stop_during_the_first_attempt", 1)
	}
	r.Eval()
	r.Distinct(fmt.Sprintf("c19/%s/%d/%d/%v", regime, stream, len(h.pruned), h.split))
	if stream%37 == 0 {
		r.Sample(h.cs)
	}
}

func runC19(r *mon.Run, replay string) {
	r.Rule("generated histories fed to a pruned node P and an unpruned twin U; PruneBlocks(h) for h in {0,1,mid,PRNG,tip,tip+1,tip+2,tip+5}, repeated; after every prune exactly the best-chain bodies below h must be absent (all other stored bodies present), index/states equal to the pure replay, MinReorgIndex = lowest block with all bodies above present, History/Headers equal to U's; forks with fork point above/at/below MinReorgIndex: at/above must be adopted with pure states, below may be refused with an error and an unchanged view; UpdatesSince/BlocksForHistory needing pruned bodies must error without panic; pruned store reopened from its durable image, pruned again, stopped (only the durable part survives), reopened and pruned again: exactly the best-chain bodies below the height are gone; a subscriber sitting on the highest pruned best-chain block must reach the tip; PruneBlocks with a heavier fork submitted from another goroutine during the walk (started from a store hook, lock hand-over forced by delays): the missing bodies and the tip must be explained by one of the two sequential orders; distinct = (regime, stream, pruned count, split)")
	if st, ok := replayStream(replay); ok {
		if st >= 197000 {
			runC19Backlog(r, st)
		} else if st >= 195000 {
			runC19PruneRace(r, st)
		} else {
			runC19History(r, st)
		}
		return
	}
	parallel(r.Pick(300, 5000), func(i int) { runC19History(r, uint64(190000+i)) })
	parallel(r.Pick(48, 600), func(i int) { runC19PruneRace(r, uint64(195000+i)) })
	// one at a time: each holds ~1300 ledgers, and the race runtime gives up
	// ("too many address space collisions") when several run next to the rest
	for i := 0; i < r.Pick(3, 8); i++ {
		runC19Backlog(r, uint64(197000+i))
	}
	r.Floor("prunes_of_a_backlog_of_more_than_1000_bodies", 3)
	r.Floor("prune_race_submission_started_by_the_hook", 20)
	r.Floor("pruned_node_audits", 500)
	r.Floor("subscribers_resumed_on_a_pruned_block", 100)
	r.Floor("prunes_repeated_after_a_stop_during_the_first_attempt", 100)
	r.Floor("prunes:beyond-tip+1", 20)
	r.Floor("forks:below-minreorg", 20)
	r.Floor("forks:at-minreorg", 20)
	r.Floor("reorgs_on_pruned_node", 50)
}
