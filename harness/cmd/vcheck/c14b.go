package main

import (
	"fmt"

	"go.sia.tech/core/types"
	"verif/harness/lab/chainlab"
	"verif/harness/mon"
)

// runC14NearLimit: pool states just below the weight limit. A set that is
// valid on its own, whose first fresh transaction would lift the pool over the
// limit and whose last transaction conflicts with the pool, is rejected as a
// whole: the pool has to list (and find by id) exactly what it listed before.
func runC14NearLimit(r *mon.Run, stream uint64) {
	rng := r.RNG(stream)
	v2 := rng.IntN(2) == 0
	regime := "v1only"
	if v2 {
		regime = "v2only"
	}
	p := chainlab.RandomParams(regime, rng)
	env := chainlab.NewEnv(p)
	t := chainlab.NewTree(env, rng)
	tip := t.Root
	for i := 0; i < 6; i++ {
		tip = t.ExtendEmpty(tip, zeroT)
	}
	node, err := chainlab.NewTestNode(env, nil)
	if err != nil {
		r.Inconclusive(err.Error())
		return
	}
	cm := node.CM
	if err := cm.AddBlocks(chainlab.Blocks(tip.PathFromGenesis())); err != nil {
		r.Inconclusive(err.Error())
		return
	}
	cs := c14Case{Stream: stream, Params: p, Height: tip.Height, Kind: "heavy-then-conflict-near-limit"}
	b := tip.L.NewBuilder(rng)
	b.EphFloor = 1 << 30 // confirmed inputs only: independent transactions
	state := tip.L.State
	maxW := state.MaxBlockWeight() * 10
	tag := 0
	// one independent transaction carrying size bytes of arbitrary data
	heavy := func(size int) (t1 types.Transaction, t2 types.V2Transaction, w uint64, ok bool) {
		tag++
		data := make([]byte, size)
		data[0], data[1], data[2] = byte(tag), byte(stream), byte(stream>>8)
		for _, a := range env.Actors {
			if v2 {
				before := len(b.V2Txns)
				if b.V2Spend(a, 0) && len(b.V2Txns) > before {
					t2 = b.V2Txns[len(b.V2Txns)-1].DeepCopy()
					t2.ArbitraryData = data
					b.ResignV2(&t2)
					return t1, t2, state.V2TransactionWeight(t2), true
				}
			} else {
				before := len(b.Txns)
				if b.V1Spend(a, 0) && len(b.Txns) > before {
					t1 = chainlab.DeepCopyTxn(b.Txns[len(b.Txns)-1])
					t1.ArbitraryData = [][]byte{append([]byte("NonSia"), data...)}
					b.ResignV1(&t1)
					return t1, t2, state.TransactionWeight(t1), true
				}
			}
		}
		return
	}
	submit := func(t1 []types.Transaction, t2 []types.V2Transaction) (bool, error) {
		if v2 {
			return cm.AddV2PoolTransactions(state.Index, t2)
		}
		return cm.AddPoolTransactions(t1)
	}
	var total uint64
	for total+2_100_000+800_000 < maxW {
		t1, t2, w, ok := heavy(1_400_000 + rng.IntN(500_000))
		if !ok {
			r.Count("nearlimit_setup_out_of_outputs", 1)
			return
		}
		if _, err := submit([]types.Transaction{t1}, []types.V2Transaction{t2}); err != nil {
			r.Count("nearlimit_setup_rejected", 1)
			return
		}
		total += w
	}
	// a filler that leaves a gap of 200k..700k below the limit
	if room := maxW - total; room > 900_000 {
		t1, t2, w, ok := heavy(int(room) - 250_000 - rng.IntN(450_000))
		if !ok {
			r.Count("nearlimit_setup_out_of_outputs", 1)
			return
		}
		if _, err := submit([]types.Transaction{t1}, []types.V2Transaction{t2}); err != nil {
			r.Count("nearlimit_setup_rejected", 1)
			return
		}
		total += w
	}
	pre := snapPool(cm)
	var listed uint64
	for _, x := range pre.v1 {
		listed += state.TransactionWeight(x)
	}
	for _, x := range pre.v2 {
		listed += state.V2TransactionWeight(x)
	}
	if listed != total || listed >= maxW {
		r.Count("nearlimit_setup_pool_differs", 1)
		return
	}
	gap := maxW - listed
	h1, h2, hw, ok := heavy(int(gap) + rng.IntN(400_000))
	if !ok || hw < gap {
		r.Count("nearlimit_setup_out_of_outputs", 1)
		return
	}
	// the conflicting member: a pooled transaction re-made with another fee
	var c1 types.Transaction
	var c2 types.V2Transaction
	if v2 {
		c2 = pre.v2[rng.IntN(len(pre.v2))].DeepCopy()
		c2.ArbitraryData = []byte{1, 2, 3}
		b.ResignV2(&c2)
	} else {
		c1 = chainlab.DeepCopyTxn(pre.v1[rng.IntN(len(pre.v1))])
		c1.ArbitraryData = nil
		b.ResignV1(&c1)
	}
	var set1 []types.Transaction
	var set2 []types.V2Transaction
	if rng.IntN(2) == 0 {
		// an already pooled member first
		if v2 {
			set2 = append(set2, pre.v2[rng.IntN(len(pre.v2))].DeepCopy())
		} else {
			set1 = append(set1, chainlab.DeepCopyTxn(pre.v1[rng.IntN(len(pre.v1))]))
		}
		cs.Kind = "known-heavy-then-conflict-near-limit"
	}
	if v2 {
		set2 = append(set2, h2, c2)
	} else {
		set1 = append(set1, h1, c1)
	}
	cs.Set = idsOf(set1, set2)
	cs.Pool = idsOf(pre.v1, pre.v2)
	cs.Detail = fmt.Sprintf("pool weighs %d of %d, the fresh member weighs %d", listed, maxW, hw)
	var serr error
	if pn := mon.Guard(func() { _, serr = submit(set1, set2) }); pn != nil {
		r.Violation("submission-panic:near-limit", fmt.Sprint("submission panicked: ", pn), cs, nil)
		return
	}
	post := snapPool(cm)
	if serr == nil {
		r.Violation("conflicting-set-accepted:near-limit", "a set whose last member double-spends the input of a pooled transaction was accepted", cs, nil)
		return
	}
	r.Count("rejected_sets_crossing_the_pool_limit", 1)
	if post.key() != pre.key() {
		missing := 0
		for id := range pre.ids {
			if _, ok := post.ids[id]; !ok {
				missing++
			}
		}
		r.Violation("rejected-set-changed-pool:near-limit", fmt.Sprintf("the rejected set changed the pool: %d transactions listed before, %d after, %d of the former are gone (%s)", len(pre.ids), len(post.ids), missing, cs.Detail), cs, nil)
		return
	}
	c14Lookups(r, cm, pre, nil, cs)
	if r.Violations() > 0 {
		return
	}
	// the fresh member alone is acceptable (the pool may then evict)
	if v2 {
		_, serr = submit(nil, []types.V2Transaction{h2.DeepCopy()})
	} else {
		_, serr = submit([]types.Transaction{chainlab.DeepCopyTxn(h1)}, nil)
	}
	if serr != nil {
		r.Violation("valid-part-rejected:near-limit", "the fresh valid member of the rejected set was refused when offered alone: "+serr.Error(), cs, nil)
		return
	}
	r.Eval()
	r.Distinct(fmt.Sprintf("nearlimit/%d/%s/%d", stream, cs.Kind, len(pre.ids)))
}

// runC14Reorg: pool states left behind by a reorg. A parent is confirmed, its
// child (and grandchild) are pooled on top of the confirming block, and a
// heavier fork replaces that block (confirming the parent again or not). The
// whole family is then resubmitted as one valid set: it has to be accepted,
// 'known' has to say whether every member was listed before the call, and
// afterwards every member has to be listed and found by id.
func runC14Reorg(r *mon.Run, stream uint64) {
	rng := r.RNG(stream)
	v2 := rng.IntN(2) == 0
	regime := "v1only"
	if v2 {
		regime = "v2only"
	}
	p := chainlab.RandomParams(regime, rng)
	env := chainlab.NewEnv(p)
	t := chainlab.NewTree(env, rng)
	base := t.Root
	for i := 0; i < 5; i++ {
		base = t.ExtendEmpty(base, zeroT)
	}
	node, err := chainlab.NewTestNode(env, nil)
	if err != nil {
		r.Inconclusive(err.Error())
		return
	}
	cm := node.CM
	if err := cm.AddBlocks(chainlab.Blocks(base.PathFromGenesis())); err != nil {
		r.Inconclusive(err.Error())
		return
	}
	readd := rng.IntN(3) == 0
	queryAfterReorg := rng.IntN(2) == 0
	withGrandchild := rng.IntN(2) == 0
	cs := c14Case{Stream: stream, Params: p, Kind: fmt.Sprintf("family-resubmitted-after-reorg/readd=%v/grandchild=%v/queried=%v", readd, withGrandchild, queryAfterReorg)}
	// parent
	b := base.L.NewBuilder(rng)
	b.EphFloor = 1 << 30
	var p1 types.Transaction
	var p2 types.V2Transaction
	okP := false
	for _, a := range env.Actors {
		if v2 {
			if n := len(b.V2Txns); b.V2Spend(a, 0) && len(b.V2Txns) > n {
				p2, okP = b.V2Txns[n].DeepCopy(), true
				break
			}
		} else {
			if n := len(b.Txns); b.V1Spend(a, 0) && len(b.Txns) > n {
				p1, okP = chainlab.DeepCopyTxn(b.Txns[n]), true
				break
			}
		}
	}
	if !okP {
		r.Count("reorg_setup_failed", 1)
		return
	}
	if v2 {
		_, err = cm.AddV2PoolTransactions(base.L.State.Index, []types.V2Transaction{p2.DeepCopy()})
	} else {
		_, err = cm.AddPoolTransactions([]types.Transaction{chainlab.DeepCopyTxn(p1)})
	}
	if err != nil {
		r.Count("reorg_setup_failed", 1)
		return
	}
	// the confirming block
	seal := func(parent *chainlab.Node, withParent bool) *chainlab.Node {
		bb := parent.L.NewBuilder(rng)
		if withParent {
			if v2 {
				bb.TryV2("parent", p2.DeepCopy())
			} else {
				bb.TryV1("parent", chainlab.DeepCopyTxn(p1))
			}
		}
		blk := bb.Seal(parent.Block.Timestamp.Add(env.Net.BlockInterval), env.A(chainlab.Miner).Addr, v2)
		return t.Attach(parent, blk, "", bb.Kinds)
	}
	n1 := seal(base, true)
	if !n1.ChainValid {
		r.Count("reorg_setup_failed", 1)
		return
	}
	if err := cm.AddBlocks(chainlab.Blocks([]*chainlab.Node{n1})); err != nil || cm.Tip().ID != n1.ID {
		r.Count("reorg_setup_failed", 1)
		return
	}
	// child and grandchild on top of the confirming block
	fee := types.Siacoins(1).Div64(50)
	var k1, g1 types.Transaction
	var k2, g2 types.V2Transaction
	kb := n1.L.NewBuilder(rng)
	if v2 {
		el, ok := n1.L.SC[p2.SiacoinOutputID(p2.ID(), 0)]
		if !ok || el.SiacoinOutput.Value.Cmp(fee.Mul64(4)) < 0 {
			r.Count("reorg_setup_failed", 1)
			return
		}
		k2 = types.V2Transaction{
			SiacoinInputs:  []types.V2SiacoinInput{{Parent: el.Copy()}},
			SiacoinOutputs: []types.SiacoinOutput{{Address: el.SiacoinOutput.Address, Value: el.SiacoinOutput.Value.Sub(fee)}},
			MinerFee:       fee,
		}
		kb.ResignV2(&k2)
		eo := k2.EphemeralSiacoinOutput(0)
		g2 = types.V2Transaction{
			SiacoinInputs:  []types.V2SiacoinInput{{Parent: eo}},
			SiacoinOutputs: []types.SiacoinOutput{{Address: eo.SiacoinOutput.Address, Value: eo.SiacoinOutput.Value.Sub(fee)}},
			MinerFee:       fee,
		}
		kb.ResignV2(&g2)
		set := []types.V2Transaction{k2.DeepCopy()}
		if withGrandchild {
			set = append(set, g2.DeepCopy())
		}
		_, err = cm.AddV2PoolTransactions(n1.L.State.Index, set)
	} else {
		out := p1.SiacoinOutputs[0]
		owner := env.ByAddr[out.Address]
		if owner == nil || out.Value.Cmp(fee.Mul64(4)) < 0 {
			r.Count("reorg_setup_failed", 1)
			return
		}
		k1 = types.Transaction{
			SiacoinInputs:  []types.SiacoinInput{{ParentID: p1.SiacoinOutputID(0), UnlockConditions: owner.UC}},
			SiacoinOutputs: []types.SiacoinOutput{{Address: owner.Addr, Value: out.Value.Sub(fee)}},
			MinerFees:      []types.Currency{fee},
		}
		kb.ResignV1(&k1)
		g1 = types.Transaction{
			SiacoinInputs:  []types.SiacoinInput{{ParentID: k1.SiacoinOutputID(0), UnlockConditions: owner.UC}},
			SiacoinOutputs: []types.SiacoinOutput{{Address: owner.Addr, Value: out.Value.Sub(fee).Sub(fee)}},
			MinerFees:      []types.Currency{fee},
		}
		kb.ResignV1(&g1)
		set := []types.Transaction{chainlab.DeepCopyTxn(k1)}
		if withGrandchild {
			set = append(set, chainlab.DeepCopyTxn(g1))
		}
		_, err = cm.AddPoolTransactions(set)
	}
	if err != nil {
		r.Violation("valid-set-rejected:child-of-confirmed", "a child of a just confirmed transaction was refused: "+err.Error(), cs, nil)
		return
	}
	if rng.IntN(2) == 0 {
		snapPool(cm)
	}
	// the heavier fork
	f1 := seal(base, readd)
	f2 := seal(f1, false)
	if !f1.ChainValid || !f2.ChainValid {
		r.Count("reorg_setup_failed", 1)
		return
	}
	if err := cm.AddBlocks(chainlab.Blocks([]*chainlab.Node{f1, f2})); err != nil || cm.Tip().ID != f2.ID {
		r.Count("reorg_setup_failed", 1)
		return
	}
	cs.Height = f2.Height
	if queryAfterReorg {
		snapPool(cm)
	}
	// the family as one set that is valid at the new tip
	var set1 []types.Transaction
	var set2 []types.V2Transaction
	fb := f2.L.NewBuilder(rng)
	if v2 {
		if readd {
			el, ok := f2.L.SC[p2.SiacoinOutputID(p2.ID(), 0)]
			if !ok {
				r.Count("reorg_setup_failed", 1)
				return
			}
			k2.SiacoinInputs[0].Parent = el.Copy()
		} else {
			k2.SiacoinInputs[0].Parent = p2.EphemeralSiacoinOutput(0)
			set2 = append(set2, p2.DeepCopy())
		}
		fb.ResignV2(&k2)
		set2 = append(set2, k2.DeepCopy())
		if withGrandchild {
			set2 = append(set2, g2.DeepCopy())
		}
	} else {
		if !readd {
			set1 = append(set1, chainlab.DeepCopyTxn(p1))
		}
		set1 = append(set1, chainlab.DeepCopyTxn(k1))
		if withGrandchild {
			set1 = append(set1, chainlab.DeepCopyTxn(g1))
		}
	}
	pre := snapPool(cm)
	pb, okPool := f2.L.PoolBuilder(rng, pre.v1, pre.v2)
	if !okPool {
		r.Violation("pool-not-valid-continuation:after-reorg", "after the reorg the listed pool is not a valid continuation of the tip", cs, nil)
		return
	}
	wantKnown := true
	dropped := 0
	for _, x := range set1 {
		if _, in := pre.ids[x.ID()]; !in {
			wantKnown = false
			dropped++
			if !pb.TryV1("resubmitted", chainlab.DeepCopyTxn(x)) {
				r.Count("reorg_resubmission_not_valid_under_oracle", 1)
				return
			}
		}
	}
	for _, x := range set2 {
		if _, in := pre.ids[x.ID()]; !in {
			wantKnown = false
			dropped++
			if !pb.TryV2("resubmitted", x.DeepCopy()) {
				r.Count("reorg_resubmission_not_valid_under_oracle", 1)
				return
			}
		}
	}
	cs.Set = idsOf(set1, set2)
	cs.Pool = idsOf(pre.v1, pre.v2)
	var known bool
	var serr error
	if pn := mon.Guard(func() {
		if v2 {
			known, serr = cm.AddV2PoolTransactions(f2.L.State.Index, set2)
		} else {
			known, serr = cm.AddPoolTransactions(set1)
		}
	}); pn != nil {
		r.Violation("submission-panic:after-reorg", fmt.Sprint("submission panicked: ", pn), cs, nil)
		return
	}
	if serr != nil {
		r.Violation("valid-set-rejected:after-reorg", "a set that is valid on top of the tip and the listed pool was refused: "+serr.Error(), cs, nil)
		return
	}
	if known != wantKnown {
		r.Violation("known-flag-wrong:after-reorg", fmt.Sprintf("known=%v although %d of the %d members were not listed in the pool before the call", known, dropped, len(set1)+len(set2)), cs, nil)
		return
	}
	post := snapPool(cm)
	for _, id := range append(txnIDs1(set1), txnIDs2(set2)...) {
		if _, in := post.ids[id]; !in {
			r.Violation("accepted-set-not-fully-added:after-reorg", fmt.Sprintf("the set was accepted but member %v is not listed afterwards", id), cs, nil)
			return
		}
	}
	c14Lookups(r, cm, post, nil, cs)
	if r.Violations() > 0 {
		return
	}
	r.Count("family_resubmissions_after_reorg", 1)
	if dropped > 0 {
		r.Count("family_resubmissions_with_members_dropped_by_the_reorg", 1)
	}
	if dropped > 0 && dropped < len(set1)+len(set2) {
		r.Count("family_resubmissions_partly_known", 1)
	}
	r.Eval()
	r.Distinct(fmt.Sprintf("reorgfamily/%d/%s/%d", stream, cs.Kind, dropped))
}

func txnIDs1(s []types.Transaction) (out []types.TransactionID) {
	for _, x := range s {
		out = append(out, x.ID())
	}
	return
}

func txnIDs2(s []types.V2Transaction) (out []types.TransactionID) {
	for _, x := range s {
		out = append(out, x.ID())
	}
	return
}
