package main

import (
	"fmt"

	"go.sia.tech/core/consensus"
	"go.sia.tech/core/types"
	"go.sia.tech/coreutils/chain"
	"verif/harness/lab/chainlab"
	"verif/harness/mon"
)

// expiryModel is an executable statement of the store's DOCUMENTED expiration
// list algorithm (chain/db.go: "when applying, we append; when reverting, we
// prepend"; removal moves the last id into the gap). It is replayed over the
// exact apply/revert trajectory a node performed; the node's lists must equal
// it at every step. The known finding KF-C02-1 is precisely the history
// dependence of this algorithm; anything that deviates from it is reported.
type expiryModel struct {
	lists   map[uint64][]types.FileContractID
	require uint64
	ops     int
}

func (m *expiryModel) appendID(h uint64, id types.FileContractID) {
	m.lists[h] = append(m.lists[h], id)
	m.ops++
}
func (m *expiryModel) prependID(h uint64, id types.FileContractID) {
	m.lists[h] = append([]types.FileContractID{id}, m.lists[h]...)
	m.ops++
}
func (m *expiryModel) swapRemove(h uint64, id types.FileContractID) {
	l := m.lists[h]
	for i := range l {
		if l[i] == id {
			l[i] = l[len(l)-1]
			m.lists[h] = l[:len(l)-1]
			m.ops++
			return
		}
	}
}

func (m *expiryModel) apply(cs consensus.State, cau consensus.ApplyUpdate) {
	if cs.Index.Height > m.require {
		return
	}
	for _, d := range cau.FileContractElementDiffs() {
		fc := d.FileContractElement.FileContract
		id := d.FileContractElement.ID
		switch {
		case d.Created && d.Resolved:
		case d.Resolved:
			m.swapRemove(fc.WindowEnd, id)
		case d.Revision != nil:
			if d.Revision.WindowEnd != fc.WindowEnd {
				m.swapRemove(fc.WindowEnd, id)
				m.appendID(d.Revision.WindowEnd, id)
			}
		default:
			m.appendID(fc.WindowEnd, id)
		}
	}
}

func (m *expiryModel) revert(cs consensus.State, cru consensus.RevertUpdate) {
	if cs.Index.Height > m.require {
		return
	}
	for _, d := range cru.FileContractElementDiffs() {
		fc := d.FileContractElement.FileContract
		id := d.FileContractElement.ID
		switch {
		case d.Created && d.Resolved:
		case d.Resolved:
			m.prependID(fc.WindowEnd, id)
		case d.Revision != nil:
			if d.Revision.WindowEnd != fc.WindowEnd {
				m.swapRemove(d.Revision.WindowEnd, id)
				m.prependID(fc.WindowEnd, id)
			}
		default:
			m.swapRemove(fc.WindowEnd, id)
		}
	}
}

// modelStore feeds the model from the store calls the manager makes.
type modelStore struct {
	chainlab.RecordingStore
	m *expiryModel
}

func (s *modelStore) ApplyBlock(cs consensus.State, cau consensus.ApplyUpdate) {
	s.m.apply(cs, cau)
	s.RecordingStore.ApplyBlock(cs, cau)
}
func (s *modelStore) RevertBlock(cs consensus.State, cru consensus.RevertUpdate) {
	s.m.revert(cs, cru)
	s.RecordingStore.RevertBlock(cs, cru)
}

func newModelNode(env *chainlab.Env) (*chainlab.TestNode, *expiryModel, error) {
	sh := chainlab.NewShadowDB(chain.NewMemDB())
	store, tip, err := chain.NewDBStore(sh, env.Net, env.Genesis, nil)
	if err != nil {
		return nil, nil, err
	}
	m := &expiryModel{lists: map[uint64][]types.FileContractID{}, require: env.Net.HardforkV2.RequireHeight}
	ms := &modelStore{RecordingStore: chainlab.RecordingStore{Inner: store, Cur: tip.Index}, m: m}
	return &chainlab.TestNode{Env: env, Shadow: sh, Store: store, CM: chain.NewManager(ms, tip)}, m, nil
}

// checkLists compares the store's lists with the model, exactly (order included).
func checkLists(n *chainlab.TestNode, m *expiryModel) string {
	for _, h := range []uint64{chainlab.FarEndBase, chainlab.FarEndBase + 1, chainlab.FarEndBase + 2} {
		got := n.Store.ExpiringFileContractIDs(h)
		want := m.lists[h]
		if len(got) != len(want) {
			return fmt.Sprintf("list %d: store has %d ids, documented algorithm %d", h, len(got), len(want))
		}
		for i := range got {
			if got[i] != want[i] {
				return fmt.Sprintf("list %d position %d: store has %v, documented algorithm %v", h, i, got[i], want[i])
			}
		}
	}
	return ""
}

// runC02SharedEnds: histories in which v1 contracts share three far window
// ends, so that lists hold several ids and are permuted by proofs,
// window-changing revisions and their reverts, but never expire.
func runC02SharedEnds(r *mon.Run, stream uint64) {
	rng := r.RNG(stream)
	regime := []string{"v1only", "mix"}[rng.IntN(2)]
	p := chainlab.RandomParams(regime, rng)
	if regime == "mix" {
		// leave room for v1 contract activity before the require height
		p.Allow += 6
		p.Require += 8
		p.FinalCut = p.Require + 1
	}
	env := chainlab.NewEnv(p)
	t := chainlab.NewTree(env, rng)
	cs := chainCase{Kind: "shared-ends", Stream: stream, Params: p}
	t.Grow(34, chainlab.Profile{MaxTxns: 5, FarSharedEnds: true, V1ContractHeavy: true})
	A, mA, err := newModelNode(env)
	if err != nil {
		r.Inconclusive(err.Error())
		return
	}
	a := chainlab.NewAuditor(t, A)
	maxLen := 0
	for _, batch := range t.RandomSchedule(rng) {
		_, fs := a.Submit(batch)
		if len(fs) > 0 {
			reportFindings(r, cs, t, a, fs)
			return
		}
		r.Count("shared_end_calls", 1)
		if d := checkLists(A, mA); d != "" {
			c := cs
			c.Nodes, c.Calls = describeTree(t), a.Log
			r.Violation("expiry-list-deviates-from-documented-algorithm", "after replaying the node's own apply/revert trajectory through the documented append / swap-remove / prepend algorithm: "+d, c, nil)
			return
		}
		for _, l := range mA.lists {
			if len(l) > maxLen {
				maxLen = len(l)
			}
		}
	}
	// linear twin, with its own model
	B, mB, err := newModelNode(env)
	if err != nil {
		r.Inconclusive(err.Error())
		return
	}
	for _, nd := range a.Tip.PathFromGenesis() {
		if err := B.CM.AddBlocks(chainlab.Blocks([]*chainlab.Node{nd})); err != nil {
			r.Violation("linear-twin-rejected-best-chain", err.Error(), cs, nil)
			return
		}
		if d := checkLists(B, mB); d != "" {
			r.Violation("expiry-list-deviates-from-documented-algorithm:linear", d, cs, nil)
			return
		}
	}
	// views may differ only in the order of the shared lists (KF-C02-1)
	va, vb := A.ServedView(true), B.ServedView(true)
	orderOnly := 0
	for {
		sig, what, detail := compareViews(va, vb)
		if sig == "" {
			break
		}
		if sig != "expiry-list-order" {
			c := cs
			c.Nodes, c.Calls = describeTree(t), a.Log
			r.Violation(sig, what, c, detail)
			return
		}
		orderOnly++
		delete(va, detail["key"])
		delete(vb, detail["key"])
	}
	r.Eval()
	r.Count("shared_end_histories", 1)
	r.Count("list_operations_modelled", mA.ops)
	r.Count("reorgs_observed", a.Reorgs)
	if orderOnly > 0 {
		// both nodes follow the documented algorithm exactly (checked above), and
		// their views differ in list order only: this is KF-C02-1
		r.Count("shared_end_histories_with_order_divergence", 1)
		r.Violation("expiry-order-after-reverted-nonlast-removal", "reorged node and linear twin list the same contracts in different orders, both exactly as the documented algorithm yields", cs, nil)
	}
	r.SetAdd("max_shared_list_length", fmt.Sprint(maxLen))
	if maxLen >= 2 {
		r.Distinct(fmt.Sprintf("shared/%d/%d/%d", stream, maxLen, mA.ops))
	}
}
