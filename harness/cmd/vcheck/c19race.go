package main

import (
	"fmt"
	"sync"
	"time"

	"go.sia.tech/core/types"
	"verif/harness/lab/chainlab"
	"verif/harness/mon"
)

type c19RaceCase struct {
	Stream  uint64          `json:"rng_stream"`
	Params  chainlab.Params `json:"params"`
	ForkH   uint64          `json:"fork_height"`
	ATip    uint64          `json:"a_tip_height"`
	BTip    uint64          `json:"b_tip_height"`
	Prune   uint64          `json:"prune_height"`
	FireAt  int             `json:"reorg_submitted_at_best_index_lookup"`
	Tip     string          `json:"final_tip"`
	Missing []string        `json:"bodies_missing"`
}

// runC19PruneRace: PruneBlocks(h) on chain A while another goroutine submits
// the heavier fork B (started from a store hook inside the prune walk, with
// delays that hand the manager's lock over at the next opportunity). The two
// calls have to behave like one after the other: either the prune came first
// (A's bodies below h are gone; the reorg then succeeds only if it needs none
// of them) or the reorg came first (B's bodies below h are gone). Any other
// set of missing bodies - a body of a block that was off the best chain when
// it was pruned, a best-chain body below h that was kept - is a violation.
func runC19PruneRace(r *mon.Run, stream uint64) {
	rng := r.RNG(stream)
	regime := regimes[rng.IntN(3)]
	p := chainlab.RandomParams(regime, rng)
	env := chainlab.NewEnv(p)
	t := chainlab.NewTree(env, rng)
	prof := chainlab.Profile{MaxTxns: 2}
	fork := t.Root
	for i := 0; i < 4+rng.IntN(5); i++ {
		fork = t.Extend(fork, prof)
	}
	aTip := fork
	na := 5 + rng.IntN(4)
	for i := 0; i < na; i++ {
		aTip = t.Extend(aTip, prof)
	}
	bTip := fork
	var bNodes []*chainlab.Node
	for i := 0; i < na+1+rng.IntN(2); i++ {
		bTip = t.Extend(bTip, prof)
		bNodes = append(bNodes, bTip)
	}
	if !aTip.ChainValid || !bTip.ChainValid {
		return
	}
	// B has to win on a node that simply sees both
	tw, err := chainlab.NewTestNode(env, nil)
	if err != nil {
		r.Inconclusive(err.Error())
		return
	}
	tw.CM.AddBlocks(chainlab.Blocks(aTip.PathFromGenesis()))
	if err := tw.CM.AddBlocks(chainlab.Blocks(bNodes)); err != nil || tw.CM.Tip().ID != bTip.ID {
		r.Count("prune_race_fork_not_heavier", 1)
		return
	}
	node, rec, err := chainlab.NewTestNodeRec(env, nil)
	if err != nil {
		r.Inconclusive(err.Error())
		return
	}
	cm := node.CM
	if err := cm.AddBlocks(chainlab.Blocks(aTip.PathFromGenesis())); err != nil || cm.Tip().ID != aTip.ID {
		r.Inconclusive(fmt.Sprint("setup: ", err))
		return
	}
	// prune height around the fork point
	lo := int(fork.Height) - 2
	if lo < 1 {
		lo = 1
	}
	h := uint64(lo + rng.IntN(int(aTip.Height)+2-lo))
	fireAt := 1 + rng.IntN(3)
	cs := c19RaceCase{Stream: stream, Params: p, ForkH: fork.Height, ATip: aTip.Height, BTip: bTip.Height, Prune: h, FireAt: fireAt}
	bBlocks := chainlab.Blocks(bNodes)
	done := make(chan error, 1)
	var once sync.Once
	calls, fired, yielded := 0, false, false
	// all three variables are only touched inside store calls, i.e. under the
	// manager's lock
	rec.OnBestIndex = func(uint64) {
		calls++
		if calls == fireAt {
			once.Do(func() {
				fired = true
				go func() { done <- cm.AddBlocks(bBlocks) }()
				time.Sleep(20 * time.Millisecond) // let it park on the manager's lock
			})
		}
	}
	rec.OnBlock = func(types.BlockID) {
		if fired && !yielded {
			yielded = true
			time.Sleep(3 * time.Millisecond) // a waiter passed over for > 1ms gets the lock at the next unlock
		}
	}
	if pn := mon.Guard(func() { cm.PruneBlocks(h) }); pn != nil {
		r.Violation("prune-panic:racing-reorg", fmt.Sprint("PruneBlocks panicked: ", pn), cs, nil)
		return
	}
	// PruneBlocks has returned: the hook can no longer start the submission
	once.Do(func() {})
	var addErr error
	started := fired
	if fired {
		addErr = <-done
	} else {
		// the walk made fewer lookups than fireAt: sequential case
		addErr = cm.AddBlocks(bBlocks)
	}
	cm.Tip() // acquire the manager's lock once more before the hooks are cleared
	rec.OnBestIndex, rec.OnBlock = nil, nil
	tip := cm.Tip()
	cs.Tip = tip.String()
	missing := map[types.BlockID]bool{}
	for _, n := range t.Nodes {
		if _, ok := cm.Block(n.ID); !ok {
			missing[n.ID] = true
			cs.Missing = append(cs.Missing, fmt.Sprintf("%d:%v", n.Height, n.ID))
		}
	}
	below := func(tipNode *chainlab.Node) map[types.BlockID]bool {
		out := map[types.BlockID]bool{}
		for x := tipNode; x != nil; x = x.Parent {
			if x.Height < h {
				out[x.ID] = true
			}
		}
		return out
	}
	same := func(a, b map[types.BlockID]bool) bool {
		if len(a) != len(b) {
			return false
		}
		for k := range a {
			if !b[k] {
				return false
			}
		}
		return true
	}
	// prune first: A's bodies below h are gone; the reorg needs the bodies of
	// A's blocks above the fork point
	pruneFirst := below(aTip)
	feasible := true
	for x := aTip; x != fork; x = x.Parent {
		if x.Height < h {
			feasible = false
		}
	}
	okPruneFirst := same(missing, pruneFirst) && ((feasible && tip.ID == bTip.ID && addErr == nil) || (!feasible && tip.ID == aTip.ID && addErr != nil))
	// reorg first: B is the best chain when the walk runs
	okReorgFirst := same(missing, below(bTip)) && tip.ID == bTip.ID && addErr == nil
	if !okPruneFirst && !okReorgFirst {
		r.Violation("prune-racing-reorg-not-atomic", fmt.Sprintf("PruneBlocks(%d) on chain A (tip %d) with the heavier fork B (fork point %d, tip %d) submitted during the walk: final tip %v, submission error %v, %d bodies missing - neither 'prune, then reorg' nor 'reorg, then prune' explains the bodies that are gone", h, aTip.Height, fork.Height, bTip.Height, tip, addErr, len(missing)), cs, nil)
		return
	}
	r.Count("prune_walks_with_a_reorg_submitted_inside", 1)
	if started {
		r.Count("prune_race_submission_started_by_the_hook", 1)
	}
	if okReorgFirst && !okPruneFirst {
		r.Count("prune_race_outcome:reorg-first", 1)
	} else if feasible {
		r.Count("prune_race_outcome:prune-first-then-reorg", 1)
	} else {
		r.Count("prune_race_outcome:prune-first-reorg-refused", 1)
	}
	// the node still works: one more block on its tip
	var cur *chainlab.Node
	if tip.ID == bTip.ID {
		cur = bTip
	} else {
		cur = aTip
	}
	nx := t.Extend(cur, prof)
	if nx.ChainValid {
		if err := cm.AddBlocks(chainlab.Blocks([]*chainlab.Node{nx})); err != nil || cm.Tip().ID != nx.ID {
			r.Violation("node-broken-after-prune-race", fmt.Sprintf("a valid block on the tip was not adopted after the prune: %v", err), cs, nil)
			return
		}
	}
	r.Eval()
	r.Distinct(fmt.Sprintf("prunerace/%s/%d/h%d/f%d/%v", regime, stream, h, fork.Height, feasible))
}

// runC19Backlog: one prune call facing a backlog of more than a thousand
// unpruned best-chain bodies (a node that switches pruning on late), followed
// by the usual small steps. After every call exactly the best-chain bodies
// below the height must be gone.
func runC19Backlog(r *mon.Run, stream uint64) {
	rng := r.RNG(stream)
	regime := regimes[rng.IntN(3)]
	p := chainlab.RandomParams(regime, rng)
	env := chainlab.NewEnv(p)
	t := chainlab.NewTree(env, rng)
	node, err := chainlab.NewTestNode(env, nil)
	if err != nil {
		r.Inconclusive(err.Error())
		return
	}
	cm := node.CM
	n := 1040 + rng.IntN(300)
	tip := t.Root
	var batch []*chainlab.Node
	for i := 0; i < n; i++ {
		if i%97 == 3 {
			tip = t.Extend(tip, chainlab.Profile{MaxTxns: 2})
		} else {
			// two days apart (the lab's target interval is five): 1300 blocks
			// after the 2015 genesis must not reach into the future
			tip = t.ExtendEmpty(tip, tip.Block.Timestamp.Add(48*time.Hour))
		}
		batch = append(batch, tip)
		if len(batch) == 200 || i == n-1 {
			if err := cm.AddBlocks(chainlab.Blocks(batch)); err != nil {
				r.Inconclusive("backlog setup: " + err.Error())
				return
			}
			batch = batch[:0]
		}
	}
	cs := map[string]any{"rng_stream": stream, "params": p, "blocks": n}
	audit := func(h uint64, what string) bool {
		for x := tip; x != nil; x = x.Parent {
			_, has := cm.Block(x.ID)
			if x.Height < h && has {
				r.Violation("body-kept-below-prune-height:backlog", fmt.Sprintf("%s: PruneBlocks(%d) on a chain of %d blocks left the body of best-chain block %d stored", what, h, tip.Height, x.Height), cs, nil)
				return false
			} else if x.Height >= h && !has {
				r.Violation("body-missing-above-prune-height:backlog", fmt.Sprintf("%s: after PruneBlocks(%d) the body of best-chain block %d is gone", what, h, x.Height), cs, nil)
				return false
			}
		}
		return true
	}
	h := tip.Height - uint64(rng.IntN(30))
	if pn := mon.Guard(func() { cm.PruneBlocks(h) }); pn != nil {
		r.Violation("prune-panic:backlog", fmt.Sprint("PruneBlocks panicked: ", pn), cs, nil)
		return
	}
	if !audit(h, "first prune of the backlog") {
		return
	}
	r.Count("prunes_of_a_backlog_of_more_than_1000_bodies", 1)
	for step := 0; step < 3; step++ {
		var ext []*chainlab.Node
		for i := 0; i < 5+rng.IntN(10); i++ {
			tip = t.ExtendEmpty(tip, zeroT)
			ext = append(ext, tip)
		}
		if err := cm.AddBlocks(chainlab.Blocks(ext)); err != nil || cm.Tip() != tip.L.State.Index {
			r.Violation("node-broken-after-backlog-prune", fmt.Sprintf("valid blocks on the tip were not adopted after the prune: %v", err), cs, nil)
			return
		}
		h = tip.Height - uint64(rng.IntN(8))
		cm.PruneBlocks(h)
		if !audit(h, "follow-up prune") {
			return
		}
	}
	r.Eval()
	r.Distinct(fmt.Sprintf("backlog/%s/%d/%d", regime, stream, n))
}
