package main

import (
	"encoding/json"
	"os"
	"strconv"
	"strings"
)

// replayStream extracts the PRNG stream of the failing case from a replay file
// (or from "stream:<n>"). Sequential cases are fully determined by
// (VERIF_SEED, stream), so re-running that stream replays the case exactly.
func replayStream(replay string) (uint64, bool) {
	if replay == "" {
		return 0, false
	}
	if strings.HasPrefix(replay, "stream:") {
		v, err := strconv.ParseUint(strings.TrimPrefix(replay, "stream:"), 10, 64)
		return v, err == nil
	}
	buf, err := os.ReadFile(replay)
	if err != nil {
		return 0, false
	}
	var w struct {
		Seed int64 `json:"seed"`
		Case struct {
			Stream uint64 `json:"rng_stream"`
		} `json:"case"`
	}
	if json.Unmarshal(buf, &w) != nil || w.Case.Stream == 0 {
		return 0, false
	}
	return w.Case.Stream, true
}

var debugOn = os.Getenv("VERIF_DEBUG") != ""
