package rhphost

import (
	"bytes"
	"encoding/json"
	"fmt"
	"io"
	"math/rand/v2"
	"os"
	"slices"
	"sync"
	"time"

	proto4 "go.sia.tech/core/rhp/v4"
	"go.sia.tech/core/types"
	rhp "go.sia.tech/coreutils/rhp/v4"

	"verif/harness/lab/rhplab"
	"verif/harness/mon"
	"verif/harness/vcli"
)

func init() { vcli.Register("C15", "exploration", runC15) }

// ---------------------------------------------------------------------------
// reference ledger

// ledger is the model: balances and ordered account -> pools links.
type ledger struct {
	acc    map[proto4.Account]types.Currency
	pool   map[proto4.Account]types.Currency
	exists map[proto4.Account]bool // pool has been credited at least once
	att    map[proto4.Account][]proto4.Account
}

func newLedger() *ledger {
	return &ledger{acc: map[proto4.Account]types.Currency{}, pool: map[proto4.Account]types.Currency{}, exists: map[proto4.Account]bool{}, att: map[proto4.Account][]proto4.Account{}}
}

// debit drains the account's own balance first, then its pools in attachment
// order; it changes nothing and reports false if the total is insufficient.
func (l *ledger) debit(a proto4.Account, cost types.Currency) bool {
	total := l.acc[a]
	for _, p := range l.att[a] {
		total = total.Add(l.pool[p])
	}
	if total.Cmp(cost) < 0 {
		return false
	}
	take := func(b types.Currency) (types.Currency, types.Currency) { // new balance, taken
		if b.Cmp(cost) >= 0 {
			return b.Sub(cost), cost
		}
		return types.ZeroCurrency, b
	}
	var t types.Currency
	l.acc[a], t = take(l.acc[a])
	cost = cost.Sub(t)
	for _, p := range l.att[a] {
		if cost.IsZero() {
			break
		}
		l.pool[p], t = take(l.pool[p])
		cost = cost.Sub(t)
	}
	return true
}

func (l *ledger) attach(a, p proto4.Account) {
	if !slices.Contains(l.att[a], p) {
		l.att[a] = append(l.att[a], p)
	}
}

func (l *ledger) detach(a, p proto4.Account) {
	if i := slices.Index(l.att[a], p); i >= 0 {
		l.att[a] = slices.Delete(slices.Clone(l.att[a]), i, i+1)
	}
}

// ---------------------------------------------------------------------------
// steps

// c15Step is one RPC of a sequence. Accounts and pools are named by index
// into the worker's key tables (fresh ones are appended on demand).
type c15Step struct {
	Op       string `json:"op"` // fund | repl-acc | repl-pool | attach | detach | read | write | verify | balance
	Contract int    `json:"contract,omitempty"`
	Bad      string `json:"bad,omitempty"`

	Acc     []int    `json:"acc,omitempty"`     // accounts (fund, repl-acc, attach/detach: Acc[i] <-> Pool[i], debit ops: Acc[0])
	Pool    []int    `json:"pool,omitempty"`    // pools (repl-pool, attach/detach)
	Amounts []string `json:"amounts,omitempty"` // fund amounts / replenish target (Amounts[0]), decimal hastings
	Signer  string   `json:"signer,omitempty"`  // detach: "account" | "pool"
	Sector  int      `json:"sector,omitempty"`
	Offset  uint64   `json:"offset,omitempty"`
	Length  uint64   `json:"length,omitempty"`
	Tune    *int     `json:"tune,omitempty"` // debit ops: drawable funds were arranged to cost+Tune
	// debit ops: where the stream dies. Transport cuts (host side, exact byte):
	// hdr-mid, hdr-1 (inside the request header), body+0, body+1, body-half,
	// body-1 (inside the raw sector body of a write), resp+N (request complete;
	// N bytes of the host's answer / read data delivered). Renter side:
	// close-after-header, stall-close (half the body, a pause, then close).
	Cut string `json:"cut,omitempty"`
	// replenish: the pattern of repeated entries of the batch, e.g. "ABA" (counted only)
	Shape string `json:"shape,omitempty"`
	// attach / detach: index of the entry the corruption applies to (default: the last)
	BadAt *int `json:"bad_at,omitempty"`
	// debit ops: the host's store fails the DebitAccount call
	Fault bool `json:"fault,omitempty"`
	// paused-funder: funding RPC A (repl-pool | repl-acc on Pool / Acc towards
	// Amounts[0]) is stalled by the raw renter after the host's cost response;
	// funding RPC B (fund | repl-acc | repl-pool on account / pool BAcc towards
	// Amounts[1]) is then attempted to completion on the same contract; then A
	// completes. For A == "fund" (single round, cannot be stalled) the two race.
	A    string `json:"a,omitempty"`
	B    string `json:"b,omitempty"`
	BAcc int    `json:"b_acc,omitempty"`
}

type c15Seq struct {
	Worker uint64    `json:"worker"`
	Steps  []c15Step `json:"steps"`
}

func cur(s string) types.Currency {
	c, err := types.ParseCurrency(s + " H")
	if err != nil {
		panic(err)
	}
	return c
}

func hs(c types.Currency) string { return c.ExactString() }

type c15 struct {
	*env
	worker    uint64
	rng       *rand.Rand
	aud       *auditor
	led       *ledger
	contracts []rhp.ContractRevision
	accKeys   []types.PrivateKey
	poolKeys  []types.PrivateKey
	stored    []*rhplab.TestSector
	steps     []c15Step
	cur       *c15Step
	foreign   types.PrivateKey
	// accounts whose attachment list (>= 3 pools) lost a pool that was not the
	// last one since their last paid RPC
	reordered map[proto4.Account]bool
	// the host's current settings differ by this factor from the signed table in use ("" = same)
	stale string
}

func (c *c15) key(kind byte, i int) types.PrivateKey {
	return rhplab.KeyFromSeed(uint64(c.r.Seed)*1_000_000_000+c.worker*1_000_000+uint64(i), kind)
}

// acct returns the i-th account of the worker, creating keys up to i on demand.
func (c *c15) acct(i int) proto4.Account {
	for len(c.accKeys) <= i {
		c.accKeys = append(c.accKeys, c.key(0xA1, len(c.accKeys)))
	}
	return proto4.Account(c.accKeys[i].PublicKey())
}

// pool returns the i-th pool of the worker, creating keys up to i on demand.
func (c *c15) pool(i int) proto4.Account {
	for len(c.poolKeys) <= i {
		c.poolKeys = append(c.poolKeys, c.key(0xB2, len(c.poolKeys)))
	}
	return proto4.Account(c.poolKeys[i].PublicKey())
}

func (c *c15) report(sig, what string, detail map[string]any) {
	if detail == nil {
		detail = map[string]any{}
	}
	detail["step"] = c.cur
	c.r.Violation(sig, what, c15Seq{Worker: c.worker, Steps: slices.Clone(c.steps)}, detail)
}

func newC15(r *mon.Run, worker uint64, ncontracts int) (*c15, error) {
	e, err := newEnv(r, envOptions{seed: uint64(r.Seed)*1000 + 700 + worker})
	if err != nil {
		return nil, err
	}
	c := &c15{env: e, worker: worker, rng: r.RNG(0x1500 + worker), led: newLedger(), foreign: rhplab.KeyFromSeed(999, 5)}
	c.aud = newAuditor(e.lab, func(sig, what string, ev *rhplab.Event, detail map[string]any) {
		if ev == nil || (ev.Kind != rhplab.EvCreditAccounts && ev.Kind != rhplab.EvCreditPools) {
			return
		}
		if detail == nil {
			detail = map[string]any{}
		}
		detail["event"] = map[string]any{"kind": ev.Kind, "stream": ev.Stream, "deposits": ev.Deposits}
		c.report("credit-not-backed:"+sig, "a credit is not matched by a renter-signed revision moving the same total: "+what, detail)
	}, func(string, int) {})
	for i := 0; i < 4; i++ {
		c.stored = append(c.stored, e.lab.StoreDirect(i))
	}
	for i := 0; i < ncontracts; i++ {
		if err := c.formContract(types.Siacoins(800), types.Siacoins(100), 500); err != nil {
			e.close()
			return nil, err
		}
		c.contracts = append(c.contracts, c.contract)
	}
	c.aud.cs = c.cs
	c.aud.audit()
	c.lab.Mux.Forget(c.lab.Mux.Streams())
	c.lab.Log.Trim(c.aud.seq)
	return c, nil
}

// ---------------------------------------------------------------------------
// executing a step

type c15Result struct {
	err  error
	data []byte
	bal  types.Currency
	// paused-funder
	bErr   error
	bRan   bool
	bFirst bool // B finished before A did
}

func (c *c15) token(a int, bad string) proto4.AccountToken {
	hostKey := c.lab.HostKey.PublicKey()
	key := c.accKeys[a]
	tok := proto4.AccountToken{HostKey: hostKey, Account: c.acct(a), ValidUntil: time.Now().Add(3 * time.Hour)}
	switch bad {
	case "token-expired":
		tok.ValidUntil = time.Now().Add(-3 * time.Hour)
	case "token-other-host":
		tok.HostKey = c.foreign.PublicKey()
	case "token-wrongkey":
		key = c.foreign
	}
	tok.Signature = key.SignHash(tok.SigHash())
	switch bad {
	case "token-other-account":
		// a valid token of account a presented for account a+1
		c.acct(a + 1)
		tok.Account = c.acct(a + 1)
	case "token-zero-sig":
		tok.Signature = types.Signature{}
	}
	return tok
}

func (c *c15) do(st c15Step) (res c15Result) {
	ctx := ctxBG()
	contract := c.contracts[st.Contract%len(c.contracts)]
	hostKey := c.lab.HostKey.PublicKey()
	// arm arms the transport cut named by st.Cut for a request of hdr header
	// bytes and body payload bytes; it returns true if the renter itself is to
	// abandon the exchange instead.
	arm := func(hdr, body int) (renterSide bool) {
		var n int
		switch st.Cut {
		case "":
			return false
		case "close-after-header", "stall-close":
			return true
		case "hdr-mid":
			c.raw.C.CutNext(rhplab.Cut{Run: 0, Bytes: hdr / 2})
		case "hdr-1":
			c.raw.C.CutNext(rhplab.Cut{Run: 0, Bytes: hdr - 1})
		case "body+0":
			c.raw.C.CutNext(rhplab.Cut{Run: 0, Bytes: hdr})
		case "body+1":
			c.raw.C.CutNext(rhplab.Cut{Run: 0, Bytes: hdr + 1})
		case "body-half":
			c.raw.C.CutNext(rhplab.Cut{Run: 0, Bytes: hdr + body/2})
		case "body-1":
			c.raw.C.CutNext(rhplab.Cut{Run: 0, Bytes: hdr + body - 1})
		default:
			if _, err := fmt.Sscanf(st.Cut, "resp+%d", &n); err != nil {
				panic("unknown cut " + st.Cut)
			}
			c.raw.C.CutNext(rhplab.Cut{Run: 1, Bytes: n})
		}
		return false
	}
	switch st.Op {
	case "fund":
		var deps []proto4.AccountDeposit
		for i, a := range st.Acc {
			deps = append(deps, proto4.AccountDeposit{Account: c.acct(a), Amount: cur(st.Amounts[i%len(st.Amounts)])})
		}
		_, res.err = rhp.RPCFundAccounts(ctx, c.cl, c.cs, c.signer(), contract, deps)
	case "repl-acc":
		var as []proto4.Account
		for _, a := range st.Acc {
			as = append(as, c.acct(a))
		}
		_, res.err = rhp.RPCReplenishAccounts(ctx, c.cl, rhp.RPCReplenishAccountsParams{Accounts: as, Target: cur(st.Amounts[0]), Contract: contract}, c.cs, c.signer())
	case "repl-pool":
		var ps []proto4.Account
		for _, p := range st.Pool {
			ps = append(ps, c.pool(p))
		}
		_, res.err = rhp.RPCReplenishPools(ctx, c.cl, rhp.RPCReplenishPoolsParams{Pools: ps, Target: cur(st.Amounts[0]), Contract: contract}, c.cs, c.signer())
	case "attach":
		var req proto4.RPCAttachPoolsRequest
		for i := range st.Acc {
			a := proto4.PoolAttachment{Account: c.acct(st.Acc[i]), Pool: c.pool(st.Pool[i]), ValidUntil: time.Now().Add(3 * time.Hour)}
			key := c.poolKeys[st.Pool[i]]
			hk := hostKey
			last := i == len(st.Acc)-1 // corruptions apply to the last entry of a batch unless BadAt says otherwise
			if st.BadAt != nil {
				last = i == *st.BadAt
			}
			if last {
				switch st.Bad {
				case "signed-by-account":
					key = c.accKeys[st.Acc[i]]
				case "signed-by-foreign":
					key = c.foreign
				case "other-host":
					hk = c.foreign.PublicKey()
				case "expired":
					a.ValidUntil = time.Now().Add(-3 * time.Hour)
				}
			}
			a.Signature = key.SignHash(a.SigHash(hk))
			if last {
				switch st.Bad {
				case "zero-sig":
					a.Signature = types.Signature{}
				case "detach-signature":
					d := proto4.PoolDetachment{Account: a.Account, Pool: a.Pool, ValidUntil: a.ValidUntil}
					a.Signature = key.SignHash(d.SigHash(hostKey))
				case "other-account-signature":
					b := a
					b.Account = c.acct(st.Acc[i] + 1)
					a.Signature = key.SignHash(b.SigHash(hostKey))
				case "same-account-pool":
					a.Pool = a.Account
				}
			}
			req.Attachments = append(req.Attachments, a)
		}
		res.err = c.raw.RoundTrip(proto4.RPCAttachPoolsID, &req, new(proto4.RPCAttachPoolsResponse), nil, false, nil)
	case "detach":
		var req proto4.RPCDetachPoolsRequest
		for i := range st.Acc {
			d := proto4.PoolDetachment{Account: c.acct(st.Acc[i]), Pool: c.pool(st.Pool[i]), ValidUntil: time.Now().Add(3 * time.Hour)}
			key := c.accKeys[st.Acc[i]]
			if st.Signer == "pool" {
				key = c.poolKeys[st.Pool[i]]
			}
			hk := hostKey
			last := i == len(st.Acc)-1
			if st.BadAt != nil {
				last = i == *st.BadAt
			}
			if last {
				switch st.Bad {
				case "signed-by-foreign":
					key = c.foreign
				case "other-host":
					hk = c.foreign.PublicKey()
				case "expired":
					d.ValidUntil = time.Now().Add(-3 * time.Hour)
				}
			}
			d.Signature = key.SignHash(d.SigHash(hk))
			if last {
				switch st.Bad {
				case "zero-sig":
					d.Signature = types.Signature{}
				case "attach-signature":
					a := proto4.PoolAttachment{Account: d.Account, Pool: d.Pool, ValidUntil: d.ValidUntil}
					d.Signature = c.poolKeys[st.Pool[i]].SignHash(a.SigHash(hostKey))
				}
			}
			req.Detachments = append(req.Detachments, d)
		}
		res.err = c.raw.RoundTrip(proto4.RPCDetachPoolsID, &req, new(proto4.RPCDetachPoolsResponse), nil, false, nil)
	case "read":
		c.acct(st.Acc[0])
		req := proto4.RPCReadSectorRequest{Prices: c.prices, Token: c.token(st.Acc[0], st.Bad), Root: c.stored[st.Sector%len(c.stored)].Root, Offset: st.Offset, Length: st.Length}
		if st.Bad == "unknown-sector" {
			req.Root = rhplab.UnknownRoot(3)
		}
		var resp proto4.RPCReadSectorResponse
		if arm(rhplab.RequestLen(proto4.RPCReadSectorID, &req), 0) {
			res.err = c.raw.Abandon(proto4.RPCReadSectorID, &req, nil, stallFor(st.Cut))
			break
		}
		res.err = c.raw.RoundTrip(proto4.RPCReadSectorID, &req, &resp, nil, false, func(rd io.Reader) error {
			buf := make([]byte, resp.DataLength)
			n := 0
			for n < len(buf) {
				m, err := rd.Read(buf[n:])
				n += m
				if err != nil {
					res.data = buf[:n]
					return err
				}
			}
			res.data = buf
			rpv := proto4.NewRangeProofVerifier(req.Offset/proto4.LeafSize, (req.Offset+req.Length+proto4.LeafSize-1)/proto4.LeafSize)
			if _, err := rpv.ReadFrom(bytes.NewReader(buf)); err != nil {
				return err
			}
			if !rpv.Verify(resp.Proof, req.Root) {
				return rhp.ErrInvalidProof
			}
			return nil
		})
	case "verify":
		c.acct(st.Acc[0])
		req := proto4.RPCVerifySectorRequest{Prices: c.prices, Token: c.token(st.Acc[0], st.Bad), Root: c.stored[st.Sector%len(c.stored)].Root, LeafIndex: st.Offset % proto4.LeavesPerSector}
		if st.Bad == "unknown-sector" {
			req.Root = rhplab.UnknownRoot(3)
		}
		var resp proto4.RPCVerifySectorResponse
		if arm(rhplab.RequestLen(proto4.RPCVerifySectorID, &req), 0) {
			res.err = c.raw.Abandon(proto4.RPCVerifySectorID, &req, nil, stallFor(st.Cut))
			break
		}
		res.err = c.raw.RoundTrip(proto4.RPCVerifySectorID, &req, &resp, nil, false, nil)
		if res.err == nil && !proto4.VerifyLeafProof(resp.Proof, resp.Leaf, req.LeafIndex, req.Root) {
			res.err = rhp.ErrInvalidProof
		}
	case "write":
		c.acct(st.Acc[0])
		data := make([]byte, st.Length)
		for i := range data {
			data[i] = byte(i*7 + st.Sector)
		}
		req := proto4.RPCWriteSectorRequest{Prices: c.prices, Token: c.token(st.Acc[0], st.Bad), DataLength: st.Length}
		var resp proto4.RPCWriteSectorResponse
		if arm(rhplab.RequestLen(proto4.RPCWriteSectorID, &req), len(data)) {
			part := data[:len(data)/2]
			if st.Cut == "close-after-header" {
				part = nil
			}
			res.err = c.raw.Abandon(proto4.RPCWriteSectorID, &req, part, stallFor(st.Cut))
			break
		}
		res.err = c.raw.RoundTrip(proto4.RPCWriteSectorID, &req, &resp, data, false, nil)
	case "balance":
		res.bal, res.err = rhp.RPCAccountBalance(ctx, c.cl, c.acct(st.Acc[0]))
	case "paused-funder":
		runB := func() {
			res.bRan = true
			raw := c.lab.NewRaw()
			switch st.B {
			case "fund":
				r := raw.Fund(c.cs, rhplab.FundCall{Contract: contract, Deposits: []proto4.AccountDeposit{{Account: c.acct(st.BAcc), Amount: cur(st.Amounts[1])}}})
				res.bErr = r.Err
			default:
				target := c.acct(st.BAcc)
				if st.B == "repl-pool" {
					target = c.pool(st.BAcc)
				}
				r := raw.Replenish(c.cs, rhplab.ReplenishCall{Pools: st.B == "repl-pool", Contract: contract, Accounts: []proto4.Account{target}, Target: cur(st.Amounts[1])})
				res.bErr = r.Err
				if r.Err == nil && r.Stage != rhplab.StageComplete {
					res.bErr = fmt.Errorf("incomplete")
				}
			}
		}
		switch st.A {
		case "fund":
			// a single-round RPC holds the lock only while its handler runs: race the two
			done := make(chan struct{})
			go func() { defer close(done); runB() }()
			r := c.raw.Fund(c.cs, rhplab.FundCall{Contract: contract, Deposits: []proto4.AccountDeposit{{Account: c.acct(st.Acc[0]), Amount: cur(st.Amounts[0])}}})
			res.err = r.Err
			<-done
		default:
			var as []proto4.Account
			for _, a := range st.Acc {
				as = append(as, c.acct(a))
			}
			for _, p := range st.Pool {
				as = append(as, c.pool(p))
			}
			r := c.raw.Replenish(c.cs, rhplab.ReplenishCall{Pools: st.A == "repl-pool", Contract: contract, Accounts: as, Target: cur(st.Amounts[0]),
				Round2: func(_ types.V2FileContract, h types.Hash256) (types.Signature, bool) {
					runB()
					res.bFirst = true
					return c.lab.RenterKey.SignHash(h), true
				}})
			res.err = r.Err
			if r.Err == nil && r.Stage != rhplab.StageComplete {
				res.err = fmt.Errorf("incomplete")
			}
		}
	default:
		res.err = fmt.Errorf("unknown op %q", st.Op)
	}
	return
}

// expectedCost prices a debit RPC from its tapped request.
func stallFor(cut string) time.Duration {
	if cut == "stall-close" {
		return 30 * time.Millisecond
	}
	return 0
}

// requestComplete reports whether the whole request of a debit RPC (for a
// write: including every announced body byte) reached the host.
func requestComplete(x *rhplab.Exchange) bool {
	in := x.In(0)
	if in == nil || in.Obj == nil {
		return false
	}
	if w, ok := in.Obj.(*proto4.RPCWriteSectorRequest); ok {
		return uint64(in.Trailing) >= w.DataLength
	}
	return true
}

func expectedCost(x *rhplab.Exchange) (acc proto4.Account, tok proto4.AccountToken, usage proto4.Usage, kind string, ok bool) {
	switch req := x.Request().(type) {
	case *proto4.RPCReadSectorRequest:
		return req.Token.Account, req.Token, req.Prices.RPCReadSectorCost(req.Length), "read", true
	case *proto4.RPCWriteSectorRequest:
		return req.Token.Account, req.Token, req.Prices.RPCWriteSectorCost(req.DataLength), "write", true
	case *proto4.RPCVerifySectorRequest:
		return req.Token.Account, req.Token, req.Prices.RPCVerifySectorCost(), "verify", true
	}
	return
}

// step executes one step and replays what the proxies recorded against the ledger.
func (c *c15) step(st c15Step) error {
	c.steps = append(c.steps, st)
	c.cur = &c.steps[len(c.steps)-1]
	switch st.Op {
	case "set-prices":
		// the host changes its settings; tables it signed before stay valid
		if err := c.lab.SetPriceFactor(st.Amounts[0]); err != nil {
			return inconclusive("%v", err)
		}
		c.stale = st.Amounts[0]
		c.r.Count("settings_changes", 1)
		return nil
	case "fetch-prices":
		p, err := c.lab.HostPrices(c.cl)
		if err != nil {
			return inconclusive("RPCSettings: %v", err)
		}
		c.prices, c.stale = p, ""
		return nil
	}
	if err := c.quiesce(); err != nil {
		return err
	}
	// renter's view of the contract
	ci := st.Contract % len(c.contracts)
	hs0, err := c.lab.State(c.contracts[ci].ID)
	if err != nil {
		return inconclusive("contract state: %v", err)
	}
	c.contracts[ci].Revision = hs0.Revision
	pre := c.ledgerSnapshot()
	seq0 := c.lab.Log.Seq()
	c.raw.C.TakeStreams()
	c.cl.TakeStreams()
	var disarm func() bool
	if st.Fault {
		disarm = c.lab.Log.FailNext(rhplab.EvDebit)
	}
	res := c.do(st)
	if disarm != nil {
		if err := c.quiesce(); err != nil {
			disarm()
			return err
		}
		if disarm() {
			c.r.Count("debit_store_faults", 1)
			c.r.Distinct("debit-store-fault:" + st.Op)
			if res.err == nil {
				c.report("success-after-failed-debit:"+st.Op, "the RPC completed for the renter although the host's store failed the debit", nil)
			}
		}
	}
	if err := c.quiesce(); err != nil {
		return err
	}
	c.r.Eval()
	c.r.Count("steps_"+st.Op, 1)
	if st.BadAt != nil {
		c.r.Distinct(fmt.Sprintf("forged:%s:%s:%d-of-%d", st.Op, st.Bad, *st.BadAt, len(st.Acc)))
	}
	if st.Bad != "" {
		c.r.Count("bad_steps", 1)
		c.r.SetAdd("bad_kinds", st.Op+":"+st.Bad)
		c.r.Distinct("bad:" + st.Op + ":" + st.Bad)
	}
	c.aud.audit() // credits backed by revisions (findings forwarded through c.report)
	evs := c.lab.Log.Since(seq0)
	hostKey := c.lab.HostKey.PublicKey()

	paid := map[uint64]proto4.Usage{} // stream -> successful debit
	debited := map[uint64]bool{}      // stream -> a debit was attempted
	served := map[uint64]int{}        // stream -> service calls
	for i := range evs {
		ev := &evs[i]
		switch ev.Kind {
		case rhplab.EvCreditAccounts, rhplab.EvCreditPools:
			if ev.Err != "" {
				continue
			}
			m := c.led.acc
			if ev.Kind == rhplab.EvCreditPools {
				m = c.led.pool
			}
			for j, d := range ev.Deposits {
				m[d.Account] = m[d.Account].Add(d.Amount)
				if ev.Kind == rhplab.EvCreditPools {
					c.led.exists[d.Account] = true
				}
				if j < len(ev.Balances) && !ev.Balances[j].Equals(m[d.Account]) {
					c.report("credit-balance-wrong", "balance reported after a credit differs from the ledger", map[string]any{"account": d.Account, "reported": hs(ev.Balances[j]), "ledger": hs(m[d.Account])})
				}
			}
			c.r.Count("credits", len(ev.Deposits))
		case rhplab.EvDebit:
			debited[ev.Stream] = true
			x, _ := rhplab.Parse(c.lab.Mux.Stream(ev.Stream))
			if x == nil || x.Request() == nil {
				c.report("uncorrelated-debit", "a debit could not be tied to a tapped request", nil)
				continue
			}
			acc, tok, usage, kind, ok := expectedCost(x)
			if !ok {
				c.report("debit-from-wrong-rpc", fmt.Sprintf("DebitAccount reached from RPC %v", x.RPC), nil)
				continue
			}
			if ev.Accounts[0] != acc || ev.Usage != usage {
				c.report("debit-amount-wrong:"+kind, "debit differs from the priced cost of the tapped request", map[string]any{"debited": ev.Usage, "priced": usage, "account": ev.Accounts[0], "token_account": acc})
			}
			if tok.HostKey != hostKey || !tok.ValidUntil.After(time.Now()) || !types.PublicKey(tok.Account).VerifyHash(tok.SigHash(), tok.Signature) {
				c.report("debit-with-invalid-token:"+kind, "an account was debited on the strength of an invalid token", map[string]any{"token": tok})
			}
			if ev.Injected {
				continue // the store failed: not paid, judged by the unpaid-RPC rules below
			}
			// how many balances does this debit reach into, per the model?
			sources, left := 0, usage.RenterCost()
			for _, b := range append([]types.Currency{c.led.acc[acc]}, poolBalances(c.led, acc)...) {
				if left.IsZero() {
					break
				}
				if !b.IsZero() {
					sources++
				}
				if b.Cmp(left) >= 0 {
					left = types.ZeroCurrency
				} else {
					left = left.Sub(b)
				}
			}
			fromPools := c.led.acc[acc].Cmp(usage.RenterCost()) < 0
			want := c.led.debit(acc, usage.RenterCost())
			if ev.Err == "" && want {
				if sources >= 2 {
					c.r.Count("debits_spanning_balances", 1)
				}
				if fromPools {
					c.r.Count("debits_drawing_on_pools", 1)
					if c.reordered[acc] {
						c.r.Count("detaches_of_non_last_pool_followed_by_paid_rpc", 1)
						delete(c.reordered, acc)
					}
				}
			}
			if want != (ev.Err == "") {
				c.report("debit-decision-wrong:"+kind, fmt.Sprintf("ledger says sufficient=%v but the Contractor answered %q", want, ev.Err), map[string]any{"cost": hs(usage.RenterCost())})
			}
			if ev.Err == "" {
				paid[ev.Stream] = usage
				c.r.Count("debits_ok", 1)
				if c.stale != "" {
					c.r.Count("debits_priced_by_older_signed_table", 1)
					c.r.Distinct("stale-table:" + kind + ":" + c.stale)
				}
			} else {
				c.r.Count("debits_insufficient", 1)
			}
		case rhplab.EvReadSector, rhplab.EvStoreSector:
			served[ev.Stream]++
			if _, ok := paid[ev.Stream]; !ok {
				c.report("service-before-payment:"+ev.Kind, "a sector was read or stored without a preceding successful debit in the same RPC", map[string]any{"debit_attempted": debited[ev.Stream]})
			}
			c.r.Count("service_calls", 1)
		case rhplab.EvAttach:
			for _, a := range ev.Attach {
				if !a.ValidSignature(hostKey) || !a.ValidUntil.After(time.Now()) {
					c.report("attach-with-invalid-signature", "an attachment reached the Contractor without a valid, unexpired pool-key signature bound to this host", map[string]any{"attachment": a})
				}
			}
			missing := false
			for _, a := range ev.Attach {
				if !c.led.exists[a.Pool] {
					missing = true
				}
			}
			if missing != (ev.Err != "") {
				c.report("attach-result-wrong", fmt.Sprintf("ledger says pool missing=%v but the Contractor answered %q", missing, ev.Err), nil)
			}
			if ev.Err == "" {
				for _, a := range ev.Attach {
					c.led.attach(a.Account, a.Pool)
				}
				c.r.Count("attachments", len(ev.Attach))
			}
		case rhplab.EvDetach:
			for _, d := range ev.Detach {
				if !d.ValidSignature(hostKey) || !d.ValidUntil.After(time.Now()) {
					c.report("detach-with-invalid-signature", "a detachment reached the Contractor without a valid, unexpired account- or pool-key signature bound to this host", map[string]any{"detachment": d})
				}
			}
			if ev.Err == "" {
				for _, d := range ev.Detach {
					if list := c.led.att[d.Account]; len(list) >= 3 {
						if i := slices.Index(list, d.Pool); i >= 0 && i < len(list)-1 {
							if c.reordered == nil {
								c.reordered = map[proto4.Account]bool{}
							}
							c.reordered[d.Account] = true
							c.r.Count("detaches_of_non_last_pool", 1)
							c.r.Distinct(fmt.Sprintf("detach:position-%d-of-%d", i, len(list)))
						}
					}
					c.led.detach(d.Account, d.Pool)
				}
				c.r.Count("detachments", len(ev.Detach))
			}
		case rhplab.EvAccountBalance, rhplab.EvAccountBalances:
			for j, a := range ev.Accounts {
				if !ev.Balances[j].Equals(c.led.acc[a]) {
					c.report("balance-query-wrong", "balance the Contractor reported differs from the ledger", map[string]any{"account": a, "reported": hs(ev.Balances[j]), "ledger": hs(c.led.acc[a])})
				}
			}
		case rhplab.EvPoolBalances:
			for j, a := range ev.Accounts {
				if !ev.Balances[j].Equals(c.led.pool[a]) {
					c.report("balance-query-wrong", "pool balance the Contractor reported differs from the ledger", map[string]any{"pool": a, "reported": hs(ev.Balances[j]), "ledger": hs(c.led.pool[a])})
				}
			}
		}
	}

	// per-RPC: paid => served; not paid => nothing served, no data, no success
	// answer; no debit before the whole request (incl. a write's body) arrived
	debitRPCs, unpaidRPCs := 0, 0
	for _, id := range append(c.raw.C.TakeStreams(), c.cl.TakeStreams()...) {
		stm := c.lab.Mux.Stream(id)
		x, _ := rhplab.Parse(stm)
		if x == nil {
			continue
		}
		_, wasPaid := paid[id]
		_, _, _, kind, isDebit := expectedCost(x)
		if !isDebit {
			if wasPaid && served[id] == 0 {
				c.report("paid-but-not-served:unknown", "an account was debited but no sector operation followed in that RPC", nil)
			}
			if st.Cut != "" && (st.Op == "read" || st.Op == "write" || st.Op == "verify") {
				// the request header itself never arrived whole
				debitRPCs++
				c.r.Count("aborted_before_request_complete_"+st.Op, 1)
				c.r.SetAdd("debit_rpc_abort_points", st.Op+":"+st.Cut+":"+phaseOf(stm))
				c.r.Distinct("cut:" + st.Op + ":" + st.Cut + ":" + phaseOf(stm))
				if debited[id] || served[id] > 0 {
					c.report("debit-before-request-complete:"+st.Op, "an account was debited or a sector touched although the request header had not arrived in full", map[string]any{"cut": st.Cut})
				} else {
					unpaidRPCs++
				}
			}
			continue
		}
		debitRPCs++
		complete := requestComplete(x)
		out := x.Out(0)
		if st.Cut != "" {
			phase := phaseOf(stm)
			c.r.SetAdd("debit_rpc_abort_points", kind+":"+st.Cut+":"+phase)
			c.r.Distinct("cut:" + kind + ":" + st.Cut + ":" + phase)
			if !complete {
				c.r.Count("aborted_before_request_complete_"+kind, 1)
			} else if res.err != nil {
				c.r.Count("aborted_after_request_complete_"+kind, 1)
			}
		}
		if debited[id] && !complete {
			c.report("debit-before-request-complete:"+kind, "an account was debited although the request (for a write: its sector body) had not arrived in full", map[string]any{"exchange": x.Describe(), "cut": st.Cut})
		}
		switch {
		case wasPaid && served[id] == 0:
			c.report("paid-but-not-served:"+kind, "an account was debited but the sector operation was not carried out in that RPC", map[string]any{"exchange": x.Describe(), "cut": st.Cut})
		case !wasPaid && ((out != nil && (out.Obj != nil || out.Trailing != 0)) || len(res.data) != 0):
			c.report("data-without-payment:"+kind, "an RPC whose debit failed or never happened was answered with more than an error", map[string]any{"exchange": x.Describe()})
		case !wasPaid && st.Cut == "" && (out == nil || out.HostErr == nil):
			c.report("data-without-payment:"+kind, "an uncut RPC whose debit failed or never happened did not end in a bare error", map[string]any{"exchange": x.Describe()})
		case !wasPaid:
			unpaidRPCs++
			c.r.Count("unpaid_rpcs_bare_error", 1)
		}
		if wasPaid && kind == "read" && res.err == nil {
			s := c.stored[st.Sector%len(c.stored)]
			if !bytes.Equal(res.data, s.Data[st.Offset:st.Offset+st.Length]) {
				c.report("read-wrong-data", "paid read returned other bytes than stored", nil)
			}
		}
	}
	// balances after the step equal the ledger
	post := c.ledgerSnapshot()
	c.compareLedger(post)
	if debitRPCs > 0 && debitRPCs == unpaidRPCs && !ledgerEqual(pre, post) {
		c.report("unpaid-rpc-changed-ledger:"+st.Op, "an RPC that was not paid for (failed, refused or abandoned before payment) changed balances", map[string]any{"pre": pre.strings(), "post": post.strings(), "cut": st.Cut})
	}
	if st.Op == "balance" && res.err == nil && !res.bal.Equals(c.led.acc[c.acct(st.Acc[0])]) {
		c.report("balance-rpc-wrong", "RPCAccountBalance differs from the ledger", map[string]any{"rpc": hs(res.bal)})
	}

	// replenish: every listed balance ends at max(old, target), never beyond
	if (st.Op == "repl-acc" || st.Op == "repl-pool") && res.err == nil {
		target := cur(st.Amounts[0])
		m, pm := c.led.acc, pre.acc
		var listed []proto4.Account
		if st.Op == "repl-pool" {
			m, pm = c.led.pool, pre.pool
			for _, p := range st.Pool {
				listed = append(listed, c.pool(p))
			}
		} else {
			for _, a := range st.Acc {
				listed = append(listed, c.acct(a))
			}
		}
		dup := len(listed) != len(dedupe(listed))
		for _, a := range listed {
			want := pm[a]
			if want.Cmp(target) < 0 {
				want = target
			}
			if !m[a].Equals(want) {
				sig := "replenish-not-max-old-target"
				if m[a].Cmp(want) > 0 {
					sig = "replenish-beyond-target"
				}
				if dup && st.Op == "repl-pool" {
					sig += ":duplicate-pool"
				} else if dup {
					sig += ":duplicate-account"
				}
				c.report(sig, fmt.Sprintf("after replenishing to %v H a balance that was %v H is %v H", hs(target), hs(pm[a]), hs(m[a])), map[string]any{"account": a})
				break
			}
		}
		c.r.Count("replenishes_checked", 1)
	}

	// paused funder: credits are matched one-to-one by revisions
	if st.Op == "paused-funder" {
		var credited types.Currency
		ncred := 0
		for i := range evs {
			if ev := &evs[i]; (ev.Kind == rhplab.EvCreditAccounts || ev.Kind == rhplab.EvCreditPools) && ev.Err == "" {
				ncred++
				for _, d := range ev.Deposits {
					credited = credited.Add(d.Amount)
				}
			}
		}
		hs1, err := c.lab.State(c.contracts[ci].ID)
		if err != nil {
			return inconclusive("contract state: %v", err)
		}
		detail := map[string]any{"a_error": errText(res.err), "b_error": errText(res.bErr), "credit_calls": ncred, "credited": hs(credited),
			"start_revision": hs0.Revision.RevisionNumber, "stored_revision": hs1.Revision.RevisionNumber}
		moved := types.ZeroCurrency
		if hs0.Revision.RenterOutput.Value.Cmp(hs1.Revision.RenterOutput.Value) >= 0 {
			moved = hs0.Revision.RenterOutput.Value.Sub(hs1.Revision.RenterOutput.Value)
		}
		detail["moved_renter_to_host"] = hs(moved)
		switch {
		case credited.Cmp(moved) > 0:
			c.report("credits-exceed-committed-transfer", fmt.Sprintf("accounts and pools were credited %v H in total but the latest stored revision moved only %v H from renter to host", hs(credited), hs(moved)), detail)
		case !credited.Equals(moved) || !hs1.Revision.HostOutput.Value.Equals(hs0.Revision.HostOutput.Value.Add(moved)):
			c.report("credits-vs-committed-transfer", "the stored revision's renter->host transfer differs from the credits recorded", detail)
		default:
			c.r.Count("paused_funder_conserved", 1)
		}
		if res.bRan && st.A != "fund" {
			c.r.Count("paused_funder_rounds", 1)
			c.r.Distinct("paused-funder:" + st.A + "/" + st.B)
			if res.bErr == nil {
				c.report("funder-not-refused:"+st.B+"-while-"+st.A, "a second funding RPC went through on a contract whose lock was held by a paused "+st.A, detail)
			} else {
				c.r.Count("paused_funder_b_refused", 1)
			}
			if res.err != nil {
				c.r.Inconclusive(fmt.Sprintf("paused funder %s/%s: the paused RPC did not complete: %v", st.A, st.B, res.err))
			}
		} else if st.A == "fund" {
			c.r.Count("racing_funder_rounds", 1)
		} else {
			c.r.Count("paused_funder_not_reached", 1)
		}
	}

	// a refused replenish changes nothing
	if (st.Op == "repl-acc" || st.Op == "repl-pool") && res.err != nil && st.Bad == "" {
		if !ledgerEqual(pre, post) {
			c.report("refused-replenish-changed-ledger:"+st.Op, "a replenish the host refused ("+errText(res.err)+") changed balances", map[string]any{"pre": pre.strings(), "post": post.strings()})
		} else {
			c.r.Count("replenishes_refused_unchanged", 1)
		}
	}
	if st.Shape != "" && (st.Op == "repl-acc" || st.Op == "repl-pool") {
		c.r.Count("replenish_repeat_shape_"+st.Shape, 1)
		c.r.Distinct("repl-shape:" + st.Op + ":" + st.Shape)
		if res.err == nil {
			c.r.Count("replenish_repeat_batches_accepted", 1)
		} else {
			c.r.Count("replenish_repeat_batches_refused", 1)
		}
	}

	// expectations about the step's own outcome
	switch {
	case st.Bad != "" && res.err == nil:
		c.report("bad-request-succeeded:"+st.Op+":"+st.Bad, "a request built to be invalid completed successfully", nil)
	case st.Bad != "" && !ledgerEqual(pre, post):
		c.report("bad-request-changed-ledger:"+st.Op+":"+st.Bad, "a request built to be invalid changed balances", map[string]any{"pre": pre.strings(), "post": post.strings()})
	case st.Bad != "":
		c.r.Count("bad_steps_changed_nothing", 1)
	}
	if st.Tune != nil {
		wantOK := *st.Tune >= 0
		gotOK := res.err == nil
		c.r.Count(fmt.Sprintf("tuned_%+d", *st.Tune), 1)
		if len(c.steps)%29 == 0 {
			c.r.Sample(map[string]any{"worker": c.worker, "step": st, "pools_attached": len(c.led.att[c.acct(st.Acc[0])]), "result": errText(res.err)})
		}
		c.r.Distinct(fmt.Sprintf("tuned:%s:%+d:%d/%d", st.Op, *st.Tune, len(c.led.att[c.acct(st.Acc[0])]), st.Sector))
		if wantOK != gotOK {
			c.report(fmt.Sprintf("tuned-debit-outcome:%s:%+d", st.Op, *st.Tune), fmt.Sprintf("drawable funds were cost%+d but the RPC result was %v", *st.Tune, res.err), nil)
		}
		if !gotOK && !ledgerEqual(pre, post) {
			c.report("insufficient-rpc-changed-ledger:"+st.Op, "an RPC that failed for lack of funds changed balances", map[string]any{"pre": pre.strings(), "post": post.strings()})
		}
	}
	c.lab.Mux.Forget(c.lab.Mux.Streams())
	c.lab.Log.Trim(c.lab.Log.Seq())
	c.aud.seq = c.lab.Log.Seq()
	return nil
}

func dedupe(a []proto4.Account) []proto4.Account {
	var out []proto4.Account
	for _, x := range a {
		if !slices.Contains(out, x) {
			out = append(out, x)
		}
	}
	return out
}

type ledgerSnap struct {
	accs, pools []proto4.Account
	acc, pool   map[proto4.Account]types.Currency
}

func (s ledgerSnap) strings() map[string]string {
	out := map[string]string{}
	for i, a := range s.accs {
		out[fmt.Sprintf("acc%d", i)] = hs(s.acc[a])
	}
	for i, p := range s.pools {
		out[fmt.Sprintf("pool%d", i)] = hs(s.pool[p])
	}
	return out
}

func ledgerEqual(a, b ledgerSnap) bool {
	for _, k := range a.accs {
		if !a.acc[k].Equals(b.acc[k]) {
			return false
		}
	}
	for _, k := range a.pools {
		if !a.pool[k].Equals(b.pool[k]) {
			return false
		}
	}
	return true
}

// ledgerSnapshot reads the host's balances of every account and pool the
// worker has ever named, through the inner contractor (barrier only).
func (c *c15) ledgerSnapshot() ledgerSnap {
	s := ledgerSnap{acc: map[proto4.Account]types.Currency{}, pool: map[proto4.Account]types.Currency{}}
	for i := range c.accKeys {
		s.accs = append(s.accs, c.acct(i))
	}
	for i := range c.poolKeys {
		s.pools = append(s.pools, c.pool(i))
	}
	ab, pb := c.lab.Balances(s.accs, s.pools)
	for i, a := range s.accs {
		s.acc[a] = ab[i]
	}
	for i, p := range s.pools {
		s.pool[p] = pb[i]
	}
	return s
}

func poolBalances(l *ledger, a proto4.Account) []types.Currency {
	var out []types.Currency
	for _, p := range l.att[a] {
		out = append(out, l.pool[p])
	}
	return out
}

func (c *c15) compareLedger(s ledgerSnap) {
	// a paid RPC that took the right total from the wrong balances: the sum over
	// all balances agrees with the ledger, the distribution does not
	if st := c.cur; st != nil && (st.Op == "read" || st.Op == "write" || st.Op == "verify") {
		var host, model types.Currency
		wrong := []string{}
		for i, a := range s.accs {
			host, model = host.Add(s.acc[a]), model.Add(c.led.acc[a])
			if !s.acc[a].Equals(c.led.acc[a]) {
				wrong = append(wrong, fmt.Sprintf("account %d: host %v H, ledger %v H", i, hs(s.acc[a]), hs(c.led.acc[a])))
			}
		}
		for i, p := range s.pools {
			host, model = host.Add(s.pool[p]), model.Add(c.led.pool[p])
			if !s.pool[p].Equals(c.led.pool[p]) {
				wrong = append(wrong, fmt.Sprintf("pool %d: host %v H, ledger %v H", i, hs(s.pool[p]), hs(c.led.pool[p])))
			}
		}
		if len(wrong) > 0 && host.Equals(model) {
			order := []int{}
			for _, p := range c.led.att[c.acct(st.Acc[0])] {
				order = append(order, slices.Index(s.pools, p))
			}
			c.report("debited-wrong-pool:"+st.Op, "a paid RPC took the right amount from the wrong balances (own balance first, then pools in attachment order; a detach keeps the order of the rest, a re-attach goes to the end)", map[string]any{"differences": wrong, "attachment_order_per_ledger": order})
			for _, a := range s.accs {
				c.led.acc[a] = s.acc[a]
			}
			for _, p := range s.pools {
				c.led.pool[p] = s.pool[p]
			}
			c.r.Count("ledger_comparisons", 1)
			return
		}
	}
	for i, a := range s.accs {
		if !s.acc[a].Equals(c.led.acc[a]) {
			c.report("ledger-mismatch:account", fmt.Sprintf("host balance of account %d is %v H, ledger says %v H", i, hs(s.acc[a]), hs(c.led.acc[a])), nil)
			c.led.acc[a] = s.acc[a] // resynchronise so that one fault is reported once
		}
	}
	for i, p := range s.pools {
		if !s.pool[p].Equals(c.led.pool[p]) {
			c.report("ledger-mismatch:pool", fmt.Sprintf("host balance of pool %d is %v H, ledger says %v H", i, hs(s.pool[p]), hs(c.led.pool[p])), nil)
			c.led.pool[p] = s.pool[p]
		}
	}
	c.r.Count("ledger_comparisons", 1)
}

// ---------------------------------------------------------------------------
// workload

// costOf prices a debit step the way the renter would.
func (c *c15) costOf(st c15Step) types.Currency {
	switch st.Op {
	case "read":
		return c.prices.RPCReadSectorCost(st.Length).RenterCost()
	case "write":
		return c.prices.RPCWriteSectorCost(st.Length).RenterCost()
	}
	return c.prices.RPCVerifySectorCost().RenterCost()
}

// tuned arranges a fresh account whose drawable funds are cost+delta, split
// over its own balance and pools as pattern says, then issues the debit RPC.
func (c *c15) tuned(op c15Step, delta int, pattern string, sharedPool int) error {
	a := len(c.accKeys)
	c.acct(a)
	op.Acc = []int{a}
	cost := c.costOf(op)
	total := cost
	if delta < 0 {
		total = cost.Sub(types.NewCurrency64(uint64(-delta)))
	} else {
		total = cost.Add(types.NewCurrency64(uint64(delta)))
	}
	third := total.Div64(3)
	var own types.Currency
	var pools []types.Currency
	switch pattern {
	case "own":
		own = total
	case "pool-only":
		pools = []types.Currency{total}
	case "own+pool":
		own, pools = third, []types.Currency{total.Sub(third)}
	case "own+pool+pool":
		own, pools = third, []types.Currency{third, total.Sub(third).Sub(third)}
	case "tinypool+pool":
		pools = []types.Currency{types.ZeroCurrency, total}
	case "shared-pool":
		own = third
		pools = []types.Currency{total.Sub(third)}
	}
	if !own.IsZero() {
		if err := c.step(c15Step{Op: "fund", Acc: []int{a}, Amounts: []string{hs(own)}, Contract: a}); err != nil {
			return err
		}
	}
	for _, amt := range pools {
		p := len(c.poolKeys)
		if pattern == "shared-pool" && sharedPool >= 0 {
			p = sharedPool
		}
		c.pool(p)
		pa := c.pool(p)
		want := amt
		if amt.IsZero() {
			// an existing but empty pool: fund it to 1 H through a throw-away
			// account's debit is not possible, so create it with a 1 H target
			// next to a second listed pool and accept 1 H extra drawable funds
			want = types.NewCurrency64(1)
		}
		if pattern == "shared-pool" && sharedPool >= 0 {
			// top the shared pool up to exactly the needed amount above what it holds
			want = c.led.pool[pa].Add(amt)
			if c.led.pool[pa].Cmp(amt) >= 0 {
				want = c.led.pool[pa]
			}
		}
		if err := c.step(c15Step{Op: "repl-pool", Pool: []int{p}, Amounts: []string{hs(want)}, Contract: a + 1}); err != nil {
			return err
		}
		if err := c.step(c15Step{Op: "attach", Acc: []int{a}, Pool: []int{p}}); err != nil {
			return err
		}
	}
	// recompute what is really drawable and express the tuning relative to it
	draw := c.led.acc[c.acct(a)]
	for _, p := range c.led.att[c.acct(a)] {
		draw = draw.Add(c.led.pool[p])
	}
	d := 0
	switch draw.Cmp(cost) {
	case -1:
		d = -1
	case 1:
		d = 1
	}
	op.Tune = &d
	return c.step(op)
}

var c15AttachBad = []string{"signed-by-account", "signed-by-foreign", "other-host", "expired", "zero-sig", "detach-signature", "other-account-signature", "same-account-pool"}
var c15DetachBad = []string{"signed-by-foreign", "other-host", "expired", "zero-sig", "attach-signature"}
var c15TokenBad = []string{"token-expired", "token-other-host", "token-wrongkey", "token-other-account", "token-zero-sig", "unknown-sector"}

func (c *c15) debitOps() []c15Step {
	return []c15Step{
		{Op: "read", Sector: 0, Offset: 0, Length: 64},
		{Op: "read", Sector: 1, Offset: 4096, Length: 8192},
		{Op: "verify", Sector: 2, Offset: 12345},
		{Op: "write", Sector: 9, Length: 128},
	}
}

func (c *c15) runTable() error {
	// (1) balances at / just below / just above cost, every split pattern
	shared := -1
	for _, op := range c.debitOps() {
		for _, pattern := range []string{"own", "pool-only", "own+pool", "own+pool+pool", "tinypool+pool", "shared-pool"} {
			for _, delta := range []int{-1, 0, 1} {
				if err := c.tuned(op, delta, pattern, shared); err != nil {
					return err
				}
				if pattern == "shared-pool" && shared < 0 {
					shared = len(c.poolKeys) - 1
				}
			}
		}
	}
	// (1b) the same tuning while the host's current prices differ from the
	// signed table the renter keeps using: the signed table decides
	for _, f := range []string{"x2", "x0.5", "zero", "x1000"} {
		if err := c.step(c15Step{Op: "set-prices", Amounts: []string{f}}); err != nil {
			return err
		}
		for _, op := range c.debitOps() {
			for _, delta := range []int{-1, 0, 1} {
				if err := c.tuned(op, delta, []string{"own", "own+pool"}[(delta+1)%2], -1); err != nil {
					return err
				}
			}
		}
	}
	// a fresh table carries the new prices and is honoured as well
	for _, f := range []string{"x2", "x1"} {
		if err := c.step(c15Step{Op: "set-prices", Amounts: []string{f}}); err != nil {
			return err
		}
		if err := c.step(c15Step{Op: "fetch-prices"}); err != nil {
			return err
		}
		for _, op := range c.debitOps() {
			if err := c.tuned(op, 0, "own", -1); err != nil {
				return err
			}
		}
	}
	// (2) attach / detach authorisation
	a, p := len(c.accKeys), len(c.poolKeys)
	c.acct(a + 1)
	c.pool(p + 1)
	steps := []c15Step{
		{Op: "repl-pool", Pool: []int{p, p + 1}, Amounts: []string{"5000000"}},
		{Op: "fund", Acc: []int{a}, Amounts: []string{"1000"}},
	}
	for _, bad := range c15AttachBad {
		steps = append(steps, c15Step{Op: "attach", Acc: []int{a}, Pool: []int{p}, Bad: bad})
		// batch atomicity: a good entry followed by a bad one applies nothing
		steps = append(steps, c15Step{Op: "attach", Acc: []int{a, a}, Pool: []int{p, p + 1}, Bad: bad})
	}
	// the account must still be unable to draw on the pool
	steps = append(steps, c15Step{Op: "read", Acc: []int{a}, Sector: 0, Length: 64, Tune: new(int)})
	*steps[len(steps)-1].Tune = -1
	steps = append(steps, c15Step{Op: "attach", Acc: []int{a}, Pool: []int{p}}, c15Step{Op: "attach", Acc: []int{a}, Pool: []int{p + 1}})
	for _, bad := range c15DetachBad {
		steps = append(steps, c15Step{Op: "detach", Acc: []int{a}, Pool: []int{p}, Signer: "account", Bad: bad})
		steps = append(steps, c15Step{Op: "detach", Acc: []int{a, a}, Pool: []int{p + 1, p}, Signer: "pool", Bad: bad})
	}
	// still attached: a read must succeed from the pools
	one := 1
	steps = append(steps, c15Step{Op: "read", Acc: []int{a}, Sector: 0, Length: 64, Tune: &one})
	steps = append(steps, c15Step{Op: "detach", Acc: []int{a}, Pool: []int{p}, Signer: "account"}, c15Step{Op: "detach", Acc: []int{a}, Pool: []int{p + 1}, Signer: "pool"},
		c15Step{Op: "attach", Acc: []int{a}, Pool: []int{p + 7}}) // pool that was never funded: Contractor must refuse
	// (3) tokens
	steps = append(steps, c15Step{Op: "fund", Acc: []int{a}, Amounts: []string{"900000000000"}})
	for _, bad := range c15TokenBad {
		for _, op := range c.debitOps() {
			if bad == "unknown-sector" && op.Op == "write" {
				continue
			}
			op.Acc, op.Bad = []int{a}, bad
			steps = append(steps, op)
		}
	}
	// (4) replenish levels: below / at / above target, mixed lists
	steps = append(steps,
		c15Step{Op: "repl-acc", Acc: []int{a, a + 1}, Amounts: []string{"900000000000"}},     // a at target, a+1 below
		c15Step{Op: "repl-acc", Acc: []int{a, a + 1}, Amounts: []string{"900000000001"}},     // both 1 below
		c15Step{Op: "repl-acc", Acc: []int{a, a + 1}, Amounts: []string{"900000000000"}},     // both 1 above
		c15Step{Op: "repl-pool", Pool: []int{p, p + 1}, Amounts: []string{"4999999"}},        // above (after drains maybe below)
		c15Step{Op: "repl-pool", Pool: []int{p, p + 1, p + 2}, Amounts: []string{"5000001"}}, // new pool in the list
		c15Step{Op: "repl-acc", Acc: []int{a, a}, Amounts: []string{"2000000000000"}},        // the same account listed twice
		c15Step{Op: "repl-pool", Pool: []int{p, p}, Amounts: []string{"7000000"}},            // the same pool listed twice
	)
	for _, st := range steps {
		if st.Op == "attach" && st.Bad == "" && len(st.Pool) == 1 && st.Pool[0] == p+7 {
			c.pool(p + 7)
		}
		if err := c.step(st); err != nil {
			return err
		}
	}
	return nil
}

var (
	c15BodyCuts = []string{"hdr-mid", "hdr-1", "body+0", "body+1", "body-half", "body-1", "close-after-header", "stall-close"}
	c15HdrCuts  = []string{"hdr-mid", "hdr-1"}
	c15RespCuts = []string{"resp+0", "resp+1", "resp+20", "resp+300", "resp+700", "resp+1500", "resp+100000"}
)

// runAborts funds a fresh account with exactly two times the cost of an RPC,
// kills that RPC at every point before its request is complete (nothing may
// be debited, stored or delivered), then checks that exactly two more of them
// succeed and the third fails; afterwards it kills the RPC at every point of
// the host's answer, where being paid is legitimate iff the operation was
// carried out.
func (c *c15) runAborts() error {
	ops := []c15Step{
		{Op: "write", Sector: 5, Length: 4096},
		{Op: "write", Sector: 6, Length: 64},
		{Op: "read", Sector: 0, Offset: 0, Length: 1024},
		{Op: "verify", Sector: 2, Offset: 777},
	}
	for _, op := range ops {
		a := len(c.accKeys)
		c.acct(a)
		op.Acc = []int{a}
		cost := c.costOf(op)
		if err := c.step(c15Step{Op: "fund", Acc: []int{a}, Amounts: []string{hs(cost.Mul64(2))}}); err != nil {
			return err
		}
		cuts := c15HdrCuts
		if op.Op == "write" {
			cuts = c15BodyCuts
		}
		for _, cut := range cuts {
			st := op
			st.Cut = cut
			if err := c.step(st); err != nil {
				return err
			}
		}
		for _, tune := range []int{1, 0, -1} {
			st, t := op, tune
			st.Tune = &t
			if err := c.step(st); err != nil {
				return err
			}
		}
		c.r.Count("funded_count_scenarios", 1)
		// the store failing the debit: an error, nothing served, nothing taken
		if err := c.step(c15Step{Op: "fund", Acc: []int{a}, Amounts: []string{hs(cost.Mul64(2))}}); err != nil {
			return err
		}
		for i := 0; i < 2; i++ {
			st := op
			st.Fault = true
			if err := c.step(st); err != nil {
				return err
			}
		}
		// answer-phase cuts on a well funded account
		if err := c.step(c15Step{Op: "fund", Acc: []int{a}, Amounts: []string{hs(cost.Mul64(uint64(len(c15RespCuts)) + 1))}}); err != nil {
			return err
		}
		for _, cut := range c15RespCuts {
			st := op
			st.Cut = cut
			if err := c.step(st); err != nil {
				return err
			}
		}
	}
	return nil
}

// poolIndex maps a pool account back to its index in the worker's key table.
func (c *c15) poolIndex(p proto4.Account) int {
	for i := range c.poolKeys {
		if c.pool(i) == p {
			return i
		}
	}
	return -1
}

// runPoolOrder gives a fresh account 3..5 pools with distinct balances, several
// of them too small to pay for one RPC alone, and then interleaves PRNG
// detaches (first / middle / last / two at once), re-attaches (which go to the
// end of the order), attaches of new pools and top-ups with paid RPCs. After
// every step every balance is compared with the ledger, whose attachment list
// is order preserving.
func (c *c15) runPoolOrder(steps int) error {
	rng := c.rng
	a := len(c.accKeys)
	acct := c.acct(a)
	k := 3 + rng.IntN(3)
	base := len(c.poolKeys)
	c.pool(base + k + 2) // k attached from the start, three spares to attach later
	readCost := c.prices.RPCReadSectorCost(64).RenterCost()
	frac := func(i int) types.Currency { // distinct, mostly below one read
		return readCost.Mul64(uint64(2 + 3*i)).Div64(7).Add(types.NewCurrency64(uint64(11 * (i + 1))))
	}
	for i := 0; i < k+3; i++ {
		if err := c.step(c15Step{Op: "repl-pool", Pool: []int{base + i}, Amounts: []string{hs(frac(i % 4))}, Contract: i}); err != nil {
			return err
		}
	}
	// attach the first k, partly as one batch
	var accs, pools []int
	for i := 0; i < k; i++ {
		accs, pools = append(accs, a), append(pools, base+i)
	}
	if err := c.step(c15Step{Op: "attach", Acc: accs[:2], Pool: pools[:2]}); err != nil {
		return err
	}
	for i := 2; i < k; i++ {
		if err := c.step(c15Step{Op: "attach", Acc: []int{a}, Pool: []int{base + i}}); err != nil {
			return err
		}
	}
	paid := func() c15Step {
		st := c.debitOps()[[]int{0, 0, 0, 1}[rng.IntN(4)]]
		st.Acc = []int{a}
		return st
	}
	for i := 0; i < steps; i++ {
		list := c.led.att[acct]
		var st c15Step
		switch v := rng.IntN(20); {
		case v < 6 && len(list) >= 3:
			// detach: first, middle, last, or two at once; then pay
			var pos []int
			switch rng.IntN(5) {
			case 0:
				pos = []int{0}
			case 1, 2:
				pos = []int{1 + rng.IntN(len(list)-2)}
			case 3:
				pos = []int{len(list) - 1}
			default:
				pos = []int{0, len(list) - 2}
			}
			st = c15Step{Op: "detach", Signer: []string{"account", "pool"}[rng.IntN(2)]}
			for _, p := range pos {
				st.Acc, st.Pool = append(st.Acc, a), append(st.Pool, c.poolIndex(list[p]))
			}
			if err := c.step(st); err != nil {
				return err
			}
			st = paid()
		case v < 10:
			// (re-)attach a pool that is not attached: it goes to the end
			var free []int
			for j := base; j < base+k+3; j++ {
				if !slices.Contains(list, c.pool(j)) {
					free = append(free, j)
				}
			}
			if len(free) == 0 {
				st = paid()
				break
			}
			st = c15Step{Op: "attach", Acc: []int{a}, Pool: []int{free[rng.IntN(len(free))]}}
		case v < 13:
			// top a pool up by a fraction of a read so that debits keep spanning pools
			j := base + rng.IntN(k+3)
			st = c15Step{Op: "repl-pool", Pool: []int{j}, Amounts: []string{hs(c.led.pool[c.pool(j)].Add(frac(rng.IntN(4))))}, Contract: i}
		case v < 14:
			st = c15Step{Op: "fund", Acc: []int{a}, Amounts: []string{hs(frac(rng.IntN(2)))}, Contract: i}
		default:
			st = paid()
		}
		if err := c.step(st); err != nil {
			return err
		}
	}
	c.r.Count("pool_order_scenarios", 1)
	return nil
}

// runPausedFunders: a funding RPC paused by the renter after the host's cost
// response, a second funding RPC attempted meanwhile on the same contract.
func (c *c15) runPausedFunders(reps int) error {
	cost := c.prices.RPCReadSectorCost(64).RenterCost()
	for rep := 0; rep < reps; rep++ {
		for _, a := range []string{"repl-pool", "repl-acc", "fund"} {
			for _, b := range []string{"fund", "repl-acc", "repl-pool"} {
				// fresh targets, so that A always has something to deposit
				na, np := len(c.accKeys), len(c.poolKeys)
				c.acct(na + 2)
				c.pool(np + 2)
				st := c15Step{Op: "paused-funder", A: a, B: b, Contract: rep, BAcc: na + 2,
					Amounts: []string{hs(cost.Mul64(3).Add(types.NewCurrency64(uint64(rep)))), hs(cost.Mul64(5))}}
				switch a {
				case "repl-pool":
					st.Pool = []int{np, np + 1}
				default:
					st.Acc = []int{na, na + 1}
				}
				if b == "repl-pool" {
					st.BAcc = np + 2
				}
				if err := c.step(st); err != nil {
					return err
				}
			}
		}
	}
	return nil
}

// runForgedBatches: multi-entry attach / detach batches with ONE forged entry
// at the first, a middle and the last position. The forged link (a victim's
// pool -> the attacker's account) must never take effect: afterwards the
// attacker cannot draw on the victim's pool, whose balance only changes by its
// owner's usage; a forged detachment does not cut the victim off.
func (c *c15) runForgedBatches() error {
	read := c.debitOps()[0]
	cost := c.costOf(read)
	y, x := len(c.accKeys), len(c.accKeys)+1 // victim, attacker
	c.acct(x + 1)
	v, o1, o2 := len(c.poolKeys), len(c.poolKeys)+1, len(c.poolKeys)+2
	c.pool(o2)
	setup := []c15Step{
		{Op: "repl-pool", Pool: []int{v}, Amounts: []string{hs(cost.Mul64(40))}},
		{Op: "repl-pool", Pool: []int{o1, o2}, Amounts: []string{hs(cost.Div64(4))}},
		{Op: "attach", Acc: []int{y}, Pool: []int{v}},
	}
	for _, st := range setup {
		if err := c.step(st); err != nil {
			return err
		}
	}
	minus, plus := -1, 1
	positions := map[int]string{0: "first", 1: "middle", 2: "last"}
	for _, bad := range []string{"signed-by-account", "signed-by-foreign", "other-account-signature", "detach-signature", "other-host", "zero-sig"} {
		for pos := 0; pos < 3; pos++ {
			// [.., forged(victim pool -> attacker), ..] among valid attachments of the attacker's own pools
			acc := []int{x, x, x}
			var pool []int
			if pos == 0 {
				pool = []int{v, o1, o2}
			} else if pos == 1 {
				pool = []int{o1, v, o2}
			} else {
				pool = []int{o1, o2, v}
			}
			p := pos
			if err := c.step(c15Step{Op: "attach", Acc: acc, Pool: pool, Bad: bad, BadAt: &p}); err != nil {
				return err
			}
			c.r.Count("forged_batches_position_"+positions[pos], 1)
			// the attacker cannot draw on the victim's pool (nor on its own: the batch was refused as a whole)
			st := read
			st.Acc, st.Tune = []int{x}, &minus
			if err := c.step(st); err != nil {
				return err
			}
		}
		// the two-entry batch [forged, valid]
		zero := 0
		if err := c.step(c15Step{Op: "attach", Acc: []int{x, x}, Pool: []int{v, o1}, Bad: bad, BadAt: &zero}); err != nil {
			return err
		}
		c.r.Count("forged_batches_position_first", 1)
		st := read
		st.Acc, st.Tune = []int{x}, &minus
		if err := c.step(st); err != nil {
			return err
		}
		// the victim still draws on its pool
		st = read
		st.Acc, st.Tune = []int{y}, &plus
		if err := c.step(st); err != nil {
			return err
		}
	}
	// forged detachments of the victim's link among valid ones of the attacker
	if err := c.step(c15Step{Op: "attach", Acc: []int{x, x}, Pool: []int{o1, o2}}); err != nil {
		return err
	}
	for _, bad := range []string{"signed-by-foreign", "attach-signature", "other-host", "zero-sig"} {
		for pos := 0; pos < 3; pos++ {
			var acc, pool []int
			switch pos {
			case 0:
				acc, pool = []int{y, x, x}, []int{v, o1, o2}
			case 1:
				acc, pool = []int{x, y, x}, []int{o1, v, o2}
			default:
				acc, pool = []int{x, x, y}, []int{o1, o2, v}
			}
			p := pos
			// Signer "account": entries are signed by their account's key; the forged one by a wrong key
			if err := c.step(c15Step{Op: "detach", Acc: acc, Pool: pool, Signer: "account", Bad: bad, BadAt: &p}); err != nil {
				return err
			}
			c.r.Count("forged_batches_position_"+positions[pos], 1)
			st := read
			st.Acc, st.Tune = []int{y}, &plus
			if err := c.step(st); err != nil {
				return err
			}
		}
	}
	c.r.Count("forged_batch_scenarios", 1)
	return nil
}

// runRepeatedReplenish: replenish batches that list an account or pool more
// than once, the repeats at every pair of positions. Either the host refuses
// the whole batch and nothing changes, or every listed balance ends at exactly
// max(balance, target): never above the target because of the RPC.
func (c *c15) runRepeatedReplenish() error {
	shapes := []string{"AA", "AAB", "BAA", "ABA", "ABCA", "ABAC", "ABCB", "AABB", "ABAB", "AAA", "ABCDA", "ABCDC"}
	for _, op := range []string{"repl-acc", "repl-pool"} {
		for si, shape := range shapes {
			for _, prefund := range []bool{false, true} {
				// fresh names per batch: A, B, C, D
				base := len(c.accKeys)
				if op == "repl-pool" {
					base = len(c.poolKeys)
				}
				name := map[byte]int{'A': base, 'B': base + 1, 'C': base + 2, 'D': base + 3}
				c.acct(len(c.accKeys) + 3)
				c.pool(len(c.poolKeys) + 3)
				var list []int
				for i := 0; i < len(shape); i++ {
					list = append(list, name[shape[i]])
				}
				target := types.NewCurrency64(uint64(5_000_000 + 1000*si))
				if prefund {
					// the repeated one starts below the target but not at zero
					pre := c15Step{Op: "fund", Acc: []int{name['A']}, Amounts: []string{"1234567"}}
					if op == "repl-pool" {
						pre = c15Step{Op: "repl-pool", Pool: []int{name['A']}, Amounts: []string{"1234567"}}
					}
					if err := c.step(pre); err != nil {
						return err
					}
				}
				st := c15Step{Op: op, Amounts: []string{hs(target)}, Shape: shape, Contract: si}
				if op == "repl-pool" {
					st.Pool = list
				} else {
					st.Acc = list
				}
				if err := c.step(st); err != nil {
					return err
				}
				// the well-formed batch over the same names afterwards tops everyone up exactly
				uniq := []int{name['A'], name['B']}
				st = c15Step{Op: op, Amounts: []string{hs(target)}, Contract: si + 1}
				if op == "repl-pool" {
					st.Pool = uniq
				} else {
					st.Acc = uniq
				}
				if err := c.step(st); err != nil {
					return err
				}
			}
		}
	}
	return nil
}

// runUnknownPoolBatches: attach batches refused because ONE entry names a pool
// that was never funded (no signature is wrong), the unknown pool at every
// position. The refusal is atomic: no account named in the batch can afterwards
// pay from the existing pools it was to be attached to, whose balances stay
// put. Detach batches with a link that does not exist are applied (idempotent).
func (c *c15) runUnknownPoolBatches() error {
	read, write := c.debitOps()[0], c.debitOps()[3]
	cost := c.costOf(write)
	minus, plus := -1, 1
	positions := map[int]string{0: "first", 1: "middle", 2: "last"}
	for rep := 0; rep < 2; rep++ {
		for pos := 0; pos < 3; pos++ {
			a0 := len(c.accKeys) // three accounts with zero balance
			c.acct(a0 + 2)
			p0 := len(c.poolKeys) // two funded pools and one that never gets funded
			c.pool(p0 + 2)
			if err := c.step(c15Step{Op: "repl-pool", Pool: []int{p0, p0 + 1}, Amounts: []string{hs(cost.Mul64(3))}}); err != nil {
				return err
			}
			unknown := p0 + 2
			accs := []int{a0, a0 + 1, a0 + 2}
			var pools []int
			switch pos {
			case 0:
				pools = []int{unknown, p0, p0 + 1}
			case 1:
				pools = []int{p0, unknown, p0 + 1}
			default:
				pools = []int{p0, p0 + 1, unknown}
			}
			if rep == 1 {
				accs = []int{a0, a0, a0 + 1} // one account to be attached to two pools
			}
			if err := c.step(c15Step{Op: "attach", Acc: accs, Pool: pools, Shape: "unknown-pool-" + positions[pos]}); err != nil {
				return err
			}
			c.r.Count("attach_batches_refused_for_unknown_pool_"+positions[pos], 1)
			// every account named in the refused batch: no paid RPC from the pools
			for _, a := range dedupeInts(accs) {
				for _, op := range []c15Step{write, read} {
					st := op
					st.Acc, st.Tune = []int{a}, &minus
					if err := c.step(st); err != nil {
						return err
					}
				}
			}
			// the well-formed batch over the existing pools is honoured
			if err := c.step(c15Step{Op: "attach", Acc: []int{a0, a0 + 1}, Pool: []int{p0, p0 + 1}}); err != nil {
				return err
			}
			st := read
			st.Acc, st.Tune = []int{a0}, &plus
			if err := c.step(st); err != nil {
				return err
			}
			// a detach batch with a link that does not exist, at this position
			dacc, dpool := []int{a0, a0 + 1, a0 + 2}, []int{p0, p0 + 1, p0}
			dacc[pos], dpool[pos] = a0+2, p0+1 // (a0+2, p0+1) was never attached
			if pos == 2 {
				dacc, dpool = []int{a0, a0 + 1, a0 + 2}, []int{p0, p0 + 1, p0 + 1}
			}
			if err := c.step(c15Step{Op: "detach", Acc: dacc, Pool: dpool, Signer: "pool", Shape: "unknown-link-" + positions[pos]}); err != nil {
				return err
			}
			c.r.Count("detach_batches_with_unknown_link_"+positions[pos], 1)
			for _, a := range []int{a0, a0 + 1, a0 + 2} {
				st := read
				tune := -1
				if len(c.led.att[c.acct(a)]) > 0 {
					tune = 1
				}
				st.Acc, st.Tune = []int{a}, &tune
				if err := c.step(st); err != nil {
					return err
				}
			}
		}
	}
	return nil
}

func dedupeInts(v []int) []int {
	var out []int
	for _, x := range v {
		if !slices.Contains(out, x) {
			out = append(out, x)
		}
	}
	return out
}

// runNonRevisableFund: RPCFundAccounts through a contract that can no longer
// be revised on chain - already renewed, or past its proof height - must be
// refused and credit nothing: a credit is matched by a revision of a contract
// that could still be confirmed.
func (c *c15) runNonRevisableFund() error {
	hostAddr := c.lab.Settings.RHP4Settings().WalletAddress
	// (a) renewed
	if err := c.formContract(types.Siacoins(300), types.Siacoins(100), 500); err != nil {
		return err
	}
	c.contracts = append(c.contracts, c.contract)
	ir := len(c.contracts) - 1
	a := len(c.accKeys)
	c.acct(a)
	if err := c.step(c15Step{Op: "fund", Contract: ir, Acc: []int{a}, Amounts: []string{"1000"}}); err != nil {
		return err
	}
	hs0, err := c.lab.State(c.contracts[ir].ID)
	if err != nil {
		return inconclusive("contract state: %v", err)
	}
	if _, err := rhp.RPCRenewContract(ctxBG(), c.cl, c.lab.CM, c.lab.Signer(), c.cs, c.prices, hostAddr, hs0.Revision, proto4.RPCRenewContractParams{ContractID: c.contracts[ir].ID, Allowance: types.Siacoins(200), Collateral: types.Siacoins(100), ProofHeight: hs0.Revision.ProofHeight + 100}); err != nil {
		return inconclusive("renew: %v", err)
	}
	if err := c.quiesce(); err != nil {
		return err
	}
	if err := c.lab.Mine(types.VoidAddress, 1); err != nil {
		return inconclusive("mine: %v", err)
	}
	c.aud.audit()
	c.lab.Log.Trim(c.aud.seq)
	for i := 0; i < 3; i++ {
		if err := c.step(c15Step{Op: []string{"fund", "repl-acc", "repl-pool"}[i], Contract: ir, Acc: []int{a}, Pool: []int{len(c.poolKeys)}, Amounts: []string{"777777"}, Bad: "contract-renewed"}); err != nil {
			return err
		}
		c.r.Count("funding_through_renewed_contract", 1)
	}
	// (b) past the proof height
	if err := c.formContract(types.Siacoins(300), types.Siacoins(100), 20); err != nil {
		return err
	}
	c.contracts = append(c.contracts, c.contract)
	ie := len(c.contracts) - 1
	if err := c.step(c15Step{Op: "fund", Contract: ie, Acc: []int{a}, Amounts: []string{"1000"}}); err != nil {
		return err
	}
	ph := c.contract.Revision.ProofHeight
	for _, h := range []uint64{ph, ph + 1, ph + 150} {
		if tip := c.lab.CM.Tip().Height; h > tip {
			if err := c.lab.Mine(types.VoidAddress, int(h-tip)); err != nil {
				return inconclusive("mine: %v", err)
			}
		}
		for i := 0; i < 3; i++ {
			if err := c.step(c15Step{Op: []string{"fund", "repl-acc", "repl-pool"}[i], Contract: ie, Acc: []int{a}, Pool: []int{len(c.poolKeys)}, Amounts: []string{"777777"}, Bad: "contract-past-proof-height"}); err != nil {
				return err
			}
			c.r.Count("funding_through_expired_contract", 1)
		}
	}
	return nil
}

func (c *c15) runRandom(n int) error {
	// population: 4 accounts, 3 pools, funded and partly attached
	a0, p0 := len(c.accKeys), len(c.poolKeys)
	c.acct(a0 + 3)
	c.pool(p0 + 2)
	if err := c.step(c15Step{Op: "repl-pool", Pool: []int{p0, p0 + 1, p0 + 2}, Amounts: []string{"1"}}); err != nil {
		return err
	}
	costs := []types.Currency{c.prices.RPCReadSectorCost(64).RenterCost(), c.prices.RPCVerifySectorCost().RenterCost(), c.prices.RPCWriteSectorCost(128).RenterCost()}
	for i := 0; i < n; i++ {
		a := a0 + c.rng.IntN(4)
		p := p0 + c.rng.IntN(3)
		ctr := c.rng.IntN(len(c.contracts))
		near := func() string { // an amount at / just below / just above one of the costs
			v := costs[c.rng.IntN(len(costs))]
			switch c.rng.IntN(4) {
			case 0:
				v = v.Sub(types.NewCurrency64(1))
			case 1:
				v = v.Add(types.NewCurrency64(1))
			case 2:
				v = v.Mul64(uint64(1 + c.rng.IntN(3)))
			}
			return hs(v)
		}
		if i%19 == 7 {
			if err := c.step(c15Step{Op: "set-prices", Amounts: []string{[]string{"x0.5", "x2", "zero", "x1000", "x1"}[c.rng.IntN(5)]}}); err != nil {
				return err
			}
		}
		if i%83 == 40 {
			if err := c.step(c15Step{Op: "set-prices", Amounts: []string{[]string{"x0.5", "x2", "x1"}[c.rng.IntN(3)]}}); err != nil {
				return err
			}
			if err := c.step(c15Step{Op: "fetch-prices"}); err != nil {
				return err
			}
			costs = []types.Currency{c.prices.RPCReadSectorCost(64).RenterCost(), c.prices.RPCVerifySectorCost().RenterCost(), c.prices.RPCWriteSectorCost(128).RenterCost()}
		}
		var st c15Step
		switch v := c.rng.IntN(20); {
		case v < 3:
			st = c15Step{Op: "fund", Contract: ctr, Acc: []int{a, a0 + c.rng.IntN(4)}[:1+c.rng.IntN(2)], Amounts: []string{near(), "1"}}
		case v < 5:
			st = c15Step{Op: "repl-acc", Contract: ctr, Acc: []int{a, a0 + (a-a0+1)%4}[:1+c.rng.IntN(2)], Amounts: []string{near()}}
		case v < 7:
			st = c15Step{Op: "repl-pool", Contract: ctr, Pool: []int{p, p0 + (p-p0+1)%3}[:1+c.rng.IntN(2)], Amounts: []string{near()}}
		case v < 9:
			st = c15Step{Op: "attach", Acc: []int{a}, Pool: []int{p}}
			if c.rng.IntN(4) == 0 {
				st.Bad = c15AttachBad[c.rng.IntN(len(c15AttachBad))]
			}
		case v < 10:
			st = c15Step{Op: "detach", Acc: []int{a}, Pool: []int{p}, Signer: []string{"account", "pool"}[c.rng.IntN(2)]}
			if c.rng.IntN(3) == 0 {
				st.Bad = c15DetachBad[c.rng.IntN(len(c15DetachBad))]
			}
		case v < 12:
			st = c15Step{Op: "balance", Acc: []int{a}}
		default:
			st = c.debitOps()[[]int{0, 0, 2, 3, 1}[c.rng.IntN(5)]]
			st.Acc = []int{a}
			switch v := c.rng.IntN(20); {
			case v < 2:
				st.Bad = c15TokenBad[c.rng.IntN(len(c15TokenBad))]
				if st.Bad == "unknown-sector" && st.Op == "write" {
					st.Bad = "token-expired"
				}
			case v < 5:
				all := append(append([]string{}, c15RespCuts...), c15HdrCuts...)
				if st.Op == "write" {
					all = append(all, c15BodyCuts...)
				}
				st.Cut = all[c.rng.IntN(len(all))]
			}
		}
		if err := c.step(st); err != nil {
			return err
		}
	}
	return nil
}

func runC15(r *mon.Run, replay string) {
	r.Rule("sequences of fund / replenish accounts / replenish pools / attach / detach / read / write / verify / balance RPCs over fresh and shared accounts, pools and two contracts: (1) for every debit RPC x split of funds over own balance and up to two pools (incl. an empty first pool and a pool shared between accounts) the drawable total is arranged to cost-1, cost, cost+1; (2) every attach/detach authorisation corruption, alone and as the last entry of a batch; (3) every token corruption on every debit RPC; (4) replenish targets below/at/above balances, duplicate entries; (5) PRNG sequences with amounts at/near the three costs. The proxy log of every step is replayed against a reference ledger. Concurrent part: 4-8 clients (own contracts) fund, debit and query shared accounts; porcupine checks each account's history against a sequential bank model. Non-trivial: a debit step with tuned funds, a corrupted request, or a concurrent history partition; distinct by (op, tuning, split) / (op, corruption) / partition size")
	r.Assume("EphemeralContractor / EphemeralSectorStore (reference) behind recording proxies; core's RPC*Cost are the trusted prices")
	r.Assume("tokens / attachments are valid for hours or expired by hours; wall-clock never decides")
	if replay != "" {
		guardRun(r, "replay", func() error { return c15Replay(r, replay) })
		return
	}
	r.Floor("debits_ok", 60)
	r.Floor("debits_insufficient", 30)
	r.Floor("unpaid_rpcs_bare_error", 30)
	r.Floor("credits", 100)
	r.Floor("attachments", 30)
	r.Floor("bad_steps_changed_nothing", 40)
	r.Floor("porcupine_partitions_ok", 4)
	r.Floor("aborted_before_request_complete_write", 12)
	r.Floor("aborted_before_request_complete_read", 3)
	r.Floor("aborted_before_request_complete_verify", 3)
	r.Floor("aborted_after_request_complete_write", 4)
	r.Floor("aborted_after_request_complete_read", 4)
	r.Floor("funded_count_scenarios", 6)
	r.Floor("detaches_of_non_last_pool_followed_by_paid_rpc", 25)
	r.Floor("debits_spanning_balances", 60)
	r.Floor("pool_order_scenarios", 8)
	r.Floor("paused_funder_rounds", 30)
	r.Floor("paused_funder_conserved", 40)
	r.Floor("debit_store_faults", 8)
	r.Floor("contention_rounds_exact", 200)
	r.Floor("settings_changes", 20)
	r.Floor("attach_batches_refused_for_unknown_pool_first", 4)
	r.Floor("attach_batches_refused_for_unknown_pool_middle", 4)
	r.Floor("attach_batches_refused_for_unknown_pool_last", 4)
	r.Floor("funding_through_renewed_contract", 3)
	r.Floor("funding_through_expired_contract", 9)
	r.Floor("replenish_repeat_shape_ABA", 4)
	r.Floor("replenish_repeat_shape_ABCA", 4)
	r.Floor("replenish_repeat_shape_AA", 4)
	r.Floor("replenishes_refused_unchanged", 40)
	r.Floor("forged_batches_position_first", 20)
	r.Floor("forged_batches_position_middle", 10)
	r.Floor("forged_batches_position_last", 10)
	r.Floor("debits_priced_by_older_signed_table", 60)
	r.Floor("contention_rpcs_refused", 300)
	var wg sync.WaitGroup
	workers := r.Pick(4, 10)
	for w := 0; w < workers; w++ {
		wg.Add(1)
		go func(w int) {
			defer wg.Done()
			guardRun(r, fmt.Sprintf("C15 worker %d", w), func() error {
				c, err := newC15(r, uint64(w), 2)
				if err != nil {
					return err
				}
				defer c.close()
				defer func() { r.Count("handler_panics_recovered", c.lab.HostPanics()) }()
				if w < 2 {
					if err := c.runTable(); err != nil {
						return err
					}
				}
				if w >= 1 && w < 3 {
					if err := c.runAborts(); err != nil {
						return err
					}
				}
				if err := c.runPausedFunders(r.Pick(2, 6)); err != nil {
					return err
				}
				if w%2 == 1 {
					if err := c.runRepeatedReplenish(); err != nil {
						return err
					}
				}
				if w < 2 {
					if err := c.runUnknownPoolBatches(); err != nil {
						return err
					}
				}
				if w%2 == 0 {
					if err := c.runForgedBatches(); err != nil {
						return err
					}
				}
				for i := 0; i < r.Pick(3, 12); i++ {
					if err := c.runPoolOrder(40); err != nil {
						return err
					}
				}
				if err := c.runRandom(r.Pick(250, 1500)); err != nil {
					return err
				}
				if w == 3 {
					// last: it advances the chain past a proof height
					return c.runNonRevisableFund()
				}
				return nil
			})
		}(w)
	}
	for w := 0; w < 3; w++ {
		wg.Add(1)
		go func(w int) {
			defer wg.Done()
			guardRun(r, fmt.Sprintf("C15 contention %d", w), func() error { return c15Contention(r, w, r.Pick(80, 400)) })
		}(w)
	}
	for _, k := range []int{4, 6, 8} {
		wg.Add(1)
		go func(k int) {
			defer wg.Done()
			guardRun(r, fmt.Sprintf("C15 concurrent x%d", k), func() error { return c15Concurrent(r, k) })
		}(k)
	}
	wg.Wait()
}

func c15Replay(r *mon.Run, path string) error {
	buf, err := os.ReadFile(path)
	if err != nil {
		return inconclusive("replay file: %v", err)
	}
	var w struct {
		Case c15Seq `json:"case"`
	}
	if err := json.Unmarshal(buf, &w); err != nil {
		return inconclusive("replay file: %v", err)
	}
	c, err := newC15(r, w.Case.Worker, 2)
	if err != nil {
		return err
	}
	defer c.close()
	for _, st := range w.Case.Steps {
		for _, a := range st.Acc {
			c.acct(a + 1)
		}
		for _, p := range st.Pool {
			c.pool(p)
		}
		if err := c.step(st); err != nil {
			return err
		}
	}
	return nil
}
