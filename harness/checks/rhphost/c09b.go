package rhphost

import (
	"encoding/json"
	"fmt"
	"os"
	"slices"
	"sync"

	"go.sia.tech/core/types"
	rhp "go.sia.tech/coreutils/rhp/v4"

	"verif/harness/lab/rhplab"
	"verif/harness/mon"
)

// c09Concurrent is the side workload: two clients race one RPC each against
// the same revision of one contract; the race detector watches, and at the
// barrier the committed state must be the list model advanced by exactly the
// winner's operation.
func c09Concurrent(r *mon.Run) error {
	c, err := newC09(r, "G-concurrent", 900)
	if err != nil {
		return err
	}
	defer c.close()
	rounds := r.Pick(400, 3000)
	rng := r.RNG(0x09C0)
	clients := []*rhplab.Client{c.lab.Mux.NewClient(), c.lab.Mux.NewClient()}
	type op struct {
		Kind    string   `json:"kind"`
		Indices []uint64 `json:"indices,omitempty"`
		Batch   []string `json:"batch,omitempty"`
	}
	for round := 0; round < rounds; round++ {
		if c.broken || len(c.model) < 2 || len(c.model) > 6 {
			if err := c.ensureSize(3); err != nil {
				return err
			}
		}
		if err := c.quiesce(); err != nil {
			return err
		}
		pre, err := c.snapshot()
		if err != nil {
			return inconclusive("pre-snapshot: %v", err)
		}
		c.contract.Revision = pre.State.Revision
		contract := c.contract
		model := slices.Clone(c.model)
		seq0 := c.lab.Log.Seq()

		var ops [2]op
		var afters [2][]types.Hash256
		var roots [2][]types.Hash256
		for i := range ops {
			switch rng.IntN(3) {
			case 0:
				k := 1 + rng.IntN(2)
				idx := normalise(u64s(rng.Perm(len(model))[:k]...))
				ops[i] = op{Kind: "free", Indices: idx}
				afters[i] = modelFree(model, idx)
			case 1:
				ops[i] = op{Kind: "append", Batch: []string{"new", "dup"}[:1+rng.IntN(2)]}
				roots[i] = c.batchRoots(ops[i].Batch)
				afters[i] = append(slices.Clone(model), roots[i]...)
			default:
				ops[i] = op{Kind: "roots"}
				afters[i] = model
			}
		}
		var wg sync.WaitGroup
		var errs [2]error
		var revs [2]types.V2FileContract
		start := make(chan struct{})
		for i := range ops {
			wg.Add(1)
			go func(i int) {
				defer wg.Done()
				<-start
				cl := clients[i]
				switch ops[i].Kind {
				case "free":
					res, err := rhp.RPCFreeSectors(ctxBG(), cl, c.signer(), c.cs, c.prices, contract, ops[i].Indices)
					errs[i], revs[i] = err, res.Revision
				case "append":
					res, err := rhp.RPCAppendSectors(ctxBG(), cl, c.signer(), c.cs, c.prices, contract, roots[i])
					errs[i], revs[i] = err, res.Revision
				default:
					res, err := rhp.RPCSectorRoots(ctxBG(), cl, c.cs, c.prices, c.signer(), contract, 0, uint64(len(model)))
					errs[i], revs[i] = err, res.Revision
					if err == nil && !slices.Equal(res.Roots, model) {
						r.Violation("listing-mismatch", "listed roots differ from the model (concurrent)", ops, map[string]any{"listed": shortRoots(res.Roots), "model": shortRoots(model)})
					}
				}
			}(i)
		}
		close(start)
		wg.Wait()
		if err := c.quiesce(); err != nil {
			return err
		}
		post, err := c.snapshot()
		if err != nil {
			return inconclusive("post-snapshot: %v", err)
		}
		r.Eval()
		r.Count("concurrent_rounds", 1)
		var commits []rhplab.Event
		sig := ""
		for _, ev := range c.lab.Log.Since(seq0) {
			if ev.Persisting() && ev.Err == "" {
				commits = append(commits, ev)
			}
			if ev.Kind == rhplab.EvLock || ev.Kind == rhplab.EvUnlock || ev.Persisting() {
				sig += fmt.Sprintf("%s%d,", ev.Kind[:2], ev.Stream%2)
			}
		}
		r.SetAdd("interleavings", sig)
		winners := 0
		want := model
		for i := range ops {
			if errs[i] == nil {
				winners++
				want = afters[i]
				if revs[i] != post.State.Revision {
					r.Violation("renter-revision-mismatch:concurrent", "the winner's revision is not the host's committed revision", ops, map[string]any{"renter": revs[i], "host": post.State.Revision})
				}
			}
		}
		r.Count("concurrent_commits", len(commits))
		detail := map[string]any{"errors": []string{errText(errs[0]), errText(errs[1])}, "model_before": shortRoots(model), "host_after": shortRoots(post.State.Roots), "commits": len(commits)}
		if err := post.State.CheckRoots(); err != nil {
			c.broken = true
			r.Violation("roots-vs-revision:concurrent", "host roots no longer match the committed revision: "+err.Error(), ops, detail)
		}
		switch {
		case winners > 1 || len(commits) > 1:
			c.broken = true
			r.Violation("double-commit:concurrent", "two RPCs built on the same revision both committed", ops, detail)
		case winners != len(commits):
			r.Violation("commit-count:concurrent", "number of persisting calls differs from the number of successful clients", ops, detail)
		case !slices.Equal(post.State.Roots, want):
			c.broken = true
			r.Violation("model-mismatch:concurrent", "host roots differ from the model advanced by the winner's operation", ops, detail)
		case winners == 0 && !post.equal(pre):
			r.Violation("changed-without-commit:concurrent", "both RPCs failed but host state changed", ops, detail)
		}
		if !c.broken {
			c.model = slices.Clone(post.State.Roots)
			c.contract.Revision = post.State.Revision
		}
		if winners == 0 {
			r.Count("concurrent_both_failed", 1)
		}
		c.lab.Mux.Forget(c.lab.Mux.Streams())
		c.lab.Log.Trim(c.lab.Log.Seq())
	}
	r.Count("handler_panics_recovered", c.lab.HostPanics())
	return nil
}

// c09Replay re-executes the case of a witness file on a fresh contract.
func c09Replay(r *mon.Run, path string) error {
	buf, err := os.ReadFile(path)
	if err != nil {
		return inconclusive("replay file: %v", err)
	}
	var w struct {
		Case c09Seq `json:"case"`
	}
	if err := json.Unmarshal(buf, &w); err != nil {
		return inconclusive("replay file: %v", err)
	}
	c, err := newC09(r, "replay:"+w.Case.Part, 1)
	if err != nil {
		return err
	}
	defer c.close()
	if err := c.ensureSize(w.Case.StartSize); err != nil {
		return err
	}
	c.boundary()
	for _, cs := range w.Case.Steps {
		cs.N = -1
		if cs.Kind == "read" {
			continue
		}
		if err := c.attempt(cs, false); err != nil {
			return err
		}
		if c.broken {
			break
		}
	}
	return nil
}
