package rhphost

import (
	"os"
	"runtime/pprof"
	"testing"
	"time"

	"verif/harness/mon"
)

func TestProf(t *testing.T) {
	os.Setenv("VERIF_DIR", "/tmp/rhphost-prof/v")
	r := mon.Start("C09", "quick", "fault_enumeration")
	jobs := c09Jobs(r)
	var job c09Job
	for _, j := range jobs {
		if j.name == os.Getenv("JOB") {
			job = j
		}
	}
	if job.name == "" {
		for _, j := range jobs {
			t.Log(j.name, len(j.cases), len(j.seqs))
		}
		t.Fatal("no job")
	}
	f, _ := os.Create("/tmp/rhphost-prof/cpu.prof")
	pprof.StartCPUProfile(f)
	t0 := time.Now()
	err := c09RunJob(r, 1, job)
	pprof.StopCPUProfile()
	t.Log("job", job.name, len(job.cases), "took", time.Since(t0), err)
}
